//! A *downstream* crate (no verification cfg, public API only) that defines its own cell and face
//! integrals: monomials up to degree 2 over cells, {1, x, y, z, plane residual} over faces, and
//! data-carrying variants that return the per-cell data they were given (C14).
//!
//! input : same `tess` case lines as the main harness (only the fields needed are read)
//! output: one JSON object per case
use glam::DVec3;
use meshless_voronoi::integrals::{CellIntegral, FaceIntegral};
use meshless_voronoi::{ConvexCell, ConvexCellMarker, Dimensionality, VoronoiIntegrator};
use std::io::{BufRead, Write};

fn det3(a: DVec3, b: DVec3, c: DVec3) -> f64 {
    a.dot(b.cross(c))
}

/// integrals of 1, x, y, z, xx, xy, xz, yy, yz, zz over the signed tetrahedra
#[derive(Clone, Default)]
struct Moments {
    m: [f64; 10],
    ntets: usize,
    idx: usize,
}

fn tet_moments(v: [DVec3; 4]) -> [f64; 10] {
    // signed volume as the crate defines it: det[v1-v0, v2-v0, v3-v0] / 6
    let vol = det3(v[1] - v[0], v[2] - v[0], v[3] - v[0]) / 6.;
    let s = v[0] + v[1] + v[2] + v[3];
    let mut out = [0.; 10];
    out[0] = vol;
    out[1] = vol * s.x / 4.;
    out[2] = vol * s.y / 4.;
    out[3] = vol * s.z / 4.;
    let q = |i: usize, j: usize| -> f64 {
        let c = |p: DVec3, k: usize| p[k];
        let mut sq = 0.;
        for p in v.iter() {
            sq += c(*p, i) * c(*p, j);
        }
        vol / 20. * (s[i] * s[j] + sq)
    };
    out[4] = q(0, 0);
    out[5] = q(0, 1);
    out[6] = q(0, 2);
    out[7] = q(1, 1);
    out[8] = q(1, 2);
    out[9] = q(2, 2);
    out
}

impl CellIntegral for Moments {
    fn init<M: ConvexCellMarker>(cell: &ConvexCell<M>) -> Self {
        Moments { m: [0.; 10], ntets: 0, idx: cell.idx }
    }
    fn collect(&mut self, v0: DVec3, v1: DVec3, v2: DVec3, gen: DVec3) {
        let t = tet_moments([v0, v1, v2, gen]);
        for k in 0..10 {
            self.m[k] += t[k];
        }
        self.ntets += 1;
    }
    fn finalize(self) -> Self {
        self
    }
}

/// cell integral with data: remembers the tag it was given
#[derive(Clone, Default)]
struct Tagged {
    tag: u64,
    idx: usize,
    vol: f64,
}
impl CellIntegral for Tagged {
    fn init<M: ConvexCellMarker>(cell: &ConvexCell<M>) -> Self {
        Tagged { tag: u64::MAX, idx: cell.idx, vol: 0. }
    }
    fn collect(&mut self, v0: DVec3, v1: DVec3, v2: DVec3, gen: DVec3) {
        self.vol += det3(v1 - v0, v2 - v0, gen - v0) / 6.;
    }
    fn finalize(self) -> Self {
        self
    }
}
/// face integral: signed area (about the plane normal), first moments, max |plane residual| of the base triangles
#[derive(Clone)]
struct FaceMoments {
    n: DVec3,
    p: DVec3,
    area: f64,
    first: DVec3,
    resid: f64,
    ntri: usize,
    tag: u64,
}
impl FaceIntegral for FaceMoments {
    fn init<M: ConvexCellMarker>(cell: &ConvexCell<M>, clipping_plane_idx: usize) -> Self {
        let pl = &cell.clipping_planes[clipping_plane_idx].plane;
        FaceMoments { n: pl.n, p: pl.p, area: 0., first: DVec3::ZERO, resid: 0., ntri: 0, tag: u64::MAX }
    }
    fn collect(&mut self, v0: DVec3, v1: DVec3, v2: DVec3, _gen: DVec3) {
        // signed area about the OUTWARD normal (-n): base triangles are counter-clockwise seen from the generator
        let a = 0.5 * (v1 - v0).cross(v2 - v0).dot(self.n) / self.n.length();
        self.area += a;
        self.first += a * (v0 + v1 + v2) / 3.;
        for v in [v0, v1, v2] {
            self.resid = self.resid.max((v - self.p).dot(self.n).abs() / self.n.length());
        }
        self.ntri += 1;
    }
    fn finalize(self) -> Self {
        self
    }
}
fn fb(x: f64) -> String {
    x.to_bits().to_string()
}
fn vb(v: DVec3) -> String {
    format!("[{},{},{}]", fb(v.x), fb(v.y), fb(v.z))
}

fn run_case(line: &str) -> Option<String> {
    let mut it = line.split_whitespace();
    if it.next()? != "tess" {
        return None;
    }
    let mut nx = || it.next().unwrap();
    let _opts: usize = nx().parse().unwrap();
    let dimn: usize = nx().parse().unwrap();
    let dim = match dimn {
        1 => Dimensionality::OneD,
        2 => Dimensionality::TwoD,
        _ => Dimensionality::ThreeD,
    };
    let periodic = nx() != "0";
    let mut f = || f64::from_bits(nx().parse::<u64>().unwrap());
    let anchor = DVec3::new(f(), f(), f());
    let width = DVec3::new(f(), f(), f());
    let n: usize = nx().parse().unwrap();
    let has_mask = nx() != "0";
    let mask: Option<Vec<bool>> = if has_mask { Some((0..n).map(|_| nx() != "0").collect()) } else { None };
    let mut f = || f64::from_bits(nx().parse::<u64>().unwrap());
    let gens: Vec<DVec3> = (0..n).map(|_| DVec3::new(f(), f(), f())).collect();
    let integ = VoronoiIntegrator::build(&gens, mask.as_deref(), anchor, width, dim, periodic);
    let tags: Vec<()> = vec![(); n];
    let mom = integ.compute_cell_integrals::<Moments>();
    let tagged = integ.compute_cell_integrals_with_data::<(), Tagged>(&tags);
    let faces = integ.compute_face_integrals_with_data::<(), FaceMoments>(&tags);
    let faces_sym = integ.compute_face_integrals_sym_with_data::<(), FaceMoments>(&tags);
    let mj = |m: &Moments| format!("{{\"idx\":{},\"ntets\":{},\"m\":[{}]}}", m.idx, m.ntets, m.m.iter().map(|x| fb(*x)).collect::<Vec<_>>().join(","));
    let fj = |x: &meshless_voronoi::integrals::FaceIntegrator<FaceMoments>| {
        let i = x.integral();
        format!(
            "{{\"left\":{},\"right\":{},\"shift\":{},\"area\":{},\"first\":{},\"resid\":{},\"ntri\":{},\"tag\":{},\"n\":{}}}",
            x.left(),
            x.right().map_or("null".to_string(), |r| r.to_string()),
            x.shift().map_or("null".to_string(), vb),
            fb(i.area), vb(i.first), fb(i.resid), i.ntri, i.tag, vb(i.n)
        )
    };
    let mut out = format!(
        "\"moments\":[{}],\"tagged\":[{}],\"faces\":[{}],\"faces_sym\":[{}]",
        mom.iter().map(mj).collect::<Vec<_>>().join(","),
        tagged.iter().map(|t| format!("{{\"idx\":{},\"tag\":{},\"vol\":{}}}", t.idx, t.tag, fb(t.vol))).collect::<Vec<_>>().join(","),
        faces.iter().map(fj).collect::<Vec<_>>().join(","),
        faces_sym.iter().map(fj).collect::<Vec<_>>().join(",")
    );
    if dimn == 3 {
        let wf = integ.with_faces();
        let mom2 = wf.compute_cell_integrals::<Moments>();
        let faces2 = wf.compute_face_integrals_with_data::<(), FaceMoments>(&tags);
        let faces2_sym = wf.compute_face_integrals_sym_with_data::<(), FaceMoments>(&tags);
        out.push_str(&format!(
            ",\"wf_moments\":[{}],\"wf_faces\":[{}],\"wf_faces_sym\":[{}]",
            mom2.iter().map(mj).collect::<Vec<_>>().join(","),
            faces2.iter().map(fj).collect::<Vec<_>>().join(","),
            faces2_sym.iter().map(fj).collect::<Vec<_>>().join(",")
        ));
    }
    Some(out)
}

fn main() {
    let args: Vec<String> = std::env::args().collect();
    std::panic::set_hook(Box::new(|_| {}));
    let input = std::fs::File::open(&args[1]).expect("case file");
    let mut out = std::io::BufWriter::new(std::fs::File::create(&args[2]).expect("out file"));
    for (lineno, line) in std::io::BufReader::new(input).lines().enumerate() {
        let line = line.unwrap();
        let r = std::panic::catch_unwind(|| run_case(&line));
        match r {
            Ok(Some(body)) => writeln!(out, "{{\"line\":{},{}}}", lineno, body).unwrap(),
            Ok(None) => {}
            Err(_) => writeln!(out, "{{\"line\":{},\"panic\":\"panic\"}}", lineno).unwrap(),
        }
        out.flush().unwrap();
    }
}
