//! Harness: reads a case file (one case per line, whitespace separated decimal
//! tokens, every f64 as its u64 bit pattern), runs the implementation in /repo
//! (built with --cfg meshless_voro_verif) and prints one JSON object per case.

use std::io::{BufRead, Write};
use std::panic::{catch_unwind, AssertUnwindSafe};

mod cases;
mod json;
mod tess;
mod clip;
mod geom;

fn main() {
    let args: Vec<String> = std::env::args().collect();
    if args.len() < 2 {
        eprintln!("usage: mvh <casefile> [outfile]");
        std::process::exit(2);
    }
    // silence panic messages: panics are reported in the JSON output
    std::panic::set_hook(Box::new(|_| {}));
    let input = std::fs::File::open(&args[1]).expect("case file");
    let reader = std::io::BufReader::new(input);
    let stdout = std::io::stdout();
    let mut out: Box<dyn Write> = if args.len() > 2 {
        Box::new(std::io::BufWriter::new(std::fs::File::create(&args[2]).expect("out file")))
    } else {
        Box::new(std::io::BufWriter::new(stdout.lock()))
    };
    for (lineno, line) in reader.lines().enumerate() {
        let line = line.expect("read");
        let line = line.trim();
        if line.is_empty() || line.starts_with('#') {
            continue;
        }
        let mut toks = cases::Toks::new(line);
        let kind = toks.word().to_string();
        // the `clip` kind drives the construction through hooks: record the decisions, so that a panic can be classified
        // (was the exact predicate consulted?) the same way as for whole tessellations
        if kind == "clip" {
            meshless_voronoi::verif_hooks::trace_start();
        }
        let res = catch_unwind(AssertUnwindSafe(|| cases::run_case(&kind, &mut toks)));
        let exact_decisions = if kind == "clip" {
            Some(meshless_voronoi::verif_hooks::trace_take().iter().filter(|d| d.exact_args.is_some()).count())
        } else {
            None
        };
        let body = match res {
            Ok(s) => s,
            Err(e) => {
                let msg = if let Some(s) = e.downcast_ref::<&str>() {
                    s.to_string()
                } else if let Some(s) = e.downcast_ref::<String>() {
                    s.clone()
                } else {
                    "panic".to_string()
                };
                match exact_decisions {
                    Some(n) => format!("\"panic\":{},\"trace\":{{\"exact\":{}}}", json::string(&msg), n),
                    None => format!("\"panic\":{}", json::string(&msg)),
                }
            }
        };
        writeln!(out, "{{\"line\":{},\"kind\":{},{}}}", lineno, json::string(&kind), body).unwrap();
        // one line per finished case on disk: a case that never returns is then identifiable from outside
        out.flush().unwrap();
    }
    out.flush().unwrap();
}
