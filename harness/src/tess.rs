//! `tess` case: build tessellations through the public API and dump everything observable.
//!
//! tess <opts> <dim> <periodic> <anchor:3> <width:3> <n> <has_mask> [mask:n] <gens:3n>
//! opts bits: 1 direct Voronoi, 2 integrator (+ integrals, Voronoi::from), 4 with_faces (3D),
//!            8 decision trace (16: with the full list of decisions), 16 threads sweep handled by the caller (env RAYON_NUM_THREADS)
use glam::DVec3;
use meshless_voronoi::integrals::{AreaCentroidIntegral, VolumeCentroidIntegral};
use meshless_voronoi::verif_hooks as hooks;
use meshless_voronoi::{Dimensionality, Voronoi, VoronoiIntegrator};

use crate::cases::Toks;
use crate::json::{self, f, opt, v3};

fn voronoi_json(v: &Voronoi) -> String {
    let cells: Vec<String> = v
        .cells()
        .iter()
        .map(|c| {
            let nb: Vec<usize> = c.neighbour_ids(v).collect();
            let fi: Vec<usize> = c.face_indices(v).to_vec();
            format!(
                "{{\"loc\":{},\"centroid\":{},\"volume\":{},\"safety_radius\":{},\"offset\":{},\"count\":{},\"face_indices\":{},\"neighbour_ids\":{}}}",
                v3(c.loc()), v3(c.centroid()), f(c.volume()), f(c.safety_radius()),
                c.face_connections_offset(), c.face_count(), json::us(&fi), json::us(&nb)
            )
        })
        .collect();
    let faces: Vec<String> = v
        .faces()
        .iter()
        .map(|fc| {
            format!(
                "{{\"left\":{},\"right\":{},\"shift\":{},\"area\":{},\"centroid\":{},\"normal\":{},\"is_periodic\":{},\"is_boundary\":{}}}",
                fc.left(), opt(&fc.right(), |r| r.to_string()), opt(&fc.shift(), |s| v3(*s)),
                f(fc.area()), v3(fc.centroid()), v3(fc.normal()), fc.is_periodic(), fc.is_boundary()
            )
        })
        .collect();
    format!(
        "{{\"anchor\":{},\"width\":{},\"dim\":{},\"periodic\":{},\"cells\":[{}],\"faces\":[{}],\"conn\":{}}}",
        v3(v.anchor()), v3(v.width()), v.dimensionality(), v.periodic(),
        cells.join(","), faces.join(","), json::us(v.cell_face_connections())
    )
}

fn face_integrals_json(fi: &[meshless_voronoi::integrals::FaceIntegrator<AreaCentroidIntegral>]) -> String {
    json::arr(fi, |x| {
        format!(
            "{{\"left\":{},\"right\":{},\"shift\":{},\"area\":{},\"centroid\":{}}}",
            x.left(), opt(&x.right(), |r| r.to_string()), opt(&x.shift(), |s| v3(*s)),
            f(x.integral().area), v3(x.integral().centroid)
        )
    })
}

pub fn run(t: &mut Toks) -> String {
    let opts = t.usize();
    let dim = t.dim();
    let periodic = t.bool();
    let anchor = t.v3();
    let width = t.v3();
    let n = t.usize();
    let has_mask = t.bool();
    let mask: Option<Vec<bool>> = if has_mask { Some((0..n).map(|_| t.bool()).collect()) } else { None };
    let gens: Vec<DVec3> = (0..n).map(|_| t.v3()).collect();
    let mut out: Vec<String> = vec![];

    if opts & 8 != 0 {
        hooks::trace_start();
    }
    let mut panicked: Option<String> = None;
    if opts & 1 != 0 {
        let r = std::panic::catch_unwind(std::panic::AssertUnwindSafe(|| match &mask {
            Some(m) => Voronoi::build_partial(&gens, m, anchor, width, dim, periodic),
            None => Voronoi::build(&gens, anchor, width, dim, periodic),
        }));
        match r {
            Ok(v) => out.push(format!("\"vor\":{}", voronoi_json(&v))),
            Err(e) => {
                let msg = if let Some(s) = e.downcast_ref::<&str>() {
                    s.to_string()
                } else if let Some(s) = e.downcast_ref::<String>() {
                    s.clone()
                } else {
                    "panic".to_string()
                };
                panicked = Some(msg);
            }
        }
    }
    if opts & 8 != 0 {
        let tr = hooks::trace_take();
        let n_exact = tr.iter().filter(|d| d.exact_args.is_some()).count();
        let exact: Vec<String> = tr
            .iter()
            .filter(|d| d.exact_args.is_some())
            .take(400)
            .map(|d| {
                let a = d.exact_args.unwrap();
                format!(
                    "{{\"cell\":{},\"dual\":[{},{},{}],\"args\":{},\"clip\":{},\"right\":{},\"shift\":{}}}",
                    d.cell, d.dual[0], d.dual[1], d.dual[2],
                    json::arr(&a, |p| format!("[{},{},{}]", p[0], p[1], p[2])), f(d.clip),
                    d.plane.0.map_or(-1i64, |r| r as i64),
                    d.plane.1.map_or("null".to_string(), json::v3)
                )
            })
            .collect();
        let mut exact_cells: Vec<usize> = tr.iter().filter(|d| d.exact_args.is_some()).map(|d| d.cell).collect();
        exact_cells.sort();
        exact_cells.dedup();
        // smallest |triple product of the unit normals| over all vertices that took part in a decision
        let min_det = tr.iter().map(|d| d.det.abs()).fold(f64::INFINITY, f64::min);
        out.push(format!(
            "\"trace\":{{\"decisions\":{},\"exact\":{},\"exact_cells\":{},\"min_det\":{},\"exact_list\":[{}]}}",
            tr.len(), n_exact, json::us(&exact_cells), if min_det.is_finite() { format!("{:e}", min_det) } else { "null".to_string() }, exact.join(",")
        ));
        if opts & 16 != 0 {
            // every decision, in chronological order per cell: [cell, dual x3, right generator or -1, shift or null, filter value, final value]
            let all: Vec<String> = tr
                .iter()
                .map(|d| {
                    format!(
                        "[{},{},{},{},{},{},{},{}]",
                        d.cell, d.dual[0], d.dual[1], d.dual[2],
                        d.plane.0.map_or(-1i64, |r| r as i64),
                        d.plane.1.map_or("null".to_string(), json::v3),
                        d.filter as i64, if d.clip < 0. { -1 } else if d.clip > 0. { 1 } else { 0 }
                    )
                })
                .collect();
            out.push(format!("\"decisions\":[{}]", all.join(",")));
        }
    }
    if let Some(msg) = panicked {
        // report the panic together with the decisions taken so far (which cells used the exact predicate)
        out.push(format!("\"panic\":{}", json::string(&msg)));
        return out.join(",");
    }
    if opts & 2 != 0 {
        let integ = VoronoiIntegrator::build(&gens, mask.as_deref(), anchor, width, dim, periodic);
        let cells: Vec<String> = (0..n)
            .map(|i| match integ.get_cell_at(i) {
                None => "null".to_string(),
                Some(c) => {
                    let planes = json::arr(&c.clipping_planes, |h| {
                        format!(
                            "{{\"n\":{},\"p\":{},\"right\":{},\"shift\":{}}}",
                            v3(h.plane.n), v3(h.plane.p), opt(&h.right_idx, |r| r.to_string()), opt(&h.shift, |s| v3(*s))
                        )
                    });
                    let verts = json::arr(&c.vertices, |v| {
                        format!("{{\"loc\":{},\"dual\":[{},{},{}]}}", v3(v.loc), v.dual[0], v.dual[1], v.dual[2])
                    });
                    format!("{{\"idx\":{},\"loc\":{},\"planes\":{},\"verts\":{}}}", c.idx, v3(c.loc), planes, verts)
                }
            })
            .collect();
        out.push(format!("\"icells\":[{}]", cells.join(",")));
        let ci = integ.compute_cell_integrals::<VolumeCentroidIntegral>();
        out.push(format!(
            "\"cell_integrals\":{}",
            json::arr(&ci, |x| format!("{{\"volume\":{},\"centroid\":{}}}", f(x.volume), v3(x.centroid)))
        ));
        out.push(format!("\"face_integrals\":{}", face_integrals_json(&integ.compute_face_integrals::<AreaCentroidIntegral>())));
        out.push(format!("\"face_integrals_sym\":{}", face_integrals_json(&integ.compute_face_integrals_sym::<AreaCentroidIntegral>())));
        let v2: Voronoi = (&integ).into();
        out.push(format!("\"vor2\":{}", voronoi_json(&v2)));
        if opts & 4 != 0 {
            // per-cell conversion path (ConvexCell::with_faces on a clone of one cell)
            let per_cell: Vec<bool> = (0..n)
                .filter_map(|i| integ.get_cell_at(i))
                .map(|c| std::panic::catch_unwind(std::panic::AssertUnwindSafe(|| c.clone().with_faces().face_count())).is_err())
                .collect();
            out.push(format!(
                "\"wf_cell_rejected\":{}",
                json::arr(&per_cell, |b| if *b { "true".to_string() } else { "false".to_string() })
            ));
            let r = std::panic::catch_unwind(std::panic::AssertUnwindSafe(|| {
                let wf = integ.clone().with_faces();
                let cells: Vec<String> = (0..n)
                    .map(|i| match wf.get_cell_at(i) {
                        None => "null".to_string(),
                        Some(c) => {
                            let faces: Vec<String> = (0..c.face_count())
                                .map(|fi| {
                                    let pl = c.clipping_plane(fi);
                                    format!(
                                        "{{\"n\":{},\"p\":{},\"neighbour\":{},\"shift\":{},\"count\":{},\"verts\":{}}}",
                                        v3(pl.n), v3(pl.p), opt(&c.neighbour(fi), |r| r.to_string()),
                                        opt(&c.shift(fi), |s| v3(*s)), c.face_vertex_count(fi), json::us(c.face_vertices(fi))
                                    )
                                })
                                .collect();
                            let verts = json::arr(&c.vertices, |v| {
                                format!("{{\"loc\":{},\"dual\":[{},{},{}]}}", v3(v.loc), v.dual[0], v.dual[1], v.dual[2])
                            });
                            // round trip: discard and re-derive
                            let again = c.clone().discard_faces().with_faces();
                            let same = (0..c.face_count()).all(|fi| c.face_vertices(fi) == again.face_vertices(fi))
                                && c.face_count() == again.face_count();
                            // a copy of a cell with faces is a cell with faces: same face data through the unchecked accessors
                            let copy = c.clone();
                            let clone_ok = copy.face_count() == c.face_count()
                                && (0..c.face_count()).all(|fi| copy.face_vertices(fi) == c.face_vertices(fi) && copy.neighbour(fi) == c.neighbour(fi));
                            format!("{{\"faces\":[{}],\"verts\":{},\"roundtrip\":{},\"clone\":{}}}", faces.join(","), verts, same, clone_ok)
                        }
                    })
                    .collect();
                let ci = wf.compute_cell_integrals::<VolumeCentroidIntegral>();
                let fi = wf.compute_face_integrals::<AreaCentroidIntegral>();
                let fis = wf.compute_face_integrals_sym::<AreaCentroidIntegral>();
                let v3_: Voronoi = (&wf).into();
                format!(
                    "{{\"cells\":[{}],\"cell_integrals\":{},\"face_integrals\":{},\"face_integrals_sym\":{},\"vor\":{}}}",
                    cells.join(","),
                    json::arr(&ci, |x| format!("{{\"volume\":{},\"centroid\":{}}}", f(x.volume), v3(x.centroid))),
                    face_integrals_json(&fi), face_integrals_json(&fis), voronoi_json(&v3_)
                )
            }));
            match r {
                Ok(s) => out.push(format!("\"wf\":{}", s)),
                Err(_) => out.push("\"wf\":\"panic\"".to_string()),
            }
        }
    }
    out.join(",")
}


/// `seq`: the same generator array is used for two constructions, modified in place in between; the second result must
/// be what a fresh process-independent construction of the current positions gives (no state carried from call to call).
/// tokens: dim periodic anchor width n has_mask [mask] gens_a(3n) gens_b(3n)
pub fn run_seq(t: &mut Toks) -> String {
    let dim = t.dim();
    let periodic = t.bool();
    let anchor = t.v3();
    let width = t.v3();
    let n = t.usize();
    let has_mask = t.bool();
    let mask: Option<Vec<bool>> = if has_mask { Some((0..n).map(|_| t.bool()).collect()) } else { None };
    let a: Vec<DVec3> = (0..n).map(|_| t.v3()).collect();
    let b: Vec<DVec3> = (0..n).map(|_| t.v3()).collect();
    let build = |g: &[DVec3]| match &mask {
        Some(m) => Voronoi::build_partial(g, m, anchor, width, dim, periodic),
        None => Voronoi::build(g, anchor, width, dim, periodic),
    };
    let integ = |g: &[DVec3]| Voronoi::from(&VoronoiIntegrator::build(g, mask.as_deref(), anchor, width, dim, periodic));
    let mut v = a.clone();
    let first = voronoi_json(&build(&v));
    let first_i = voronoi_json(&integ(&v));
    for i in 0..n {
        v[i] = b[i];
    }
    let second = voronoi_json(&build(&v));
    let second_i = voronoi_json(&integ(&v));
    let fresh_b = b.clone();
    let fresh = voronoi_json(&build(&fresh_b));
    let fresh_i = voronoi_json(&integ(&fresh_b));
    // and back again
    for i in 0..n {
        v[i] = a[i];
    }
    let third = voronoi_json(&build(&v));
    format!(
        "\"same\":{},\"same_integrator\":{},\"back_same\":{},\"second\":{},\"fresh\":{}",
        second == fresh, second_i == fresh_i, third == first && first == first_i,
        if second == fresh { "null".to_string() } else { second.clone() },
        if second == fresh { "null".to_string() } else { fresh.clone() }
    )
}
