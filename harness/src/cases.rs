//! Case parsing and dispatch.
use glam::DVec3;
use meshless_voronoi::verif_hooks as hooks;
use meshless_voronoi::Dimensionality;

use crate::json;

pub struct Toks<'a> {
    it: std::str::SplitWhitespace<'a>,
}

impl<'a> Toks<'a> {
    pub fn new(s: &'a str) -> Self {
        Self { it: s.split_whitespace() }
    }
    pub fn word(&mut self) -> &'a str {
        self.it.next().expect("token")
    }
    pub fn i64(&mut self) -> i64 {
        self.word().parse().expect("i64")
    }
    pub fn usize(&mut self) -> usize {
        self.word().parse().expect("usize")
    }
    pub fn bool(&mut self) -> bool {
        self.usize() != 0
    }
    pub fn f64(&mut self) -> f64 {
        f64::from_bits(self.word().parse::<u64>().expect("u64 bits"))
    }
    pub fn v3(&mut self) -> DVec3 {
        DVec3::new(self.f64(), self.f64(), self.f64())
    }
    pub fn p3(&mut self) -> [i64; 3] {
        [self.i64(), self.i64(), self.i64()]
    }
    pub fn dim(&mut self) -> Dimensionality {
        match self.usize() {
            1 => Dimensionality::OneD,
            2 => Dimensionality::TwoD,
            _ => Dimensionality::ThreeD,
        }
    }
}

pub fn run_case(kind: &str, t: &mut Toks) -> String {
    match kind {
        "insphere" => {
            let (a, b, c, d, v) = (t.p3(), t.p3(), t.p3(), t.p3(), t.p3());
            let r = hooks::in_sphere_exact(a, b, c, d, v);
            format!("\"r\":{}", json::f(r))
        }
        "iloc" => {
            let periodic = t.bool();
            let dim = t.dim();
            let anchor = t.v3();
            let width = t.v3();
            let x = t.v3();
            let grid = hooks::Grid::new(anchor, width, periodic, dim);
            let raw = grid.iloc_raw(x);
            let il = std::panic::catch_unwind(std::panic::AssertUnwindSafe(|| grid.iloc(x)));
            let (ga, gi) = grid.params();
            format!(
                "\"raw\":{},\"iloc\":{},\"ganchor\":{},\"ginv\":{}",
                json::v3(raw),
                match il {
                    Ok(p) => format!("[{},{},{}]", p[0], p[1], p[2]),
                    Err(_) => "null".to_string(),
                },
                json::v3(ga),
                json::v3(gi)
            )
        }
        "insphere_sweep" => {
            // all 5-tuples over {0..k-1}^3 + offset with the first point fixed
            let k = t.i64();
            let off = t.i64();
            let ai = t.i64();
            let pt = |i: i64| [off + i / (k * k), off + (i / k) % k, off + i % k];
            let n = k * k * k;
            let a = pt(ai);
            let mut s = String::with_capacity((n * n * n * n) as usize + 16);
            for bi in 0..n {
                for ci in 0..n {
                    for di in 0..n {
                        for vi in 0..n {
                            let r = hooks::in_sphere_exact(a, pt(bi), pt(ci), pt(di), pt(vi));
                            s.push(if r < 0. { '-' } else if r > 0. { '+' } else { '0' });
                        }
                    }
                }
            }
            format!("\"s\":\"{}\"", s)
        }
        "ilocq" => {
            // box + one generator: every position the algorithm can hand to iloc for it
            let periodic = t.bool();
            let dim = t.dim();
            let anchor = t.v3();
            let width = t.v3();
            let g = t.v3();
            let grid = hooks::Grid::new(anchor, width, periodic, dim);
            let gens = hooks::make_generators(&[g], dim);
            let gl = gens[0].loc();
            let mut pos: Vec<(String, DVec3)> = vec![("gen".to_string(), gl)];
            for (i, (n, p)) in grid.walls().into_iter().enumerate() {
                let h = meshless_voronoi::HalfSpace::new(n, p, None, None);
                pos.push((format!("mirror{i}"), h.right_loc(0, &gens)));
            }
            if periodic {
                let d = match dim {
                    Dimensionality::OneD => 1,
                    Dimensionality::TwoD => 2,
                    Dimensionality::ThreeD => 3,
                };
                for i in -1i32..=1 {
                    for j in -1i32..=1 {
                        for k in -1i32..=1 {
                            if (d < 2 && j != 0) || (d < 3 && k != 0) || (i == 0 && j == 0 && k == 0) {
                                continue;
                            }
                            // as the wrapping iterator reports it: Some(-shift), shift = i*width
                            let shift = -DVec3::new(i as f64 * width.x, j as f64 * width.y, k as f64 * width.z);
                            pos.push((format!("image{i}{j}{k}"), gl + shift));
                        }
                    }
                }
            }
            let (ga, gi) = grid.params();
            let items: Vec<String> = pos
                .iter()
                .map(|(name, x)| {
                    let raw = grid.iloc_raw(*x);
                    let il = std::panic::catch_unwind(std::panic::AssertUnwindSafe(|| grid.iloc(*x)));
                    format!(
                        "{{\"what\":{},\"x\":{},\"raw\":{},\"iloc\":{}}}",
                        json::string(name),
                        json::v3(*x),
                        json::v3(raw),
                        match il {
                            Ok(p) => format!("[{},{},{}]", p[0], p[1], p[2]),
                            Err(_) => "null".to_string(),
                        }
                    )
                })
                .collect();
            format!(
                "\"ganchor\":{},\"ginv\":{},\"walls\":{},\"pos\":[{}]",
                json::v3(ga),
                json::v3(gi),
                json::arr(&grid.walls(), |(n, p)| format!("[{},{}]", json::v3(*n), json::v3(*p))),
                items.join(",")
            )
        }
        "tess" => crate::tess::run(t),
        "seq" => crate::tess::run_seq(t),
        "clip" => crate::clip::run(t),
        "knn" => {
            // knn <anchor:3> <width:3> <max_cell_width> <k> <n> <points:3n>
            let anchor = t.v3();
            let width = t.v3();
            let mcw = t.f64();
            let k = t.usize();
            let n = t.usize();
            let pts: Vec<DVec3> = (0..n).map(|_| t.v3()).collect();
            let nn = hooks::space_knn(anchor, width, mcw, &pts, k);
            format!("\"nn\":{}", json::arr(&nn, |v| json::us(v)))
        }
        "sphere" => {
            // sphere <op> <n> <points:3n | spheres:4n>   op: welzl | epos6 | epos6s
            let op = t.word().to_string();
            let n = t.usize();
            let (c, r) = match op.as_str() {
                "welzl" => {
                    let pts: Vec<DVec3> = (0..n).map(|_| t.v3()).collect();
                    hooks::welzl(&pts)
                }
                "epos6" => {
                    let pts: Vec<DVec3> = (0..n).map(|_| t.v3()).collect();
                    hooks::epos6(&pts)
                }
                _ => {
                    let sp: Vec<(DVec3, f64)> = (0..n).map(|_| (t.v3(), t.f64())).collect();
                    hooks::epos6_spheres(&sp)
                }
            };
            format!("\"center\":{},\"radius\":{}", json::v3(c), json::f(r))
        }
        "geom" => crate::geom::run(t),
        "hsclip" => {
            // hsclip <n:3> <p:3> <v:3>: the floating-point filter of HalfSpace::clip through the public API
            let (n, p, v) = (t.v3(), t.v3(), t.v3());
            let h = meshless_voronoi::HalfSpace::new(n, p, None, None);
            format!("\"r\":{}", json::f(h.clip(v)))
        }
        "nn" => {
            // nn <dim> <periodic> <width:3> <n> <gens:3n> <nq> <queries>  (width = the normalised width)
            let dim = t.dim();
            let periodic = t.bool();
            let width = t.v3();
            let n = t.usize();
            let gens: Vec<DVec3> = (0..n).map(|_| t.v3()).collect();
            let nq = t.usize();
            let qs: Vec<usize> = (0..nq).map(|_| t.usize()).collect();
            fn dump(d: &hooks::TreeDump) -> String {
                match d {
                    hooks::TreeDump::Leaf { id, loc } => format!("[{},{},{},{}]", id, json::f(loc[0]), json::f(loc[1]), json::f(loc[2])),
                    hooks::TreeDump::Node { lower, upper, children } => format!(
                        "{{\"lo\":[{},{},{}],\"hi\":[{},{},{}],\"c\":[{}]}}",
                        json::f(lower[0]), json::f(lower[1]), json::f(lower[2]),
                        json::f(upper[0]), json::f(upper[1]), json::f(upper[2]),
                        children.iter().map(dump).collect::<Vec<_>>().join(",")
                    ),
                }
            }
            let tree = hooks::rtree_dump(&gens, dim);
            let visits: Vec<String> = qs
                .iter()
                .map(|&q| {
                    let v = hooks::nn_visits(&gens, q, width, dim, periodic);
                    format!(
                        "[{}]",
                        v.iter()
                            .map(|(id, sh)| match sh {
                                None => format!("[{}]", id),
                                Some(s) => format!("[{},{},{},{}]", id, json::f(s.x), json::f(s.y), json::f(s.z)),
                            })
                            .collect::<Vec<_>>()
                            .join(",")
                    )
                })
                .collect();
            format!("\"tree\":[{}],\"visits\":[{}]", tree.iter().map(dump).collect::<Vec<_>>().join(","), visits.join(","))
        }
        _ => panic!("unknown case kind {kind}"),
    }
}
