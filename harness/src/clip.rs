//! `clip` case (C18): clip one cell by one more half space under permutations of the vertex array and
//! rotations of the dual triples.
//!
//! clip <seed> <nperm> <periodic> <anchor:3> <width:3> <n> <gens:3n> <cell> <k> <site ids:k>
//! The cell of generator <cell> is initialised as the box and clipped by the bisectors towards the first
//! k-1 listed generators (in that order, reflective box, no shifts); the k-th bisector is then applied to
//! permuted copies.
use glam::DVec3;
use meshless_voronoi::integrals::VolumeIntegral;
use meshless_voronoi::verif_hooks as hooks;
use meshless_voronoi::Dimensionality;

use crate::cases::Toks;
use crate::json::{self, f, v3};

struct Rng(u64);
impl Rng {
    fn next(&mut self) -> u64 {
        self.0 = self.0.wrapping_add(0x9E3779B97F4A7C15);
        let mut z = self.0;
        z = (z ^ (z >> 30)).wrapping_mul(0xBF58476D1CE4E5B9);
        z = (z ^ (z >> 27)).wrapping_mul(0x94D049BB133111EB);
        z ^ (z >> 31)
    }
    fn below(&mut self, n: usize) -> usize {
        (self.next() % n as u64) as usize
    }
}

fn bisector(g: DVec3, s: DVec3) -> (DVec3, DVec3) {
    let dx = g - s;
    (dx / dx.length(), 0.5 * (g + s))
}

pub fn run(t: &mut Toks) -> String {
    let seed = t.usize() as u64;
    let nperm = t.usize();
    let _periodic = t.bool();
    let anchor = t.v3();
    let width = t.v3();
    let n = t.usize();
    let locs: Vec<DVec3> = (0..n).map(|_| t.v3()).collect();
    let ci = t.usize();
    let k = t.usize();
    let sites: Vec<usize> = (0..k).map(|_| t.usize()).collect();
    let dim = Dimensionality::ThreeD;
    let grid = hooks::Grid::new(anchor, width, false, dim);
    let gens = hooks::make_generators(&locs, dim);
    let g = locs[ci];
    let mut cell = hooks::cell_init(g, ci, &grid);
    for &s in &sites[..k - 1] {
        let (nn, p) = bisector(g, locs[s]);
        hooks::cell_clip(&mut cell, nn, p, Some(s), None, &gens, &grid);
    }
    let last = sites[k - 1];
    let (nn, p) = bisector(g, locs[last]);
    let before: Vec<[usize; 3]> = cell.vertices.iter().map(|v| v.dual).collect();
    let nplanes = cell.clipping_planes.len();
    // reference run to learn which vertices are removed
    let mut reference = cell.clone();
    hooks::cell_clip(&mut reference, nn, p, Some(last), None, &gens, &grid);
    let kept: Vec<[usize; 3]> = reference.vertices.iter().map(|v| v.dual).collect();
    let canon = |d: [usize; 3]| {
        let m = (0..3).min_by_key(|&i| d[i]).unwrap();
        [d[m], d[(m + 1) % 3], d[(m + 2) % 3]]
    };
    let kept_set: std::collections::HashSet<[usize; 3]> = kept.iter().map(|&d| canon(d)).collect();
    let removed_flags: Vec<bool> = before.iter().map(|&d| !kept_set.contains(&canon(d))).collect();
    let n_removed = removed_flags.iter().filter(|&&x| x).count();
    let mut rng = Rng(seed);
    let mut runs: Vec<String> = vec![];
    // all orders of the removed vertices among their own slots (exhaustive up to 6 removed vertices)
    let rem_pos: Vec<usize> = (0..before.len()).filter(|&i| removed_flags[i]).collect();
    let mut exhaustive: Vec<Vec<usize>> = vec![];
    if n_removed >= 2 && n_removed <= 6 {
        let mut idx: Vec<usize> = (0..n_removed).collect();
        // Heap's algorithm
        fn heap(k: usize, a: &mut Vec<usize>, out: &mut Vec<Vec<usize>>) {
            if k == 1 {
                out.push(a.clone());
                return;
            }
            for i in 0..k {
                heap(k - 1, a, out);
                if k % 2 == 0 {
                    a.swap(i, k - 1);
                } else {
                    a.swap(0, k - 1);
                }
            }
        }
        heap(n_removed, &mut idx, &mut exhaustive);
    }
    let total = nperm + exhaustive.len();
    for pi in 0..total {
        let mut c = cell.clone();
        if pi >= nperm {
            let perm = &exhaustive[pi - nperm];
            let orig: Vec<_> = rem_pos.iter().map(|&i| cell.vertices[i].clone()).collect();
            for (slot, &src) in rem_pos.iter().zip(perm.iter()) {
                c.vertices[*slot] = orig[src].clone();
            }
            for v in c.vertices.iter_mut() {
                let r = rng.below(3);
                v.dual.rotate_left(r);
            }
        } else if pi > 0 {
            // random permutation of the array, random rotation of every dual
            let m = c.vertices.len();
            for i in (1..m).rev() {
                let j = rng.below(i + 1);
                c.vertices.swap(i, j);
            }
            for v in c.vertices.iter_mut() {
                let r = rng.below(3);
                v.dual.rotate_left(r);
            }
        }
        let input: Vec<[usize; 3]> = c.vertices.iter().map(|v| v.dual).collect();
        let flags: Vec<bool> = input.iter().map(|&d| !kept_set.contains(&canon(d))).collect();
        let r = std::panic::catch_unwind(std::panic::AssertUnwindSafe(|| {
            let mut c2 = c.clone();
            hooks::cell_clip(&mut c2, nn, p, Some(last), None, &gens, &grid);
            c2
        }));
        match r {
            Ok(c2) => {
                let vol = c2.compute_cell_integral::<(), VolumeIntegral>(()).volume;
                runs.push(format!(
                    "{{\"in\":{},\"removed\":{},\"out\":{},\"locs\":{},\"volume\":{},\"nplanes\":{}}}",
                    json::arr(&input, |d| format!("[{},{},{}]", d[0], d[1], d[2])),
                    json::arr(&flags, |b| if *b { "1".to_string() } else { "0".to_string() }),
                    json::arr(&c2.vertices, |v| format!("[{},{},{}]", v.dual[0], v.dual[1], v.dual[2])),
                    json::arr(&c2.vertices, |v| v3(v.loc)),
                    f(vol),
                    c2.clipping_planes.len()
                ));
            }
            Err(_) => runs.push(format!(
                "{{\"in\":{},\"removed\":{},\"panic\":true}}",
                json::arr(&input, |d| format!("[{},{},{}]", d[0], d[1], d[2])),
                json::arr(&flags, |b| if *b { "1".to_string() } else { "0".to_string() })
            )),
        }
    }
    format!("\"nplanes\":{},\"n_removed\":{},\"runs\":[{}]", nplanes, n_removed, runs.join(","))
}
