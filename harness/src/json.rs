//! Minimal JSON output helpers (no dependencies).
use glam::DVec3;

pub fn string(s: &str) -> String {
    let mut o = String::with_capacity(s.len() + 2);
    o.push('"');
    for c in s.chars() {
        match c {
            '"' => o.push_str("\\\""),
            '\\' => o.push_str("\\\\"),
            '\n' => o.push_str("\\n"),
            c if (c as u32) < 0x20 => o.push_str(&format!("\\u{:04x}", c as u32)),
            c => o.push(c),
        }
    }
    o.push('"');
    o
}

pub fn f(x: f64) -> String {
    x.to_bits().to_string()
}

pub fn v3(v: DVec3) -> String {
    format!("[{},{},{}]", f(v.x), f(v.y), f(v.z))
}

pub fn opt<T, F: Fn(&T) -> String>(x: &Option<T>, g: F) -> String {
    match x {
        Some(v) => g(v),
        None => "null".to_string(),
    }
}

pub fn arr<T, F: Fn(&T) -> String>(xs: &[T], g: F) -> String {
    let mut o = String::from("[");
    for (i, x) in xs.iter().enumerate() {
        if i > 0 {
            o.push(',');
        }
        o.push_str(&g(x));
    }
    o.push(']');
    o
}

pub fn us(xs: &[usize]) -> String {
    arr(xs, |x| x.to_string())
}
