//! `geom` case (C19): the public geometry helpers on given arguments.
use glam::DVec3;
use meshless_voronoi::geometry::{intersect_planes, signed_area_tri, signed_volume_tet, Plane, Sphere};

use crate::cases::Toks;
use crate::json::{f, v3};

pub fn run(t: &mut Toks) -> String {
    let op = t.word().to_string();
    match op.as_str() {
        "intersect" => {
            let p: Vec<Plane> = (0..3).map(|_| Plane::new(t.v3(), t.v3())).collect();
            format!("\"x\":{}", v3(intersect_planes(&p[0], &p[1], &p[2])))
        }
        "project" => {
            let pl = Plane::new(t.v3(), t.v3());
            let x = t.v3();
            let y = pl.project_onto(x);
            format!("\"y\":{},\"yy\":{}", v3(y), v3(pl.project_onto(y)))
        }
        "project_line" => {
            let p0 = Plane::new(t.v3(), t.v3());
            let p1 = Plane::new(t.v3(), t.v3());
            let x = t.v3();
            format!("\"y\":{}", v3(p0.project_onto_intersection(&p1, x)))
        }
        "volume" => {
            let v: Vec<DVec3> = (0..4).map(|_| t.v3()).collect();
            format!(
                "\"v\":{},\"v_swapped\":{}",
                f(signed_volume_tet(v[0], v[1], v[2], v[3])),
                f(signed_volume_tet(v[1], v[0], v[2], v[3]))
            )
        }
        "area" => {
            let v: Vec<DVec3> = (0..4).map(|_| t.v3()).collect();
            format!(
                "\"a\":{},\"a_swapped\":{}",
                f(signed_area_tri(v[0], v[1], v[2], v[3])),
                f(signed_area_tri(v[0], v[2], v[1], v[3]))
            )
        }
        "sphere2" | "sphere3" | "sphere4" => {
            let n = op[6..].parse::<usize>().unwrap();
            let v: Vec<DVec3> = (0..n).map(|_| t.v3()).collect();
            let s = match n {
                2 => Sphere::from_two_points(v[0], v[1]),
                3 => Sphere::from_three_points(v[0], v[1], v[2]),
                _ => Sphere::from_four_points(v[0], v[1], v[2], v[3]),
            };
            let s2 = Sphere::from_boundary_points(&v);
            format!("\"center\":{},\"radius\":{},\"same_via_boundary_points\":{}", v3(s.center), f(s.radius), s.center == s2.center && s.radius == s2.radius)
        }
        "extend" => {
            let c = t.v3();
            let r = t.f64();
            let x = t.v3();
            let s = Sphere::new(c, r);
            let inside = s.contains(x);
            let e = s.extend(x);
            format!("\"center\":{},\"radius\":{},\"contained\":{}", v3(e.center), f(e.radius), inside)
        }
        _ => panic!("unknown geom op"),
    }
}
