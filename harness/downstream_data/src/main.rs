//! Attempt of a downstream crate to define an integral that receives per-cell data
//! (CellIntegralWithData / FaceIntegralWithData with Data = u64).  Whether this compiles is part of C14.
use glam::DVec3;
use meshless_voronoi::integrals::{CellIntegral, CellIntegralWithData};
use meshless_voronoi::{ConvexCell, ConvexCellMarker, Dimensionality, VoronoiIntegrator};

#[derive(Clone, Default)]
struct Tagged {
    tag: u64,
    idx: usize,
}
impl CellIntegral for Tagged {
    fn init<M: ConvexCellMarker>(cell: &ConvexCell<M>) -> Self {
        Tagged { tag: u64::MAX, idx: cell.idx }
    }
    fn collect(&mut self, _v0: DVec3, _v1: DVec3, _v2: DVec3, _gen: DVec3) {}
    fn finalize(self) -> Self {
        self
    }
}
impl CellIntegralWithData for Tagged {
    type Data = u64;
    fn init_with_data<M: ConvexCellMarker>(cell: &ConvexCell<M>, data: u64) -> Self {
        Tagged { tag: data, idx: cell.idx }
    }
}

fn main() {
    let gens = vec![DVec3::splat(0.25), DVec3::splat(0.75), DVec3::new(0.2, 0.7, 0.4)];
    let mask = [true, false, true];
    let integ = VoronoiIntegrator::build(&gens, Some(&mask), DVec3::ZERO, DVec3::ONE, Dimensionality::ThreeD, false);
    let tags = [10u64, 11, 12];
    let out = integ.compute_cell_integrals_with_data::<u64, Tagged>(&tags);
    for t in &out {
        assert_eq!(t.tag, tags[t.idx], "data delivered to the wrong cell");
    }
    println!("ok {}", out.len());
}
