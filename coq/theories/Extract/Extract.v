(* Extraction of the executable models to OCaml (zarith big integers).
   Directives: those of ExtrOcamlBasic and ExtrOcamlZBigInt, plus Z.gcd mapped to zarith's gcd
   (Coq's own Z.gcd is a bit-by-bit binary gcd, far too slow on 1000-bit denominators). *)
From Coq Require Import ZArith List.
From Coq Require Import ExtrOcamlBasic ExtrOcamlZBigInt.
From MV Require Import Model.Insphere Model.Cycle Model.CellExact Model.Assemble.
From MV Require Model.BestFirst Model.Knn.
From MV Require Proofs.FaceClose.

Extract Constant Z.gcd => "Big_int_Z.gcd_big_int".

Extraction Language OCaml.
Extraction "model.ml" insphere_model in_gridb
  cyc_new cyc_grow cyc_init cyc_try_extend cyc_iter clip_comb
  build build_all build_regularb cell_init clip bisector max_radius2 decompose decompose_faces faces_of
  vol6_of centroid_sum moment2 face_area2n face_centroid_sum plane_has_tet side norm2 vertices_feasible duals_oriented
  assemble tess_neighbour_ids face_integrals face_integrals_sym cell_integrals cell_is_active face_indices
  BestFirst.visits Knn.knn_search FaceClose.surfaceb
  hdefault plane_default.
