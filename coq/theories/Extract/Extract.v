(* Extraction of the executable models to OCaml (zarith big integers). *)
From Coq Require Import ZArith List.
From Coq Require Import ExtrOcamlBasic ExtrOcamlZBigInt.
From MV Require Import Model.Insphere.

Extraction Language OCaml.
Extraction "model.ml" insphere_model in_gridb.
