(* C17 - neighbour candidates are enumerated completely and in order of distance
   (best-first search over any well-formed R-tree, exact integer keys). *)
From Coq Require Import ZArith List Permutation Sorted Lia.
From MV Require Import Model.BestFirst Proofs.BestFirstProofs.
Import ListNotations.
Open Scope Z_scope.

(* every (generator, shift) pair is visited exactly once: the stream is a permutation of all leaves of
   the tree, once per shift, each with its exact squared distance to the shifted query point *)
Theorem C17_visits_complete_once : forall q shifts cs,
  Permutation (visits q shifts cs) (all_leaves q shifts cs).
Proof. exact visits_complete_once. Qed.
Print Assumptions C17_visits_complete_once.

(* in non-decreasing distance, for every tree whose envelopes contain their children *)
Theorem C17_visits_sorted : forall q shifts cs, Forall wf_tree cs ->
  StronglySorted (fun a b => fst a <= fst b) (visits q shifts cs) /\ Forall (fun kx => 0 <= fst kx) (visits q shifts cs).
Proof. exact visits_sorted. Qed.
Print Assumptions C17_visits_sorted.

(* the same holds for EVERY heap discipline that pops some minimal element (BinaryHeap's tie order) *)
Theorem C17_any_pop_sorted_complete :
  forall (pop : list (atree (Z * Z)) -> option (atree (Z * Z) * list (atree (Z * Z)))),
  (forall h t h', pop h = Some (t, h') -> Permutation h (t :: h') /\ Forall (fun u => akey t <= akey u) h') ->
  (forall h, pop h = None -> h = []) ->
  forall q shifts cs fuel, Forall wf_tree cs ->
  (length shifts * fold_right (fun c n => (rsize c + n)%nat) 0%nat cs <= fuel)%nat ->
  let out := run (Z * Z) pop fuel (initial_heap q shifts cs) in
  StronglySorted (fun a b => fst a <= fst b) out /\ Permutation out (all_leaves q shifts cs).
Proof. exact any_pop_sorted_complete. Qed.
Print Assumptions C17_any_pop_sorted_complete.

(* the envelope bound never exceeds the key of anything inside the envelope (clamp, per axis) *)
Theorem C17_envelope_bound_admissible : forall q sh lo hi pos, inside lo hi pos ->
  key_node q sh lo hi <= key_leaf q sh pos.
Proof. exact key_node_le_leaf. Qed.
Print Assumptions C17_envelope_bound_admissible.

Theorem C17_envelope_bound_nested : forall q sh lo hi lo' hi', box_in lo hi lo' hi' ->
  key_node q sh lo hi <= key_node q sh lo' hi'.
Proof. exact key_node_le_node. Qed.
Print Assumptions C17_envelope_bound_nested.

(* non-vacuity: a two-level tree, three shifts *)
Example C17_example :
  let t := [RNode (0,0,0) (4,4,0) [RLeaf 0 (1,1,0); RLeaf 1 (4,4,0)]; RLeaf 2 (9,0,0)] in
  let shifts := [((0,0,0), 0); ((10,0,0), 1); ((-10,0,0), 2)] in
  Forall wf_tree t /\
  map snd (visits (1,1,0) shifts t) = [(0, 0); (2, 1); (1, 0); (1, 1); (2, 0); (0, 2); (0, 1); (1, 2); (2, 2)].
Proof.
  cbv zeta. split; [|vm_compute; reflexivity].
  repeat constructor; cbn; lia.
Qed.
