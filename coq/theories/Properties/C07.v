(* C07 - partial construction equals the full tessellation restricted to the mask
   (bookkeeping part, structural model M-S; the geometric part - a selected cell is bitwise the
   same - is a statement about the implementation's per-cell function and is tied by the
   correspondence run). *)
From Coq Require Import List Arith Bool.
From MV Require Import Model.Assemble Proofs.AssembleProofs.
Import ListNotations.

(* no face has an unselected (unconstructed) left cell; hence no face between two unselected cells *)
Theorem C07_face_left_constructed : forall mask cells f,
  In f (all_faces mask cells) -> exists c, In (Some c) cells /\ fleft f = sidx c.
Proof. exact face_left_constructed. Qed.
Print Assumptions C07_face_left_constructed.

(* the face list of well-formed cells never joins the same pair of generators twice without shift,
   and has no unshifted self face: a face between a selected and an unselected cell is present at
   most once; with C07_face_left_constructed its left cell is the selected one *)
Theorem C07_faces_wf : forall mask cs, cells_ok mask cs -> faces_wf (flat_map (cell_faces mask) cs).
Proof. exact all_faces_wf. Qed.
Print Assumptions C07_faces_wf.
