(* C04 - face normals point away from the left generator; cells are closed surfaces.
   Exact-arithmetic statements (Z^3; rational data reduce to integers by clearing denominators,
   all statements are homogeneous). *)
From Coq Require Import ZArith List Permutation.
From MV Require Import Model.CellExact Proofs.CellProofs Proofs.GeomLemmas Proofs.Surface.
Import ListNotations.
Open Scope Z_scope.

(* the model's bisector plane: its (inward) normal is 2 (g - s), so the outward face normal, - n,
   points from the generator towards the site: (- n) . (s - g) = 2 |s - g|^2 > 0 for s <> g *)
Theorem C04_normal_direction : forall g s : site, forall gpos : V3,
  site_pos s <> gpos ->
  0 < dot (vscale (-1) (pn (bisector gpos s))) (vsub (site_pos s) gpos).
Proof. exact normal_direction. Qed.
Print Assumptions C04_normal_direction.

(* the centroid of triangles lying in a plane lies in that plane (area-weighted sums) *)
Theorem C04_centroid_on_plane : forall (nx ny nz d : Z) (tris : list (Z * P3)),
  Forall (fun '(A, (s1, s2, s3)) => nx * s1 + ny * s2 + nz * s3 = 3 * d) tris ->
  nx * fold_right (fun '(A, (s1, _, _)) acc => A * s1 + acc) 0 tris +
  ny * fold_right (fun '(A, (_, s2, _)) acc => A * s2 + acc) 0 tris +
  nz * fold_right (fun '(A, (_, _, s3)) acc => A * s3 + acc) 0 tris
  = 3 * d * fold_right (fun '(A, _) acc => A + acc) 0 tris.
Proof. exact weighted_centroid_on_plane. Qed.
Print Assumptions C04_centroid_on_plane.

(* closed oriented surface: the vector areas sum to zero *)
Theorem C04_closed_surface_area_sum : forall ts, closed ts ->
  zsum (map area2_x ts) = 0 /\ zsum (map area2_y ts) = 0 /\ zsum (map area2_z ts) = 0.
Proof. exact closed_surface_area_sum. Qed.
Print Assumptions C04_closed_surface_area_sum.

(* divergence theorem per face triangle: area vector . (3 centroid - 3 g) = 3 x (6 x signed cone volume) *)
Theorem C04_tri_divergence : forall p q r g : P3,
  let '(p1, p2, p3) := p in let '(q1, q2, q3) := q in let '(r1, r2, r3) := r in let '(g1, g2, g3) := g in
  area2_x (p, q, r) * (p1 + q1 + r1 - 3 * g1) + area2_y (p, q, r) * (p2 + q2 + r2 - 3 * g2) +
  area2_z (p, q, r) * (p3 + q3 + r3 - 3 * g3) = - 3 * vol6 p q r g.
Proof. exact tri_divergence. Qed.
Print Assumptions C04_tri_divergence.

(* and the cone sum of a closed surface does not depend on the apex (so it is "the" volume) *)
Theorem C04_apex_independence : forall g h ts, closed ts -> cone6 g ts = cone6 h ts.
Proof. exact apex_independence. Qed.
Print Assumptions C04_apex_independence.
