(* C12 - cell-face connectivity is a consistent index structure (structural model M-S). *)
From Coq Require Import List Arith Bool.
From MV Require Import Model.Assemble Proofs.AssembleProofs.
Import ListNotations.

(* offsets are the prefix sums of the counts, the total is the array length, the array is the
   concatenation of the per-cell lists, one count per cell *)
Theorem C12_offsets_prefix_sums : forall n fs,
  offsets (finalize n fs) = prefix_sums 0 (counts (finalize n fs)) /\
  list_sum (counts (finalize n fs)) = length (connections (finalize n fs)) /\
  connections (finalize n fs) = concat (per_cell n fs) /\
  (Forall (in_range n) fs -> length (counts (finalize n fs)) = n).
Proof. exact offsets_prefix_sums. Qed.
Print Assumptions C12_offsets_prefix_sums.

(* the slice [offset, offset+count) of the array is the cell's own list *)
Theorem C12_face_indices_slice : forall n fs c, Forall (in_range n) fs -> c < n ->
  face_indices (finalize n fs) c = nth c (per_cell n fs) [].
Proof. exact face_indices_per_cell. Qed.
Print Assumptions C12_face_indices_slice.

(* every face is listed by its left cell, by its right cell iff it has one and no shift, by no other
   cell, each exactly once; only valid face numbers are listed *)
Theorem C12_listed_iff : forall n fs c i, Forall (in_range n) fs -> c < n -> i < length fs ->
  count_occ Nat.eq_dec (face_indices (finalize n fs) c) i =
    (if is_left fs i c then 1 else 0) + (if is_unshifted_right fs i c then 1 else 0).
Proof. exact listed_iff. Qed.
Print Assumptions C12_listed_iff.

Theorem C12_listed_only_valid : forall n fs c i, Forall (in_range n) fs -> c < n ->
  In i (face_indices (finalize n fs) c) -> i < length fs.
Proof. exact listed_only_valid. Qed.
Print Assumptions C12_listed_only_valid.

(* the neighbour iterator of EVERY cell - constructed or not -: no duplicates, never itself,
   for every mask and every family of well-formed cells (distinct (neighbour, shift) keys per cell,
   constructed cells are the selected ones) *)
Theorem C12_neighbour_ids_nodup_not_self : forall mask cells c,
  cells_ok mask (constructed cells) ->
  Forall (cell_in_range (length cells)) (constructed cells) ->
  c < length cells ->
  NoDup (tess_neighbour_ids (assemble mask cells) c) /\ ~ In c (tess_neighbour_ids (assemble mask cells) c).
Proof. exact neighbour_ids_nodup_not_self_all. Qed.
Print Assumptions C12_neighbour_ids_nodup_not_self.

(* and it yields exactly the other sides of the listed non-boundary, non-periodic faces *)
Theorem C12_neighbour_ids_other_sides : forall n fs c, Forall (in_range n) fs -> c < n ->
  neighbour_ids fs (finalize n fs) c c = nbrs c fs.
Proof. exact neighbour_ids_nbrs. Qed.
Print Assumptions C12_neighbour_ids_other_sides.

(* non-vacuity: a concrete 3-cell tessellation meeting the hypotheses *)
Example C12_hyps_satisfiable :
  let pl r := mkSPlane (Some r) None true true in
  let cells := [Some (mkSCell 0 [pl 1; pl 2]); Some (mkSCell 1 [pl 0; pl 2]); Some (mkSCell 2 [pl 0; pl 1])] in
  tess_neighbour_ids (assemble None cells) 1 = [0; 2] /\
  cells_ok None (constructed cells) /\
  map fleft (tfaces (assemble None cells)) = [0; 0; 1] /\
  connections (tconn (assemble None cells)) = [0; 1; 0; 2; 1; 2].
Proof.
  cbv zeta. split; [reflexivity|]. split; [|split; reflexivity].
  unfold cells_ok, cell_ok. cbn. repeat split; repeat constructor; cbn; intuition congruence.
Qed.

(* ---- the well-formedness hypothesis (pairwise distinct (neighbour, shift) keys per cell) discharged for the exact
   clipping model: every site is looked at once and contributes at most one plane.  For the implementation it follows
   from the neighbour stream delivering each (generator, image) once (C17) *)
From MV Require Import Model.Cycle Model.CellExact Proofs.PlaneKeys.
Theorem C12_model_planes_have_distinct_keys : forall dim lo hi g sites c,
  NoDup (map site_key sites) -> build dim lo hi g sites = Some c ->
  NoDup (ngb_keys c) /\ incl (ngb_keys c) (map site_key sites).
Proof. exact build_plane_keys_distinct. Qed.
Print Assumptions C12_model_planes_have_distinct_keys.
