(* C05 - construction is total and robust on degenerate inputs: the parts that are exact. *)
From Coq Require Import ZArith List.
From MV Require Import Model.Insphere Proofs.InsphereProofs Model.Cycle Model.CellExact Proofs.CellProofs.
Open Scope Z_scope.

(* ties are resolved consistently between cells: the exact predicate only depends on the five grid points
   up to the orientation sign of their order (so two cells that look at the same five generators from
   different reference points / dual rotations decide the same way) *)
Theorem C05_insphere_alternating : forall a b c d v : P3,
  in_grid a -> in_grid b -> in_grid c -> in_grid d -> in_grid v ->
  insphere_model a c b d v = - insphere_model a b c d v /\
  insphere_model a c d b v = insphere_model a b c d v /\
  insphere_model b a c d v = - insphere_model a b c d v.
Proof.
  intros a b c d v Ha Hb Hc Hd Hv. split; [|split].
  - exact (insphere_swap_bc a b c d v Ha Hb Hc Hd Hv).
  - exact (insphere_rot_bcd a b c d v Ha Hb Hc Hd Hv).
  - exact (insphere_swap_ab a b c d v Ha Hb Hc Hd Hv).
Qed.
Print Assumptions C05_insphere_alternating.

(* and it is the true predicate of the positions as long as the grid is a similarity of them *)
Theorem C05_insphere_similarity_invariant : forall (k : Z) (t a b c d v : P3), 0 < k ->
  insphere_nowrap (similar k t a) (similar k t b) (similar k t c) (similar k t d) (similar k t v)
  = insphere_nowrap a b c d v.
Proof. exact insphere_similarity_invariant. Qed.
Print Assumptions C05_insphere_similarity_invariant.

(* the exact model of the construction never cuts the nearest-generator region, whatever the degeneracy *)
Theorem C05_cell_superset_voronoi : forall dim lo hi g sites c p,
  build dim lo hi g sites = Some c -> 0 < snd p ->
  voronoi_region lo hi g sites p -> in_planes (cplanes c) p.
Proof. exact cell_superset_voronoi. Qed.
Print Assumptions C05_cell_superset_voronoi.

(* ---- the principle of the floating-point filter: a computed value that is farther from zero than the bound on its own
   error has the sign of the exact value.  HalfSpace::clip is sound exactly when its `errb` dominates the accumulated
   rounding error of n.v - d (including the error of the vertex v): the recorded findings K2 (ill-conditioned vertices)
   and F14 (bound not scaling with the coordinates, fixed) are violations of this hypothesis, found by the decision-level
   correspondence of the C05 check, which compares every filter-conclusive decision with the exact sign *)
From MV Require Import Proofs.GeomLemmas.
Theorem C05_filter_principle : forall exact computed errb : Z,
  Z.abs (computed - exact) <= errb -> errb < Z.abs computed -> Z.sgn computed = Z.sgn exact.
Proof. exact filter_principle. Qed.
Print Assumptions C05_filter_principle.
