(* C05 - construction is total and robust on degenerate inputs: the parts that are exact. *)
From Coq Require Import ZArith List.
From MV Require Import Model.Insphere Proofs.InsphereProofs Model.Cycle Model.CellExact Proofs.CellProofs.
Open Scope Z_scope.

(* ties are resolved consistently between cells: the exact predicate only depends on the five grid points
   up to the orientation sign of their order (so two cells that look at the same five generators from
   different reference points / dual rotations decide the same way) *)
Theorem C05_insphere_alternating : forall a b c d v : P3,
  in_grid a -> in_grid b -> in_grid c -> in_grid d -> in_grid v ->
  insphere_model a c b d v = - insphere_model a b c d v /\
  insphere_model a c d b v = insphere_model a b c d v /\
  insphere_model b a c d v = - insphere_model a b c d v.
Proof.
  intros a b c d v Ha Hb Hc Hd Hv. split; [|split].
  - exact (insphere_swap_bc a b c d v Ha Hb Hc Hd Hv).
  - exact (insphere_rot_bcd a b c d v Ha Hb Hc Hd Hv).
  - exact (insphere_swap_ab a b c d v Ha Hb Hc Hd Hv).
Qed.
Print Assumptions C05_insphere_alternating.

(* and it is the true predicate of the positions as long as the grid is a similarity of them *)
Theorem C05_insphere_similarity_invariant : forall (k : Z) (t a b c d v : P3), 0 < k ->
  insphere_nowrap (similar k t a) (similar k t b) (similar k t c) (similar k t d) (similar k t v)
  = insphere_nowrap a b c d v.
Proof. exact insphere_similarity_invariant. Qed.
Print Assumptions C05_insphere_similarity_invariant.

(* the exact model of the construction never cuts the nearest-generator region, whatever the degeneracy *)
Theorem C05_cell_superset_voronoi : forall dim lo hi g sites c p,
  build dim lo hi g sites = Some c -> 0 < snd p ->
  voronoi_region lo hi g sites p -> in_planes (cplanes c) p.
Proof. exact cell_superset_voronoi. Qed.
Print Assumptions C05_cell_superset_voronoi.

(* ---- the principle of the floating-point filter: a computed value that is farther from zero than the bound on its own
   error has the sign of the exact value.  HalfSpace::clip is sound exactly when its `errb` dominates the accumulated
   rounding error of n.v - d (including the error of the vertex v): the recorded findings K2 (ill-conditioned vertices)
   and F14 (bound not scaling with the coordinates, fixed) are violations of this hypothesis, found by the decision-level
   correspondence of the C05 check, which compares every filter-conclusive decision with the exact sign *)
From MV Require Import Proofs.GeomLemmas.
Theorem C05_filter_principle : forall exact computed errb : Z,
  Z.abs (computed - exact) <= errb -> errb < Z.abs computed -> Z.sgn computed = Z.sgn exact.
Proof. exact filter_principle. Qed.
Print Assumptions C05_filter_principle.

(* ---- the filter of HalfSpace::clip on IEEE binary64 (bit-exact Flocq model Model/Filter.v of HalfSpace::new / clip, tied to the
   code by the `hsclip` correspondence of the C05 check): for the floating-point n, p, v actually handed to it, a conclusive
   decision (+1 / -1) has the sign of the exact n . (v - p) - for ALL finite inputs on which the computed value and the two
   candidate bounds are finite (no overflow).  The accumulated rounding error is at most 11 u |n|_1 max(|p|,|v|) + 18 eta
   (u = 2^-53, eta = 2^-1075), strictly below the bound max(1e-13 (1 + |n|.|p|), 1e-13 |n|_1 max(|p|,|v|)) of the fixed code
   (43a72c0).  What remains outside this theorem is the error of the vertex v itself (computed from three planes), which is the
   recorded finding K2 / K5 *)
From Coq Require Import Reals.
From Flocq Require Import Core Binary Bits.
From MV Require Import Model.Grid Model.Filter Proofs.FilterErr Proofs.FilterB64.
Theorem C05_filter_conclusive_is_exact_sign_binary64 : forall n p v : vec,
  is_finite 53 1024 (clip_value n p v) = true ->
  is_finite 53 1024 (hs_errb n p) = true ->
  is_finite 53 1024 (clip_errb1 n p v) = true ->
  (clip_filter n p v = 1%Z -> (0 < exactE n p v)%R) /\ (clip_filter n p v = (-1)%Z -> (exactE n p v < 0)%R).
Proof. exact clip_filter_sound. Qed.
Print Assumptions C05_filter_conclusive_is_exact_sign_binary64.

(* the same statement for any rounding operator with relative error u and absolute error eta (real-number level) *)
Theorem C05_filter_error_below_bound : forall (rnd : R -> R) (eta : R),
  (0 <= eta)%R -> (eta <= u / 1000)%R ->
  (forall x, Rabs (rnd x - x) <= u * Rabs x + eta)%R -> (forall x y, x <= y -> rnd x <= rnd y)%R ->
  rnd 0%R = 0%R -> rnd 1%R = 1%R -> rnd EPSr = EPSr ->
  forall n1 n2 n3 p1 p2 p3 v1 v2 v3 : R,
  (eta * Rmax (Rmax (Rabs p1) (Rmax (Rabs p2) (Rabs p3))) (Rmax (Rabs v1) (Rmax (Rabs v2) (Rabs v3))) <= 4 * u)%R ->
  (11 * u * ((Rabs n1 + Rabs n2 + Rabs n3) * Rmax (Rmax (Rabs p1) (Rmax (Rabs p2) (Rabs p3))) (Rmax (Rabs v1) (Rmax (Rabs v2) (Rabs v3)))) + 18 * eta
   < errb_r rnd n1 n2 n3 p1 p2 p3 v1 v2 v3)%R.
Proof. exact err_lt_errb. Qed.
Print Assumptions C05_filter_error_below_bound.

(* non-vacuity: a concrete plane and vertex on which the hypotheses hold and the filter is conclusive *)
Example C05_filter_example :
  let n := (of_bits 0x3FF0000000000000, of_bits 0x3FE0000000000000, of_bits 0)%Z in
  let p := (of_bits 0x3FE0000000000000, of_bits 0x3FD0000000000000, of_bits 0x3FB999999999999A)%Z in
  let v := (of_bits 0x3FE8000000000000, of_bits 0x3FD0000000000000, of_bits 0x4000000000000000)%Z in
  is_finite 53 1024 (clip_value n p v) = true /\ is_finite 53 1024 (hs_errb n p) = true /\
  is_finite 53 1024 (clip_errb1 n p v) = true /\ clip_filter n p v = 1%Z.
Proof. vm_compute. repeat split. Qed.

(* the same without any hypothesis on computed values: for ALL finite n, p, v whose components are at most 2^300 in absolute value
   (vle2 a e: every component is finite and |component| <= 2^e) nothing overflows, and a conclusive answer has the exact sign *)
From MV Require Import Proofs.FilterTotal.
Theorem C05_filter_sound_for_all_inputs_of_sane_magnitude : forall n p v : vec,
  vle2 n 300 -> vle2 p 300 -> vle2 v 300 ->
  (clip_filter n p v = 1%Z -> (0 < exactE n p v)%R) /\ (clip_filter n p v = (-1)%Z -> (exactE n p v < 0)%R).
Proof. exact clip_filter_sound_bounded. Qed.
Print Assumptions C05_filter_sound_for_all_inputs_of_sane_magnitude.
