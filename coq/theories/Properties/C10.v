(* C10 - The exact in-sphere predicate returns the true sign on the integer grid.
   Pinned statements only; proofs live in Proofs/. *)
From Coq Require Import ZArith Reals List.
From MV Require Import Model.Insphere Model.Grid Proofs.InsphereProofs Proofs.GridProofs Proofs.GridFlocq.
Open Scope Z_scope.

(* on the grid no i64 subtraction wraps: the model with two's-complement wrap equals the
   wrap-free one *)
Theorem C10_insphere_no_wrap : forall a b c d v : P3,
  in_grid a -> in_grid b -> in_grid c -> in_grid d -> in_grid v ->
  insphere_model a b c d v = insphere_nowrap a b c d v.
Proof. exact insphere_no_wrap. Qed.
Print Assumptions C10_insphere_no_wrap.

(* the cofactor expansion of the code equals the sign of the textbook 5x5 lifted determinant
   (generic Laplace expansion, an independent definition) for all grid points *)
Theorem C10_insphere_is_det : forall a b c d v : P3,
  in_grid a -> in_grid b -> in_grid c -> in_grid d -> in_grid v ->
  insphere_model a b c d v = Z.sgn (det5_lifted a b c d v).
Proof. exact insphere_is_det. Qed.
Print Assumptions C10_insphere_is_det.

(* for a positively oriented tetrahedron: a,b,c,d are on the circumsphere and the result is
   -1 / 0 / +1 iff v is strictly inside / on / strictly outside it (distances scaled by k>0) *)
Theorem C10_insphere_geometric : forall a b c d v : P3,
  in_grid a -> in_grid b -> in_grid c -> in_grid d -> in_grid v ->
  0 < orient3 a b c d ->
  let k := circum_k a b c d in let o := circum_o a b c d in
  let scaled p := (let '(x, y, z) := sub3 p a in (k * x, k * y, k * z)) in
  let dist2c p := n2 (sub3 (scaled p) o) in
  dist2c a = n2 o /\ dist2c b = n2 o /\ dist2c c = n2 o /\ dist2c d = n2 o /\
  (insphere_model a b c d v = -1 <-> dist2c v < n2 o) /\
  (insphere_model a b c d v = 0 <-> dist2c v = n2 o) /\
  (insphere_model a b c d v = 1 <-> dist2c v > n2 o).
Proof. exact insphere_geometric. Qed.
Print Assumptions C10_insphere_geometric.

(* consistency between cells (also used by C05): the answer only depends on the five points up
   to the orientation sign of their order *)
Theorem C10_insphere_alternating : forall a b c d v : P3,
  in_grid a -> in_grid b -> in_grid c -> in_grid d -> in_grid v ->
  insphere_model a c b d v = - insphere_model a b c d v /\
  insphere_model a c d b v = insphere_model a b c d v /\
  insphere_model b a c d v = - insphere_model a b c d v.
Proof.
  intros a b c d v Ha Hb Hc Hd Hv. split; [|split].
  - exact (insphere_swap_bc a b c d v Ha Hb Hc Hd Hv).
  - exact (insphere_rot_bcd a b c d v Ha Hb Hc Hd Hv).
  - exact (insphere_swap_ab a b c d v Ha Hb Hc Hd Hv).
Qed.
Print Assumptions C10_insphere_alternating.

(* the predicate is invariant under similarities (translation + one common positive scale factor) of the
   five points: evaluating it on grid images is equivalent to evaluating it on the positions iff the grid
   map rescales all active axes by the same factor (see Example anisotropic_scaling_changes_the_answer) *)
Theorem C10_insphere_similarity_invariant : forall (k : Z) (t a b c d v : P3), 0 < k ->
  insphere_nowrap (similar k t a) (similar k t b) (similar k t c) (similar k t d) (similar k t v)
  = insphere_nowrap a b c d v.
Proof. exact insphere_similarity_invariant. Qed.
Print Assumptions C10_insphere_similarity_invariant.

(* the grid map is monotone (real-number semantics of the three correctly rounded operations) *)
Theorem C10_iloc_real_monotone : forall A I x y : R,
  (0 <= I)%R -> (x <= y)%R -> (mant (T A I x) <= mant (T A I y))%R.
Proof. exact iloc_real_monotone. Qed.
Print Assumptions C10_iloc_real_monotone.

(* ... and the same at the binary64 level (Flocq): for the three IEEE operations the code
   executes, as long as no intermediate result overflows or is NaN, the value whose mantissa
   becomes the grid coordinate is monotone in the position *)
Theorem C10_tval_monotone_binary64 : forall A I x y : f64,
  (0 <= b2r I)%R -> (b2r x <= b2r y)%R ->
  fin (tval A I x) = true -> fin (tval A I y) = true ->
  (b2r (tval A I x) <= b2r (tval A I y))%R.
Proof. exact tval_monotone. Qed.
Print Assumptions C10_tval_monotone_binary64.

(* ---- the grid map is total on binary64: for every box of sane magnitude (2^-900 <= width <= scale <= 2^900,
   |anchor| <= 2^40 widths) and every position in the closed range [anchor - w, anchor + 2w] (the box, its mirror
   images, periodic images), no intermediate result overflows, the value lies in [1, 31/16] - so iloc's debug
   assertions hold - and its 52 mantissa bits, read as an integer, are (t - 1) * 2^52 in [0, 2^52) *)
From MV Require Import Proofs.GridRange Proofs.GridRangeB64 Proofs.GridBits Proofs.GridTotal.
From Flocq Require Import Core.

Theorem C10_iloc_in_range_binary64 : forall a W S x : f64,
  fin a = true -> fin W = true -> fin S = true -> fin x = true ->
  (0 < b2r W)%R -> (b2r W <= b2r S)%R -> (bpow radix2 (-900) <= b2r W)%R -> (b2r S <= bpow radix2 900)%R ->
  (Rabs (b2r a) <= 1099511627776 * b2r W)%R ->
  (b2r a - b2r W <= b2r x <= b2r a + 2 * b2r W)%R ->
  let ga := fsub a (fmul GRID_OFFSET W) in
  let gi := fdiv f_one (fmul GRID_SCALE S) in
  fin ga = true /\ fin gi = true /\ (0 <= b2r gi)%R /\ fin (tval ga gi x) = true /\
  (1 <= b2r (tval ga gi x) <= 31 / 16)%R.
Proof. exact iloc_in_range_b64. Qed.
Print Assumptions C10_iloc_in_range_binary64.

Theorem C10_grid_coordinate_total : forall a W S x : f64, sane_box a W S -> admissible a W x ->
  let '(_, _, ga, gi) := cuboid_axis a W S in
  t_in_range (tval ga gi x) = true /\ (0 <= iloc1 ga gi x < 2 ^ 52)%Z /\
  IZR (iloc1 ga gi x) = mant52 (b2r (tval ga gi x)).
Proof. exact grid_coordinate_total. Qed.
Print Assumptions C10_grid_coordinate_total.

Theorem C10_grid_coordinate_monotone : forall a W S x y : f64, sane_box a W S -> admissible a W x -> admissible a W y ->
  (b2r x <= b2r y)%R ->
  let '(_, _, ga, gi) := cuboid_axis a W S in (iloc1 ga gi x <= iloc1 ga gi y)%Z.
Proof. exact grid_coordinate_monotone. Qed.
Print Assumptions C10_grid_coordinate_monotone.

Import ListNotations.
(* non-vacuity: the unit box at the origin is sane, 0.5 is admissible, and its grid coordinate computes *)
Example C10_unit_box_is_sane : sane_box f_zero f_one f_one /\ admissible f_zero f_one f_half.
Proof. exact unit_box_sane. Qed.

Example C10_grid_example :
  let one := f_one in let zero := of_bits 0 in let half := of_bits 0x3FE0000000000000 in
  (iloc_case false 3 [to_bits zero; to_bits zero; to_bits zero] [to_bits one; to_bits one; to_bits one]
            [to_bits half; to_bits half; to_bits half]
  = [(0x3FF8000000000000, 0x8000000000000, true); (0x3FF8000000000000, 0x8000000000000, true);
     (0x3FF8000000000000, 0x8000000000000, true)])%Z.
Proof. vm_compute. reflexivity. Qed.
