(* C10 - The exact in-sphere predicate returns the true sign on the integer grid.
   Pinned statements only; proofs live in Proofs/. *)
From Coq Require Import ZArith Reals List.
From MV Require Import Model.Insphere Model.Grid Proofs.InsphereProofs Proofs.GridProofs Proofs.GridFlocq.
Open Scope Z_scope.

(* on the grid no i64 subtraction wraps: the model with two's-complement wrap equals the
   wrap-free one *)
Theorem C10_insphere_no_wrap : forall a b c d v : P3,
  in_grid a -> in_grid b -> in_grid c -> in_grid d -> in_grid v ->
  insphere_model a b c d v = insphere_nowrap a b c d v.
Proof. exact insphere_no_wrap. Qed.
Print Assumptions C10_insphere_no_wrap.

(* the cofactor expansion of the code equals the sign of the textbook 5x5 lifted determinant
   (generic Laplace expansion, an independent definition) for all grid points *)
Theorem C10_insphere_is_det : forall a b c d v : P3,
  in_grid a -> in_grid b -> in_grid c -> in_grid d -> in_grid v ->
  insphere_model a b c d v = Z.sgn (det5_lifted a b c d v).
Proof. exact insphere_is_det. Qed.
Print Assumptions C10_insphere_is_det.

(* for a positively oriented tetrahedron: a,b,c,d are on the circumsphere and the result is
   -1 / 0 / +1 iff v is strictly inside / on / strictly outside it (distances scaled by k>0) *)
Theorem C10_insphere_geometric : forall a b c d v : P3,
  in_grid a -> in_grid b -> in_grid c -> in_grid d -> in_grid v ->
  0 < orient3 a b c d ->
  let k := circum_k a b c d in let o := circum_o a b c d in
  let scaled p := (let '(x, y, z) := sub3 p a in (k * x, k * y, k * z)) in
  let dist2c p := n2 (sub3 (scaled p) o) in
  dist2c a = n2 o /\ dist2c b = n2 o /\ dist2c c = n2 o /\ dist2c d = n2 o /\
  (insphere_model a b c d v = -1 <-> dist2c v < n2 o) /\
  (insphere_model a b c d v = 0 <-> dist2c v = n2 o) /\
  (insphere_model a b c d v = 1 <-> dist2c v > n2 o).
Proof. exact insphere_geometric. Qed.
Print Assumptions C10_insphere_geometric.

(* consistency between cells (also used by C05): the answer only depends on the five points up
   to the orientation sign of their order *)
Theorem C10_insphere_alternating : forall a b c d v : P3,
  in_grid a -> in_grid b -> in_grid c -> in_grid d -> in_grid v ->
  insphere_model a c b d v = - insphere_model a b c d v /\
  insphere_model a c d b v = insphere_model a b c d v /\
  insphere_model b a c d v = - insphere_model a b c d v.
Proof.
  intros a b c d v Ha Hb Hc Hd Hv. split; [|split].
  - exact (insphere_swap_bc a b c d v Ha Hb Hc Hd Hv).
  - exact (insphere_rot_bcd a b c d v Ha Hb Hc Hd Hv).
  - exact (insphere_swap_ab a b c d v Ha Hb Hc Hd Hv).
Qed.
Print Assumptions C10_insphere_alternating.

(* the predicate is invariant under similarities (translation + one common positive scale factor) of the
   five points: evaluating it on grid images is equivalent to evaluating it on the positions iff the grid
   map rescales all active axes by the same factor (see Example anisotropic_scaling_changes_the_answer) *)
Theorem C10_insphere_similarity_invariant : forall (k : Z) (t a b c d v : P3), 0 < k ->
  insphere_nowrap (similar k t a) (similar k t b) (similar k t c) (similar k t d) (similar k t v)
  = insphere_nowrap a b c d v.
Proof. exact insphere_similarity_invariant. Qed.
Print Assumptions C10_insphere_similarity_invariant.

(* the grid map is monotone (real-number semantics of the three correctly rounded operations) *)
Theorem C10_iloc_real_monotone : forall A I x y : R,
  (0 <= I)%R -> (x <= y)%R -> (mant (T A I x) <= mant (T A I y))%R.
Proof. exact iloc_real_monotone. Qed.
Print Assumptions C10_iloc_real_monotone.

(* ... and the same at the binary64 level (Flocq): for the three IEEE operations the code
   executes, as long as no intermediate result overflows or is NaN, the value whose mantissa
   becomes the grid coordinate is monotone in the position *)
Theorem C10_tval_monotone_binary64 : forall A I x y : f64,
  (0 <= b2r I)%R -> (b2r x <= b2r y)%R ->
  fin (tval A I x) = true -> fin (tval A I y) = true ->
  (b2r (tval A I x) <= b2r (tval A I y))%R.
Proof. exact tval_monotone. Qed.
Print Assumptions C10_tval_monotone_binary64.
