(* C13 - integrator and direct routes agree; built-in integral lists reproduce the stored lists
   (structural model M-S: any cell geometry, any integral). *)
From Coq Require Import List Arith Bool.
From MV Require Import Model.Assemble Proofs.AssembleProofs.
Import ListNotations.

Theorem C13_from_integrator_eq_direct : forall geom n mask,
  (match mask with Some m => length m = n | None => True end) ->
  (forall i, i < n -> cell_in_range n (geom i)) ->
  build_via_integrator geom n mask = build_direct geom n mask.
Proof. exact from_integrator_eq_direct. Qed.
Print Assumptions C13_from_integrator_eq_direct.

Theorem C13_sym_is_filtered_nonsym : forall active cells,
  face_integrals_sym active cells = filter (fun f => negb (sym_skip_face active f)) (face_integrals cells).
Proof. exact sym_is_filtered_nonsym. Qed.
Print Assumptions C13_sym_is_filtered_nonsym.

Theorem C13_sym_integrals_are_face_list : forall active cells,
  Forall no_self_plane (constructed cells) ->
  face_integrals_sym active cells = all_faces (Some active) cells.
Proof. exact sym_integrals_are_face_list. Qed.
Print Assumptions C13_sym_integrals_are_face_list.

(* data[i] reaches the cell with generator index i under every mask (also used by C14) *)
Theorem C13_with_data_aligned : forall (D : Type) (cells : list (option scell)) (data : list D) d0,
  length data = length cells ->
  (forall i c, nth_error cells i = Some (Some c) -> sidx c = i) ->
  Forall (fun '(i, d) => d = nth i data d0) (cell_integrals_with_data cells data).
Proof. exact @cell_integrals_with_data_aligned. Qed.
Print Assumptions C13_with_data_aligned.
