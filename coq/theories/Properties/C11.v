(* C11 - all arbitrary-precision backends give identical results. *)
From Coq Require Import ZArith.
From MV Require Import Model.Insphere Model.Backend Proofs.BackendProofs.
Open Scope Z_scope.

(* for EVERY integer implementation whose from/add/sub/mul denote the integer operations, and for each of
   the three ways the code turns the determinant into a sign, the backend's predicate is the model's:
   all backends agree with each other on every input *)
Theorem C11_backend_eq_model :
  forall (B : Type) (val : B -> Z) (of_i64 : Z -> B) (badd bsub bmul : B -> B -> B) (bzero : B),
  (forall x, val (of_i64 x) = x) -> val bzero = 0 ->
  (forall x y, val (badd x y) = val x + val y) -> (forall x y, val (bsub x y) = val x - val y) ->
  (forall x y, val (bmul x y) = val x * val y) ->
  forall (signum : B -> B) (to_f64 : B -> Z),
  (forall x, val (signum x) = Z.sgn (val x)) -> (forall x, -1 <= val x <= 1 -> to_f64 x = val x) ->
  forall (sign_ordering : B -> comparison), (forall x, sign_ordering x = (val x ?= 0)) ->
  forall (sign_enum : B -> nb_sign),
  (forall x, sign_enum x = match val x ?= 0 with Lt => Minus | Eq => NoSign | Gt => Plus end) ->
  forall a b c d v : P3,
  let det := determinant_b B of_i64 badd bsub bmul bzero a b c d v in
  glue_signum B signum to_f64 det = insphere_model a b c d v /\
  glue_ordering B sign_ordering det = insphere_model a b c d v /\
  glue_enum B sign_enum det = insphere_model a b c d v.
Proof. exact backend_eq_model. Qed.
Print Assumptions C11_backend_eq_model.
