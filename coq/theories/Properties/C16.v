(* C16 - the safety radius bounds the cell and its region of influence (exact arithmetic). *)
From Coq Require Import ZArith List.
From MV Require Import Proofs.GeomLemmas.
Open Scope Z_scope.

(* any point v with 4 |v - g|^2 <= R^2 is strictly closer to g than to every q outside the ball of
   radius R around g: a generator beyond the safety radius cannot cut a cell all of whose points are
   within R/2 of g, wherever it is placed *)
Theorem C16_far_site_redundant : forall (g v q : P3) (R2 : Z),
  0 <= R2 -> 4 * d2 v g <= R2 -> R2 < d2 q g -> d2 v g < d2 v q.
Proof. exact far_site_redundant. Qed.
Print Assumptions C16_far_site_redundant.

Theorem C16_cauchy_schwarz : forall a1 a2 a3 b1 b2 b3 : Z,
  (a1 * b1 + a2 * b2 + a3 * b3) * (a1 * b1 + a2 * b2 + a3 * b3) <= sq3 a1 a2 a3 * sq3 b1 b2 b3.
Proof. exact cauchy_schwarz3. Qed.
Print Assumptions C16_cauchy_schwarz.

(* convexity of the squared distance along a segment: the farthest point of a segment from g is an
   end point (the step behind "the farthest point of a polytope is a vertex"); scaled by (a+b)^2 *)
Theorem C16_farthest_on_segment_is_endpoint : forall (g p q : P3) (a b : Z), 0 <= a -> 0 <= b -> 0 < a + b ->
  let '(p1, p2, p3) := p in let '(q1, q2, q3) := q in let '(g1, g2, g3) := g in
  sq3 (a * p1 + b * q1 - (a + b) * g1) (a * p2 + b * q2 - (a + b) * g2) (a * p3 + b * q3 - (a + b) * g3)
  <= (a + b) * (a + b) * Z.max (d2 p g) (d2 q g).
Proof. exact farthest_on_segment_is_endpoint. Qed.
Print Assumptions C16_farthest_on_segment_is_endpoint.

(* ---- the farthest point of the hull of the vertices is a vertex: every convex combination (non-negative integer weights,
   homogeneous coordinates) of points within squared distance rn/rd of g stays within that distance.  With
   C16_far_site_redundant: no site beyond twice the largest vertex distance can cut the hull of the vertices; what
   remains between this and the property for the cell itself is VerticesSpan (cell = hull of its vertices) *)
From MV Require Import Model.CellExact Proofs.HullProofs Proofs.HullRadius.
Theorem C16_hull_in_ball : forall (g : V3) (rn rd : Z), 0 <= rn -> 0 < rd -> forall l,
  Forall (fun '(lam, p) => 0 <= lam /\ 0 < snd p /\ rd * norm2 (hrel g p) <= snd p * snd p * rn) l ->
  rd * norm2 (hrel g (hcomb l)) <= snd (hcomb l) * snd (hcomb l) * rn /\ 0 <= snd (hcomb l).
Proof. exact hull_in_ball. Qed.
Print Assumptions C16_hull_in_ball.

(* at cell level (3D): every point of the hull of the vertices lies within the largest vertex distance of the generator,
   i.e. within half the reported safety radius (max_radius2 is what update_safety_radius computes, squared) *)
From MV Require Import Model.Cycle Proofs.HullSafety.
Theorem C16_hull_within_max_radius : forall g (vs : list vertex) l,
  Forall (fun v => 0 < snd (vloc v)) vs ->
  Forall (fun '(lam, p) => 0 <= lam /\ exists v, In v vs /\ p = vloc v) l ->
  let '(rn, rd) := max_radius2 3 g vs in
  0 < rd /\ rd * norm2 (hrel g (hcomb l)) <= snd (hcomb l) * snd (hcomb l) * rn.
Proof. exact hull_within_max_radius. Qed.
Print Assumptions C16_hull_within_max_radius.
