(* C14 - custom integrals receive an exact signed decomposition of the cell (chain level, Z^3). *)
From Coq Require Import ZArith List Permutation.
From MV Require Import Model.Assemble Proofs.AssembleProofs Proofs.GeomLemmas Proofs.Surface.
Import ListNotations.
Open Scope Z_scope.

(* the decomposition with the generator as apex is apex independent on closed surfaces: it is a signed
   decomposition of the enclosed region whatever the position of the generator (inside or on the cell) *)
Theorem C14_apex_independence : forall g h ts, closed ts -> cone6 g ts = cone6 h ts.
Proof. exact apex_independence. Qed.
Print Assumptions C14_apex_independence.

Theorem C14_five_point : forall p q r g h : P3,
  vol6 p q r g - vol6 p q r h = - (vol6 p q g h + vol6 q r g h + vol6 r p g h).
Proof. exact five_point. Qed.
Print Assumptions C14_five_point.

(* the base triangles of a closed surface have vector areas summing to zero (per face: they lie in the
   face's plane and their signed areas sum to the face area; summed over the cell: closure) *)
Theorem C14_closed_surface_area_sum : forall ts, closed ts ->
  zsum (map area2_x ts) = 0 /\ zsum (map area2_y ts) = 0 /\ zsum (map area2_z ts) = 0.
Proof. exact closed_surface_area_sum. Qed.
Print Assumptions C14_closed_surface_area_sum.

(* per-cell data: data[i] is handed to the cell with generator index i under every mask *)
Close Scope Z_scope.
Theorem C14_data_aligned : forall (D : Type) (cells : list (option scell)) (data : list D) d0,
  length data = length cells ->
  (forall i c, nth_error cells i = Some (Some c) -> sidx c = i) ->
  Forall (fun '(i, d) => d = nth i data d0) (cell_integrals_with_data cells data).
Proof. exact @cell_integrals_with_data_aligned. Qed.
Print Assumptions C14_data_aligned.
