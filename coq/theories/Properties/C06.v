(* C06 - periodic tessellation equals that of the infinitely replicated point set (exact lemmas). *)
From Coq Require Import ZArith List.
From MV Require Import Proofs.GeomLemmas.
Open Scope Z_scope.

(* per axis: a point that prefers g to its neighbouring images g +- w, and prefers the site image s to
   ITS neighbouring images s +- w, sees s within one period of g.  Hence in the tessellation of the
   infinite replication only images with lattice offsets in {-1,0,1} per axis can share a face with a
   generator of the box: the 3^d block of images the code enumerates is enough, for every box shape *)
Theorem C06_relevant_image_within_block : forall x g s w : Z, 0 < w ->
  (x - g) * (x - g) <= (x - g - w) * (x - g - w) -> (x - g) * (x - g) <= (x - g + w) * (x - g + w) ->
  (x - s) * (x - s) <= (x - s - w) * (x - s - w) -> (x - s) * (x - s) <= (x - s + w) * (x - s + w) ->
  - w <= s - g <= w.
Proof. exact relevant_image_within_block. Qed.
Print Assumptions C06_relevant_image_within_block.

(* comparing a site with its own image along one axis only involves that axis *)
Theorem C06_closer_axis : forall x y z sx sy sz w : Z,
  sq3 (x - sx) (y - sy) (z - sz) <= sq3 (x - (sx + w)) (y - sy) (z - sz) <->
  (x - sx) * (x - sx) <= (x - sx - w) * (x - sx - w).
Proof. exact closer_axis. Qed.
Print Assumptions C06_closer_axis.

(* the cell of g stays within half a period of g on a periodic axis: strictly inside the tripled box,
   so no wall of the tripled box can carry a face *)
Theorem C06_within_half_period : forall x g w : Z, 0 < w ->
  (x - g) * (x - g) <= (x - g - w) * (x - g - w) -> (x - g) * (x - g) <= (x - g + w) * (x - g + w) ->
  - w <= 2 * (x - g) <= w.
Proof. exact axis_half. Qed.
Print Assumptions C06_within_half_period.

(* distances are translation invariant: translating all generators translates every cell *)
Theorem C06_translation_invariant : forall x y t : P3,
  let '(x1, x2, x3) := x in let '(y1, y2, y3) := y in let '(t1, t2, t3) := t in
  d2 (x1 + t1, x2 + t2, x3 + t3) (y1 + t1, y2 + t2, y3 + t3) = d2 x y.
Proof. exact d2_translate. Qed.
Print Assumptions C06_translation_invariant.
