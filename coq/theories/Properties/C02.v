(* C02 - cells tile the domain.  Chain-level statements in exact arithmetic. *)
From Coq Require Import ZArith List Permutation.
From MV Require Import Proofs.GeomLemmas Proofs.Surface.
Import ListNotations.
Open Scope Z_scope.

(* five-point identity: moving the apex of a cone over a triangle changes it by the three side terms *)
Theorem C02_five_point : forall p q r g h : P3,
  vol6 p q r g - vol6 p q r h = - (vol6 p q g h + vol6 q r g h + vol6 r p g h).
Proof. exact five_point. Qed.
Print Assumptions C02_five_point.

(* the signed decomposition of a closed oriented surface into tetrahedra with a common apex gives the
   same total for every apex: cell volumes computed with the generator as apex are the volumes *)
Theorem C02_apex_independence : forall g h ts, closed ts -> cone6 g ts = cone6 h ts.
Proof. exact apex_independence. Qed.
Print Assumptions C02_apex_independence.

(* tiling from reciprocity: if the triangles of all cells, taken together, form a closed surface after
   removing the pairs of coinciding, oppositely oriented interior triangles - i.e. the union (as a list)
   is closed - then the sum of the cell cone sums, each with its own apex, equals the cone sum of the
   union with any single apex.  With the walls as the only unpaired faces this is the box volume. *)
Theorem C02_sum_of_cells_is_union : forall (cells : list (P3 * list tri)) (h : P3),
  Forall (fun c => closed (snd c)) cells ->
  zsum (map (fun c => cone6 (fst c) (snd c)) cells) = cone6 h (flat_map (fun c => snd c) cells).
Proof. exact sum_of_cells_is_union. Qed.
Print Assumptions C02_sum_of_cells_is_union.

(* interior triangles that occur once in each orientation cancel in the cone sum *)
Theorem C02_opposite_triangles_cancel : forall (h p q r : P3), vol6 p q r h + vol6 q p r h = 0.
Proof. exact opposite_triangles_cancel. Qed.
Print Assumptions C02_opposite_triangles_cancel.

(* 1D: cells are the intervals between consecutive midpoints; lengths telescope to the width
   (definitions cuts/lengths in Proofs/Surface.v; coordinates doubled to stay in Z) *)
Theorem C02_tiling_1d : forall lo2 hi2 xs,
  zsum (lengths lo2 (cuts lo2 hi2 xs)) = hi2 - lo2.
Proof. exact tiling_1d. Qed.
Print Assumptions C02_tiling_1d.

(* in 1D consecutive cells share their end point: the cells tile [lo, hi] without gap or overlap (with C02_tiling_1d) *)
From MV Require Import Proofs.OneD.
Theorem C02_neighbours_share_endpoint_1d : forall lo hi a b sites, a < b ->
  (forall s, In s sites -> s < a \/ b < s \/ s = a \/ s = b) -> In a sites -> In b sites -> lo <= a -> b <= hi ->
  right2 hi a sites = a + b /\ left2 lo b sites = a + b.
Proof. exact neighbours_share_endpoint_1d. Qed.
Print Assumptions C02_neighbours_share_endpoint_1d.
