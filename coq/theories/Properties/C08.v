(* C08 - 1D and 2D tessellations depend only on the active coordinates (exact lemmas). *)
From Coq Require Import ZArith List.
From MV Require Import Proofs.GeomLemmas.
Open Scope Z_scope.

(* sites in the plane z = 0: the nearest-site comparison of a point (x,y,z) does not involve z: the 3D
   cell of the slab is the product of the 2D cell with the slab's thickness *)
Theorem C08_slab_product : forall x y z gx gy sx sy : Z,
  sq3 (x - gx) (y - gy) (z - 0) <= sq3 (x - sx) (y - sy) (z - 0) <->
  (x - gx) * (x - gx) + (y - gy) * (y - gy) <= (x - sx) * (x - sx) + (y - sy) * (y - sy).
Proof. exact slab_product. Qed.
Print Assumptions C08_slab_product.

Theorem C08_line_product : forall x y z gx sx : Z,
  sq3 (x - gx) (y - 0) (z - 0) <= sq3 (x - sx) (y - 0) (z - 0) <-> (x - gx) * (x - gx) <= (x - sx) * (x - sx).
Proof. exact line_product. Qed.
Print Assumptions C08_line_product.

(* 1D closed form: between sorted neighbours the cell boundary is the midpoint (doubled coordinates) *)
Theorem C08_midpoint_1d : forall x g s : Z, g < s ->
  ((x - g) * (x - g) <= (x - s) * (x - s) <-> 2 * x <= g + s).
Proof. exact midpoint_1d. Qed.
Print Assumptions C08_midpoint_1d.
