(* C20 - auxiliary structures (pruning lemmas of the grid kNN; exact arithmetic). *)
From Coq Require Import ZArith List.
From MV Require Import Proofs.GeomLemmas.
Open Scope Z_scope.

(* the closest point of an axis-aligned cell to the query (per-axis clamp) is at least as close as any
   particle inside the cell: skipping a cell whose closest point is farther than the current k-th best
   cannot lose a neighbour *)
Theorem C20_skip_cell_safe : forall t lo hi pos : Z, lo <= pos <= hi ->
  (clamp t lo hi - t) * (clamp t lo hi - t) <= (pos - t) * (pos - t).
Proof. exact clamp_admissible. Qed.
Print Assumptions C20_skip_cell_safe.

(* ---- the ring-by-ring search of Space::knn (Model/Knn.v: bounded max-heap as a sorted list, cells skipped by
   their clamp bound, rings stopped by dist_to_face + r * min cell width) *)
From MV Require Import Model.Knn Proofs.KnnProofs.
From Coq Require Import Permutation Sorted Lia.
Import ListNotations.

(* whenever every cell bound is below its particles' distances and every ring bound is below the distances of
   all particles in later rings (rings_wf), the search returns, for every k, the k nearest candidates in
   increasing order of distance: sorted, of length min k n, and no candidate left out is closer than one returned *)
Theorem C20_knn_search_is_k_nearest : forall k rings, rings_wf rings ->
  let h := knn_search k rings in
  StronglySorted (fun a b => ckey a <= ckey b) h /\ length h = Nat.min k (length (all_cands rings)) /\
  exists rest, Permutation (all_cands rings) (h ++ rest) /\ forall a b, In a h -> In b rest -> ckey a <= ckey b.
Proof. exact knn_search_k_nearest. Qed.
Print Assumptions C20_knn_search_is_k_nearest.

(* equivalently: its distance sequence is the first k entries of the sorted list of all candidate distances
   (brute force), whatever the pruning did *)
Theorem C20_knn_search_is_brute_force : forall k rings, rings_wf rings ->
  map ckey (knn_search k rings) = firstn k (zsort (map ckey (all_cands rings))).
Proof. exact knn_search_is_brute_force. Qed.
Print Assumptions C20_knn_search_is_brute_force.

(* the ring bound is admissible on an ideal grid: a particle q in a cell j outside rings 0..r of the query's
   cell i is at least dist_to_face + r * (smallest cell width) away, for any cell widths (cubic or not) *)
Theorem C20_ring_bound : forall (w i j p q : kV3) (wmin r dtf : Z),
  (forall a, (a < 3)%nat -> 0 < wmin <= ax a w) -> 0 <= r ->
  in_cell w i p -> in_cell w j q -> below_face_dist w i p dtf -> beyond_ring i j r ->
  (dtf + r * wmin) * (dtf + r * wmin) <= kdist2 p q.
Proof. exact ring_bound. Qed.
Print Assumptions C20_ring_bound.

(* non-vacuity: a concrete query with two rings; the second ring is never visited for k = 1 *)
Example C20_knn_example :
  let rings := [(1, [{| glb := 0; gmembers := [(9, 1%nat); (4, 2%nat)] |}]);
                (5, [{| glb := 30; gmembers := [(36, 3%nat)] |}; {| glb := 25; gmembers := [(49, 4%nat)] |}])] in
  rings_wf rings /\ knn_search 1 rings = [(4, 2%nat)] /\ knn_search 3 rings = [(4, 2%nat); (9, 1%nat); (36, 3%nat)].
Proof.
  cbn [rings_wf]. repeat split; try (repeat constructor; cbn; lia); try reflexivity.
Qed.
