(* C20 - auxiliary structures (pruning lemmas of the grid kNN; exact arithmetic). *)
From Coq Require Import ZArith List.
From MV Require Import Proofs.GeomLemmas.
Open Scope Z_scope.

(* the closest point of an axis-aligned cell to the query (per-axis clamp) is at least as close as any
   particle inside the cell: skipping a cell whose closest point is farther than the current k-th best
   cannot lose a neighbour *)
Theorem C20_skip_cell_safe : forall t lo hi pos : Z, lo <= pos <= hi ->
  (clamp t lo hi - t) * (clamp t lo hi - t) <= (pos - t) * (pos - t).
Proof. exact clamp_admissible. Qed.
Print Assumptions C20_skip_cell_safe.
