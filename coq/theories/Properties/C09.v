(* C09 - results are a pure function of the input, independent of the thread schedule
   (pipeline model M-P; the pipelines of voronoi.rs are re-extracted from the source on every run into
   C09_gen.v, which must type-check against this DSL and satisfy wf_pipeline). *)
From Coq Require Import List Arith Permutation.
From MV Require Import Model.Par Proofs.ParProofs.
Import ListNotations.

(* for every pipeline of order-preserving stages in which index-dependent stages (enumerate, zip) precede
   every length-changing stage, every binary split of the index range and every chunk offset: processing
   the chunks independently and concatenating by position equals the sequential result *)
Theorem C09_par_eq_seq : forall (U : Type) (p : list (stage U)), wf_pipeline U true p = true ->
  forall (t : split) (o : nat) (l : list U), zips_fit U p o (length l) -> par_sem U p o l t = sem U p o l.
Proof. exact par_eq_seq. Qed.
Print Assumptions C09_par_eq_seq.

(* chunks of a non-indexed pipeline do not even need their offset *)
Theorem C09_chunks_independent : forall (U : Type) (p : list (stage U)), wf_pipeline U false p = true ->
  forall o o' a b, sem U p o (a ++ b) = sem U p o a ++ sem U p o' b.
Proof. exact sem_app_unindexed. Qed.
Print Assumptions C09_chunks_independent.

(* placing a finished chunk by its position is insensitive to the completion order *)
Theorem C09_insert_by_position : forall (U : Type) (x : nat * list U) (l : list (nat * list U)),
  Permutation (insert_by_pos U x l) (x :: l).
Proof. exact insert_perm. Qed.
Print Assumptions C09_insert_by_position.

Example C09_example :
  let p := [Enumerate (fun i x => i * 100 + x); Map (fun x => x + 1); FilterMap (fun x => if Nat.even x then Some x else None)] in
  wf_pipeline nat true p = true /\
  par_sem nat p 0 [1; 2; 3; 4; 5; 6; 7] (Node 3 (Node 1 Leaf Leaf) (Node 2 Leaf Leaf)) = sem nat p 0 [1; 2; 3; 4; 5; 6; 7].
Proof. split; reflexivity. Qed.
