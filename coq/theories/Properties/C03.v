(* C03 - faces are reciprocal and stored once (exact lemma for reciprocity + structural model). *)
From Coq Require Import ZArith List Arith Bool.
From MV Require Import Model.Assemble Proofs.AssembleProofs Proofs.GeomLemmas.
Import ListNotations.
Close Scope Z_scope.

(* a point of cell i that lies on the bisector towards j belongs to cell j: both sides see the same face *)
Theorem C03_face_reciprocal : forall (x gi gj : P3) (sites : list P3),
  d2 x gi = d2 x gj -> (forall s, In s sites -> (d2 x gi <= d2 x s)%Z) -> (forall s, In s sites -> (d2 x gj <= d2 x s)%Z).
Proof. exact face_reciprocal. Qed.
Print Assumptions C03_face_reciprocal.

(* stored once: in the compact face list of well-formed cells no two unshifted interior faces join the
   same pair of generators and none joins a generator with itself (any mask) *)
Theorem C03_stored_once : forall mask cs, cells_ok mask cs -> faces_wf (flat_map (cell_faces mask) cs).
Proof. exact all_faces_wf. Qed.
Print Assumptions C03_stored_once.

(* listed by both: an unshifted interior face is listed exactly by its left and its right cell *)
Theorem C03_listed_by_both : forall n fs c i, Forall (in_range n) fs -> c < n -> i < length fs ->
  count_occ Nat.eq_dec (face_indices (finalize n fs) c) i =
    (if is_left fs i c then 1 else 0) + (if is_unshifted_right fs i c then 1 else 0).
Proof. exact listed_iff. Qed.
Print Assumptions C03_listed_by_both.

(* ---- reciprocity of a shared face, from the converse of C01: a vertex of cell i that lies on the bisector towards j
   and satisfies all bisectors of i (C01_vertices_feasible_any_dim) is equidistant from i and j and at least as close to j
   as to every other site: the vertices of the face i -> j lie in the nearest-generator region of j as well *)
From MV Require Import Model.Cycle Model.CellExact Proofs.CellProofs Proofs.HullProofs Proofs.SharedFace.
Theorem C03_face_vertex_in_both_regions : forall g sj sites p,
  (forall s, In s sites -> closer g s p) -> lin (bisector g sj) p = 0 ->
  hdist2 (site_pos sj) p = hdist2 g p /\ forall s, In s sites -> hdist2 (site_pos sj) p <= hdist2 (site_pos s) p.
Proof. exact face_vertex_in_both_regions. Qed.
Print Assumptions C03_face_vertex_in_both_regions.
