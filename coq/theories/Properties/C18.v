(* C18 - clipping a cell is independent of vertex storage order (combinatorial model M-C).
   Chains: integer combinations of directed edges with (b,a) = -(a,b); pchain p a b is the coefficient of
   (a,b) in the cycle stored in the pointer array p; sum_chain vs is the sum of the boundary chains of the
   (dual) triangles vs. *)
From Coq Require Import List Arith ZArith Permutation.
From MV Require Import Model.Cycle Proofs.CycleProofs.
Import ListNotations.
Open Scope Z_scope.

(* one successful try_extend adds exactly the boundary chain of the offered triangle, whichever of its
   rotations matched and whichever of the two rules applied *)
Theorem C18_try_extend_adds_triangle : forall c a b d c', in_range_tri c a b d ->
  cyc_try_extend c a b d = Some c' ->
  forall x y, pchain (ptrs c') x y = pchain (ptrs c) x y + tchain a b d x y.
Proof. exact cyc_try_extend_chain. Qed.
Print Assumptions C18_try_extend_adds_triangle.

(* compute_boundary (the greedy search with its swaps), started on a clean cycle: if it succeeds, the
   resulting cycle is the boundary chain of ALL removed triangles *)
Theorem C18_boundary_is_chain_of_removed : forall (V : Type) (vdual : V -> dual) (vdefault : V) c vs c' vs',
  clean c -> length (cyc_reset (clen c) (ptrs c) (cstart c)) = length (ptrs c) ->
  duals_in_range V vdual (length (ptrs c)) vs ->
  Forall (fun v => let '(a, b, d) := vdual v in a <> b /\ b <> d /\ d <> a) vs ->
  compute_boundary V vdual vdefault c vs = Some (c', vs') ->
  forall x y, pchain (ptrs c') x y = sum_chain V vdual vs x y.
Proof. exact compute_boundary_chain. Qed.
Print Assumptions C18_boundary_is_chain_of_removed.

(* the right-hand side does not depend on the storage order of the removed vertices ... *)
Theorem C18_sum_chain_permutation_invariant : forall (V : Type) (vdual : V -> dual) a b,
  Permutation a b -> forall x y, sum_chain V vdual a x y = sum_chain V vdual b x y.
Proof. exact sum_chain_perm. Qed.
Print Assumptions C18_sum_chain_permutation_invariant.

(* ... nor on the rotation of each vertex's plane triple *)
Theorem C18_vertex_chain_rotation_invariant : forall (V : Type) (vdual : V -> dual) (v w : V),
  vdual w = rot_dual (vdual v) -> forall x y, vchain V vdual w x y = vchain V vdual v x y.
Proof. exact vchain_rot. Qed.
Print Assumptions C18_vertex_chain_rotation_invariant.

(* hence: two arrangements with the same chain sum (e.g. a permutation with rotated triples), if both succeed,
   produce cycles carrying the same chain *)
Theorem C18_clip_order_independent : forall (V : Type) (vdual : V -> dual) (vdefault : V) c vs1 vs2 c1 vs1' c2 vs2',
  clean c -> length (cyc_reset (clen c) (ptrs c) (cstart c)) = length (ptrs c) ->
  duals_in_range V vdual (length (ptrs c)) vs1 -> duals_in_range V vdual (length (ptrs c)) vs2 ->
  Forall (fun v => let '(a, b, d) := vdual v in a <> b /\ b <> d /\ d <> a) vs1 ->
  Forall (fun v => let '(a, b, d) := vdual v in a <> b /\ b <> d /\ d <> a) vs2 ->
  (forall x y, sum_chain V vdual vs1 x y = sum_chain V vdual vs2 x y) ->
  compute_boundary V vdual vdefault c vs1 = Some (c1, vs1') ->
  compute_boundary V vdual vdefault c vs2 = Some (c2, vs2') ->
  forall x y, pchain (ptrs c1) x y = pchain (ptrs c2) x y.
Proof. exact clip_order_independent. Qed.
Print Assumptions C18_clip_order_independent.

(* and the chain determines the cycle: two pointer arrays without 2-cycles carrying the same chain have the
   same successor for every member, i.e. the same directed boundary edges (cur -> next), hence the same new
   vertices (cur, next, p) *)
Theorem C18_chain_determines_edges : forall p q a b, length p = length q ->
  no_two_cycle p -> no_two_cycle q -> (forall x y, pchain p x y = pchain q x y) ->
  (a < length p)%nat -> (b < length p)%nat -> a <> b -> ptr p a = b -> ptr q a = b.
Proof. exact chain_determines_edges. Qed.
Print Assumptions C18_chain_determines_edges.

(* a fresh cycle is clean (the hypothesis above is satisfiable; the code's init relies on the previous cycle
   being a proper cycle so that its reset loop restores the clean state) *)
Theorem C18_fresh_cycle_clean : forall n, clean (cyc_new n) /\
  length (cyc_reset (clen (cyc_new n)) (ptrs (cyc_new n)) (cstart (cyc_new n))) = length (ptrs (cyc_new n)).
Proof. exact cyc_new_clean. Qed.
Print Assumptions C18_fresh_cycle_clean.

(* non-vacuity: the crate's own unit-test example (simple_cycle.rs, test_extend) succeeds in the model and
   leaves the boundary 2 -> 4 -> 6 -> 5 *)
Example C18_example :
  let tris := [(2, 4, 1); (1, 5, 2); (5, 1, 3); (5, 3, 6); (3, 4, 6); (4, 3, 1)]%nat in
  match compute_boundary dual (fun d => d) (0, 0, 0)%nat (cyc_new 7) tris with
  | Some (c, _) => cyc_iter c (clen c) = [2; 4; 6; 5]%nat
  | None => False
  end.
Proof. vm_compute. reflexivity. Qed.

(* ---- the hypothesis `clean` is an invariant: the pointer array always represents a simple cycle ---- *)
From MV Require Import Proofs.CycleInv.

(* Inv c: there is a duplicate-free list l of in-range nodes, of length clen, containing cstart, such that
   every node of l points to the next one (the last to the first) and every other entry points to itself *)
Theorem C18_fresh_cycle_is_proper : forall n, Inv (cyc_new n).
Proof. exact inv_new. Qed.
Print Assumptions C18_fresh_cycle_is_proper.

Theorem C18_try_extend_keeps_cycle_proper : forall c a b d c', Inv c -> in_range_tri c a b d ->
  a <> b -> b <> d -> d <> a -> cyc_try_extend c a b d = Some c' -> Inv c'.
Proof. exact cyc_try_extend_inv. Qed.
Print Assumptions C18_try_extend_keeps_cycle_proper.

(* a whole combinatorial clip (partition loop with its swaps, grow, init with its reset loop, greedy
   boundary search) maps proper cycles to proper cycles *)
Theorem C18_clip_keeps_cycle_proper : forall (V : Type) (vdual : V -> dual) (vdefault : V) c removed vs p_idx c' kept nd,
  Inv c -> duals_in_range V vdual (length (ptrs c)) vs -> distinct_duals V vdual vs ->
  clip_comb V vdual vdefault c removed vs p_idx = Some (c', kept, nd) -> Inv c'.
Proof. exact clip_comb_inv. Qed.
Print Assumptions C18_clip_keeps_cycle_proper.

(* and on a proper cycle the reset loop of `init` restores the all-self array: `clean` holds at every clip
   of a construction that starts from the fresh cycle of the initial box *)
Theorem C18_proper_cycle_is_clean : forall c, Inv c ->
  clean c /\ length (cyc_reset (clen c) (ptrs c) (cstart c)) = length (ptrs c).
Proof. exact inv_clean. Qed.
Print Assumptions C18_proper_cycle_is_clean.

From Coq Require Import ZArith List Arith.
From MV Require Import Model.Cycle Proofs.CycleProofs Proofs.CycleInv Proofs.CycleClosed.
Import ListNotations.

(* the fan of new triangles (cur, next, p) around the boundary cycle has the cycle as its boundary: the telescoping sum
   over the closed walk cancels everything that involves the new plane p *)
Theorem C18_fan_boundary_is_cycle : forall c q x y, Inv c -> (0 < clen c)%nat ->
  (x < length (ptrs c))%nat -> (y < length (ptrs c))%nat ->
  dsum (fan q (cyc_iter c (S (clen c)))) x y = pchain (ptrs c) x y.
Proof. exact fan_boundary. Qed.
Print Assumptions C18_fan_boundary_is_cycle.

(* hence a clip maps a closed oriented surface of dual triangles to a closed oriented surface, whatever the order of the
   vertices; the new triangles only mention existing planes and the new one *)
Theorem C18_clip_preserves_closed_surface : forall (V : Type) (vdual : V -> dual) (vdefault : V) c removed vs p_idx c' kept nd,
  Inv c -> duals_in_range V vdual (length (ptrs c)) vs -> distinct_duals V vdual vs ->
  p_idx = length (ptrs c) ->
  clip_comb V vdual vdefault c removed vs p_idx = Some (c', kept, nd) ->
  closed_surface (map vdual vs) ->
  closed_surface (map vdual kept ++ nd) /\ Forall (dual_lt (length (ptrs c'))) (map vdual kept ++ nd).
Proof. exact clip_preserves_closed_surface. Qed.
Print Assumptions C18_clip_preserves_closed_surface.

(* ... every new triangle has three distinct planes, and the cycle array grew by exactly the new plane *)
Theorem C18_clip_shape : forall (V : Type) (vdual : V -> dual) (vdefault : V) c removed vs p_idx c' kept nd,
  Inv c -> duals_in_range V vdual (length (ptrs c)) vs -> distinct_duals V vdual vs ->
  p_idx = length (ptrs c) ->
  clip_comb V vdual vdefault c removed vs p_idx = Some (c', kept, nd) ->
  (nd <> [] -> length (ptrs c') = S (length (ptrs c))) /\ Forall dual_distinct (map vdual kept ++ nd).
Proof. exact clip_comb_shape. Qed.
Print Assumptions C18_clip_shape.
