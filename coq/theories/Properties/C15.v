(* C15 - extracted vertices and face polygons form a valid convex polytope. *)
From Coq Require Import ZArith List.
From MV Require Import Model.Cycle Model.CellExact Proofs.CellProofs.
Import ListNotations.
Open Scope Z_scope.

(* every vertex is the intersection of its three listed planes (Cramer, exact, any three planes) *)
Theorem C15_vertex_on_its_planes : forall ps d,
  let v := vertex_from_dual ps d in
  let '(i, j, k) := d in
  side (getp ps i) (vloc v) = 0 /\ side (getp ps j) (vloc v) = 0 /\ side (getp ps k) (vloc v) = 0.
Proof. exact vertex_on_its_planes. Qed.
Print Assumptions C15_vertex_on_its_planes.
