(* C15 - extracted vertices and face polygons form a valid convex polytope. *)
From Coq Require Import ZArith List.
From MV Require Import Model.Cycle Model.CellExact Proofs.CellProofs.
Import ListNotations.
Open Scope Z_scope.

(* every vertex is the intersection of its three listed planes (Cramer, exact, any three planes) *)
Theorem C15_vertex_on_its_planes : forall ps d,
  let v := vertex_from_dual ps d in
  let '(i, j, k) := d in
  side (getp ps i) (vloc v) = 0 /\ side (getp ps j) (vloc v) = 0 /\ side (getp ps k) (vloc v) = 0.
Proof. exact vertex_on_its_planes. Qed.
Print Assumptions C15_vertex_on_its_planes.

From Coq Require Import ZArith List Arith.
From MV Require Import Model.Cycle Model.CellExact Proofs.CycleProofs Proofs.CycleInv Proofs.CycleClosed Proofs.CellClosed.
Import ListNotations.

(* combinatorial well-formedness of every cell the exact model builds (all inputs, all dimensionalities, any number of
   sites): every vertex is the intersection of three DISTINCT planes of the cell, and the dual triangles form a closed
   oriented surface - each directed edge (i -> j) of a dual triangle is matched by (j -> i): every edge of the cell joins
   exactly as many vertices from one side as from the other *)
Theorem C15_built_cells_are_well_formed : forall dim lo hi g sites c,
  build dim lo hi g sites = Some c ->
  Inv (ccycle c) /\ length (ptrs (ccycle c)) = length (cplanes c) /\
  Forall (fun v => let '(a, b, d) := vd v in (a < length (cplanes c) /\ b < length (cplanes c) /\ d < length (cplanes c))%nat) (cverts c) /\
  Forall (fun v => let '(a, b, d) := vd v in a <> b /\ b <> d /\ d <> a) (cverts c) /\
  (forall x y, dsum (map vd (cverts c)) x y = 0%Z).
Proof. exact build_wf. Qed.
Print Assumptions C15_built_cells_are_well_formed.

Theorem C15_initial_box_is_closed : forall x y, dsum init_duals x y = 0%Z.
Proof. exact init_closed. Qed.
Print Assumptions C15_initial_box_is_closed.

(* non-vacuity: a two-generator cell *)
Example C15_wf_example :
  exists c, build 3 (0,0,0)%Z (8,8,8)%Z (2,2,2)%Z [(1, 0, (6,6,6))%Z] = Some c /\ length (cverts c) = 10%nat.
Proof. eexists. split; vm_compute; reflexivity. Qed.

(* ---- with_faces / sort_face_vertices (the transcription compared with the implementation on every 3D cell):
   the walk around a face only reorders the face's vertex list - no vertex lost or duplicated, first vertex fixed - and
   every vertex it places shares, with its predecessor, the plane the walk was looking for: consecutive vertices are
   joined by an edge of the face (the last vertex is placed by elimination, exactly as in the code) *)
From Coq Require Import Permutation.
From MV Require Import Proofs.FaceWalk.

Theorem C15_face_walk_is_permutation : forall vs p vi vi', sort_face_vertices vs p vi = Some vi' ->
  Permutation vi vi' /\ hd_error vi' = hd_error vi.
Proof. exact sort_face_vertices_perm. Qed.
Print Assumptions C15_face_walk_is_permutation.

Theorem C15_face_walk_follows_edges : forall vs p vi vi', sort_face_vertices vs p vi = Some vi' ->
  forall k, (S k < pred (length vi'))%nat ->
  dual_has (vd (nth (nth (S k) vi' 0%nat) vs vdefault)) (np_of vs p (nth k vi' 0%nat)) = true.
Proof. exact sort_face_vertices_walk. Qed.
Print Assumptions C15_face_walk_follows_edges.

(* ---- the walk closes up.  Hypothesis `surfaceb` (decidable, evaluated by the extracted model on the duals of every cell whose face lists
   are compared with the implementation's; counted in the evidence): the planes of every dual triangle are distinct and every directed edge
   of every triangle occurs exactly once, as does its reverse (a closed oriented surface without repeated edges).  Then in the sorted
   vertex list of every face each vertex and its CYCLIC successor - including the pair placed by elimination and the pair (last, first) -
   lie on the face's plane and on one more common plane, the one the walk was looking for: the list is a closed polygon of edges *)
From MV Require Import Proofs.FaceClose.

Theorem C15_face_walk_closes_up : forall vs p vi', surfaceb (map vd vs) = true ->
  sort_face_vertices vs p (face_vertex_list vs p) = Some vi' ->
  forall k, (k < length vi')%nat ->
  dual_has (vd (nth (nth (S k mod length vi') vi' 0%nat) vs vdefault)) (np_of vs p (nth k vi' 0%nat)) = true /\
  dual_has (vd (nth (nth k vi' 0%nat) vs vdefault)) (np_of vs p (nth k vi' 0%nat)) = true /\
  np_of vs p (nth k vi' 0%nat) <> p.
Proof. exact face_walk_cyclic_adjacent. Qed.
Print Assumptions C15_face_walk_closes_up.

Theorem C15_surfaceb_means_closed_simple_surface : forall ds, surfaceb ds = true ->
  Forall ddist ds /\ closed_surface ds /\ simple ds.
Proof. exact surfaceb_spec. Qed.
Print Assumptions C15_surfaceb_means_closed_simple_surface.

(* non-vacuity: the duals of the initial box satisfy the hypothesis, and its faces are sorted *)
Example C15_surfaceb_example : surfaceb init_duals = true /\
  exists l, sort_face_vertices (map (fun d => mkVertex d hdefault) init_duals) 0 (face_vertex_list (map (fun d => mkVertex d hdefault) init_duals) 0) = Some l /\ length l = 4%nat.
Proof. split; [vm_compute; reflexivity|]. eexists. split; vm_compute; reflexivity. Qed.

From MV Require Import Proofs.EdgeCount.
(* half of Euler's relation, for every cell whose duals pass the decidable surface test (evaluated per compared cell by the extracted model):
   each undirected edge is used by exactly two dual triangles, once per direction, so 3 V = 2 E; with V - E + F = 2 (checked on the
   implementation's output per cell) the face count is F = V / 2 + 2 *)
Theorem C15_three_V_is_two_E : forall ds : list dual, surfaceb ds = true ->
  length (filter up (dedges ds)) = length (filter down (dedges ds)) /\
  (3 * length ds = 2 * length (filter up (dedges ds)))%nat.
Proof. exact three_V_is_two_E. Qed.
Print Assumptions C15_three_V_is_two_E.

(* non-vacuity: the initial box has 8 vertices and 12 edges *)
Example C15_edge_count_example : surfaceb init_duals = true /\ length init_duals = 8%nat /\ length (filter up (dedges init_duals)) = 12%nat.
Proof. repeat split; vm_compute; reflexivity. Qed.
