(* C01 - placeholder header; theorems are added below as they are proved. *)
From Coq Require Import ZArith List.
From MV Require Import Model.CellExact.
