(* C01 - every cell is the nearest-generator region of its generator (exact model M-Q). *)
From Coq Require Import ZArith List.
From MV Require Import Model.Cycle Model.CellExact Proofs.CellProofs.
Import ListNotations.
Open Scope Z_scope.

(* every plane of a built cell is a wall of the box or the bisector of g and one of the given sites
   (with that site's id and shift) *)
Theorem C01_planes_are_bisectors : forall dim lo hi g sites c,
  build dim lo hi g sites = Some c ->
  Forall (plane_of_input lo hi g sites) (cplanes c).
Proof. exact planes_are_bisectors. Qed.
Print Assumptions C01_planes_are_bisectors.

(* no spurious cut: every (rational, homogeneous W>0) point of the box that is at least as close to g
   as to every site satisfies all half spaces of the built cell - for every site order and every
   stopping point of the loop *)
Theorem C01_cell_superset_voronoi : forall dim lo hi g sites c p,
  build dim lo hi g sites = Some c -> 0 < snd p ->
  voronoi_region lo hi g sites p -> in_planes (cplanes c) p.
Proof. exact cell_superset_voronoi. Qed.
Print Assumptions C01_cell_superset_voronoi.

Theorem C01_oracle_superset_voronoi : forall lo hi g sites c p,
  build_all lo hi g sites = Some c -> 0 < snd p ->
  voronoi_region lo hi g sites p -> in_planes (cplanes c) p.
Proof. exact build_all_superset_voronoi. Qed.
Print Assumptions C01_oracle_superset_voronoi.

(* the bisector half space is exactly "at least as close to g as to s" *)
Theorem C01_bisector_is_closer : forall g s p, 0 < snd p ->
  (0 <= side (bisector g s) p <-> closer g s p).
Proof. exact bisector_side. Qed.
Print Assumptions C01_bisector_is_closer.

(* every vertex is the intersection of its three planes (Cramer, exact) *)
Theorem C01_vertex_on_its_planes : forall ps d,
  let v := vertex_from_dual ps d in
  let '(i, j, k) := d in
  side (getp ps i) (vloc v) = 0 /\ side (getp ps j) (vloc v) = 0 /\ side (getp ps k) (vloc v) = 0.
Proof. exact vertex_on_its_planes. Qed.
Print Assumptions C01_vertex_on_its_planes.

(* ---- the converse inclusion, up to VerticesSpan: every convex combination (non-negative integer weights, homogeneous
   coordinates) of the vertices of a cell that passes the exact per-run check `vertices_feasible` is at least as close to
   the generator as to every site.  With C01_cell_superset_voronoi:
       hull(vertices)  <=  nearest-generator region  <=  polytope(planes),
   and the three coincide iff the polytope is the hull of the maintained vertices - the one geometric fact not proved *)
From MV Require Import Proofs.HullProofs.
Theorem C01_hull_of_vertices_in_region : forall g sites c l,
  vertices_feasible g sites c = true ->
  Forall (fun '(lam, p) => 0 <= lam /\ 0 < snd p /\ exists v, In v (cverts c) /\ p = vloc v) l ->
  Exists (fun '(lam, _) => 0 < lam) l ->
  forall s, In s sites -> closer g s (hcomb l).
Proof. exact hull_in_region. Qed.
Print Assumptions C01_hull_of_vertices_in_region.

(* ---- one dimension, completely (the closed form the C08 check compares the 1D implementation with): inside [lo, hi]
   the nearest-generator region of g is exactly the interval between the largest midpoint on its left and the smallest
   midpoint on its right (doubled coordinates) *)
From MV Require Import Proofs.OneD.
Theorem C01_voronoi_1d : forall lo hi g sites x, ~ In g sites ->
  ((lo <= x <= hi /\ forall s, In s sites -> (x - g) * (x - g) <= (x - s) * (x - s)) <->
   left2 lo g sites <= 2 * x <= right2 hi g sites).
Proof. exact voronoi_1d. Qed.
Print Assumptions C01_voronoi_1d.

(* ---- the converse for every regular 3D construction, including the sites never looked at: every vertex of the built cell
   is at least as close to the generator as to EVERY site (and inside the box), provided the sites are ordered by distance
   (what the neighbour search guarantees, C17) and the construction is regular - a decidable predicate evaluated by the
   extracted model for every compared cell (`build_regularb`): every created vertex has three linearly independent
   planes, no boundary cycle has fewer than three edges, a cell returned unchanged had no vertex to remove.
   Proof idea: a new vertex (a, b, q) is the crossing of the edge a /\ b between a kept and a removed vertex with q (their
   existence follows from the closed-surface invariant), hence a non-negative combination of two feasible points;
   sites beyond the safety radius cannot cut anything inside it (C16). *)
From Coq Require Import Sorted.
From MV Require Import Proofs.Feasible.
Theorem C01_vertices_feasible_3d : forall lo hi g sites c,
  (let '(lx, ly, lz) := lo in let '(hx, hy, hz) := hi in lx < hx /\ ly < hy /\ lz < hz) ->
  StronglySorted (fun a b => dist2 g a <= dist2 g b) sites ->
  build_regular 3 g sites 0 (cell_init lo hi) -> build 3 lo hi g sites = Some c ->
  Forall (fun v => 0 < snd (vloc v) /\ Forall (fun r => 0 <= side r (vloc v)) (walls lo hi) /\
                   forall s, In s sites -> 0 <= side (bisector g s) (vloc v)) (cverts c).
Proof. exact build_vertices_feasible_3d. Qed.
Print Assumptions C01_vertices_feasible_3d.

Theorem C01_hull_in_region_3d : forall lo hi g sites c l,
  (let '(lx, ly, lz) := lo in let '(hx, hy, hz) := hi in lx < hx /\ ly < hy /\ lz < hz) ->
  StronglySorted (fun a b => dist2 g a <= dist2 g b) sites ->
  build_regular 3 g sites 0 (cell_init lo hi) -> build 3 lo hi g sites = Some c ->
  Forall (fun '(lam, p) => 0 <= lam /\ exists v, In v (cverts c) /\ p = vloc v) l ->
  Exists (fun '(lam, _) => 0 < lam) l ->
  forall s, In s sites -> closer g s (hcomb l).
Proof. exact build_hull_in_region_3d. Qed.
Print Assumptions C01_hull_in_region_3d.

Theorem C01_regularity_is_decidable : forall dim g sites prev c,
  build_regularb dim g sites prev c = true -> build_regular dim g sites prev c.
Proof. exact build_regularb_spec. Qed.
Print Assumptions C01_regularity_is_decidable.

(* non-vacuity: a regular two-generator construction *)
Example C01_regular_example :
  build_regularb 3 (2,2,2) [(1, 0, (6,6,6))] 0 (cell_init (0,0,0) (8,8,8)) = true.
Proof. vm_compute. reflexivity. Qed.

(* ... and in every dimensionality: the unused coordinates of the generator and of the sites are zero (projected away by
   the code; the correspondence feeds the model the projected positions), the safety radius is measured in the active ones *)
From MV Require Import Proofs.FeasibleDim.
Theorem C01_vertices_feasible_any_dim : forall dim lo hi g sites c,
  (let '(lx, ly, lz) := lo in let '(hx, hy, hz) := hi in lx < hx /\ ly < hy /\ lz < hz) ->
  flat dim g -> Forall (fun s => flat dim (site_pos s)) sites ->
  StronglySorted (fun a b => dist2 g a <= dist2 g b) sites ->
  build_regular dim g sites 0 (cell_init lo hi) -> build dim lo hi g sites = Some c ->
  Forall (fun v => 0 < snd (vloc v) /\ Forall (fun r => 0 <= side r (vloc v)) (walls lo hi) /\
                   forall s, In s sites -> 0 <= side (bisector g s) (vloc v)) (cverts c).
Proof. exact build_vertices_feasible. Qed.
Print Assumptions C01_vertices_feasible_any_dim.

Theorem C01_hull_in_region_any_dim : forall dim lo hi g sites c l,
  (let '(lx, ly, lz) := lo in let '(hx, hy, hz) := hi in lx < hx /\ ly < hy /\ lz < hz) ->
  flat dim g -> Forall (fun s => flat dim (site_pos s)) sites ->
  StronglySorted (fun a b => dist2 g a <= dist2 g b) sites ->
  build_regular dim g sites 0 (cell_init lo hi) -> build dim lo hi g sites = Some c ->
  Forall (fun '(lam, p) => 0 <= lam /\ exists v, In v (cverts c) /\ p = vloc v) l ->
  Exists (fun '(lam, _) => 0 < lam) l ->
  forall s, In s sites -> closer g s (hcomb l).
Proof. exact build_hull_in_region. Qed.
Print Assumptions C01_hull_in_region_any_dim.
