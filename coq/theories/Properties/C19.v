(* C19 - public geometry helpers satisfy their defining equations (exact arithmetic; the floating-point
   functions are compared with these formulas by the correspondence run). *)
From Coq Require Import ZArith Reals.
From MV Require Import Model.CellExact Proofs.CellProofs Proofs.HelperProofs.
Open Scope Z_scope.

Theorem C19_intersect_planes_on_planes : forall p0 p1 p2 : plane,
  let v := intersect p0 p1 p2 in side p0 v = 0 /\ side p1 v = 0 /\ side p2 v = 0.
Proof. exact intersect_on_planes. Qed.
Print Assumptions C19_intersect_planes_on_planes.

Theorem C19_project_on_plane : forall n p x : V3, dot n (proj_scaled n p x) = norm2 n * dot n p.
Proof. exact project_on_plane. Qed.
Print Assumptions C19_project_on_plane.

Theorem C19_project_along_normal : forall n p x : V3,
  cross (vsub (proj_scaled n p x) (vscale (norm2 n) x)) n = (0, 0, 0).
Proof. exact project_along_normal. Qed.
Print Assumptions C19_project_along_normal.

Theorem C19_project_idempotent : forall n p y : V3, dot n y = dot n p -> proj_scaled n p y = vscale (norm2 n) y.
Proof. exact project_idempotent. Qed.
Print Assumptions C19_project_idempotent.

Theorem C19_project_onto_intersection : forall (p0 p1 : plane) (x : V3),
  let y := project_onto_line p0 p1 x in
  side p0 y = 0 /\ side p1 y = 0 /\
  side (mkPlane (cross (pn p0) (pn p1)) (dot (cross (pn p0) (pn p1)) x) None 0) y = 0.
Proof. exact project_line_spec. Qed.
Print Assumptions C19_project_onto_intersection.

Theorem C19_signed_volume_antisym : forall v0 v1 v2 v3 : V3,
  vol6z v1 v0 v2 v3 = - vol6z v0 v1 v2 v3 /\ vol6z v0 v2 v1 v3 = - vol6z v0 v1 v2 v3.
Proof. exact volume_antisym. Qed.
Print Assumptions C19_signed_volume_antisym.

Theorem C19_signed_area_antisym : forall v0 v1 v2 : V3,
  cross (vsub v2 v0) (vsub v1 v0) = vscale (-1) (cross (vsub v1 v0) (vsub v2 v0)).
Proof. exact area_vector_antisym. Qed.
Print Assumptions C19_signed_area_antisym.

Theorem C19_sphere_two_points : forall a b : V3,
  norm2 (vsub (vadd a b) (vscale 2 a)) = norm2 (vsub a b) /\ norm2 (vsub (vadd a b) (vscale 2 b)) = norm2 (vsub a b).
Proof. exact sphere_two_points. Qed.
Print Assumptions C19_sphere_two_points.

Theorem C19_sphere_three_points : forall a b : V3,
  let u := circ3_u a b in let D := norm2 (cross a b) in
  dot u a = norm2 a * D /\ dot u b = norm2 b * D /\ dot u (cross a b) = 0.
Proof. exact sphere_three_points. Qed.
Print Assumptions C19_sphere_three_points.

Theorem C19_extend_minimal : forall d r : R, (0 <= r)%R -> (r < d)%R ->
  let t := ((d - r) / (2 * d))%R in let r' := ((d + r) / 2)%R in
  (d - t * d = r')%R /\ (t * d + r = r')%R /\ forall R', (d + r <= 2 * R')%R -> (r' <= R')%R.
Proof. exact extend_minimal. Qed.
Print Assumptions C19_extend_minimal.
