(* Model of geometry.rs: in_sphere_test_exact and its macros (big_int!,
   big_int_det2x2!, big_int_det3x3!).  Executable definitions only. *)
From Coq Require Import ZArith List.
Import ListNotations.
Open Scope Z_scope.

Definition P3 := (Z * Z * Z)%type.

(* i64 subtraction as release builds perform it (two's complement wrap). *)
Definition wrap64 (x : Z) : Z := (x + 2 ^ 63) mod 2 ^ 64 - 2 ^ 63.

(* big_int!(a, b) = [a0-b0, a1-b1, a2-b2, norm2] *)
Definition big_int (a b : P3) : Z * Z * Z * Z :=
  let '(a0, a1, a2) := a in
  let '(b0, b1, b2) := b in
  let d0 := wrap64 (a0 - b0) in
  let d1 := wrap64 (a1 - b1) in
  let d2 := wrap64 (a2 - b2) in
  (d0, d1, d2, d0 * d0 + d1 * d1 + d2 * d2).

(* big_int_det2x2!(a, b, c, d) : det = a*d - b*c *)
Definition det2 (a b c d : Z) : Z := a * d - b * c.

(* big_int_det3x3!(a0,a1,a2,b0,b1,b2,c0,c1,c2) with the macro's operand order *)
Definition det3 (a0 a1 a2 b0 b1 b2 c0 c1 c2 : Z) : Z :=
  a0 * det2 b1 b2 c1 c2 - a1 * det2 b0 b2 c0 c2 + a2 * det2 b0 b1 c0 c1.

(* the four signed steps of in_sphere_test_exact on the lifted differences *)
Definition insphere_det4 (b c d v : Z * Z * Z * Z) : Z :=
  let '(b0, b1, b2, b3) := b in
  let '(c0, c1, c2, c3) := c in
  let '(d0, d1, d2, d3) := d in
  let '(v0, v1, v2, v3) := v in
  let s1 := 0 - v0 * det3 b1 c1 d1 b2 c2 d2 b3 c3 d3 in
  let s2 := s1 + v1 * det3 b0 c0 d0 b2 c2 d2 b3 c3 d3 in
  let s3 := s2 - v2 * det3 b0 c0 d0 b1 c1 d1 b3 c3 d3 in
  s3 + v3 * det3 b0 c0 d0 b1 c1 d1 b2 c2 d2.

(* in_sphere_test_exact(a, b, c, d, v): the value is -1, 0 or 1 (returned as f64) *)
Definition insphere_model (a b c d v : P3) : Z :=
  Z.sgn (insphere_det4 (big_int b a) (big_int c a) (big_int d a) (big_int v a)).

(* the integer grid of boundary.rs: coordinates are 52-bit mantissas *)
Definition in_grid (p : P3) : Prop :=
  let '(x, y, z) := p in
  0 <= x < 2 ^ 52 /\ 0 <= y < 2 ^ 52 /\ 0 <= z < 2 ^ 52.

Definition in_gridb (p : P3) : bool :=
  let '(x, y, z) := p in
  (0 <=? x) && (x <? 2 ^ 52) && (0 <=? y) && (y <? 2 ^ 52) && (0 <=? z) && (z <? 2 ^ 52).

(* ---- independent reference definitions used by the theorems ---- *)

(* generic determinant by Laplace expansion along the first row *)
Fixpoint drop_nth {A} (n : nat) (l : list A) : list A :=
  match n, l with
  | _, [] => []
  | O, _ :: t => t
  | S n', h :: t => h :: drop_nth n' t
  end.

Fixpoint laplace (fuel : nat) (m : list (list Z)) : Z :=
  match fuel with
  | O => 1
  | S f =>
    match m with
    | [] => 1
    | row :: rest =>
      (fix go (j : nat) (r : list Z) (sign : Z) : Z :=
         match r with
         | [] => 0
         | x :: r' => sign * x * laplace f (map (drop_nth j) rest) + go (S j) r' (- sign)
         end) O row 1
    end
  end.

Definition n2 (p : P3) : Z := let '(x, y, z) := p in x * x + y * y + z * z.

Definition lifted_row (p : P3) : list Z := let '(x, y, z) := p in [x; y; z; n2 p; 1].

(* the textbook 5x5 in-sphere determinant of five points (rows a, b, c, d, v) *)
Definition det5_lifted (a b c d v : P3) : Z :=
  laplace 5 [lifted_row a; lifted_row b; lifted_row c; lifted_row d; lifted_row v].

Definition sub3 (p q : P3) : P3 :=
  let '(x, y, z) := p in let '(x', y', z') := q in (x - x', y - y', z - z').
Definition dot3 (p q : P3) : Z :=
  let '(x, y, z) := p in let '(x', y', z') := q in x * x' + y * y' + z * z'.

(* orientation of the tetrahedron (a, b, c, d): det[b-a, c-a, d-a] *)
Definition orient3 (a b c d : P3) : Z :=
  let '(b0, b1, b2) := sub3 b a in
  let '(c0, c1, c2) := sub3 c a in
  let '(d0, d1, d2) := sub3 d a in
  det3 b0 c0 d0 b1 c1 d1 b2 c2 d2.

(* circumcentre of (a,b,c,d) relative to a, scaled: centre = a + circum_o / circum_k *)
Definition circum_k (a b c d : P3) : Z := 2 * orient3 a b c d.
Definition circum_o (a b c d : P3) : P3 :=
  let '(b0, b1, b2) := sub3 b a in
  let '(c0, c1, c2) := sub3 c a in
  let '(d0, d1, d2) := sub3 d a in
  let nb := n2 (sub3 b a) in let nc := n2 (sub3 c a) in let nd := n2 (sub3 d a) in
  ( det3 nb nc nd b1 c1 d1 b2 c2 d2,
    det3 b0 c0 d0 nb nc nd b2 c2 d2,
    det3 b0 c0 d0 b1 c1 d1 nb nc nd ).

(* k * (|p - centre|^2 - radius^2) for centre = a + o/k: the power of p, scaled by k>0 *)
Definition power_scaled (a b c d p : P3) : Z :=
  circum_k a b c d * n2 (sub3 p a) - 2 * dot3 (circum_o a b c d) (sub3 p a).
