(* Model of voronoi/boundary.rs: SimulationBoundary::cuboid (grid part) and iloc,
   on IEEE binary64 with round-to-nearest-even (Flocq), bit for bit. *)
From Coq Require Import ZArith List.
From Flocq Require Import Core BinarySingleNaN Binary Bits.
Import ListNotations.
Open Scope Z_scope.

Definition f64 := binary64.
Definition of_bits : Z -> f64 := b64_of_bits.
Definition to_bits : f64 -> Z := bits_of_b64.
Definition fadd : f64 -> f64 -> f64 := b64_plus mode_NE.
Definition fsub : f64 -> f64 -> f64 := b64_minus mode_NE.
Definition fmul : f64 -> f64 -> f64 := b64_mult mode_NE.
Definition fdiv : f64 -> f64 -> f64 := b64_div mode_NE.

Definition f_one : f64 := of_bits 0x3FF0000000000000.
Definition f_three : f64 := of_bits 0x4008000000000000.

(* constants of the grid map (boundary.rs, `cuboid`):
     anchor' = anchor - GRID_OFFSET * width ;  inverse_width = 1 / (GRID_SCALE * width) *)
Definition GRID_OFFSET : f64 := of_bits 0x3FF8000000000000. (* 1.5 *)
Definition GRID_SCALE  : f64 := of_bits 0x4010000000000000. (* 4.0 *)

(* one axis of `cuboid`: returns (wall_lo, wall_hi, grid_anchor, grid_inverse_width) *)
Definition cuboid_axis (anchor width : f64) (tripled : bool) : f64 * f64 * f64 * f64 :=
  let anchor1 := if tripled then fsub anchor width else anchor in
  let width1 := if tripled then fmul width f_three else width in
  (anchor1, fadd anchor1 width1,
   fsub anchor1 (fmul GRID_OFFSET width1), fdiv f_one (fmul GRID_SCALE width1)).

(* which axes are tripled for a periodic box of the given dimensionality *)
Definition tripled_axis (periodic : bool) (dim : Z) (axis : Z) : bool :=
  periodic && (axis <? dim).

(* the value in [1,2) whose mantissa is the grid coordinate *)
Definition tval (ganchor ginv x : f64) : f64 := fadd f_one (fmul (fsub x ganchor) ginv).

Definition mantissa_mask : Z := 0xFFFFFFFFFFFFF.
Definition iloc1 (ganchor ginv x : f64) : Z := Z.land (to_bits (tval ganchor ginv x)) mantissa_mask.

(* t is a float in [1, 2)  <->  sign 0, biased exponent 1023 *)
Definition t_in_range (t : f64) : bool :=
  Z.eqb (Z.shiftr (to_bits t) 52) 1023.

(* whole-box interface on bit patterns, as used by the correspondence check:
   input  anchor/width bits per axis, periodic, dim, position bits per axis
   output per axis (bits of t, grid coordinate, in-range flag) *)
Definition iloc_case (periodic : bool) (dim : Z) (anchor width pos : list Z) : list (Z * Z * bool) :=
  let fix go (axis : Z) (a w p : list Z) :=
    match a, w, p with
    | a0 :: a', w0 :: w', p0 :: p' =>
      let '(_, _, ga, gi) := cuboid_axis (of_bits a0) (of_bits w0) (tripled_axis periodic dim axis) in
      let t := tval ga gi (of_bits p0) in
      (to_bits t, Z.land (to_bits t) mantissa_mask, t_in_range t) :: go (axis + 1) a' w' p'
    | _, _, _ => []
    end in
  go 0 anchor width pos.
