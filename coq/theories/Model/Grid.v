(* Model of voronoi/boundary.rs: SimulationBoundary::cuboid (grid part) and iloc,
   on IEEE binary64 with round-to-nearest-even (Flocq), bit for bit. *)
From Coq Require Import ZArith List.
From Flocq Require Import Core BinarySingleNaN Binary Bits.
Import ListNotations.
Open Scope Z_scope.

Definition f64 := binary64.
Definition of_bits : Z -> f64 := b64_of_bits.
Definition to_bits : f64 -> Z := bits_of_b64.
Definition fadd : f64 -> f64 -> f64 := b64_plus mode_NE.
Definition fsub : f64 -> f64 -> f64 := b64_minus mode_NE.
Definition fmul : f64 -> f64 -> f64 := b64_mult mode_NE.
Definition fdiv : f64 -> f64 -> f64 := b64_div mode_NE.

Definition f_one : f64 := of_bits 0x3FF0000000000000.
Definition f_three : f64 := of_bits 0x4008000000000000.

(* constants of the grid map (boundary.rs, `cuboid`):
     anchor' = anchor - GRID_OFFSET * width ;  inverse_width = 1 / (GRID_SCALE * width) *)
Definition GRID_OFFSET : f64 := of_bits 0x3FF8000000000000. (* 1.5 *)
Definition GRID_SCALE  : f64 := of_bits 0x4010000000000000. (* 4.0 *)

(* one axis of `cuboid`, first part: the (possibly tripled) wall box: (anchor1, width1) *)
Definition box_axis (anchor width : f64) (tripled : bool) : f64 * f64 :=
  (if tripled then fsub anchor width else anchor, if tripled then fmul width f_three else width).

(* which axes are tripled for a periodic box of the given dimensionality *)
Definition tripled_axis (periodic : bool) (dim : Z) (axis : Z) : bool :=
  periodic && (axis <? dim).

(* f64::max on finite values: the larger one (ties: either; they are equal as reals) *)
Definition fmax (a b : f64) : f64 :=
  match b64_compare a b with Some Lt => b | _ => a end.

(* the common scale of the active axes (isotropic grid): max width over the active axes;
   an unused axis keeps its own width *)
Definition scale_widths (dim : Z) (w0 w1 w2 : f64) : f64 * f64 * f64 :=
  if dim =? 1 then (w0, w1, w2)
  else if dim =? 2 then let m := fmax w0 w1 in (m, m, w2)
  else let m := fmax (fmax w0 w1) w2 in (m, m, m).

(* grid parameters of one axis: (wall_lo, wall_hi, grid_anchor, grid_inverse_width) *)
Definition cuboid_axis (anchor1 width1 scale_w : f64) : f64 * f64 * f64 * f64 :=
  (anchor1, fadd anchor1 width1,
   fsub anchor1 (fmul GRID_OFFSET width1), fdiv f_one (fmul GRID_SCALE scale_w)).

(* the value in [1,2) whose mantissa is the grid coordinate *)
Definition tval (ganchor ginv x : f64) : f64 := fadd f_one (fmul (fsub x ganchor) ginv).

Definition mantissa_mask : Z := 0xFFFFFFFFFFFFF.
Definition iloc1 (ganchor ginv x : f64) : Z := Z.land (to_bits (tval ganchor ginv x)) mantissa_mask.

(* t is a float in [1, 2)  <->  sign 0, biased exponent 1023 *)
Definition t_in_range (t : f64) : bool :=
  Z.eqb (Z.shiftr (to_bits t) 52) 1023.

(* whole-box interface on bit patterns, as used by the correspondence check:
   input  anchor/width bits per axis (3 axes), periodic, dim, position bits per axis
   output per axis (bits of t, grid coordinate, in-range flag) *)
Definition iloc_case (periodic : bool) (dim : Z) (anchor width pos : list Z) : list (Z * Z * bool) :=
  match anchor, width, pos with
  | [a0; a1; a2], [w0; w1; w2], [p0; p1; p2] =>
    let '(b0, v0) := box_axis (of_bits a0) (of_bits w0) (tripled_axis periodic dim 0) in
    let '(b1, v1) := box_axis (of_bits a1) (of_bits w1) (tripled_axis periodic dim 1) in
    let '(b2, v2) := box_axis (of_bits a2) (of_bits w2) (tripled_axis periodic dim 2) in
    let '(s0, s1, s2) := scale_widths dim v0 v1 v2 in
    map (fun '(b, v, sw, p) =>
           let '(_, _, ga, gi) := cuboid_axis b v sw in
           let t := tval ga gi (of_bits p) in
           (to_bits t, Z.land (to_bits t) mantissa_mask, t_in_range t))
        [(b0, v0, s0, p0); (b1, v1, s1, p1); (b2, v2, s2, p2)]
  | _, _, _ => []
  end.
