(* Structural model (M-S) of VoronoiCell::from_convex_cell (face rule), Voronoi::build_internal,
   Voronoi::finalize, VoronoiCell::{face_indices, neighbour_ids}, the integrator route and the
   symmetric / non-symmetric face integral lists.  Geometry and integrals are abstract:
   a cell is its plane metadata and the order in which planes receive tetrahedra.
   Executable definitions only. *)
From Coq Require Import List Arith Bool.
Import ListNotations.

(* plane metadata of a convex cell *)
Record splane := mkSPlane {
  sright : option nat;     (* right generator; None for a wall *)
  sshift : option nat;     (* periodic shift (abstract code); None = no shift *)
  svalid : bool;           (* Dimensionality::vector_is_valid(normal) *)
  shastet : bool;          (* the decomposition feeds at least one tetrahedron to this plane *)
}.

Record scell := mkSCell { sidx : nat; splanes : list splane }.

(* a face record as stored: left, right, shift, and where it came from (cell index, plane index) *)
Record sface := mkSFace { fleft : nat; fright : option nat; fshift : option nat; fplane : nat }.

Definition mask_get (mask : option (list bool)) (i : nat) : bool :=
  match mask with None => true | Some m => nth i m false end.

(* mask.map_or(false, |mask| !mask[r]) *)
Definition mask_inactive (mask : option (list bool)) (r : nat) : bool :=
  match mask with None => false | Some m => negb (nth r m false) end.

(* the rule of maybe_init_face (voronoi_cell.rs) *)
Definition should_construct (idx : nat) (mask : option (list bool)) (p : splane) : bool :=
  svalid p &&
  match sright p, sshift p with
  | Some r, None => Nat.ltb idx r || mask_inactive mask r
  | _, _ => true
  end.

Fixpoint enumerate_from {A} (i : nat) (l : list A) : list (nat * A) :=
  match l with [] => [] | x :: t => (i, x) :: enumerate_from (S i) t end.
Definition enumerate {A} (l : list A) := enumerate_from 0 l.

(* faces created by one cell: planes in index order that received a tetrahedron and pass the rule *)
Definition cell_faces (mask : option (list bool)) (c : scell) : list sface :=
  flat_map (fun '(pi, p) =>
      if shastet p && should_construct (sidx c) mask p
      then [mkSFace (sidx c) (sright p) (sshift p) pi] else [])
    (enumerate (splanes c)).

(* build_voronoi_cells + flatten: cells in index order; an unselected generator contributes nothing.
   cells : one entry per generator, None = not constructed *)
Definition all_faces (mask : option (list bool)) (cells : list (option scell)) : list sface :=
  flat_map (fun oc => match oc with Some c => cell_faces mask c | None => [] end) cells.

(* the idx stored in each VoronoiCell: the cell's own idx if constructed, the Default otherwise *)
(* Voronoi::finalize stores the position as the cell's idx (constructed or not); before the fix of
   finding F3 an unconstructed cell kept VoronoiCell::default()'s idx 0 *)
Definition stored_idx (i : nat) (oc : option scell) : nat := i.

(* ---- finalize *)
Fixpoint updl {A} (l : list (list A)) (c : nat) (x : A) : list (list A) :=
  match l, c with
  | [], _ => []
  | h :: t, O => (h ++ [x]) :: t
  | h :: t, S c' => h :: updl t c' x
  end.

Definition push_face (acc : list (list nat)) (i : nat) (f : sface) : list (list nat) :=
  let acc1 := updl acc (fleft f) i in
  match fright f, fshift f with
  | Some r, None => updl acc1 r i
  | _, _ => acc1
  end.

Fixpoint link (acc : list (list nat)) (i : nat) (fs : list sface) : list (list nat) :=
  match fs with [] => acc | f :: t => link (push_face acc i f) (S i) t end.

Definition per_cell (n : nat) (fs : list sface) : list (list nat) := link (repeat [] n) 0 fs.

Fixpoint prefix (off : nat) (ls : list (list nat)) : list nat :=
  match ls with [] => [] | l :: t => off :: prefix (off + length l) t end.

Record connectivity := mkConn { offsets : list nat; counts : list nat; connections : list nat }.

Definition finalize (n : nat) (fs : list sface) : connectivity :=
  let pc := per_cell n fs in
  mkConn (prefix 0 pc) (map (@length nat) pc) (concat pc).

Definition face_indices (k : connectivity) (c : nat) : list nat :=
  firstn (nth c (counts k) 0) (skipn (nth c (offsets k) 0) (connections k)).

Definition sface_default : sface := mkSFace 0 None None 0.

(* neighbour_ids of cell number c whose stored idx is `self` *)
Definition neighbour_ids (fs : list sface) (k : connectivity) (c : nat) (self : nat) : list nat :=
  flat_map (fun i =>
      let f := nth i fs sface_default in
      match fshift f, fright f with
      | None, Some r => [if Nat.eqb (fleft f) self then r else fleft f]
      | _, _ => []
      end) (face_indices k c).

(* the whole tessellation, structurally *)
Record stess := mkSTess { tfaces : list sface; tconn : connectivity; tstored : list nat }.

Definition assemble (mask : option (list bool)) (cells : list (option scell)) : stess :=
  let fs := all_faces mask cells in
  mkSTess fs (finalize (length cells) fs) (map (fun '(i, oc) => stored_idx i oc) (enumerate cells)).

Definition tess_neighbour_ids (t : stess) (c : nat) : list nat :=
  neighbour_ids (tfaces t) (tconn t) c (nth c (tstored t) 0).

(* ---- construction routes *)
(* direct: build_partial(mask) constructs cell i iff mask[i]; `geom i` is the convex cell of generator i *)
Definition build_direct (geom : nat -> scell) (n : nat) (mask : option (list bool)) : stess :=
  assemble mask (map (fun i => if mask_get mask i then Some (geom i) else None) (seq 0 n)).

(* integrator: cells: Vec<Option<ConvexCell>>, cell_is_active = mask or all true;
   Voronoi::from(&integrator) passes Some(&cell_is_active) *)
Definition integrator_cells (geom : nat -> scell) (n : nat) (mask : option (list bool)) : list (option scell) :=
  map (fun i => if mask_get mask i then Some (geom i) else None) (seq 0 n).
Definition cell_is_active (n : nat) (mask : option (list bool)) : list bool :=
  match mask with None => repeat true n | Some m => m end.
Definition build_via_integrator (geom : nat -> scell) (n : nat) (mask : option (list bool)) : stess :=
  assemble (Some (cell_is_active n mask)) (integrator_cells geom n mask).

(* ---- face integral lists of the integrator (per cell, then flattened in cell order) *)
Definition cell_face_integrals (c : scell) : list sface :=
  flat_map (fun '(pi, p) =>
      if shastet p && svalid p then [mkSFace (sidx c) (sright p) (sshift p) pi] else [])
    (enumerate (splanes c)).

Definition sym_skip (idx : nat) (active : list bool) (p : splane) : bool :=
  match sshift p, sright p with
  | None, Some r => Nat.ltb r idx && nth r active false
  | _, _ => false
  end.

Definition cell_face_integrals_sym (active : list bool) (c : scell) : list sface :=
  flat_map (fun '(pi, p) =>
      if shastet p && svalid p && negb (sym_skip (sidx c) active p)
      then [mkSFace (sidx c) (sright p) (sshift p) pi] else [])
    (enumerate (splanes c)).

Definition face_integrals (cells : list (option scell)) : list sface :=
  flat_map (fun oc => match oc with Some c => cell_face_integrals c | None => [] end) cells.
Definition face_integrals_sym (active : list bool) (cells : list (option scell)) : list sface :=
  flat_map (fun oc => match oc with Some c => cell_face_integrals_sym active c | None => [] end) cells.

(* cell integrals: one per constructed cell, in index order *)
Definition cell_integrals (cells : list (option scell)) : list nat :=
  flat_map (fun oc => match oc with Some c => [sidx c] | None => [] end) cells.

(* compute_*_with_data: zip with the unfiltered data slice, then filter *)
Fixpoint zip {A B} (a : list A) (b : list B) : list (A * B) :=
  match a, b with x :: a', y :: b' => (x, y) :: zip a' b' | _, _ => [] end.
Definition cell_integrals_with_data {D} (cells : list (option scell)) (data : list D) : list (nat * D) :=
  flat_map (fun '(oc, d) => match oc with Some c => [(sidx c, d)] | None => [] end) (zip cells data).
