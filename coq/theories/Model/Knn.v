(* Uniform-grid k-nearest-neighbour knn_search (src/space.rs, Space::knn), one query particle.
   Squared distances are exact integers (coordinates are dyadic rationals, scaled by a common power of two).
   The bounded max-heap is modelled by the sorted list of its entries (the maximum is the last entry); which of
   several entries with the same maximal ckey the real heap pops is unspecified and irrelevant for the statement
   (distances in increasing order). *)
From Coq Require Import ZArith List Bool Lia.
Import ListNotations.
Open Scope Z_scope.

Definition cand := (Z * nat)%type.           (* squared distance, particle id *)
Definition ckey (c : cand) : Z := fst c.

Fixpoint kinsert (x : cand) (l : list cand) : list cand :=
  match l with
  | [] => [x]
  | y :: t => if ckey x <? ckey y then x :: l else y :: kinsert x t
  end.

Definition hmax (h : list cand) : Z := ckey (last h (0, 0%nat)).
Definition hfull (k : nat) (h : list cand) : bool := Nat.eqb (length h) k.

(* the body of the loop over the particles of a cell:
   if h.len() < k { push } else if d_2 < max { pop; push } *)
Definition knn_offer (k : nat) (h : list cand) (x : cand) : list cand :=
  if Nat.ltb (length h) k then kinsert x h
  else if ckey x <? hmax h then kinsert x (removelast h) else h.

(* a grid cell: lower bound of the squared distance from the query to the cell (min_distance_squared of the
   clamped point) and its particles (the query itself is left out: `if part.id() == ngb_part.id() continue`) *)
Record kgroup := { glb : Z; gmembers : list cand }.

(* "Can we safely skip this cell?"  h.len() == k && h.peek().d_2 < ngb_cell.min_distance_squared(x) *)
Definition visit_group (k : nat) (h : list cand) (g : kgroup) : list cand :=
  if hfull k h && (hmax h <? glb g) then h else fold_left (knn_offer k) (gmembers g) h.

(* rings r = 0, 1, 2, ... each with the bound checked after it:
   min_dist_to_ring = dist_to_face + r * min cell width; stop if h.len() == k && bound^2 > max.
   The list of rings is finite (get_r_ring returns no cell once the ring leaves the grid; the real loop would
   spin forever then, which k < n excludes: see the theorem's hypothesis) *)
Fixpoint knn_search_rings (k : nat) (rings : list (Z * list kgroup)) (h : list cand) : list cand :=
  match rings with
  | [] => h
  | (rb, gs) :: rest =>
      let h' := fold_left (visit_group k) gs h in
      if hfull k h' && (hmax h' <? rb * rb) then h' else knn_search_rings k rest h'
  end.

Definition knn_search (k : nat) (rings : list (Z * list kgroup)) : list cand :=
  if Nat.eqb k 0 then [] else knn_search_rings k rings [].

(* everything the knn_search could look at, in visiting order *)
Definition kgroup_cands (gs : list kgroup) : list cand := flat_map gmembers gs.
Definition all_cands (rings : list (Z * list kgroup)) : list cand := flat_map (fun r => kgroup_cands (snd r)) rings.
