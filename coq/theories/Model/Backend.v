(* C11: in_sphere_test_exact parametric in the arbitrary-precision integer type.  The code is generic over
   `Integer` (ibig::IBig, dashu::Integer, malachite Integer, num_bigint::BigInt, rug::Integer); only the last
   step - turning the determinant into -1.0 / 0.0 / 1.0 - differs between backends. *)
From Coq Require Import ZArith List.
From MV Require Import Model.Insphere.
Open Scope Z_scope.

Section Backend.
Variable B : Type.
Variable of_i64 : Z -> B.               (* Integer::from(i64) *)
Variables badd bsub bmul : B -> B -> B.  (* += / -= / & * & on references *)
Variable bzero : B.                      (* Integer::default() *)

Definition big_int_b (a b : P3) : B * B * B * B :=
  let '(a0, a1, a2) := a in
  let '(b0, b1, b2) := b in
  let d0 := of_i64 (wrap64 (a0 - b0)) in
  let d1 := of_i64 (wrap64 (a1 - b1)) in
  let d2 := of_i64 (wrap64 (a2 - b2)) in
  (d0, d1, d2, badd (badd (badd bzero (bmul d0 d0)) (bmul d1 d1)) (bmul d2 d2)).

(* det = default(); det += a*d; det -= b*c *)
Definition det2_b (a b c d : B) : B := bsub (badd bzero (bmul a d)) (bmul b c).

Definition det3_b (a0 a1 a2 b0 b1 b2 c0 c1 c2 : B) : B :=
  badd (bsub (badd bzero (bmul a0 (det2_b b1 b2 c1 c2))) (bmul a1 (det2_b b0 b2 c0 c2))) (bmul a2 (det2_b b0 b1 c0 c1)).

Definition insphere_det4_b (b c d v : B * B * B * B) : B :=
  let '(b0, b1, b2, b3) := b in
  let '(c0, c1, c2, c3) := c in
  let '(d0, d1, d2, d3) := d in
  let '(v0, v1, v2, v3) := v in
  let s1 := bsub bzero (bmul v0 (det3_b b1 c1 d1 b2 c2 d2 b3 c3 d3)) in
  let s2 := badd s1 (bmul v1 (det3_b b0 c0 d0 b2 c2 d2 b3 c3 d3)) in
  let s3 := bsub s2 (bmul v2 (det3_b b0 c0 d0 b1 c1 d1 b3 c3 d3)) in
  badd s3 (bmul v3 (det3_b b0 c0 d0 b1 c1 d1 b2 c2 d2)).

Definition determinant_b (a b c d v : P3) : B :=
  insphere_det4_b (big_int_b b a) (big_int_b c a) (big_int_b d a) (big_int_b v a).

(* --- the three glues of geometry.rs:296-311, each against the library operation it uses --- *)
(* (1) ibig / dashu / rug:  determinant.signum().to_f64()  *)
Variable signum : B -> B.
Variable to_f64 : B -> Z.                 (* exact on -1, 0, 1 *)
Definition glue_signum (x : B) : Z := to_f64 (signum x).

(* (2) malachite: match determinant.sign() { Less => -1.0, Equal => 0.0, Greater => 1.0 } *)
Variable sign_ordering : B -> comparison.
Definition glue_ordering (x : B) : Z := match sign_ordering x with Lt => -1 | Eq => 0 | Gt => 1 end.

(* (3) num_bigint: match determinant.sign() { Minus => -1.0, NoSign => 0.0, Plus => 1.0 } *)
Inductive nb_sign := Minus | NoSign | Plus.
Variable sign_enum : B -> nb_sign.
Definition glue_enum (x : B) : Z := match sign_enum x with Minus => -1 | NoSign => 0 | Plus => 1 end.
End Backend.
