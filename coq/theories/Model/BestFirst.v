(* Model of rtree_nn.rs: RTreeWrappingNearestNeighbourIter (best-first search over the R-tree, one
   heap entry per (node, shift)), with exact integer keys.  Executable definitions only.
   The heap is a list; `pop_min` returns A minimal element (BinaryHeap's tie order is unspecified:
   the theorems hold for every `pop` that returns some minimal element). *)
From Coq Require Import ZArith List.
Import ListNotations.
Open Scope Z_scope.

Definition V3 := (Z * Z * Z)%type.

(* annotated tree: every node carries its key *)
Inductive atree (A : Type) :=
| AL (k : Z) (x : A)
| AN (k : Z) (cs : list (atree A)).
Arguments AL {A}. Arguments AN {A}.

Definition akey {A} (t : atree A) : Z := match t with AL k _ => k | AN k _ => k end.

(* remove the first element with minimal key *)
Fixpoint min_key {A} (h : list (atree A)) (m : Z) : Z :=
  match h with [] => m | t :: r => min_key r (Z.min m (akey t)) end.
Fixpoint remove_key {A} (h : list (atree A)) (m : Z) : option (atree A * list (atree A)) :=
  match h with
  | [] => None
  | t :: r => if akey t =? m then Some (t, r)
              else match remove_key r m with Some (u, r') => Some (u, t :: r') | None => None end
  end.
Definition pop_min {A} (h : list (atree A)) : option (atree A * list (atree A)) :=
  match h with [] => None | t :: r => remove_key h (min_key r (akey t)) end.

Section Run.
Variable A : Type.
Variable pop : list (atree A) -> option (atree A * list (atree A)).
(* the iterator: pop; a parent pushes its children (with the same shift), a leaf is yielded *)
Fixpoint run (fuel : nat) (h : list (atree A)) : list (Z * A) :=
  match fuel with
  | O => []
  | S f =>
    match pop h with
    | None => []
    | Some (AL k x, h') => (k, x) :: run f h'
    | Some (AN k cs, h') => run f (cs ++ h')
    end
  end.
End Run.

(* ---------- the R-tree and its exact keys *)
Inductive rtree :=
| RLeaf (id : Z) (pos : V3)
| RNode (lo hi : V3) (children : list rtree).

Definition clampz (t lo hi : Z) : Z := Z.min (Z.max t lo) hi.
Definition sq (x : Z) := x * x.

(* WrappingPointDistance for a generator: |point + shift - loc|^2 *)
Definition key_leaf (q sh pos : V3) : Z :=
  let '(q0, q1, q2) := q in let '(s0, s1, s2) := sh in let '(p0, p1, p2) := pos in
  sq (q0 + s0 - p0) + sq (q1 + s1 - p1) + sq (q2 + s2 - p2).

(* WrappingEnvelope for an AABB: |clamp(point + shift, lower, upper) - point - shift|^2 *)
Definition key_node (q sh lo hi : V3) : Z :=
  let '(q0, q1, q2) := q in let '(s0, s1, s2) := sh in
  let '(l0, l1, l2) := lo in let '(h0, h1, h2) := hi in
  sq (clampz (q0 + s0) l0 h0 - (q0 + s0)) + sq (clampz (q1 + s1) l1 h1 - (q1 + s1)) +
  sq (clampz (q2 + s2) l2 h2 - (q2 + s2)).

(* payload of a visit: generator id and the shift code of the heap entry *)
Fixpoint annotate (q sh : V3) (code : Z) (t : rtree) : atree (Z * Z) :=
  match t with
  | RLeaf id pos => AL (key_leaf q sh pos) (id, code)
  | RNode lo hi cs => AN (key_node q sh lo hi) (map (annotate q sh code) cs)
  end.

Fixpoint rsize (t : rtree) : nat :=
  match t with RLeaf _ _ => 1 | RNode _ _ cs => S (fold_right (fun c n => (rsize c + n)%nat) 0%nat cs) end.

(* the initial heap: the children of the root for every shift (shift vector, code) *)
Definition initial_heap (q : V3) (shifts : list (V3 * Z)) (root_children : list rtree) : list (atree (Z * Z)) :=
  flat_map (fun '(sh, code) => map (annotate q sh code) root_children) shifts.

Definition visits (q : V3) (shifts : list (V3 * Z)) (root_children : list rtree) : list (Z * (Z * Z)) :=
  let h := initial_heap q shifts root_children in
  run (Z * Z) pop_min
      (length shifts * S (fold_right (fun c n => (rsize c + n)%nat) 0%nat root_children)) h.
