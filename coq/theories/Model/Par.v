(* C09: a model of the (rayon) iterator pipelines of voronoi.rs.  A pipeline is a list of
   order-preserving stages over a universal element type; the sequential semantics processes the whole
   input, the parallel semantics processes an arbitrary binary split of the index range chunk by chunk
   (each chunk knowing its offset, as rayon's indexed producers do) and concatenates by position. *)
From Coq Require Import List Arith.
Import ListNotations.

Section Par.
Variable U : Type.

Inductive stage :=
| Enumerate (pr : nat -> U -> U)
| Zip (other : list U) (pr : U -> U -> U)
| Map (f : U -> U)
| FilterMap (f : U -> option U)
| Flatten (f : U -> list U).

Fixpoint enum_from (pr : nat -> U -> U) (o : nat) (l : list U) : list U :=
  match l with [] => [] | x :: t => pr o x :: enum_from pr (S o) t end.

Fixpoint zip_with (pr : U -> U -> U) (a b : list U) : list U :=
  match a, b with x :: a', y :: b' => pr x y :: zip_with pr a' b' | _, _ => [] end.

(* one stage on a chunk that starts at index `o` of the stage's input *)
Definition stage_sem (s : stage) (o : nat) (l : list U) : list U :=
  match s with
  | Enumerate pr => enum_from pr o l
  | Zip other pr => zip_with pr l (skipn o other)
  | Map f => map f l
  | FilterMap f => flat_map (fun x => match f x with Some y => [y] | None => [] end) l
  | Flatten f => flat_map f l
  end.

(* indices are meaningful only while the pipeline is "indexed": Enumerate/Zip may only occur before the
   first length-changing stage (rayon's types enforce this: they need IndexedParallelIterator) *)
Definition length_preserving (s : stage) : bool :=
  match s with Enumerate _ | Map _ => true | Zip _ _ => true | _ => false end.
Definition uses_index (s : stage) : bool :=
  match s with Enumerate _ | Zip _ _ => true | _ => false end.

Fixpoint wf_pipeline (indexed : bool) (p : list stage) : bool :=
  match p with
  | [] => true
  | s :: t => (if uses_index s then indexed else true) && wf_pipeline (indexed && length_preserving s) t
  end.

(* sequential semantics of a pipeline on a chunk at offset o (offset only meaningful while indexed) *)
Fixpoint sem (p : list stage) (o : nat) (l : list U) : list U :=
  match p with
  | [] => l
  | s :: t => sem t o (stage_sem s o l)
  end.

(* an arbitrary binary split tree of the index range *)
Inductive split := Leaf | Node (k : nat) (l r : split).

Fixpoint par_sem (p : list stage) (o : nat) (l : list U) (t : split) : list U :=
  match t with
  | Leaf => sem p o l
  | Node k tl tr => par_sem p o (firstn k l) tl ++ par_sem p (o + length (firstn k l)) (skipn k l) tr
  end.
End Par.

Arguments Enumerate {U}. Arguments Zip {U}. Arguments Map {U}. Arguments FilterMap {U}. Arguments Flatten {U}.
