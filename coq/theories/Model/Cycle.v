(* Model of simple_cycle.rs (SimpleCycle) and of the combinatorial part of
   ConvexCell::clip_by_plane / compute_boundary (convex_cell.rs).  No coordinates here.
   Executable definitions only. *)
From Coq Require Import List Arith Bool.
Import ListNotations.

(* ---------- list helpers (array semantics with explicit defaults) *)
Fixpoint upd {A} (l : list A) (i : nat) (x : A) : list A :=
  match l, i with
  | [], _ => []
  | _ :: t, O => x :: t
  | h :: t, S i' => h :: upd t i' x
  end.

Definition swap {A} (d : A) (l : list A) (i j : nat) : list A :=
  let xi := nth i l d in
  let xj := nth j l d in
  upd (upd l i xj) j xi.

(* ---------- SimpleCycle: ptrs[i] = successor of i if i is on the cycle, i otherwise *)
Record cycle := { ptrs : list nat; cstart : nat; clen : nat }.

Definition cyc_new (capacity : nat) : cycle :=
  {| ptrs := seq 0 capacity; cstart := 0; clen := 0 |}.

Definition cyc_grow (c : cycle) : cycle :=
  {| ptrs := ptrs c ++ [length (ptrs c)]; cstart := cstart c; clen := clen c |}.

Definition ptr (p : list nat) (i : nat) : nat := nth i p i.

(* reset loop of `init`: walk `len` steps from `start`, making every visited entry self-pointing *)
Fixpoint cyc_reset (n : nat) (p : list nat) (cur : nat) : list nat :=
  match n with
  | O => p
  | S n' => let nxt := ptr p cur in cyc_reset n' (upd p cur cur) nxt
  end.

Definition cyc_init (c : cycle) (a b d : nat) : cycle :=
  let p := cyc_reset (clen c) (ptrs c) (cstart c) in
  let p := upd p a b in
  let p := upd p b d in
  let p := upd p d a in
  {| ptrs := p; cstart := a; clen := 3 |}.

Definition cyc_contains (c : cycle) (i : nat) : bool := negb (Nat.eqb (ptr (ptrs c) i) i).

(* one rotation (i, j, k) of try_extend; returns the updated cycle if one of the two rules applies *)
Definition try_rot (c : cycle) (ti tj tk : nat) : option cycle :=
  let ci := cyc_contains c ti in
  let cj := cyc_contains c tj in
  let ck := cyc_contains c tk in
  let p := ptrs c in
  if negb ci && cj && ck && Nat.eqb (ptr p tk) tj then
    Some {| ptrs := upd (upd p tk ti) ti tj; cstart := cstart c; clen := S (clen c) |}
  else if ci && cj && ck && Nat.eqb (ptr p tk) tj && Nat.eqb (ptr p tj) ti then
    Some {| ptrs := upd (upd p tk ti) tj tj;
            cstart := if Nat.eqb (cstart c) tj then ti else cstart c;
            clen := pred (clen c) |}
  else None.

Definition cyc_try_extend (c : cycle) (a b d : nat) : option cycle :=
  match try_rot c a b d with
  | Some c' => Some c'
  | None =>
    match try_rot c b d a with
    | Some c' => Some c'
    | None => try_rot c d a b
    end
  end.

(* the first n items of the iterator *)
Fixpoint cyc_walk (n : nat) (p : list nat) (cur : nat) : list nat :=
  match n with
  | O => []
  | S n' => cur :: cyc_walk n' p (ptr p cur)
  end.

Definition cyc_iter (c : cycle) (n : nat) : list nat := cyc_walk n (ptrs c) (cstart c).

(* ---------- clipping bookkeeping, generic in the vertex payload *)
Definition dual := (nat * nat * nat)%type.

Section Clip.
Variable V : Type.
Variable vdual : V -> dual.
Variable vdefault : V.

(* the partition loop of clip_by_plane: removed vertices are swapped to the tail.
   state (vs, i, num_v); fuel = number of vertices *)
Fixpoint partition_loop (fuel : nat) (removed : V -> bool) (vs : list V) (i num_v : nat) : list V * nat :=
  match fuel with
  | O => (vs, num_v)
  | S f =>
    if Nat.ltb i num_v then
      if removed (nth i vs vdefault) then
        partition_loop f removed (swap vdefault vs i (pred num_v)) i (pred num_v)
      else partition_loop f removed vs (S i) num_v
    else (vs, num_v)
  end.

(* compute_boundary: greedy search for a triangle that extends the boundary; None = the
   code's assertion "No suitable vertex found to extend boundary!" *)
Fixpoint find_ext (fuel : nat) (c : cycle) (vs : list V) (idx : nat) : option (cycle * nat) :=
  match fuel with
  | O => None
  | S f =>
    if Nat.ltb idx (length vs) then
      let '(a, b, d) := vdual (nth idx vs vdefault) in
      match cyc_try_extend c a b d with
      | Some c' => Some (c', idx)
      | None => find_ext f c vs (S idx)
      end
    else None
  end.

Fixpoint boundary_loop (fuel : nat) (c : cycle) (vs : list V) (i : nat) : option (cycle * list V) :=
  match fuel with
  | O => Some (c, vs)
  | S f =>
    if Nat.ltb i (length vs) then
      match find_ext (length vs) c vs i with
      | Some (c', idx) =>
        let vs' := if Nat.ltb i idx then swap vdefault vs i idx else vs in
        boundary_loop f c' vs' (S i)
      | None => None
      end
    else Some (c, vs)
  end.

Definition compute_boundary (c : cycle) (removed_vs : list V) : option (cycle * list V) :=
  match removed_vs with
  | [] => None
  | v0 :: _ =>
    let '(a, b, d) := vdual v0 in
    boundary_loop (length removed_vs) (cyc_init c a b d) removed_vs 1
  end.

(* consecutive pairs of the boundary walk (len + 1 items) *)
Fixpoint pairs (l : list nat) : list (nat * nat) :=
  match l with
  | a :: ((b :: _) as t) => (a, b) :: pairs t
  | _ => []
  end.

(* the combinatorial clip: returns (kept vertices, new duals, cycle) or None on assertion failure;
   p_idx is the index of the new plane *)
Definition clip_comb (c : cycle) (removed : V -> bool) (vs : list V) (p_idx : nat)
  : option (cycle * list V * list dual) :=
  let '(vs1, num_v) := partition_loop (length vs) removed vs 0 (length vs) in
  if Nat.eqb num_v (length vs) then Some (c, vs, [])
  else
    let c1 := cyc_grow c in
    match compute_boundary c1 (skipn num_v vs1) with
    | None => None
    | Some (c2, _) =>
      let walk := cyc_iter c2 (S (clen c2)) in
      Some (c2, firstn num_v vs1, map (fun '(a, b) => (a, b, p_idx)) (pairs walk))
    end.
End Clip.
