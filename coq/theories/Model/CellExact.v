(* Exact-arithmetic model of ConvexCell::init / build / clip_by_plane and of the
   decompositions used for integrals (convex_cell.rs), over integer coordinates
   (all input floats scaled by a common power of two).  Executable definitions only.

   Conventions
   - a plane (n, d) is the half space { x | n.x >= d } (inward normal, as in the code);
     the bisector towards site s is stored un-normalised: n = 2 (g - s), d = |g|^2 - |s|^2;
   - a point is homogeneous (X, Y, Z, W), W <> 0, meaning (X/W, Y/W, Z/W);
   - rationals are pairs (num, den) with den > 0, reduced by gcd after every operation. *)
From Coq Require Import ZArith List Bool.
From MV Require Import Model.Cycle.
Import ListNotations.
Open Scope Z_scope.

Definition V3 := (Z * Z * Z)%type.
Definition dot (a b : V3) : Z :=
  let '(a0, a1, a2) := a in let '(b0, b1, b2) := b in a0 * b0 + a1 * b1 + a2 * b2.
Definition cross (a b : V3) : V3 :=
  let '(a0, a1, a2) := a in let '(b0, b1, b2) := b in
  (a1 * b2 - a2 * b1, a2 * b0 - a0 * b2, a0 * b1 - a1 * b0).
Definition vadd (a b : V3) : V3 :=
  let '(a0, a1, a2) := a in let '(b0, b1, b2) := b in (a0 + b0, a1 + b1, a2 + b2).
Definition vsub (a b : V3) : V3 :=
  let '(a0, a1, a2) := a in let '(b0, b1, b2) := b in (a0 - b0, a1 - b1, a2 - b2).
Definition vscale (k : Z) (a : V3) : V3 := let '(a0, a1, a2) := a in (k * a0, k * a1, k * a2).
Definition det3v (a b c : V3) : Z := dot a (cross b c).
Definition norm2 (a : V3) : Z := dot a a.

(* ---------- rationals *)
Definition rat := (Z * Z)%type.
Definition rred (r : rat) : rat :=
  let '(n, d) := r in
  let g := Z.gcd n d in
  if g =? 0 then (0, 1) else
  let n' := n / g in let d' := d / g in
  if d' <? 0 then (- n', - d') else (n', d').
Definition rzero : rat := (0, 1).
Definition radd (a b : rat) : rat :=
  let '(an, ad) := a in let '(bn, bd) := b in rred (an * bd + bn * ad, ad * bd).
Definition rmk (n d : Z) : rat := rred (n, d).
Definition rlt (a b : rat) : bool :=
  let '(an, ad) := a in let '(bn, bd) := b in an * bd <? bn * ad.

(* ---------- planes, points, vertices *)
Record plane := mkPlane { pn : V3; pd : Z; pright : option Z; pshift : Z }.

Definition hpoint := (V3 * Z)%type.   (* (X,Y,Z), W *)
Definition hnorm (p : hpoint) : hpoint :=
  let '(x, w) := p in if w <? 0 then (vscale (-1) x, - w) else p.

(* Cramer, as intersect_planes: (d0 n1xn2 + d1 n2xn0 + d2 n0xn1) / det[n0 n1 n2] *)
Definition intersect (p0 p1 p2 : plane) : hpoint :=
  let n0 := pn p0 in let n1 := pn p1 in let n2 := pn p2 in
  hnorm (vadd (vadd (vscale (pd p0) (cross n1 n2)) (vscale (pd p1) (cross n2 n0)))
              (vscale (pd p2) (cross n0 n1)),
         det3v n0 n1 n2).

(* sign of n.x - d at a homogeneous point with W > 0 *)
Definition side (q : plane) (p : hpoint) : Z :=
  let '(x, w) := p in Z.sgn (dot (pn q) x - pd q * w).

Record vertex := mkVertex { vd : dual; vloc : hpoint }.
Definition vdefault : vertex := mkVertex (O, O, O) ((0, 0, 0), 1).

(* squared distance to g in the active subspace: (num, W^2) *)
Definition proj_dim (dim : Z) (v : V3) : V3 :=
  let '(x, y, z) := v in
  if dim =? 1 then (x, 0, 0) else if dim =? 2 then (x, y, 0) else v.

Definition radius2 (dim : Z) (g : V3) (p : hpoint) : rat :=
  let '(x, w) := p in
  (norm2 (proj_dim dim (vsub x (vscale w g))), w * w).

Definition plane_default : plane := mkPlane (0, 0, 0) 0 None 0.
Definition getp (ps : list plane) (i : nat) : plane := nth i ps plane_default.

Definition vertex_from_dual (ps : list plane) (d : dual) : vertex :=
  let '(i, j, k) := d in mkVertex d (intersect (getp ps i) (getp ps j) (getp ps k)).

(* ---------- the cell *)
Record cell := mkCell {
  cplanes : list plane;
  cverts : list vertex;
  ccycle : cycle;
}.

(* the six walls, in the code's order: x-lo, x-hi, y-lo, y-hi, z-lo, z-hi *)
Definition walls (lo hi : V3) : list plane :=
  let '(lx, ly, lz) := lo in let '(hx, hy, hz) := hi in
  [ mkPlane (1, 0, 0) lx None 0; mkPlane (-1, 0, 0) (- hx) None 0;
    mkPlane (0, 1, 0) ly None 0; mkPlane (0, -1, 0) (- hy) None 0;
    mkPlane (0, 0, 1) lz None 0; mkPlane (0, 0, -1) (- hz) None 0 ].

Definition init_duals : list dual :=
  [ (2, 5, 0); (5, 3, 0); (1, 5, 2); (5, 1, 3); (4, 2, 0); (4, 0, 3); (2, 4, 1); (4, 3, 1) ]%nat.

Definition cell_init (lo hi : V3) : cell :=
  let ps := walls lo hi in
  mkCell ps (map (vertex_from_dual ps) init_duals) (cyc_new 6).

Definition max_radius2 (dim : Z) (g : V3) (vs : list vertex) : rat :=
  fold_left (fun acc v => let r := radius2 dim g (vloc v) in if rlt acc r then r else acc) vs (0, 1).

(* clip by plane q: a vertex is removed iff it lies strictly on the negative side *)
Definition clip (c : cell) (q : plane) : option cell :=
  let removed v := side q (vloc v) <? 0 in
  let p_idx := length (cplanes c) in
  match clip_comb vertex vd vdefault (ccycle c) removed (cverts c) p_idx with
  | None => None
  | Some (cyc', kept, newduals) =>
    match newduals with
    | [] => Some c
    | _ =>
      let ps := cplanes c ++ [q] in
      Some (mkCell ps (kept ++ map (vertex_from_dual ps) newduals) cyc')
    end
  end.

(* ---------- regularity of a construction (decidable): what the theorems of Proofs/Feasible.v assume.
   Every vertex has three linearly independent planes, a cell returned unchanged really had no vertex on the negative
   side, and every boundary cycle has at least three edges. *)
Definition plane_det (p0 p1 p2 : plane) : Z := det3v (pn p0) (pn p1) (pn p2).
Definition vertex_nondegb (ps : list plane) (v : vertex) : bool :=
  let '(i, j, k) := vd v in negb (plane_det (getp ps i) (getp ps j) (getp ps k) =? 0).
Definition clip_regularb (c : cell) (q : plane) (c' : cell) : bool :=
  forallb (vertex_nondegb (cplanes c')) (cverts c') &&
  (if Nat.eqb (length (cplanes c')) (length (cplanes c))
   then forallb (fun v => 0 <=? side q (vloc v)) (cverts c)
   else Nat.leb 3 (clen (ccycle c'))).

(* a site: id, shift code (0 = no shift), position *)
Definition site := (Z * Z * V3)%type.

Definition bisector (g : V3) (s : site) : plane :=
  let '(id, sh, pos) := s in
  mkPlane (vscale 2 (vsub g pos)) (norm2 g - norm2 pos) (Some id) sh.

Definition dist2 (g : V3) (s : site) : Z := let '(_, _, pos) := s in norm2 (vsub g pos).

(* build: clip by the sites in the given order until the safety criterion
   4 * max radius2 < |g - s|^2 holds.  Returns None if an assertion of the code would fail
   (no boundary extension found) or if the sites are not sorted by distance. *)
Fixpoint build_loop (dim : Z) (g : V3) (sites : list site) (prev : Z) (c : cell) : option cell :=
  match sites with
  | [] => Some c
  | s :: rest =>
    let d2 := dist2 g s in
    if d2 <? prev then None else
    let '(rn, rd) := max_radius2 dim g (cverts c) in
    if 4 * rn <? d2 * rd then Some c
    else match clip c (bisector g s) with
         | None => None
         | Some c' => build_loop dim g rest d2 c'
         end
  end.

Definition build (dim : Z) (lo hi g : V3) (sites : list site) : option cell :=
  build_loop dim g sites 0 (cell_init lo hi).

Fixpoint build_regularb (dim : Z) (g : V3) (sites : list site) (prev : Z) (c : cell) : bool :=
  match sites with
  | [] => true
  | s :: rest =>
    let d2 := dist2 g s in
    if d2 <? prev then true else
    let '(rn, rd) := max_radius2 dim g (cverts c) in
    if 4 * rn <? d2 * rd then true
    else match clip c (bisector g s) with
         | None => true
         | Some c' => clip_regularb c (bisector g s) c' && build_regularb dim g rest d2 c'
         end
  end.

(* the brute-force oracle: no early termination *)
Fixpoint build_all_loop (g : V3) (sites : list site) (c : cell) : option cell :=
  match sites with
  | [] => Some c
  | s :: rest =>
    match clip c (bisector g s) with
    | None => None
    | Some c' => build_all_loop g rest c'
    end
  end.
Definition build_all (lo hi g : V3) (sites : list site) : option cell :=
  build_all_loop g sites (cell_init lo hi).

(* every vertex of the cell satisfies the bisector constraint of every site (and, being a vertex of
   the clipped box, the walls): the per-run exact surrogate for "no site was stopped too early" *)
Definition vertices_feasible (g : V3) (sites : list site) (c : cell) : bool :=
  forallb (fun v => forallb (fun s => 0 <=? side (bisector g s) (vloc v)) sites) (cverts c).

(* orientation invariant of duals: det[n_i, n_j, n_k] < 0 for every vertex (what makes the
   in-sphere formulation of the clip test valid, see C10) *)
Definition duals_oriented (c : cell) : bool :=
  forallb (fun v => let '(i, j, k) := vd v in
     det3v (pn (getp (cplanes c) i)) (pn (getp (cplanes c) j)) (pn (getp (cplanes c) k)) <? 0) (cverts c).

(* ---------- decomposition into tetrahedra with apex g (DecompositionWithoutFaces) *)
Definition project_onto (q : plane) (g : V3) : hpoint :=
  let n := pn q in let nn := norm2 n in
  hnorm (vadd (vscale nn g) (vscale (pd q - dot n g) n), nn).

(* project_onto_intersection(self, other, point) = intersect(self, other, perp through point) *)
Definition project_onto_line (self other : plane) (g : V3) : hpoint :=
  let m := cross (pn self) (pn other) in
  intersect self other (mkPlane m (dot m g) None 0).

Definition tet := (nat * hpoint * hpoint * hpoint)%type.  (* plane idx, v0, v1, v2 *)

Definition hdefault : hpoint := ((0, 0, 0), 1).

Definition vertex_tets (ps : list plane) (g : V3) (v : vertex) : list tet :=
  let '(d0, d1, d2) := vd v in
  let dl := [d0; d1; d2] in
  let pl i := getp ps (nth (i mod 3) dl O) in
  let projs := flat_map (fun i => [project_onto (pl i) g; project_onto_line (pl (S i)) (pl i) g]) [0; 1; 2]%nat in
  map (fun t => (nth (t / 2) dl O, nth t projs hdefault, nth ((t + 5) mod 6) projs hdefault, vloc v))
      [0; 1; 2; 3; 4; 5]%nat.

Definition decompose (c : cell) (g : V3) : list tet := flat_map (vertex_tets (cplanes c) g) (cverts c).

(* relative, scaled: P - W g *)
Definition hrel (g : V3) (p : hpoint) : V3 := let '(x, w) := p in vsub x (vscale w g).

(* 6 * signed volume of (v0, v1, v2, g): det[v1-v0, v2-v0, g-v0]; with u_i = v_i - g this is
   - det[u0, u1, u2]...  computed through relative scaled coordinates: num / (w0 w1 w2) *)
Definition tet_vol6 (g : V3) (t : tet) : rat :=
  let '(_, p0, p1, p2) := t in
  let u0 := hrel g p0 in let u1 := hrel g p1 in let u2 := hrel g p2 in
  (* det[v1 - v0, v2 - v0, g - v0] = - det[u1 - u0, u2 - u0, u0] = - det[u1, u2, u0] = - det[u0, u1, u2] *)
  rmk (- det3v u0 u1 u2) (snd p0 * snd p1 * snd p2).

Definition rscale (k : rat) (r : rat) : rat :=
  let '(kn, kd) := k in let '(n, d) := r in rmk (kn * n) (kd * d).

Definition hcoord (p : hpoint) (k : nat) : rat :=
  let '((x, y, z), w) := p in
  match k with O => rmk x w | S O => rmk y w | _ => rmk z w end.

Definition rsum (l : list rat) : rat := fold_left radd l rzero.

(* volume * 6 and sum over tets of vol6 * (v0 + v1 + v2 + g) per coordinate *)
Definition vol6_of (g : V3) (ts : list tet) : rat := rsum (map (tet_vol6 g) ts).

Definition gcoord (g : V3) (k : nat) : rat :=
  let '(x, y, z) := g in match k with O => (x, 1) | S O => (y, 1) | _ => (z, 1) end.

Definition centroid_sum (g : V3) (ts : list tet) (k : nat) : rat :=
  rsum (map (fun t => let '(_, p0, p1, p2) := t in
                      rscale (tet_vol6 g t)
                        (radd (radd (hcoord p0 k) (hcoord p1 k)) (radd (hcoord p2 k) (gcoord g k)))) ts).

(* second moments: for a tet with vertices a_0..a_3: int x_i x_j = V/20 (S_i S_j + sum_a a_i a_j) *)
Definition rmul (a b : rat) : rat := rscale a b.
Definition moment2 (g : V3) (ts : list tet) (i j : nat) : rat :=
  rsum (map (fun t => let '(_, p0, p1, p2) := t in
      let c p k := hcoord p k in
      let si := radd (radd (c p0 i) (c p1 i)) (radd (c p2 i) (gcoord g i)) in
      let sj := radd (radd (c p0 j) (c p1 j)) (radd (c p2 j) (gcoord g j)) in
      let sq := radd (radd (rmul (c p0 i) (c p0 j)) (rmul (c p1 i) (c p1 j)))
                     (radd (rmul (c p2 i) (c p2 j)) (rmul (gcoord g i) (gcoord g j))) in
      rscale (tet_vol6 g t) (radd (rmul si sj) sq)) ts).

(* faces: 2 * signed area * |n| of the base triangle in plane q, sign by the side of g *)
Definition tri_area2n (ps : list plane) (g : V3) (t : tet) : rat :=
  let '(pi, p0, p1, p2) := t in
  let q := getp ps pi in
  let u0 := hrel g p0 in let u1 := hrel g p1 in let u2 := hrel g p2 in
  let w0 := snd p0 in let w1 := snd p1 in let w2 := snd p2 in
  (* (v1 - v0) x (v2 - v0) . n, with v_i - v_0 = u_i/w_i - u_0/w_0 *)
  let e1 := vsub (vscale w0 u1) (vscale w1 u0) in   (* w0 w1 (v1 - v0) *)
  let e2 := vsub (vscale w0 u2) (vscale w2 u0) in   (* w0 w2 (v2 - v0) *)
  let num := dot (cross e1 e2) (pn q) in
  (* sign of (g - v0) . n = - u0 . n / w0 *)
  let s := Z.sgn (- dot u0 (pn q)) in
  let s := if s =? 0 then 1 else s in
  rmk (s * num) (w0 * w1 * w0 * w2).

Definition face_area2n (ps : list plane) (g : V3) (ts : list tet) (pi : nat) : rat :=
  rsum (map (tri_area2n ps g) (filter (fun t => let '(i, _, _, _) := t in Nat.eqb i pi) ts)).

Definition face_centroid_sum (ps : list plane) (g : V3) (ts : list tet) (pi : nat) (k : nat) : rat :=
  rsum (map (fun t => let '(_, p0, p1, p2) := t in
                      rscale (tri_area2n ps g t) (radd (radd (hcoord p0 k) (hcoord p1 k)) (hcoord p2 k)))
            (filter (fun t => let '(i, _, _, _) := t in Nat.eqb i pi) ts)).

Definition plane_has_tet (ts : list tet) (pi : nat) : bool :=
  existsb (fun t => let '(i, _, _, _) := t in Nat.eqb i pi) ts.

(* ---------- faces as polygons (with_faces / sort_face_vertices) *)
Definition dual_has (d : dual) (p : nat) : bool :=
  let '(a, b, c) := d in Nat.eqb a p || Nat.eqb b p || Nat.eqb c p.
Definition dual_idx (d : dual) (p : nat) : nat :=
  let '(a, b, c) := d in if Nat.eqb a p then 0%nat else if Nat.eqb b p then 1%nat else 2%nat.
Definition dual_get (d : dual) (i : nat) : nat :=
  let '(a, b, c) := d in match (i mod 3)%nat with O => a | S O => b | _ => c end.

(* find the first index >= from in the list whose vertex contains next_plane *)
Fixpoint find_next (vs : list vertex) (vi : list nat) (pos : nat) (next_plane : nat) : option nat :=
  match vi with
  | [] => None
  | x :: t => if dual_has (vd (nth x vs vdefault)) next_plane then Some pos else find_next vs t (S pos) next_plane
  end.

Fixpoint sort_loop (fuel : nat) (vs : list vertex) (p : nat) (vi : list nat) (cur : nat) (next_plane : nat)
  : option (list nat) :=
  match fuel with
  | O => Some vi
  | S f =>
    if Nat.ltb cur (pred (length vi)) then
      match find_next vs (skipn cur vi) cur next_plane with
      | None => None
      | Some t =>
        let v := nth (nth t vi O) vs vdefault in
        let np := dual_get (vd v) (S (dual_idx (vd v) p)) in
        sort_loop f vs p (swap O vi cur t) (S cur) np
      end
    else Some vi
  end.

Definition sort_face_vertices (vs : list vertex) (p : nat) (vi : list nat) : option (list nat) :=
  match vi with
  | [] => Some []
  | x :: _ =>
    let v := nth x vs vdefault in
    sort_loop (length vi) vs p vi 1 (dual_get (vd v) (S (dual_idx (vd v) p)))
  end.

Definition face_vertex_list (vs : list vertex) (p : nat) : list nat :=
  filter (fun i => dual_has (vd (nth i vs vdefault)) p) (seq 0 (length vs)).

Definition faces_of (c : cell) : list (nat * option (list nat)) :=
  filter (fun x => match snd x with Some [] => false | _ => true end)
    (map (fun p => (p, sort_face_vertices (cverts c) p (face_vertex_list (cverts c) p)))
         (seq 0 (length (cplanes c)))).

Fixpoint fan (p : nat) (vs : list vertex) (v0 : nat) (l : list nat) : list tet :=
  match l with
  | a :: ((b :: _) as t) =>
    (p, vloc (nth v0 vs vdefault), vloc (nth a vs vdefault), vloc (nth b vs vdefault)) :: fan p vs v0 t
  | _ => []
  end.

Definition decompose_faces (c : cell) : list tet :=
  flat_map (fun x => match x with
                     | (p, Some (v0 :: rest)) => fan p (cverts c) v0 rest
                     | _ => []
                     end) (faces_of c).
