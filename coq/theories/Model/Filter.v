(* Model of voronoi/half_space.rs: HalfSpace::new (d, errb) and HalfSpace::clip, on IEEE binary64 with
   round-to-nearest-even (Flocq), operation by operation as the Rust text and glam 0.27's scalar DVec3
   (dot = x*x + y*y + z*z, element_sum = x + y + z, max_element = x.max(y.max(z))) evaluate them. *)
From Coq Require Import ZArith List.
From Flocq Require Import Core BinarySingleNaN Binary Bits.
From MV Require Import Model.Grid.
Import ListNotations.
Open Scope Z_scope.

Definition fabs : f64 -> f64 := b64_abs.
Definition vec := (f64 * f64 * f64)%type.
Definition vabs (a : vec) : vec := let '(x, y, z) := a in (fabs x, fabs y, fabs z).
Definition vdot (a b : vec) : f64 :=
  let '(ax, ay, az) := a in let '(bx, by_, bz) := b in fadd (fadd (fmul ax bx) (fmul ay by_)) (fmul az bz).
Definition vsum (a : vec) : f64 := let '(x, y, z) := a in fadd (fadd x y) z.
Definition vmaxel (a : vec) : f64 := let '(x, y, z) := a in fmax x (fmax y z).

(* 1e-13 as the compiler rounds the literal *)
Definition HS_EPSILON : f64 := of_bits 0x3D3C25C268497682.

Definition hs_d (n p : vec) : f64 := vdot n p.
Definition hs_errb (n p : vec) : f64 := fmul HS_EPSILON (fadd f_one (vdot (vabs n) (vabs p))).

(* the value compared with the bound, and the bound, of HalfSpace::clip *)
Definition clip_value (n p v : vec) : f64 := fsub (vdot n v) (hs_d n p).
Definition clip_scale (p v : vec) : f64 := fmax (vmaxel (vabs p)) (vmaxel (vabs v)).
Definition clip_errb1 (n p v : vec) : f64 := fmul (fmul HS_EPSILON (vsum (vabs n))) (clip_scale p v).
Definition clip_bound (n p v : vec) : f64 := fmax (hs_errb n p) (clip_errb1 n p v).

Definition flt (a b : f64) : bool := match b64_compare a b with Some Lt => true | _ => false end.

(* result of clip: 0 = inconclusive, +1 / -1 = side decided by the filter (f64::signum: sign bit of a non-NaN value) *)
Definition clip_filter (n p v : vec) : Z :=
  let c := clip_value n p v in
  if flt (fabs c) (clip_bound n p v) then 0
  else if is_nan 53 1024 c then 2
  else if Bsign 53 1024 c then -1 else 1.

Definition vec_of_bits (l : list Z) : vec :=
  match l with [x; y; z] => (of_bits x, of_bits y, of_bits z) | _ => (of_bits 0, of_bits 0, of_bits 0) end.
Definition clip_case (n p v : list Z) : Z * Z * Z :=
  let '(n, p, v) := (vec_of_bits n, vec_of_bits p, vec_of_bits v) in
  (clip_filter n p v, to_bits (clip_value n p v), to_bits (clip_bound n p v)).
