(* The walk of sort_face_vertices closes up.  If the dual triangles of a cell form a closed oriented surface in which every directed
   edge occurs at most once (`simple`), then in the sorted vertex list of a face every vertex is joined to its successor by an edge of
   the face - including the pair placed by elimination (the loop stops one short) and the closing pair (last, first). *)
From Coq Require Import List Arith Lia Bool ZArith Permutation.
From MV Require Import Model.Cycle Model.CellExact Proofs.CycleProofs Proofs.CycleInv Proofs.CycleClosed Proofs.FaceWalk.
Import ListNotations.

Definition edgeb (d : dual) (a b : nat) : bool :=
  let '(i, j, k) := d in
  (Nat.eqb i a && Nat.eqb j b) || (Nat.eqb j a && Nat.eqb k b) || (Nat.eqb k a && Nat.eqb i b).
Fixpoint ecount (ds : list dual) (a b : nat) : nat :=
  match ds with [] => 0 | d :: t => (if edgeb d a b then 1 else 0) + ecount t a b end.
Definition simple (ds : list dual) : Prop := forall a b, a <> b -> ecount ds a b <= 1.
Definition ddist (d : dual) : Prop := let '(a, b, c) := d in a <> b /\ b <> c /\ c <> a.

Ltac eqb_cases :=
  repeat match goal with
         | |- context[Nat.eqb ?x ?y] => destruct (Nat.eqb_spec x y)
         | H : context[Nat.eqb ?x ?y] |- _ => destruct (Nat.eqb_spec x y)
         end.

Lemma dchain_edgeb d a b : ddist d -> a <> b ->
  dchain d a b = (Z.b2z (edgeb d a b) - Z.b2z (edgeb d b a))%Z.
Proof.
  destruct d as [[i j] k]. unfold ddist, dchain, tchain, contrib, edgeb. intros (H1 & H2 & H3) Hab.
  eqb_cases; subst; cbn; try lia; try congruence.
Qed.

Lemma dsum_ecount ds a b : Forall ddist ds -> a <> b ->
  dsum ds a b = (Z.of_nat (ecount ds a b) - Z.of_nat (ecount ds b a))%Z.
Proof.
  intros Hd Hab. induction Hd as [|d t Hdd _ IH]; cbn [dsum ecount]; [reflexivity|].
  rewrite IH, (dchain_edgeb d a b Hdd Hab). destruct (edgeb d a b), (edgeb d b a); cbn [Z.b2z]; lia.
Qed.

Lemma closed_sym ds a b : Forall ddist ds -> closed_surface ds -> a <> b -> ecount ds a b = ecount ds b a.
Proof. intros Hd Hc Hab. pose proof (Hc a b) as H. rewrite (dsum_ecount ds a b Hd Hab) in H. lia. Qed.

Definition dd0 : dual := (0, 0, 0).

Lemma ecount_pos_nth ds a b : 0 < ecount ds a b -> exists j, j < length ds /\ edgeb (nth j ds dd0) a b = true.
Proof.
  induction ds as [|d t IH]; cbn [ecount]; [lia|]. intros H.
  destruct (edgeb d a b) eqn:E.
  - exists 0. split; [cbn; lia|exact E].
  - destruct IH as (j & Hj & He); [lia|]. exists (S j). split; [cbn; lia|exact He].
Qed.

Lemma ecount_ge1 ds a b : forall i, i < length ds -> edgeb (nth i ds dd0) a b = true -> 1 <= ecount ds a b.
Proof.
  induction ds as [|d t IH]; intros i Hi He; [cbn in Hi; lia|]. cbn [ecount]. destruct i as [|i].
  - cbn in He. rewrite He. lia.
  - cbn in Hi, He. specialize (IH i ltac:(lia) He). lia.
Qed.

Lemma ecount_two ds a b : forall i j, i < j -> j < length ds ->
  edgeb (nth i ds dd0) a b = true -> edgeb (nth j ds dd0) a b = true -> 2 <= ecount ds a b.
Proof.
  induction ds as [|d t IH]; intros i j Hij Hj Hi He; [cbn in Hj; lia|]. cbn [ecount]. destruct j as [|j]; [lia|].
  cbn in Hj. destruct i as [|i].
  - cbn in Hi. rewrite Hi. cbn in He. pose proof (ecount_ge1 t a b j ltac:(lia) He). lia.
  - cbn in Hi, He. specialize (IH i j ltac:(lia) ltac:(lia) Hi He). lia.
Qed.

Lemma simple_unique ds a b i j : simple ds -> a <> b -> i < length ds -> j < length ds ->
  edgeb (nth i ds dd0) a b = true -> edgeb (nth j ds dd0) a b = true -> i = j.
Proof.
  intros Hs Hab Hi Hj Ei Ej. specialize (Hs a b Hab).
  destruct (lt_eq_lt_dec i j) as [[L|E]|G]; [|exact E|].
  - pose proof (ecount_two ds a b i j L Hj Ei Ej). lia.
  - pose proof (ecount_two ds a b j i G Hi Ej Ei). lia.
Qed.

(* ---------- the plane after / before p in a dual *)
Definition npd (d : dual) (p : nat) : nat := dual_get d (S (dual_idx d p)).
Definition ppd (d : dual) (p : nat) : nat := dual_get d (S (S (dual_idx d p))).

Lemma dual_np_pp d p : ddist d -> dual_has d p = true ->
  edgeb d p (npd d p) = true /\ edgeb d (ppd d p) p = true /\ npd d p <> p /\ ppd d p <> p /\ npd d p <> ppd d p.
Proof.
  destruct d as [[i j] k]. unfold ddist, dual_has, npd, ppd, dual_idx, edgeb. intros (H1 & H2 & H3) H.
  destruct (Nat.eqb_spec i p) as [->|Ni]; [|destruct (Nat.eqb_spec j p) as [->|Nj]; [|cbn in H; apply Nat.eqb_eq in H; subst k]];
    cbn; eqb_cases; subst; cbn; repeat split; try congruence; try reflexivity.
Qed.

Lemma dual_has_cases d p a : ddist d -> dual_has d p = true -> dual_has d a = true -> a <> p -> a = npd d p \/ a = ppd d p.
Proof.
  destruct d as [[i j] k]. unfold ddist, dual_has, npd, ppd, dual_idx. intros (H1 & H2 & H3) Hp Ha Hap.
  eqb_cases; subst; cbn in *; try discriminate; try congruence; auto.
Qed.

Lemma edge_to_p d p a : ddist d -> edgeb d a p = true -> dual_has d p = true /\ a = ppd d p.
Proof.
  destruct d as [[i j] k]. unfold ddist, dual_has, ppd, dual_idx, edgeb. intros (H1 & H2 & H3) H.
  eqb_cases; subst; cbn in *; try discriminate; try congruence; auto.
Qed.

Section Walk.
Variable vs : list vertex.
Variable p : nat.
Let ds := map vd vs.
Hypothesis Hd : Forall ddist ds.
Hypothesis Hc : closed_surface ds.
Hypothesis Hs : simple ds.

Let dof (i : nat) : dual := vd (nth i vs vdefault).

Lemma dof_nth i : i < length vs -> nth i ds dd0 = dof i.
Proof. intros Hi. unfold ds, dof. rewrite (nth_indep _ dd0 (vd vdefault)) by (rewrite map_length; exact Hi). apply map_nth. Qed.

Lemma dof_dist i : i < length vs -> ddist (dof i).
Proof. intros Hi. rewrite <- dof_nth by exact Hi. rewrite Forall_forall in Hd. apply Hd. apply nth_In. unfold ds. rewrite map_length. exact Hi. Qed.

Lemma fvl_spec i : In i (face_vertex_list vs p) <-> i < length vs /\ dual_has (dof i) p = true.
Proof. unfold face_vertex_list. rewrite filter_In, in_seq. unfold dof. split; intros [H1 H2]; split; try assumption; lia. Qed.

Lemma fvl_nodup : NoDup (face_vertex_list vs p).
Proof. unfold face_vertex_list. apply NoDup_filter. apply seq_NoDup. Qed.

Definition pp_of (x : nat) : nat := ppd (dof x) p.
Lemma np_of_npd x : np_of vs p x = npd (dof x) p.
Proof. reflexivity. Qed.

Theorem face_walk_closes vi' : sort_face_vertices vs p (face_vertex_list vs p) = Some vi' ->
  forall k, k < length vi' -> pp_of (nth (S k mod length vi') vi' 0) = np_of vs p (nth k vi' 0).
Proof.
  intros Hsort.
  destruct (sort_face_vertices_perm _ _ _ _ Hsort) as [Perm _].
  pose proof (sort_face_vertices_walk _ _ _ _ Hsort) as Walk.
  set (l := vi') in *. set (n := length l).
  assert (ND : NoDup l) by (eapply Permutation_NoDup; [exact Perm|apply fvl_nodup]).
  assert (Hin : forall k, k < n -> nth k l 0 < length vs /\ dual_has (dof (nth k l 0)) p = true).
  { intros k Hk. apply fvl_spec. eapply Permutation_in; [apply Permutation_sym; exact Perm|]. apply nth_In. exact Hk. }
  assert (Hidx : forall x, x < length vs -> dual_has (dof x) p = true -> exists k, k < n /\ nth k l 0 = x).
  { intros x Hx Hp. assert (I : In x l) by (eapply Permutation_in; [exact Perm|]; apply fvl_spec; split; assumption).
    destruct (In_nth _ _ 0 I) as (k & Hk & E). exists k. split; assumption. }
  set (f := fun k => np_of vs p (nth k l 0)). set (g := fun k => pp_of (nth k l 0)).
  assert (Fk : forall k, k < n -> edgeb (dof (nth k l 0)) p (f k) = true /\ edgeb (dof (nth k l 0)) (g k) p = true /\ f k <> p /\ g k <> p /\ f k <> g k).
  { intros k Hk. destruct (Hin k Hk) as [Hlt Hp]. apply dual_np_pp; [apply dof_dist; exact Hlt|exact Hp]. }
  assert (Uniq : forall a b x y, a <> b -> x < length vs -> y < length vs -> edgeb (dof x) a b = true -> edgeb (dof y) a b = true -> x = y).
  { intros a b x y Hab Hx Hy Ex Ey. apply (simple_unique ds a b x y Hs Hab); unfold ds; rewrite ?map_length; try assumption;
      fold ds; rewrite dof_nth by assumption; assumption. }
  assert (NthInj : forall k k', k < n -> k' < n -> nth k l 0 = nth k' l 0 -> k = k').
  { intros k k' Hk Hk' E. apply (proj1 (NoDup_nth l 0) ND k k' Hk Hk' E). }
  (* A: f injective *)
  assert (A : forall k k', k < n -> k' < n -> f k = f k' -> k = k').
  { intros k k' Hk Hk' E. apply NthInj; try assumption.
    destruct (Fk k Hk) as (E1 & _ & N1 & _). destruct (Fk k' Hk') as (E2 & _).
    apply (Uniq p (f k)); [congruence|apply Hin; assumption|apply Hin; assumption|exact E1|rewrite E; exact E2]. }
  (* D: the pairs placed by the search *)
  assert (D : forall k, S k < pred n -> g (S k) = f k).
  { intros k Hk. specialize (Walk k Hk). unfold adj in Walk. fold l in Walk.
    assert (Hk1 : S k < n) by lia. assert (Hk0 : k < n) by lia.
    destruct (Hin (S k) Hk1) as [Hlt Hp]. destruct (Fk k Hk0) as (E1 & _ & N1 & _). destruct (Fk (S k) Hk1) as (E2 & _).
    destruct (dual_has_cases (dof (nth (S k) l 0)) p (f k) (dof_dist _ Hlt) Hp Walk N1) as [C|C].
    - exfalso. assert (nth k l 0 = nth (S k) l 0).
      { apply (Uniq p (f k)); [congruence|apply Hin; assumption|apply Hin; assumption|exact E1|rewrite C; exact E2]. }
      apply NthInj in H; try assumption. lia.
    - unfold g, pp_of. symmetry. exact C. }
  (* C: every f k is some g k' *)
  assert (Cx : forall k, k < n -> exists k', k' < n /\ g k' = f k).
  { intros k Hk. destruct (Hin k Hk) as [Hlt Hp]. destruct (Fk k Hk) as (E1 & _ & N1 & _).
    assert (P1 : 1 <= ecount ds p (f k)).
    { apply (ecount_ge1 ds p (f k) (nth k l 0)); [unfold ds; rewrite map_length; exact Hlt|rewrite dof_nth by exact Hlt; exact E1]. }
    rewrite (closed_sym ds p (f k) Hd Hc ltac:(congruence)) in P1.
    destruct (ecount_pos_nth ds (f k) p ltac:(lia)) as (j & Hj & Ej). unfold ds in Hj. rewrite map_length in Hj.
    rewrite dof_nth in Ej by exact Hj. destruct (edge_to_p _ _ _ (dof_dist j Hj) Ej) as [Hpj Epp].
    destruct (Hidx j Hj Hpj) as (k' & Hk' & Ek'). exists k'. split; [exact Hk'|]. unfold g, pp_of. rewrite Ek'. symmetry. exact Epp. }
  assert (Cases : forall k k', k < n -> k' < n -> g k' = f k -> k' = 0 \/ k' = S k \/ k' = n - 1).
  { intros k k' Hk Hk' E. destruct k' as [|k'']; [left; reflexivity|].
    destruct (Nat.lt_ge_cases (S k'') (pred n)) as [L|G]; [|right; right; lia].
    right; left. rewrite (D k'' L) in E. apply A in E; try lia. }
  intros k Hk. fold n in Hk. fold n. change (g (S k mod n) = f k).
  destruct (Nat.lt_ge_cases (S k) (pred n)) as [L|G].
  - rewrite Nat.mod_small by lia. apply D. exact L.
  - (* k = n - 2 or k = n - 1 *)
    assert (E0 : g 0 = f (n - 1)).
    { destruct (Cx (n - 1) ltac:(lia)) as (k' & Hk' & E). assert (Hn1 : n - 1 < n) by lia. destruct (Cases (n - 1) k' Hn1 Hk' E) as [-> | [-> | ->]]; [exact E|lia|].
      destruct (Fk (n - 1) ltac:(lia)) as (_ & _ & _ & _ & Ne). congruence. }
    destruct (Nat.eq_dec k (n - 1)) as [->|Nk].
    + replace (S (n - 1)) with n by lia. rewrite Nat.mod_same by lia. exact E0.
    + assert (k = n - 2) by lia. subst k. assert (n >= 2) by lia.
      rewrite Nat.mod_small by lia. replace (S (n - 2)) with (n - 1) by lia.
      assert (Hn2 : n - 2 < n) by lia. destruct (Cx (n - 2) Hn2) as (k' & Hk' & E). destruct (Cases (n - 2) k' Hn2 Hk' E) as [-> | [-> | ->]].
      * rewrite E0 in E. apply A in E; lia.
      * replace (S (n - 2)) with (n - 1) in E by lia. exact E.
      * exact E.
Qed.
End Walk.

(* ---------- the hypotheses as one decidable predicate on the duals: planes of every triangle distinct, and every directed edge of
   every triangle occurs exactly once, as does its reverse *)
Definition ddistb (d : dual) : bool := let '(a, b, c) := d in negb (Nat.eqb a b) && negb (Nat.eqb b c) && negb (Nat.eqb c a).
Definition edges3 (d : dual) : list (nat * nat) := let '(a, b, c) := d in [(a, b); (b, c); (c, a)].
Definition surfaceb (ds : list dual) : bool :=
  forallb ddistb ds &&
  forallb (fun d => forallb (fun '(a, b) => Nat.eqb (ecount ds a b) 1 && Nat.eqb (ecount ds b a) 1) (edges3 d)) ds.

Lemma ddistb_spec d : ddistb d = true -> ddist d.
Proof. destruct d as [[a b] c]. unfold ddistb, ddist. intros H. eqb_cases; subst; cbn in H; try discriminate; repeat split; congruence. Qed.

Lemma edgeb_edges3 d a b : edgeb d a b = true -> In (a, b) (edges3 d).
Proof. destruct d as [[i j] k]. unfold edgeb, edges3. intros H. eqb_cases; subst; cbn in H; try discriminate; cbn; auto. Qed.

Lemma dchain_diag d a : dchain d a a = 0%Z.
Proof. destruct d as [[i j] k]. unfold dchain, tchain, contrib. eqb_cases; subst; cbn; lia. Qed.

Lemma dsum_diag ds a : dsum ds a a = 0%Z.
Proof. induction ds as [|d t IH]; cbn [dsum]; [reflexivity|]. rewrite IH, dchain_diag. reflexivity. Qed.

Lemma surfaceb_spec ds : surfaceb ds = true -> Forall ddist ds /\ closed_surface ds /\ simple ds.
Proof.
  unfold surfaceb. intros H. apply andb_prop in H. destruct H as [H1 H2].
  assert (Hd : Forall ddist ds).
  { rewrite forallb_forall in H1. apply Forall_forall. intros d Hin. apply ddistb_spec. apply H1. exact Hin. }
  assert (Key : forall a b, 0 < ecount ds a b -> ecount ds a b = 1 /\ ecount ds b a = 1).
  { intros a b Hp. destruct (ecount_pos_nth ds a b Hp) as (j & Hj & Ej).
    rewrite forallb_forall in H2. specialize (H2 (nth j ds dd0) (nth_In ds dd0 Hj)).
    rewrite forallb_forall in H2. specialize (H2 (a, b) (edgeb_edges3 _ _ _ Ej)). cbn in H2.
    apply andb_prop in H2. destruct H2 as [E1 E2]. apply Nat.eqb_eq in E1, E2. split; assumption. }
  assert (Sym : forall a b, ecount ds a b = ecount ds b a /\ ecount ds a b <= 1).
  { intros a b. destruct (Nat.eq_dec (ecount ds a b) 0) as [Z1|P1].
    - destruct (Nat.eq_dec (ecount ds b a) 0) as [Z2|P2]; [lia|]. destruct (Key b a ltac:(lia)). lia.
    - destruct (Key a b ltac:(lia)). lia. }
  split; [exact Hd|]. split.
  - intros x y. destruct (Nat.eq_dec x y) as [->|N]; [apply dsum_diag|]. rewrite (dsum_ecount ds x y Hd N). destruct (Sym x y). lia.
  - intros a b _. apply Sym.
Qed.

Theorem face_walk_closes_checked vs p vi' : surfaceb (map vd vs) = true ->
  sort_face_vertices vs p (face_vertex_list vs p) = Some vi' ->
  forall k, k < length vi' -> pp_of vs p (nth (S k mod length vi') vi' 0) = np_of vs p (nth k vi' 0).
Proof.
  intros H. destruct (surfaceb_spec _ H) as (Hd & Hc & Hs). apply face_walk_closes; assumption.
Qed.

(* in terms of shared planes: each vertex of the sorted list and its cyclic successor lie on the face's plane and on one more common plane *)
Corollary face_walk_cyclic_adjacent vs p vi' : surfaceb (map vd vs) = true ->
  sort_face_vertices vs p (face_vertex_list vs p) = Some vi' ->
  forall k, k < length vi' ->
  dual_has (vd (nth (nth (S k mod length vi') vi' 0) vs vdefault)) (np_of vs p (nth k vi' 0)) = true /\
  dual_has (vd (nth (nth k vi' 0) vs vdefault)) (np_of vs p (nth k vi' 0)) = true /\
  np_of vs p (nth k vi' 0) <> p.
Proof.
  intros H Hsort k Hk. pose proof (face_walk_closes_checked vs p vi' H Hsort k Hk) as E.
  destruct (surfaceb_spec _ H) as (Hd & _ & _).
  destruct (sort_face_vertices_perm _ _ _ _ Hsort) as [Perm _].
  assert (Hin : forall j, j < length vi' -> nth j vi' 0 < length vs /\ dual_has (vd (nth (nth j vi' 0) vs vdefault)) p = true).
  { intros j Hj. apply (fvl_spec vs p). eapply Permutation_in; [apply Permutation_sym; exact Perm|]. apply nth_In. exact Hj. }
  assert (Hm : S k mod length vi' < length vi') by (apply Nat.mod_upper_bound; lia).
  destruct (Hin _ Hm) as [L1 P1]. destruct (Hin _ Hk) as [L0 P0].
  pose proof (dof_dist vs Hd _ L1) as D1. pose proof (dof_dist vs Hd _ L0) as D0.
  destruct (dual_np_pp _ p D1 P1) as (_ & E1 & _). destruct (dual_np_pp _ p D0 P0) as (E0 & _ & N0 & _).
  unfold pp_of in E. rewrite np_of_npd in *. 
  split; [|split].
  - rewrite <- E. destruct (edge_to_p _ _ _ D1 E1) as [_ _].
    clear - E1 D1. destruct (vd (nth (nth (S k mod length vi') vi' 0) vs vdefault)) as [[i j] q]. unfold edgeb, dual_has in *.
    eqb_cases; subst; cbn in *; try discriminate; reflexivity.
  - clear - E0. destruct (vd (nth (nth k vi' 0) vs vdefault)) as [[i j] q]. unfold edgeb, dual_has in *.
    eqb_cases; subst; cbn in *; try discriminate; reflexivity.
  - exact N0.
Qed.
