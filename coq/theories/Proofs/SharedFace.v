(* Reciprocity from the converse of C01: a vertex of cell i that lies on the bisector towards j is equidistant from
   i and j and at least as close to them as to every other site - it belongs to the region of j as well. *)
From Coq Require Import ZArith List Lia Psatz.
From MV Require Import Model.Cycle Model.CellExact Proofs.CellProofs Proofs.HullProofs.
Import ListNotations.
Open Scope Z_scope.

Lemma on_bisector_equidistant g s p : lin (bisector g s) p = 0 -> hdist2 g p = hdist2 (site_pos s) p.
Proof.
  destruct p as [x w]. intros H. pose proof (bisector_identity g s x w) as E. unfold lin in H. rewrite H in E. lia.
Qed.

Theorem face_vertex_in_both_regions g sj sites p :
  (forall s, In s sites -> closer g s p) -> lin (bisector g sj) p = 0 ->
  hdist2 (site_pos sj) p = hdist2 g p /\ forall s, In s sites -> hdist2 (site_pos sj) p <= hdist2 (site_pos s) p.
Proof.
  intros Hall Hb. pose proof (on_bisector_equidistant g sj p Hb) as E. split; [lia|].
  intros s Hs. specialize (Hall s Hs). unfold closer in Hall. lia.
Qed.
