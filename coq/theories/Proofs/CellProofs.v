(* Soundness of the exact clipping model: the planes of a built cell are the walls and bisectors
   of the given sites, hence the cell contains the nearest-generator region; vertices lie on their
   three planes (Cramer). *)
From Coq Require Import ZArith List Lia Bool Psatz.
From MV Require Import Model.Cycle Model.CellExact.
Import ListNotations.
Open Scope Z_scope.

(* ---------- planes of a cell never change except by appending the clipping plane *)
Lemma clip_planes c q c' : clip c q = Some c' ->
  cplanes c' = cplanes c \/ cplanes c' = cplanes c ++ [q].
Proof.
  unfold clip. destruct (clip_comb _ _ _ _ _ _ _) as [[[cyc' kept] nd]|]; [|discriminate].
  destruct nd as [|d nd]; intros H; inversion H; subst; cbn; auto.
Qed.

Definition plane_of_input (lo hi g : V3) (sites : list site) (q : plane) : Prop :=
  In q (walls lo hi) \/ exists s, In s sites /\ q = bisector g s.

Lemma build_loop_planes dim g lo hi all_sites : forall sites prev c c',
  (forall s, In s sites -> In s all_sites) ->
  Forall (plane_of_input lo hi g all_sites) (cplanes c) ->
  build_loop dim g sites prev c = Some c' ->
  Forall (plane_of_input lo hi g all_sites) (cplanes c').
Proof.
  induction sites as [|s rest IH]; intros prev c c' Hsub Hc H; cbn [build_loop] in H.
  - inversion H; subst; assumption.
  - destruct (dist2 g s <? prev); [discriminate|].
    destruct (max_radius2 dim g (cverts c)) as [rn rd].
    destruct (4 * rn <? dist2 g s * rd); [inversion H; subst; assumption|].
    destruct (clip c (bisector g s)) as [c1|] eqn:Ec; [|discriminate].
    apply (IH _ _ _ (fun s' Hs' => Hsub s' (or_intror Hs')) ) in H; [assumption|].
    destruct (clip_planes _ _ _ Ec) as [E|E]; rewrite E; [assumption|].
    apply Forall_app. split; [assumption|]. constructor; [|constructor].
    right. exists s. split; [apply Hsub; left; reflexivity | reflexivity].
Qed.

Theorem planes_are_bisectors dim lo hi g sites c :
  build dim lo hi g sites = Some c ->
  Forall (plane_of_input lo hi g sites) (cplanes c).
Proof.
  unfold build. intros H. eapply build_loop_planes; [| |exact H]; [auto|].
  cbn [cell_init cplanes]. apply Forall_forall. intros q Hq. left. exact Hq.
Qed.

Lemma build_all_loop_planes g lo hi all_sites : forall sites c c',
  (forall s, In s sites -> In s all_sites) ->
  Forall (plane_of_input lo hi g all_sites) (cplanes c) ->
  build_all_loop g sites c = Some c' ->
  Forall (plane_of_input lo hi g all_sites) (cplanes c').
Proof.
  induction sites as [|s rest IH]; intros c c' Hsub Hc H; cbn [build_all_loop] in H.
  - inversion H; subst; assumption.
  - destruct (clip c (bisector g s)) as [c1|] eqn:Ec; [|discriminate].
    apply (IH _ _ (fun s' Hs' => Hsub s' (or_intror Hs'))) in H; [assumption|].
    destruct (clip_planes _ _ _ Ec) as [E|E]; rewrite E; [assumption|].
    apply Forall_app. split; [assumption|]. constructor; [|constructor].
    right. exists s. split; [apply Hsub; left; reflexivity | reflexivity].
Qed.

(* ---------- the bisector half space is "at least as close to g as to s" *)
Definition hrel_to (a : V3) (p : hpoint) : V3 := let '(x, w) := p in vsub x (vscale w a).
(* W^2 |x - a|^2 for x = X/W *)
Definition hdist2 (a : V3) (p : hpoint) : Z := norm2 (hrel_to a p).

Definition site_pos (s : site) : V3 := let '(_, _, pos) := s in pos.

Definition closer (g : V3) (s : site) (p : hpoint) : Prop := hdist2 g p <= hdist2 (site_pos s) p.

Lemma bisector_identity g s x w :
  w * (dot (pn (bisector g s)) x - pd (bisector g s) * w) = hdist2 (site_pos s) (x, w) - hdist2 g (x, w).
Proof.
  destruct s as [[id sh] pos]. destruct g as [[g0 g1] g2], pos as [[s0 s1] s2], x as [[x0 x1] x2].
  cbv [bisector pn pd hdist2 hrel_to site_pos norm2 dot vsub vscale]. ring.
Qed.

Lemma bisector_side g s p : 0 < snd p -> (0 <= side (bisector g s) p <-> closer g s p).
Proof.
  destruct p as [x w]. cbn [snd]. intros Hw. unfold side, closer.
  pose proof (bisector_identity g s x w) as E.
  set (v := dot (pn (bisector g s)) x - pd (bisector g s) * w) in *.
  split; intros H.
  - assert (0 <= v) by (destruct v; cbn in H; lia). nia.
  - assert (0 <= w * v) by lia. assert (0 <= v) by nia. destruct v; cbn; lia.
Qed.

(* the cell contains every point of the box that is at least as close to g as to every site:
   no spurious cut, whatever the order of the sites and wherever the loop stops *)
Definition in_planes (ps : list plane) (p : hpoint) : Prop := Forall (fun q => 0 <= side q p) ps.

Definition voronoi_region (lo hi g : V3) (sites : list site) (p : hpoint) : Prop :=
  in_planes (walls lo hi) p /\ forall s, In s sites -> closer g s p.

Theorem cell_superset_voronoi dim lo hi g sites c p :
  build dim lo hi g sites = Some c -> 0 < snd p ->
  voronoi_region lo hi g sites p -> in_planes (cplanes c) p.
Proof.
  intros Hb Hw [Hbox Hs]. pose proof (planes_are_bisectors _ _ _ _ _ _ Hb) as HP.
  unfold in_planes in *. rewrite Forall_forall in *. intros q Hq.
  destruct (HP q Hq) as [Hwall | (s & Hin & ->)].
  - apply Hbox; assumption.
  - apply bisector_side; [assumption | apply Hs; assumption].
Qed.

(* the oracle (no early termination, every site clipped or found not to cut) has the same property;
   its H-representation is contained in walls + all bisectors *)
Theorem build_all_superset_voronoi lo hi g sites c p :
  build_all lo hi g sites = Some c -> 0 < snd p ->
  voronoi_region lo hi g sites p -> in_planes (cplanes c) p.
Proof.
  intros Hb Hw [Hbox Hs].
  assert (HP : Forall (plane_of_input lo hi g sites) (cplanes c)).
  { unfold build_all in Hb. eapply build_all_loop_planes; [| |exact Hb]; [auto|].
    cbn [cell_init cplanes]. apply Forall_forall. intros q Hq. left. exact Hq. }
  unfold in_planes in *. rewrite Forall_forall in *. intros q Hq.
  destruct (HP q Hq) as [Hwall | (s & Hin & ->)].
  - apply Hbox; assumption.
  - apply bisector_side; [assumption | apply Hs; assumption].
Qed.

(* ---------- Cramer: a vertex lies on its three planes *)
Lemma intersect_on_planes p0 p1 p2 :
  let v := intersect p0 p1 p2 in
  side p0 v = 0 /\ side p1 v = 0 /\ side p2 v = 0.
Proof.
  destruct p0 as [[[a0 a1] a2] d0 r0 s0], p1 as [[[b0 b1] b2] d1 r1 s1], p2 as [[[c0 c1] c2] d2 r2 s2].
  cbv zeta. unfold intersect, hnorm. cbn [pn pd].
  match goal with |- context[if ?b then _ else _] => destruct b end;
    cbv [side pn pd dot vadd vscale cross det3v fst snd];
    repeat split; match goal with |- Z.sgn ?e = 0 => replace e with 0 by ring; reflexivity end.
Qed.

Theorem vertex_on_its_planes ps d :
  let v := vertex_from_dual ps d in
  let '(i, j, k) := d in
  side (getp ps i) (vloc v) = 0 /\ side (getp ps j) (vloc v) = 0 /\ side (getp ps k) (vloc v) = 0.
Proof.
  destruct d as [[i j] k]. cbn [vertex_from_dual vloc]. apply intersect_on_planes.
Qed.

(* non-vacuity: a concrete 2-generator input; the midpoint region point (1,1,1) is in the region *)
Example superset_hyps_satisfiable :
  exists c, build 3 (0,0,0) (8,8,8) (2,2,2) [(1, 0, (6,6,6))] = Some c /\
            voronoi_region (0,0,0) (8,8,8) (2,2,2) [(1, 0, (6,6,6))] ((1,1,1), 1) /\
            length (cplanes c) = 7%nat.
Proof.
  eexists. split; [vm_compute; reflexivity|]. split.
  - split.
    + unfold in_planes, walls. repeat constructor; vm_compute; discriminate.
    + intros s [<-|[]]. vm_compute. discriminate.
  - reflexivity.
Qed.

Lemma normal_direction : forall g s : site, forall gpos : V3,
  site_pos s <> gpos ->
  0 < dot (vscale (-1) (pn (bisector gpos s))) (vsub (site_pos s) gpos).
Proof.
  intros g s gpos Hne. destruct s as [[id sh] [[s0 s1] s2]]. destruct gpos as [[g0 g1] g2].
  cbn [site_pos] in Hne. cbv [bisector pn vscale vsub dot site_pos].
  assert (H : s0 <> g0 \/ s1 <> g1 \/ s2 <> g2).
  { destruct (Z.eq_dec s0 g0), (Z.eq_dec s1 g1), (Z.eq_dec s2 g2); subst; auto. }
  set (d0 := s0 - g0) in *. set (d1 := s1 - g1) in *. set (d2 := s2 - g2) in *.
  replace (-1 * (2 * (g0 - s0)) * d0 + -1 * (2 * (g1 - s1)) * d1 + -1 * (2 * (g2 - s2)) * d2)
    with (2 * (d0 * d0 + d1 * d1 + d2 * d2)) by (unfold d0, d1, d2; ring).
  pose proof (Z.square_nonneg d0). pose proof (Z.square_nonneg d1). pose proof (Z.square_nonneg d2).
  assert (N : forall d, d <> 0 -> 0 < d * d) by (intros; nia).
  destruct H as [H|[H|H]].
  - assert (Hd : d0 <> 0) by (unfold d0; lia). pose proof (N d0 Hd). lia.
  - assert (Hd : d1 <> 0) by (unfold d1; lia). pose proof (N d1 Hd). lia.
  - assert (Hd : d2 <> 0) by (unfold d2; lia). pose proof (N d2 Hd). lia.
Qed.
