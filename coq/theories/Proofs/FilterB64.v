(* HalfSpace::clip on IEEE binary64 (Model/Filter.v, Flocq operations): a conclusive filter decision has the sign of the exact
   n . (v - p) of the given floating-point data, for all finite inputs on which the computed value and the two bounds are finite. *)
From Coq Require Import ZArith Reals Lra Lia.
From Flocq Require Import Core BinarySingleNaN Binary Bits Relative.
From MV Require Import Model.Grid Model.Filter Proofs.GridFlocq Proofs.FilterErr.
Open Scope R_scope.

Definition eta64 : R := / 2 * bpow radix2 (-1074).

Lemma pow2_lit (e : positive) (z : Z) : Zpower_pos radix2 e = z -> bpow radix2 (Zneg e) = / IZR z.
Proof. intros <-. reflexivity. Qed.

Lemma u_bpow : / 2 * bpow radix2 (-53 + 1) = u.
Proof. change (-53 + 1)%Z with (-52)%Z. rewrite (pow2_lit 52 4503599627370496) by (vm_compute; reflexivity). unfold u. lra. Qed.

Lemma rnd64_err x : Rabs (rnd64 x - x) <= u * Rabs x + eta64.
Proof.
  destruct (error_N_FLT radix2 (-1074) 53 ltac:(lia) (fun x => negb (Z.even x)) x) as (eps & eta & He & Ht & _ & E).
  unfold rnd64. change (3 - 1024 - 53)%Z with (-1074)%Z. rewrite E.
  replace (x * (1 + eps) + eta - x) with (x * eps + eta) by ring.
  eapply Rle_trans; [apply Rabs_triang|]. rewrite Rabs_mult. assert (He' : Rabs eps <= u) by (rewrite <- u_bpow; exact He). unfold eta64.
  pose proof (Rabs_pos x). pose proof (Rmult_le_compat_l _ _ _ H He'). lra.
Qed.

Lemma eta64_pos : 0 <= eta64.
Proof. unfold eta64. pose proof (bpow_ge_0 radix2 (-1074)). lra. Qed.

Lemma eta64_small : eta64 <= u / 1000.
Proof.
  unfold eta64. assert (bpow radix2 (-1074) <= bpow radix2 (-63)) by (apply bpow_le; lia).
  rewrite (pow2_lit 63 9223372036854775808) in H by (vm_compute; reflexivity). unfold u. lra.
Qed.

Lemma rnd64_0 : rnd64 0 = 0.
Proof. unfold rnd64. apply round_0. apply valid_rnd_N. Qed.

Lemma rnd64_b2r (f : f64) : rnd64 (b2r f) = b2r f.
Proof. unfold rnd64. apply round_generic; [apply valid_rnd_N|]. apply generic_format_B2R. Qed.

Ltac const_b2r c m e :=
  let E := fresh "E" in
  assert (E : exists pf, c = B754_finite 53 1024 false m e pf) by (vm_compute; eexists; reflexivity);
  destruct E as [? ->]; cbn [B2R]; unfold F2R; cbn [Fnum Fexp cond_Zopp].

Lemma b2r_one' : b2r f_one = 1.
Proof.
  const_b2r f_one 4503599627370496%positive (-52)%Z.
  rewrite (pow2_lit 52 4503599627370496) by (vm_compute; reflexivity). lra.
Qed.

Lemma b2r_eps : b2r HS_EPSILON = EPSr.
Proof.
  const_b2r HS_EPSILON 7922816251426434%positive (-96)%Z.
  rewrite (pow2_lit 96 79228162514264337593543950336) by (vm_compute; reflexivity). unfold EPSr. lra.
Qed.

Lemma rnd64_1 : rnd64 1 = 1.
Proof. rewrite <- b2r_one'. apply rnd64_b2r. Qed.
Lemma rnd64_eps : rnd64 EPSr = EPSr.
Proof. rewrite <- b2r_eps. apply rnd64_b2r. Qed.

Lemma etaM_fin (m : R) : 0 <= m -> m < bpow radix2 1024 -> eta64 * m <= 4 * u.
Proof.
  intros H0 H1. unfold eta64.
  assert (bpow radix2 (-1074) * m <= bpow radix2 (-1074) * bpow radix2 1024).
  { apply Rmult_le_compat_l; [apply bpow_ge_0|lra]. }
  rewrite <- bpow_plus in H. change (-1074 + 1024)%Z with (-50)%Z in H.
  rewrite (pow2_lit 50 1125899906842624) in H by (vm_compute; reflexivity). unfold u. lra.
Qed.

(* ---- operations *)
Lemma fabs_b2r x : b2r (fabs x) = Rabs (b2r x).
Proof. apply B2R_Babs. Qed.
Lemma fabs_fin x : fin (fabs x) = fin x.
Proof. apply is_finite_Babs. Qed.

Lemma fmax_ok a b : fin a = true -> fin b = true -> fin (fmax a b) = true /\ b2r (fmax a b) = Rmax (b2r a) (b2r b).
Proof.
  intros Fa Fb. unfold fmax, b64_compare. rewrite (Bcompare_correct 53 1024 a b Fa Fb).
  destruct (Rcompare_spec (b2r a) (b2r b)) as [H|H|H].
  - split; [exact Fb|]. rewrite Rmax_right; lra.
  - split; [exact Fa|]. rewrite Rmax_left; lra.
  - split; [exact Fa|]. rewrite Rmax_left; lra.
Qed.

Lemma flt_false a b : fin a = true -> fin b = true -> flt a b = false -> b2r b <= b2r a.
Proof.
  intros Fa Fb. unfold flt, b64_compare. rewrite (Bcompare_correct 53 1024 a b Fa Fb).
  destruct (Rcompare_spec (b2r a) (b2r b)) as [H|H|H]; intros; try discriminate; lra.
Qed.

Lemma sign_pos (c : f64) : is_nan 53 1024 c = false -> Bsign 53 1024 c = false -> 0 <= b2r c.
Proof.
  destruct c as [s|s|s pl H|s m e H]; cbn; intros; try lra; try discriminate.
  subst s. apply F2R_ge_0. cbn. lia.
Qed.
Lemma sign_neg (c : f64) : is_nan 53 1024 c = false -> Bsign 53 1024 c = true -> b2r c <= 0.
Proof.
  destruct c as [s|s|s pl H|s m e H]; cbn; intros; try lra; try discriminate.
  subst s. apply F2R_le_0. cbn. lia.
Qed.

Definition dot64 := dotr rnd64.

Lemma vdot_ok a1 a2 a3 b1 b2 b3 : fin (vdot (a1, a2, a3) (b1, b2, b3)) = true ->
  (fin a1 = true /\ fin a2 = true /\ fin a3 = true) /\ (fin b1 = true /\ fin b2 = true /\ fin b3 = true) /\
  b2r (vdot (a1, a2, a3) (b1, b2, b3)) = dot64 (b2r a1) (b2r a2) (b2r a3) (b2r b1) (b2r b2) (b2r b3).
Proof.
  cbn [vdot]. intros F.
  destruct (fadd_fin _ _ F) as [F12 F3]. destruct (fadd_fin _ _ F12) as [F1 F2].
  destruct (fmul_fin _ _ F1) as [? ?]. destruct (fmul_fin _ _ F2) as [? ?]. destruct (fmul_fin _ _ F3) as [? ?].
  repeat split; try assumption.
  rewrite (fadd_b2r _ _ F), (fadd_b2r _ _ F12), (fmul_b2r _ _ F1), (fmul_b2r _ _ F2), (fmul_b2r _ _ F3). reflexivity.
Qed.

Definition exactE (n p v : vec) : R :=
  let '(n1, n2, n3) := n in let '(p1, p2, p3) := p in let '(v1, v2, v3) := v in
  b2r n1 * (b2r v1 - b2r p1) + b2r n2 * (b2r v2 - b2r p2) + b2r n3 * (b2r v3 - b2r p3).

Theorem clip_filter_sound (n p v : vec) :
  fin (clip_value n p v) = true -> fin (hs_errb n p) = true -> fin (clip_errb1 n p v) = true ->
  (clip_filter n p v = 1%Z -> 0 < exactE n p v) /\ (clip_filter n p v = (-1)%Z -> exactE n p v < 0).
Proof.
  destruct n as [[n1 n2] n3], p as [[p1 p2] p3], v as [[v1 v2] v3].
  intros Fc F0 F1.
  (* the computed value *)
  unfold clip_value, hs_d in Fc. destruct (fsub_fin _ _ Fc) as [Fv Fp].
  destruct (vdot_ok _ _ _ _ _ _ Fv) as ((Fn1 & Fn2 & Fn3) & (Fv1 & Fv2 & Fv3) & Ev).
  destruct (vdot_ok _ _ _ _ _ _ Fp) as (_ & (Fp1 & Fp2 & Fp3) & Ep).
  assert (Ec : b2r (clip_value (n1, n2, n3) (p1, p2, p3) (v1, v2, v3))
               = clip_r rnd64 (b2r n1) (b2r n2) (b2r n3) (b2r p1) (b2r p2) (b2r p3) (b2r v1) (b2r v2) (b2r v3)).
  { unfold clip_value, hs_d. rewrite (fsub_b2r _ _ Fc), Ev, Ep. reflexivity. }
  (* the first bound *)
  assert (E0 : b2r (hs_errb (n1, n2, n3) (p1, p2, p3)) = errb0_r rnd64 (b2r n1) (b2r n2) (b2r n3) (b2r p1) (b2r p2) (b2r p3)).
  { unfold hs_errb in *. destruct (fmul_fin _ _ F0) as [_ Fa]. destruct (fadd_fin _ _ Fa) as [_ Fd]. cbn [vabs] in *.
    destruct (vdot_ok _ _ _ _ _ _ Fd) as (_ & _ & Ed).
    rewrite (fmul_b2r _ _ F0), (fadd_b2r _ _ Fa), Ed, b2r_eps, b2r_one', !fabs_b2r. reflexivity. }
  (* the scale *)
  assert (Fs : fin (clip_scale (p1, p2, p3) (v1, v2, v3)) = true /\
               b2r (clip_scale (p1, p2, p3) (v1, v2, v3)) =
               Rmax (Rmax (Rabs (b2r p1)) (Rmax (Rabs (b2r p2)) (Rabs (b2r p3)))) (Rmax (Rabs (b2r v1)) (Rmax (Rabs (b2r v2)) (Rabs (b2r v3))))).
  { unfold clip_scale. cbn [vabs vmaxel].
    destruct (fmax_ok (fabs p2) (fabs p3)) as [Fa Ea]; [rewrite fabs_fin; assumption..|].
    destruct (fmax_ok (fabs p1) _ ltac:(rewrite fabs_fin; assumption) Fa) as [Fb Eb].
    destruct (fmax_ok (fabs v2) (fabs v3)) as [Fc' Ec']; [rewrite fabs_fin; assumption..|].
    destruct (fmax_ok (fabs v1) _ ltac:(rewrite fabs_fin; assumption) Fc') as [Fd Ed].
    destruct (fmax_ok _ _ Fb Fd) as [Fe Ee]. split; [exact Fe|].
    rewrite Ee, Eb, Ed, Ea, Ec', !fabs_b2r. reflexivity. }
  destruct Fs as [Fs Es].
  set (M := Rmax (Rmax (Rabs (b2r p1)) (Rmax (Rabs (b2r p2)) (Rabs (b2r p3)))) (Rmax (Rabs (b2r v1)) (Rmax (Rabs (b2r v2)) (Rabs (b2r v3))))) in *.
  assert (E1 : b2r (clip_errb1 (n1, n2, n3) (p1, p2, p3) (v1, v2, v3)) = errb1_r rnd64 (b2r n1) (b2r n2) (b2r n3) (b2r p1) (b2r p2) (b2r p3) (b2r v1) (b2r v2) (b2r v3)).
  { unfold clip_errb1 in *. destruct (fmul_fin _ _ F1) as [Fq _]. destruct (fmul_fin _ _ Fq) as [_ Fsum].
    cbn [vabs vsum] in *. destruct (fadd_fin _ _ Fsum) as [F12 _].
    rewrite (fmul_b2r _ _ F1), (fmul_b2r _ _ Fq), (fadd_b2r _ _ Fsum), (fadd_b2r _ _ F12), Es, b2r_eps, !fabs_b2r. reflexivity. }
  destruct (fmax_ok _ _ F0 F1) as [Fb Eb]. fold (clip_bound (n1, n2, n3) (p1, p2, p3) (v1, v2, v3)) in Fb, Eb.
  rewrite E0, E1 in Eb.
  (* the real-number theorem *)
  assert (HM : eta64 * M <= 4 * u).
  { apply etaM_fin.
    - unfold M. eapply Rle_trans; [apply Rabs_pos|]. eapply Rle_trans; [apply Rmax_l|]. apply Rmax_l.
    - rewrite <- Es. eapply Rle_lt_trans; [apply Rle_abs|]. apply abs_B2R_lt_emax. }
  pose proof (clip_conclusive_sound rnd64 eta64 eta64_pos eta64_small rnd64_err rnd64_le rnd64_0 rnd64_1 rnd64_eps
                (b2r n1) (b2r n2) (b2r n3) (b2r p1) (b2r p2) (b2r p3) (b2r v1) (b2r v2) (b2r v3) HM) as [Hpos Hneg].
  fold (errb_r rnd64 (b2r n1) (b2r n2) (b2r n3) (b2r p1) (b2r p2) (b2r p3) (b2r v1) (b2r v2) (b2r v3)) in Eb.
  rewrite <- Eb, <- Ec in Hpos, Hneg. cbn [exactE].
  unfold clip_filter.
  set (c := clip_value (n1, n2, n3) (p1, p2, p3) (v1, v2, v3)) in *.
  set (b := clip_bound (n1, n2, n3) (p1, p2, p3) (v1, v2, v3)) in *.
  destruct (flt (fabs c) b) eqn:Hlt; [split; discriminate|].
  assert (Fac : fin (fabs c) = true) by (rewrite fabs_fin; exact Fc).
  pose proof (flt_false _ _ Fac Fb Hlt) as Hge. rewrite fabs_b2r in Hge.
  destruct (is_nan 53 1024 c) eqn:Hnan; [split; discriminate|].
  destruct (Bsign 53 1024 c) eqn:Hs; split; intros Hr; try discriminate.
  - apply Hneg. pose proof (sign_neg c Hnan Hs). rewrite Rabs_left1 in Hge by assumption. lra.
  - apply Hpos. pose proof (sign_pos c Hnan Hs). rewrite Rabs_pos_eq in Hge by assumption. lra.
Qed.
