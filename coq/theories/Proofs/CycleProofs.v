(* C18: the boundary cycle maintained by SimpleCycle is the boundary CHAIN of the triangles it was built
   from - a statement that does not mention the order in which the triangles were offered nor the
   rotation of each triple.  Chains: integer combinations of directed edges with (b,a) = -(a,b). *)
From Coq Require Import List Arith ZArith Lia Bool Permutation.
From MV Require Import Model.Cycle.
Import ListNotations.
Open Scope Z_scope.

(* contribution of one pointer x -> y to the coefficient of the directed edge (a,b) *)
Definition contrib (x y a b : nat) : Z :=
  if Nat.eqb x y then 0
  else (if Nat.eqb x a && Nat.eqb y b then 1 else 0) - (if Nat.eqb x b && Nat.eqb y a then 1 else 0).

Lemma contrib_antisym x y a b : contrib x y b a = - contrib x y a b.
Proof. unfold contrib. destruct (Nat.eqb x y); lia. Qed.

Lemma contrib_self x a b : contrib x x a b = 0.
Proof. unfold contrib. now rewrite Nat.eqb_refl. Qed.

Lemma contrib_rev x y a b : contrib y x a b = - contrib x y a b.
Proof.
  unfold contrib. rewrite (Nat.eqb_sym y x). destruct (Nat.eqb x y); [lia|].
  rewrite (andb_comm (Nat.eqb y a)), (andb_comm (Nat.eqb y b)). lia.
Qed.

(* chain of a pointer array: coefficient of (a,b) = [a -> b] - [b -> a] (self pointers do not count) *)
Definition pchain (p : list nat) (a b : nat) : Z :=
  (if negb (Nat.eqb a b) && Nat.eqb (ptr p a) b then 1 else 0) - (if negb (Nat.eqb a b) && Nat.eqb (ptr p b) a then 1 else 0).

(* chain of a triangle (i,j,k): edges (i,j), (j,k), (k,i) *)
Definition tchain (i j k a b : nat) : Z := contrib i j a b + contrib j k a b + contrib k i a b.

Lemma tchain_rot i j k a b : tchain j k i a b = tchain i j k a b.
Proof. unfold tchain. lia. Qed.

Lemma nth_upd_same {A} (l : list A) i x d : (i < length l)%nat -> nth i (upd l i x) d = x.
Proof. revert i. induction l as [|h t IH]; intros [|i] H; cbn in *; try lia; auto. apply IH. lia. Qed.
Lemma nth_upd_other {A} (l : list A) i j x d : i <> j -> nth j (upd l i x) d = nth j l d.
Proof. revert i j. induction l as [|h t IH]; intros [|i] [|j] H; cbn; auto; try congruence. Qed.
Lemma length_upd {A} (l : list A) i x : length (upd l i x) = length l.
Proof. revert i. induction l as [|h t IH]; intros [|i]; cbn; auto. Qed.

Lemma ptr_upd_same p x y : (x < length p)%nat -> ptr (upd p x y) x = y.
Proof. intros H. unfold ptr. now apply nth_upd_same. Qed.
Lemma ptr_upd_other p x y a : x <> a -> ptr (upd p x y) a = ptr p a.
Proof. intros H. unfold ptr. now apply nth_upd_other. Qed.

(* changing one pointer changes the chain by the difference of the two contributions *)
Lemma pchain_upd p x y a b : (x < length p)%nat ->
  pchain (upd p x y) a b = pchain p a b + contrib x y a b - contrib x (ptr p x) a b.
Proof.
  intros Hx. unfold pchain, contrib.
  destruct (Nat.eqb_spec a b) as [Eab|Hab]; cbn [negb andb].
  - subst b. destruct (Nat.eqb x y), (Nat.eqb x (ptr p x)); cbn; try lia;
      repeat match goal with |- context[(Nat.eqb ?u ?v && Nat.eqb ?w ?z)%bool] => destruct (Nat.eqb u v && Nat.eqb w z)%bool end; lia.
  - destruct (Nat.eq_dec x a) as [Exa|Hxa]; destruct (Nat.eq_dec x b) as [Exb|Hxb]; try congruence.
    + subst x. rewrite ptr_upd_same by assumption. rewrite (ptr_upd_other p a y b) by assumption.
      rewrite Nat.eqb_refl. rewrite (proj2 (Nat.eqb_neq a b)) by assumption. cbn [andb].
      destruct (Nat.eqb_spec a y) as [Eay|Hay].
      * subst y. rewrite (proj2 (Nat.eqb_neq a b)) by assumption.
        destruct (Nat.eqb_spec a (ptr p a)) as [E|E]; [rewrite <- E; rewrite (proj2 (Nat.eqb_neq a b)) by assumption; lia|].
        destruct (Nat.eqb (ptr p a) b), (Nat.eqb (ptr p b) a); lia.
      * destruct (Nat.eqb_spec a (ptr p a)) as [E|E].
        -- rewrite <- E. rewrite (proj2 (Nat.eqb_neq a b)) by assumption. destruct (Nat.eqb y b), (Nat.eqb (ptr p b) a); lia.
        -- destruct (Nat.eqb y b), (Nat.eqb (ptr p a) b), (Nat.eqb (ptr p b) a); lia.
    + subst x. rewrite ptr_upd_same by assumption. rewrite (ptr_upd_other p b y a) by congruence.
      rewrite Nat.eqb_refl. rewrite (proj2 (Nat.eqb_neq b a)) by congruence. cbn [andb].
      destruct (Nat.eqb_spec b y) as [Eby|Hby].
      * subst y. rewrite (proj2 (Nat.eqb_neq b a)) by congruence.
        destruct (Nat.eqb_spec b (ptr p b)) as [E|E]; [rewrite <- E; rewrite (proj2 (Nat.eqb_neq b a)) by congruence; lia|].
        destruct (Nat.eqb (ptr p a) b), (Nat.eqb (ptr p b) a); lia.
      * destruct (Nat.eqb_spec b (ptr p b)) as [E|E].
        -- rewrite <- E. rewrite (proj2 (Nat.eqb_neq b a)) by congruence. destruct (Nat.eqb y a), (Nat.eqb (ptr p a) b); lia.
        -- destruct (Nat.eqb y a), (Nat.eqb (ptr p a) b), (Nat.eqb (ptr p b) a); lia.
    + rewrite !ptr_upd_other by assumption.
      rewrite (proj2 (Nat.eqb_neq x a)), (proj2 (Nat.eqb_neq x b)) by assumption. cbn [andb].
      destruct (Nat.eqb x y), (Nat.eqb x (ptr p x)); lia.
Qed.

Lemma ptr_nth p i : (i < length p)%nat -> ptr p i = nth i p 0%nat.
Proof. intros H. unfold ptr. apply nth_indep. exact H. Qed.

(* --- rule 1 and rule 2 of try_extend add exactly the chain of the offered triangle --- *)
Definition in_range_tri (c : cycle) (i j k : nat) : Prop :=
  (i < length (ptrs c) /\ j < length (ptrs c) /\ k < length (ptrs c))%nat.

Lemma try_rot_chain c ti tj tk c' : in_range_tri c ti tj tk ->
  try_rot c ti tj tk = Some c' ->
  forall a b, pchain (ptrs c') a b = pchain (ptrs c) a b + tchain ti tj tk a b.
Proof.
  intros (Hi & Hj & Hk) H a b. unfold try_rot in H.
  set (p := ptrs c) in *.
  destruct (negb (cyc_contains c ti) && cyc_contains c tj && cyc_contains c tk && Nat.eqb (ptr p tk) tj) eqn:R1.
  - (* rule 1: ti not on the cycle, tk -> tj;  becomes tk -> ti -> tj *)
    inversion H; subst c'; clear H. cbn [ptrs].
    apply andb_true_iff in R1. destruct R1 as [R1 Ekj]. apply andb_true_iff in R1. destruct R1 as [R1 Ck].
    apply andb_true_iff in R1. destruct R1 as [Ci Cj]. apply negb_true_iff in Ci.
    unfold cyc_contains in Ci, Cj, Ck. fold p in Ci, Cj, Ck.
    apply negb_false_iff in Ci. apply Nat.eqb_eq in Ci. apply Nat.eqb_eq in Ekj.
    apply negb_true_iff in Cj. apply Nat.eqb_neq in Cj. apply negb_true_iff in Ck. apply Nat.eqb_neq in Ck.
    assert (Hik : ti <> tk) by (intros ->; congruence).
    rewrite pchain_upd by (rewrite length_upd; exact Hi).
    rewrite pchain_upd by exact Hk.
    rewrite ptr_upd_other by (intros E; apply Hik; symmetry; exact E).
    fold p. rewrite Ci, Ekj.
    unfold tchain. rewrite contrib_self. pose proof (contrib_rev tk tj a b). lia.
  - destruct (cyc_contains c ti && cyc_contains c tj && cyc_contains c tk && Nat.eqb (ptr p tk) tj && Nat.eqb (ptr p tj) ti) eqn:R2; [|discriminate].
    (* rule 2: tk -> tj -> ti on the cycle; tj leaves: tk -> ti *)
    inversion H; subst c'; clear H. cbn [ptrs].
    apply andb_true_iff in R2. destruct R2 as [R2 Eji]. apply andb_true_iff in R2. destruct R2 as [R2 Ekj].
    apply andb_true_iff in R2. destruct R2 as [R2 Ck]. apply andb_true_iff in R2. destruct R2 as [Ci Cj].
    unfold cyc_contains in Ci, Cj, Ck. fold p in Ci, Cj, Ck.
    apply Nat.eqb_eq in Ekj. apply Nat.eqb_eq in Eji.
    apply negb_true_iff in Cj. apply Nat.eqb_neq in Cj. apply negb_true_iff in Ck. apply Nat.eqb_neq in Ck.
    assert (Hjk : tj <> tk) by (intros E; apply Ck; rewrite <- E at 2; rewrite <- Ekj; congruence).
    rewrite pchain_upd by (rewrite length_upd; exact Hj).
    rewrite pchain_upd by exact Hk.
    rewrite ptr_upd_other by (intros E; apply Hjk; symmetry; exact E).
    fold p. rewrite Ekj, Eji.
    unfold tchain. rewrite contrib_self. pose proof (contrib_rev tk tj a b). pose proof (contrib_rev tj ti a b). lia.
Qed.

Lemma cyc_try_extend_chain c a b d c' : in_range_tri c a b d ->
  cyc_try_extend c a b d = Some c' ->
  forall x y, pchain (ptrs c') x y = pchain (ptrs c) x y + tchain a b d x y.
Proof.
  intros (Ha & Hb & Hd) H x y. unfold cyc_try_extend in H.
  destruct (try_rot c a b d) as [c1|] eqn:E1.
  - inversion H; subst. apply try_rot_chain; [repeat split; assumption | exact E1].
  - destruct (try_rot c b d a) as [c2|] eqn:E2.
    + inversion H; subst. rewrite (try_rot_chain c b d a c'); [|repeat split; assumption | exact E2].
      now rewrite tchain_rot.
    + rewrite (try_rot_chain c d a b c'); [|repeat split; assumption | exact H].
      now rewrite <- (tchain_rot a b d), <- (tchain_rot b d a).
Qed.

Lemma try_rot_length c i j k c' : try_rot c i j k = Some c' -> length (ptrs c') = length (ptrs c).
Proof.
  unfold try_rot. destruct (_ && _ && _ && _); [intros H; inversion H; cbn; now rewrite !length_upd|].
  destruct (_ && _ && _ && _ && _); [intros H; inversion H; cbn; now rewrite !length_upd | discriminate].
Qed.
Lemma cyc_try_extend_length c a b d c' : cyc_try_extend c a b d = Some c' -> length (ptrs c') = length (ptrs c).
Proof.
  unfold cyc_try_extend. destruct (try_rot c a b d) eqn:E1; [intros H; inversion H; subst; eapply try_rot_length; eauto|].
  destruct (try_rot c b d a) eqn:E2; [intros H; inversion H; subst; eapply try_rot_length; eauto|].
  apply try_rot_length.
Qed.

(* the chain of the identity (all self-pointing) array is zero *)
Lemma pchain_id n a b : pchain (seq 0 n) a b = 0.
Proof.
  unfold pchain, ptr.
  assert (E : forall c, nth c (seq 0 n) c = c).
  { intros c. destruct (Nat.lt_ge_cases c n); [now rewrite seq_nth | apply nth_overflow; now rewrite seq_length]. }
  rewrite !E. destruct (Nat.eqb_spec a b) as [->|H]; cbn [negb andb]; [reflexivity|].
  rewrite (proj2 (Nat.eqb_neq b a)) by congruence. reflexivity.
Qed.

(* init on a clean array: the chain of the first triangle *)
Definition clean (c : cycle) : Prop :=
  cyc_reset (clen c) (ptrs c) (cstart c) = seq 0 (length (ptrs c)).

Lemma cyc_init_chain c a b d : clean c -> in_range_tri c a b d -> a <> b -> b <> d -> d <> a ->
  forall x y, pchain (ptrs (cyc_init c a b d)) x y = tchain a b d x y.
Proof.
  intros Hc (Ha & Hb & Hd) Nab Nbd Nda x y. unfold cyc_init. cbn [ptrs]. rewrite Hc.
  set (n := length (ptrs c)) in *.
  assert (Ln : length (seq 0 n) = n) by apply seq_length.
  rewrite pchain_upd by (rewrite !length_upd, Ln; exact Hd).
  rewrite pchain_upd by (rewrite !length_upd, Ln; exact Hb).
  rewrite pchain_upd by (rewrite Ln; exact Ha).
  rewrite !ptr_upd_other by congruence.
  assert (Pid : forall i, ptr (seq 0 n) i = i).
  { intros i. unfold ptr. destruct (Nat.lt_ge_cases i n); [now rewrite seq_nth | apply nth_overflow; now rewrite seq_length]. }
  rewrite !Pid, pchain_id, !contrib_self. unfold tchain. lia.
Qed.

Lemma cyc_init_length c a b d : length (ptrs (cyc_init c a b d)) = length (cyc_reset (clen c) (ptrs c) (cstart c)).
Proof. unfold cyc_init. cbn [ptrs]. now rewrite !length_upd. Qed.

(* ------------------------------------------------------------------ compute_boundary *)
Section Boundary.
Variable V : Type.
Variable vdual : V -> dual.
Variable vdefault : V.

Definition vchain (v : V) (x y : nat) : Z := let '(a, b, d) := vdual v in tchain a b d x y.
Fixpoint sum_chain (vs : list V) (x y : nat) : Z :=
  match vs with [] => 0 | v :: t => vchain v x y + sum_chain t x y end.

Definition duals_in_range (n : nat) (vs : list V) : Prop :=
  Forall (fun v => let '(a, b, d) := vdual v in (a < n /\ b < n /\ d < n)%nat) vs.

Lemma sum_chain_app a b x y : sum_chain (a ++ b) x y = sum_chain a x y + sum_chain b x y.
Proof. induction a; cbn [app sum_chain]; lia. Qed.

(* swapping two entries does not change the sum *)
Lemma upd_firstn_skipn {A} (l : list A) i x : (i < length l)%nat -> upd l i x = firstn i l ++ x :: skipn (S i) l.
Proof. revert i. induction l as [|h t IH]; intros [|i] H; cbn in *; try lia; auto. f_equal. apply IH. lia. Qed.

Lemma nth_firstn_lt {A} (l : list A) i n d : (i < n)%nat -> nth i (firstn n l) d = nth i l d.
Proof.
  revert i n. induction l as [|h t IH]; intros [|i] [|n] H; cbn; auto; try lia. apply IH. lia.
Qed.

Lemma firstn_upd_ge {A} (l : list A) i j x : (i <= j)%nat -> firstn i (upd l j x) = firstn i l.
Proof.
  revert i j. induction l as [|h t IH]; intros [|i] [|j] H; cbn; auto; try lia. f_equal. apply IH. lia.
Qed.

Lemma nth_split_sum (l : list V) i x y : (i < length l)%nat ->
  sum_chain l x y = sum_chain (firstn i l) x y + vchain (nth i l vdefault) x y + sum_chain (skipn (S i) l) x y.
Proof.
  revert i. induction l as [|h t IH]; intros [|i] H; cbn in H; try lia.
  - cbn. lia.
  - change (skipn (S (S i)) (h :: t)) with (skipn (S i) t). cbn [firstn nth sum_chain]. rewrite (IH i) by lia. lia.
Qed.

Lemma sum_chain_upd (l : list V) i v x y : (i < length l)%nat ->
  sum_chain (upd l i v) x y = sum_chain l x y - vchain (nth i l vdefault) x y + vchain v x y.
Proof.
  intros H. rewrite upd_firstn_skipn by assumption. rewrite sum_chain_app. cbn [sum_chain].
  rewrite (nth_split_sum l i x y H). lia.
Qed.

Lemma sum_chain_swap (l : list V) i j x y : (i < length l)%nat -> (j < length l)%nat ->
  sum_chain (swap vdefault l i j) x y = sum_chain l x y.
Proof.
  intros Hi Hj. unfold swap. rewrite sum_chain_upd by (rewrite length_upd; assumption).
  rewrite sum_chain_upd by assumption.
  destruct (Nat.eq_dec i j) as [->|Hne].
  - rewrite nth_upd_same by assumption. lia.
  - rewrite nth_upd_other by assumption. lia.
Qed.

Lemma length_swap (l : list V) i j : length (swap vdefault l i j) = length l.
Proof. unfold swap. now rewrite !length_upd. Qed.

Lemma duals_in_range_nth n vs i : duals_in_range n vs -> (i < length vs)%nat ->
  let '(a, b, d) := vdual (nth i vs vdefault) in (a < n /\ b < n /\ d < n)%nat.
Proof. intros H Hi. unfold duals_in_range in H. rewrite Forall_forall in H. apply H. now apply nth_In. Qed.

Lemma find_ext_spec fuel : forall c vs idx c' k, duals_in_range (length (ptrs c)) vs ->
  find_ext V vdual vdefault fuel c vs idx = Some (c', k) ->
  (idx <= k < length vs)%nat /\ length (ptrs c') = length (ptrs c) /\
  forall x y, pchain (ptrs c') x y = pchain (ptrs c) x y + vchain (nth k vs vdefault) x y.
Proof.
  induction fuel as [|f IH]; intros c vs idx c' k Hr H; cbn [find_ext] in H; [discriminate|].
  destruct (Nat.ltb_spec idx (length vs)) as [Hlt|Hge]; [|discriminate].
  pose proof (duals_in_range_nth _ _ idx Hr Hlt) as Hd.
  destruct (vdual (nth idx vs vdefault)) as [[a b] d] eqn:Ed.
  destruct (cyc_try_extend c a b d) as [c1|] eqn:Et.
  - inversion H; subst. split; [lia|]. split; [eapply cyc_try_extend_length; eauto|].
    intros x y. unfold vchain. rewrite Ed. apply cyc_try_extend_chain; assumption.
  - destruct (IH c vs (S idx) c' k Hr H) as (Hk & Hl & Hc). split; [lia|]. split; assumption.
Qed.

Lemma duals_in_range_swap n vs i j : duals_in_range n vs -> (i < length vs)%nat -> (j < length vs)%nat ->
  duals_in_range n (swap vdefault vs i j).
Proof.
  intros H Hi Hj. unfold duals_in_range in *. rewrite Forall_forall in *. intros v Hv.
  apply In_nth with (d := vdefault) in Hv. destruct Hv as (k & Hk & <-). rewrite length_swap in Hk.
  unfold swap. destruct (Nat.eq_dec k j) as [->|Nkj].
  - rewrite nth_upd_same by (rewrite length_upd; assumption). apply H. now apply nth_In.
  - rewrite nth_upd_other by congruence. destruct (Nat.eq_dec k i) as [->|Nki].
    + rewrite nth_upd_same by assumption. apply H. now apply nth_In.
    + rewrite nth_upd_other by congruence. apply H. now apply nth_In.
Qed.

(* the loop attaches vertices i, i+1, ... (after swapping the found one into place): the chain grows by
   exactly the chains of the vertices at positions >= i of the (permuted) list, whose total never changes *)
Lemma boundary_loop_chain fuel : forall c vs i c' vs', duals_in_range (length (ptrs c)) vs ->
  (length vs - i <= fuel)%nat -> (i <= length vs)%nat ->
  boundary_loop V vdual vdefault fuel c vs i = Some (c', vs') ->
  length vs' = length vs /\
  (forall x y, sum_chain vs' x y = sum_chain vs x y) /\
  (forall x y, pchain (ptrs c') x y = pchain (ptrs c) x y + sum_chain (skipn i vs') x y) /\
  firstn i vs' = firstn i vs.
Proof.
  induction fuel as [|f IH]; intros c vs i c' vs' Hr Hf Hi H; cbn [boundary_loop] in H.
  - inversion H; subst. assert (i = length vs') by lia. subst i.
    repeat split; auto. intros x y. rewrite skipn_all. cbn. lia.
  - destruct (Nat.ltb_spec i (length vs)) as [Hlt|Hge].
    + destruct (find_ext V vdual vdefault (length vs) c vs i) as [[c1 k]|] eqn:Ef; [|discriminate].
      destruct (find_ext_spec _ _ _ _ _ _ Hr Ef) as (Hk & Hl1 & Hc1).
      set (vs1 := if Nat.ltb i k then swap vdefault vs i k else vs) in *.
      assert (L1 : length vs1 = length vs) by (unfold vs1; destruct (Nat.ltb i k); [apply length_swap | reflexivity]).
      assert (S1 : forall x y, sum_chain vs1 x y = sum_chain vs x y).
      { intros x y. unfold vs1. destruct (Nat.ltb i k); [apply sum_chain_swap; lia | reflexivity]. }
      assert (R1 : duals_in_range (length (ptrs c1)) vs1).
      { rewrite Hl1. unfold vs1. destruct (Nat.ltb i k); [apply duals_in_range_swap; [assumption|lia|lia] | assumption]. }
      assert (N1 : nth i vs1 vdefault = nth k vs vdefault).
      { unfold vs1. destruct (Nat.ltb_spec i k) as [Hik|Hik].
        - unfold swap. destruct (Nat.eq_dec i k); [lia|]. rewrite nth_upd_other by lia. rewrite nth_upd_same by lia. reflexivity.
        - assert (i = k) by lia. subst. reflexivity. }
      assert (F1 : firstn i vs1 = firstn i vs).
      { unfold vs1. destruct (Nat.ltb_spec i k) as [Hik|Hik]; [|reflexivity].
        unfold swap. rewrite !firstn_upd_ge by lia. reflexivity. }
      destruct (IH c1 vs1 (S i) c' vs' R1) as (L' & S' & C' & F'); [lia | lia | exact H |].
      split; [lia|]. split; [intros; now rewrite S', S1|]. split.
      * intros x y. rewrite C', Hc1.
        assert (E : skipn i vs' = nth i vs' vdefault :: skipn (S i) vs').
        { assert (Hi' : (i < length vs')%nat) by lia. clear -Hi'. revert i Hi'. induction vs' as [|h t IHt]; intros [|i] H; cbn in *; try lia; auto. apply IHt. lia. }
        rewrite E. cbn [sum_chain].
        assert (Nv : nth i vs' vdefault = nth i vs1 vdefault).
        { assert (G : nth i (firstn (S i) vs') vdefault = nth i (firstn (S i) vs1) vdefault) by now rewrite F'.
          rewrite !nth_firstn_lt in G by lia. exact G. }
        rewrite Nv, N1. lia.
      * assert (G : firstn i (firstn (S i) vs') = firstn i (firstn (S i) vs1)) by now rewrite F'.
        rewrite !firstn_firstn, Nat.min_l in G by lia. now rewrite G.
    + inversion H; subst. assert (i = length vs') by lia. subst i.
      repeat split; auto. intros x y. rewrite skipn_all. cbn. lia.
Qed.

(* compute_boundary: from a clean cycle, success implies that the final cycle is the boundary chain of
   ALL removed triangles - whatever order they were offered in and however each triple was rotated *)
Theorem compute_boundary_chain c vs c' vs' : clean c ->
  length (cyc_reset (clen c) (ptrs c) (cstart c)) = length (ptrs c) ->
  duals_in_range (length (ptrs c)) vs ->
  Forall (fun v => let '(a, b, d) := vdual v in a <> b /\ b <> d /\ d <> a) vs ->
  compute_boundary V vdual vdefault c vs = Some (c', vs') ->
  forall x y, pchain (ptrs c') x y = sum_chain vs x y.
Proof.
  intros Hc Hlen Hr Hd H x y. unfold compute_boundary in H. destruct vs as [|v0 t]; [discriminate|].
  destruct (vdual v0) as [[a b] d] eqn:E0.
  assert (Hr0 := Hr). unfold duals_in_range in Hr0. inversion Hr0 as [|? ? Hv0 _]; subst. rewrite E0 in Hv0.
  inversion Hd as [|? ? Hd0 _]; subst. rewrite E0 in Hd0. destruct Hd0 as (N1 & N2 & N3).
  assert (Li : length (ptrs (cyc_init c a b d)) = length (ptrs c)) by (rewrite cyc_init_length; exact Hlen).
  destruct (boundary_loop_chain (length (v0 :: t)) (cyc_init c a b d) (v0 :: t) 1 c' vs') as (L' & S' & C' & F');
    [rewrite Li; exact Hr | cbn; lia | cbn; lia | exact H |].
  rewrite C', cyc_init_chain by (auto; repeat split; tauto).
  rewrite <- S'. destruct vs' as [|w ws]; [cbn in L'; lia|].
  cbn [firstn] in F'. inversion F'; subst. cbn [skipn sum_chain]. unfold vchain at 1. rewrite E0. lia.
Qed.
End Boundary.

(* ------------------------------------------------------------------ the chain determines the cycle *)
(* for a <> b: coefficient = [a -> b] - [b -> a] *)
Lemma pchain_char p a b : a <> b ->
  pchain p a b = (if Nat.eqb (ptr p a) b then 1 else 0) - (if Nat.eqb (ptr p b) a then 1 else 0).
Proof. intros Hab. unfold pchain. rewrite (proj2 (Nat.eqb_neq a b)) by assumption. reflexivity. Qed.

(* two pointer arrays without 2-cycles that carry the same chain have the same non-trivial pointers:
   the boundary cycle, as a set of directed edges (cur -> next), is determined by the chain *)
Definition no_two_cycle (p : list nat) : Prop :=
  forall a b, (a < length p)%nat -> (b < length p)%nat -> a <> b -> ptr p a = b -> ptr p b <> a.

Theorem chain_determines_edges p q a b : length p = length q ->
  no_two_cycle p -> no_two_cycle q -> (forall x y, pchain p x y = pchain q x y) ->
  (a < length p)%nat -> (b < length p)%nat -> a <> b -> ptr p a = b -> ptr q a = b.
Proof.
  intros L Np Nq E Ha Hb Hab Hp. specialize (E a b).
  rewrite (pchain_char p a b), (pchain_char q a b) in E by assumption.
  pose proof (Np a b Ha Hb Hab Hp) as Hpb.
  rewrite Hp, Nat.eqb_refl in E. rewrite (proj2 (Nat.eqb_neq (ptr p b) a)) in E by assumption.
  destruct (Nat.eqb_spec (ptr q a) b); [assumption|].
  destruct (Nat.eqb (ptr q b) a); lia.
Qed.

(* ------------------------------------------------------------------ order independence *)
Section Order.
Variable V : Type.
Variable vdual : V -> dual.
Variable vdefault : V.

Lemma sum_chain_perm a b : Permutation a b -> forall u w, sum_chain V vdual a u w = sum_chain V vdual b u w.
Proof.
  induction 1 as [|v l l' HP IH|v v' l|l l' l'' HP1 IH1 HP2 IH2]; intros u w; cbn [sum_chain]; try lia.
  - rewrite IH. lia.
  - rewrite IH1. apply IH2.
Qed.

Definition rot_dual (d : dual) : dual := let '(a, b, c) := d in (b, c, a).
Lemma vchain_rot (v w : V) : vdual w = rot_dual (vdual v) -> forall x y, vchain V vdual w x y = vchain V vdual v x y.
Proof. intros H x y. unfold vchain. rewrite H. destruct (vdual v) as [[a b] c]. cbn. apply tchain_rot. Qed.

(* whatever the storage order of the removed vertices and the rotation of their triples: if the boundary
   computation succeeds on both arrangements (from a clean cycle) the two cycles carry the same chain *)
Theorem clip_order_independent c vs1 vs2 c1 vs1' c2 vs2' : clean c ->
  length (cyc_reset (clen c) (ptrs c) (cstart c)) = length (ptrs c) ->
  duals_in_range V vdual (length (ptrs c)) vs1 -> duals_in_range V vdual (length (ptrs c)) vs2 ->
  Forall (fun v => let '(a, b, d) := vdual v in a <> b /\ b <> d /\ d <> a) vs1 ->
  Forall (fun v => let '(a, b, d) := vdual v in a <> b /\ b <> d /\ d <> a) vs2 ->
  (forall x y, sum_chain V vdual vs1 x y = sum_chain V vdual vs2 x y) ->
  compute_boundary V vdual vdefault c vs1 = Some (c1, vs1') ->
  compute_boundary V vdual vdefault c vs2 = Some (c2, vs2') ->
  forall x y, pchain (ptrs c1) x y = pchain (ptrs c2) x y.
Proof.
  intros Hc Hl R1 R2 D1 D2 E H1 H2 x y.
  rewrite (compute_boundary_chain V vdual vdefault c vs1 c1 vs1') by assumption.
  rewrite (compute_boundary_chain V vdual vdefault c vs2 c2 vs2') by assumption. apply E.
Qed.
End Order.

(* a fresh cycle is clean *)
Lemma cyc_new_clean n : clean (cyc_new n) /\ length (cyc_reset (clen (cyc_new n)) (ptrs (cyc_new n)) (cstart (cyc_new n))) = length (ptrs (cyc_new n)).
Proof. unfold clean, cyc_new. cbn. rewrite seq_length. split; reflexivity. Qed.
