(* Every vertex the exact clipping model ever creates satisfies every constraint processed so far (walls and bisectors),
   provided the three planes of each created vertex are linearly independent and boundary cycles have at least three
   edges: a new vertex (a, b, q) is the point where the edge a /\ b between a kept and a removed vertex crosses q, hence a
   non-negative combination of two feasible points. *)
From Coq Require Import ZArith List Lia Bool Psatz.
From MV Require Import Model.Cycle Model.CellExact Proofs.CellProofs Proofs.HullProofs.
Import ListNotations.
Open Scope Z_scope.

Definition cramer_num (p0 p1 p2 : plane) : V3 :=
  vadd (vadd (vscale (pd p0) (cross (pn p1) (pn p2))) (vscale (pd p1) (cross (pn p2) (pn p0)))) (vscale (pd p2) (cross (pn p0) (pn p1))).
Notation pdet := plane_det.

Lemma intersect_eq p0 p1 p2 : intersect p0 p1 p2 = hnorm (cramer_num p0 p1 p2, pdet p0 p1 p2).
Proof. reflexivity. Qed.

(* D * lin r (Y, w) = w * (n_r . N - d_r D) for every point on the three planes *)
Lemma on_planes_lin p0 p1 p2 r (Y : V3) (w : Z) :
  lin p0 (Y, w) = 0 -> lin p1 (Y, w) = 0 -> lin p2 (Y, w) = 0 ->
  pdet p0 p1 p2 * lin r (Y, w) = w * (dot (pn r) (cramer_num p0 p1 p2) - pd r * pdet p0 p1 p2).
Proof.
  destruct p0 as [[[a0 a1] a2] da ra sa], p1 as [[[b0 b1] b2] db rb sb], p2 as [[[c0 c1] c2] dc rc sc], r as [[[r0 r1] r2] dr rr sr].
  destruct Y as [[y0 y1] y2]. unfold lin, plane_det, cramer_num, det3v, dot, cross, vadd, vscale. cbn [pn pd].
  intros H0 H1 H2.
  assert (E0 : a0 * y0 + a1 * y1 + a2 * y2 = da * w) by lia.
  assert (E1 : b0 * y0 + b1 * y1 + b2 * y2 = db * w) by lia.
  assert (E2 : c0 * y0 + c1 * y1 + c2 * y2 = dc * w) by lia.
  (* D y_k = (n0.Y) (n1 x n2)_k + (n1.Y) (n2 x n0)_k + (n2.Y) (n0 x n1)_k *)
  set (D := a0 * (b1 * c2 - b2 * c1) + a1 * (b2 * c0 - b0 * c2) + a2 * (b0 * c1 - b1 * c0)).
  assert (K0 : D * y0 = (a0 * y0 + a1 * y1 + a2 * y2) * (b1 * c2 - b2 * c1) + (b0 * y0 + b1 * y1 + b2 * y2) * (c1 * a2 - c2 * a1) + (c0 * y0 + c1 * y1 + c2 * y2) * (a1 * b2 - a2 * b1)) by (unfold D; ring).
  assert (K1 : D * y1 = (a0 * y0 + a1 * y1 + a2 * y2) * (b2 * c0 - b0 * c2) + (b0 * y0 + b1 * y1 + b2 * y2) * (c2 * a0 - c0 * a2) + (c0 * y0 + c1 * y1 + c2 * y2) * (a2 * b0 - a0 * b2)) by (unfold D; ring).
  assert (K2 : D * y2 = (a0 * y0 + a1 * y1 + a2 * y2) * (b0 * c1 - b1 * c0) + (b0 * y0 + b1 * y1 + b2 * y2) * (c0 * a1 - c1 * a0) + (c0 * y0 + c1 * y1 + c2 * y2) * (a0 * b1 - a1 * b0)) by (unfold D; ring).
  rewrite E0, E1, E2 in K0, K1, K2.
  replace (D * (r0 * y0 + r1 * y1 + r2 * y2 - dr * w)) with (r0 * (D * y0) + r1 * (D * y1) + r2 * (D * y2) - dr * w * D) by ring.
  rewrite K0, K1, K2. unfold D. ring.
Qed.

Lemma lin_hnorm r (N : V3) (D : Z) : D <> 0 ->
  lin r (hnorm (N, D)) = Z.sgn D * (dot (pn r) N - pd r * D) /\ snd (hnorm (N, D)) = Z.abs D.
Proof.
  intros HD. unfold hnorm. destruct (Z.ltb_spec D 0) as [L|G].
  - destruct N as [[n0 n1] n2], (pn r) as [[r0 r1] r2] eqn:E. unfold lin. rewrite E. cbn [snd]. unfold vscale, dot.
    rewrite (Z.sgn_neg D L), (Z.abs_neq D) by lia. split; ring.
  - unfold lin. cbn [snd]. rewrite (Z.sgn_pos D), (Z.abs_eq D) by lia. split; ring.
Qed.

(* any representative (w > 0) of the intersection point of three independent planes is on the same side of every plane
   as the computed vertex *)
Lemma same_point_same_side p0 p1 p2 r (Y : V3) (w : Z) : pdet p0 p1 p2 <> 0 -> 0 < w ->
  lin p0 (Y, w) = 0 -> lin p1 (Y, w) = 0 -> lin p2 (Y, w) = 0 ->
  side r (intersect p0 p1 p2) = side r (Y, w) /\ 0 < snd (intersect p0 p1 p2).
Proof.
  intros HD Hw H0 H1 H2. rewrite intersect_eq.
  destruct (lin_hnorm r (cramer_num p0 p1 p2) (pdet p0 p1 p2) HD) as [L W].
  pose proof (on_planes_lin p0 p1 p2 r Y w H0 H1 H2) as K.
  set (D := pdet p0 p1 p2) in *. set (E := dot (pn r) (cramer_num p0 p1 p2) - pd r * D) in *.
  split; [|rewrite W; lia].
  assert (S1 : side r (hnorm (cramer_num p0 p1 p2, D)) = Z.sgn (Z.sgn D * E)).
  { destruct (hnorm (cramer_num p0 p1 p2, D)) as [X Wd] eqn:Eh. unfold side. unfold lin in L. rewrite L. reflexivity. }
  rewrite S1. unfold side. fold (lin r (Y, w)).
  change (dot (pn r) Y - pd r * w) with (lin r (Y, w)).
  (* D * lin = w * E with w > 0 *)
  destruct (Z.lt_trichotomy D 0) as [Dn|[Dz|Dp]]; [|contradiction|].
  - rewrite (Z.sgn_neg D Dn). destruct (Z.lt_trichotomy E 0) as [En|[Ez|Ep]].
    + assert (0 < lin r (Y, w)) by nia. rewrite Z.sgn_pos by nia. rewrite Z.sgn_pos by lia. reflexivity.
    + subst E. rewrite Ez in *. assert (lin r (Y, w) = 0) by nia. rewrite H. reflexivity.
    + assert (lin r (Y, w) < 0) by nia. rewrite Z.sgn_neg by nia. rewrite Z.sgn_neg by lia. reflexivity.
  - rewrite (Z.sgn_pos D Dp). destruct (Z.lt_trichotomy E 0) as [En|[Ez|Ep]].
    + assert (lin r (Y, w) < 0) by nia. rewrite Z.sgn_neg by nia. rewrite Z.sgn_neg by lia. reflexivity.
    + subst E. rewrite Ez in *. assert (lin r (Y, w) = 0) by nia. rewrite H. reflexivity.
    + assert (0 < lin r (Y, w)) by nia. rewrite Z.sgn_pos by nia. rewrite Z.sgn_pos by lia. reflexivity.
Qed.

(* the crossing of an edge (planes A and B) with the clipping plane Q, between a kept end u and a removed end v *)
Lemma new_vertex_feasible (A B Q : plane) (u v : hpoint) :
  pdet A B Q <> 0 -> 0 < snd u -> 0 < snd v ->
  lin A u = 0 -> lin B u = 0 -> lin A v = 0 -> lin B v = 0 ->
  0 <= lin Q u -> lin Q v < 0 ->
  0 < snd (intersect A B Q) /\ side Q (intersect A B Q) = 0 /\
  forall r, 0 <= side r u -> 0 <= side r v -> 0 <= side r (intersect A B Q).
Proof.
  intros HD Hwu Hwv HAu HBu HAv HBv HQu HQv.
  set (l := [(- lin Q v, u); (lin Q u, v)]).
  assert (Hlin : forall r, lin r (hcomb l) = - lin Q v * lin r u + lin Q u * lin r v).
  { intros r. rewrite lin_comb. unfold l. cbn [fold_right]. ring. }
  assert (HW : 0 < snd (hcomb l)).
  { apply weight_comb.
    - unfold l. constructor; [split; [lia|exact Hwu]|]. constructor; [split; [lia|exact Hwv]|constructor].
    - unfold l. apply Exists_cons_hd. lia. }
  destruct (hcomb l) as [Y w] eqn:Ep. cbn [snd] in HW.
  assert (PA : lin A (Y, w) = 0) by (rewrite Hlin, HAu, HAv; ring).
  assert (PB : lin B (Y, w) = 0) by (rewrite Hlin, HBu, HBv; ring).
  assert (PQ : lin Q (Y, w) = 0) by (rewrite Hlin; ring).
  split; [exact (proj2 (same_point_same_side A B Q Q Y w HD HW PA PB PQ))|]. split.
  - rewrite (proj1 (same_point_same_side A B Q Q Y w HD HW PA PB PQ)). unfold side. fold (lin Q (Y, w)).
    change (dot (pn Q) Y - pd Q * w) with (lin Q (Y, w)). rewrite PQ. reflexivity.
  - intros r Hu Hv. rewrite (proj1 (same_point_same_side A B Q r Y w HD HW PA PB PQ)).
    apply side_lin. rewrite Hlin. apply side_lin in Hu, Hv. nia.
Qed.

(* ---------- the cell-level invariant *)
From MV Require Import Proofs.CycleProofs Proofs.CycleInv Proofs.CycleClosed Proofs.CellClosed Proofs.EdgeExist.

Definition vgeom (ps : list plane) (v : vertex) : Prop := vloc v = vloc (vertex_from_dual ps (vd v)).
Definition vnondeg (ps : list plane) (v : vertex) : Prop :=
  let '(i, j, k) := vd v in pdet (getp ps i) (getp ps j) (getp ps k) <> 0.
Definition feas (Q : list plane) (v : vertex) : Prop := 0 < snd (vloc v) /\ Forall (fun r => 0 <= side r (vloc v)) Q.

Definition FeasInv (c : cell) (Q : list plane) : Prop :=
  cell_wf c /\ Forall (vgeom (cplanes c)) (cverts c) /\ Forall (feas Q) (cverts c).

(* regularity of one clip: what excludes the degenerate situations the model (like the code) does not handle *)
Definition clip_regular (c : cell) (q : plane) (c' : cell) : Prop :=
  Forall (vnondeg (cplanes c')) (cverts c') /\
  (length (cplanes c') = length (cplanes c) -> Forall (fun v => 0 <= side q (vloc v)) (cverts c)) /\
  (length (cplanes c') <> length (cplanes c) -> (3 <= clen (ccycle c'))%nat).

Lemma getp_app ps q i : (i < length ps)%nat -> getp (ps ++ [q]) i = getp ps i.
Proof. intros H. unfold getp. apply app_nth1. exact H. Qed.

Lemma getp_new ps q : getp (ps ++ [q]) (length ps) = q.
Proof. unfold getp. rewrite app_nth2 by lia. rewrite Nat.sub_diag. reflexivity. Qed.

Lemma vfd_app ps q d : (let '(i, j, k) := d in (i < length ps /\ j < length ps /\ k < length ps)%nat) ->
  vertex_from_dual (ps ++ [q]) d = vertex_from_dual ps d.
Proof. destruct d as [[i j] k]. intros (A & B & Cc). unfold vertex_from_dual. rewrite !getp_app by assumption. reflexivity. Qed.

Lemma side0_lin r p : side r p = 0 -> lin r p = 0.
Proof. destruct p as [x w]. unfold side, lin. destruct (dot (pn r) x - pd r * w); cbn; lia. Qed.

(* a vertex with consistent geometry lies on each of its three planes *)
Lemma vgeom_on_planes ps v : vgeom ps v ->
  let '(i, j, k) := vd v in lin (getp ps i) (vloc v) = 0 /\ lin (getp ps j) (vloc v) = 0 /\ lin (getp ps k) (vloc v) = 0.
Proof.
  unfold vgeom. intros E. destruct (vd v) as [[i j] k] eqn:Ed. rewrite E. cbn [vertex_from_dual vloc].
  destruct (intersect_on_planes (getp ps i) (getp ps j) (getp ps k)) as (A & B & Cc). repeat split; apply side0_lin; assumption.
Qed.

Lemma has_edge_planes ps v a b : vgeom ps v -> has_edge (vd v) a b -> lin (getp ps a) (vloc v) = 0 /\ lin (getp ps b) (vloc v) = 0.
Proof.
  intros Hg He. pose proof (vgeom_on_planes ps v Hg) as H. destruct (vd v) as [[i j] k]. destruct H as (A & B & Cc).
  unfold has_edge in He. destruct He as [[-> ->]|[[-> ->]|[-> ->]]]; auto.
Qed.

Lemma side_neg_lin r p : side r p < 0 -> lin r p < 0.
Proof. destruct p as [x w]. unfold side, lin. destruct (dot (pn r) x - pd r * w); cbn; lia. Qed.

Lemma has_edge_in_range n d a b : dual_lt n d -> has_edge d a b -> (a < n /\ b < n)%nat.
Proof. destruct d as [[i j] k]. unfold dual_lt, has_edge. intros (A & B & Cc) [[<- <-]|[[<- <-]|[<- <-]]]; lia. Qed.

Theorem clip_feasible c q c' Q : FeasInv c Q -> clip c q = Some c' -> clip_regular c q c' -> FeasInv c' (q :: Q).
Proof.
  intros (Hwf & Hgeom & Hfeas) H (Hnd & Hsame & Hlen3).
  pose proof (clip_wf c q c' Hwf H) as Hwf'.
  destruct Hwf as (HI & HL & Hr & Hd & Hcl).
  unfold clip in H. set (removed := fun v : vertex => (side q (vloc v) <? 0)) in H.
  destruct (clip_comb vertex vd vdefault (ccycle c) removed (cverts c) (length (cplanes c))) as [[[cyc' kept] nd]|] eqn:E; [|discriminate].
  rewrite <- HL in Hr.
  destruct nd as [|d0 nd'].
  - inversion H; subst c'. specialize (Hsame eq_refl). split; [exact Hwf'|]. split; [exact Hgeom|].
    rewrite Forall_forall in *. intros v Hv. destruct (Hfeas v Hv) as [Hw Hq]. split; [exact Hw|]. constructor; [apply Hsame; exact Hv|exact Hq].
  - inversion H; subst c'. clear H. cbn [cplanes cverts ccycle] in *.
    assert (Hlen' : (3 <= clen cyc')%nat) by (apply Hlen3; rewrite app_length; cbn [length]; lia).
    destruct (clip_new_edges vertex vd vdefault (ccycle c) removed (cverts c) (length (cplanes c)) cyc' kept (d0 :: nd') HI Hr Hd Hcl E (fun _ => Hlen')) as [Hkept Hnew].
    set (ps := cplanes c) in *. set (ps' := ps ++ [q]) in *.
    rewrite Forall_forall in Hkept, Hgeom, Hfeas.
    assert (Hrange : forall v, In v (cverts c) -> dual_lt (length ps) (vd v)).
    { intros v Hv. unfold duals_in_range in Hr. rewrite Forall_forall in Hr. specialize (Hr v Hv). rewrite HL in Hr. unfold dual_lt. exact Hr. }
    split; [exact Hwf'|]. cbn [cplanes cverts ccycle]. fold ps'. split.
    + (* geometry *)
      change (vertex_from_dual ps' d0 :: map (vertex_from_dual ps') nd') with (map (vertex_from_dual ps') (d0 :: nd')).
      apply Forall_app. split.
      * apply Forall_forall. intros v Hv. destruct (Hkept v Hv) as [_ Hin]. unfold vgeom. unfold ps'.
        rewrite (vfd_app ps q (vd v)); [apply Hgeom; exact Hin|].
        specialize (Hrange v Hin). unfold dual_lt in Hrange. exact Hrange.
      * apply Forall_forall. intros v Hv. apply in_map_iff in Hv. destruct Hv as (d & <- & _). unfold vgeom. rewrite vd_from_dual. reflexivity.
    + change (vertex_from_dual ps' d0 :: map (vertex_from_dual ps') nd') with (map (vertex_from_dual ps') (d0 :: nd')).
      apply Forall_app. split.
      * apply Forall_forall. intros v Hv. destruct (Hkept v Hv) as [Hrem Hin]. destruct (Hfeas v Hin) as [Hw Hq]. split; [exact Hw|].
        constructor; [|exact Hq]. unfold removed in Hrem. apply Z.ltb_ge in Hrem. exact Hrem.
      * apply Forall_forall. intros v Hv. apply in_map_iff in Hv. destruct Hv as (d & <- & Hdin).
        destruct (Hnew d Hdin) as (a & b & -> & (vk & Hk & Hek) & (vr & Hvr & Hrr & Her)).
        destruct (Hkept vk Hk) as [Hremk Hink].
        destruct (has_edge_in_range _ _ _ _ (Hrange vk Hink) Hek) as [Hb Ha].
        destruct (has_edge_planes ps vk b a (Hgeom vk Hink) Hek) as [KB KA].
        destruct (has_edge_planes ps vr a b (Hgeom vr Hvr) Her) as [RA RB].
        destruct (Hfeas vk Hink) as [Wk Qk]. destruct (Hfeas vr Hvr) as [Wr Qr].
        assert (Nd : pdet (getp ps a) (getp ps b) q <> 0).
        { assert (Hin' : In (vertex_from_dual ps' (a, b, length ps)) (kept ++ map (vertex_from_dual ps') (d0 :: nd')))
            by (apply in_or_app; right; apply in_map; exact Hdin).
          rewrite Forall_forall in Hnd. pose proof (Hnd _ Hin') as N0.
          unfold vnondeg in N0. rewrite vd_from_dual in N0. cbn [cplanes] in N0. fold ps' in N0. unfold ps' in N0.
          rewrite !getp_app, getp_new in N0 by assumption. exact N0. }
        assert (Lk : 0 <= lin q (vloc vk)) by (apply side_lin; unfold removed in Hremk; apply Z.ltb_ge in Hremk; exact Hremk).
        assert (Lr : lin q (vloc vr) < 0) by (apply side_neg_lin; unfold removed in Hrr; apply Z.ltb_lt in Hrr; exact Hrr).
        destruct (new_vertex_feasible (getp ps a) (getp ps b) q (vloc vk) (vloc vr) Nd Wk Wr KA KB RA RB Lk Lr) as (W' & S0 & Sall).
        assert (Eloc : vloc (vertex_from_dual ps' (a, b, length ps)) = intersect (getp ps a) (getp ps b) q).
        { cbn [vertex_from_dual vloc]. unfold ps'. rewrite !getp_app, getp_new by assumption. reflexivity. }
        unfold feas. rewrite Eloc. split; [exact W'|]. constructor; [lia|].
        rewrite Forall_forall in *. intros r Hrq. apply Sall; [apply Qk|apply Qr]; exact Hrq.
Qed.

(* ---------- the initial box *)
Ltac closed_det := repeat match goal with |- context[det3v ?a ?b ?c] => let v := eval vm_compute in (det3v a b c) in change (det3v a b c) with v end.
Ltac one_box_vertex :=
  unfold feas, vertex_from_dual, getp; cbn [nth vloc]; unfold intersect; cbn [pn pd]; closed_det; unfold hnorm;
  match goal with |- context[if ?b then _ else _] => let v := eval vm_compute in b in change b with v end; cbv iota;
  split; [cbn [snd]; lia|];
  repeat (apply Forall_cons; [unfold side, dot, vscale, vadd, cross; cbn [pn pd fst snd]; apply Z.sgn_nonneg; lia|]); apply Forall_nil.

Lemma init_feasible lo hi :
  (let '(lx, ly, lz) := lo in let '(hx, hy, hz) := hi in lx < hx /\ ly < hy /\ lz < hz) ->
  FeasInv (cell_init lo hi) (walls lo hi).
Proof.
  intros Hbox. split; [apply cell_init_wf|]. split.
  - unfold cell_init. cbn [cverts cplanes]. apply Forall_forall. intros v Hv. apply in_map_iff in Hv. destruct Hv as (d & <- & _).
    unfold vgeom. rewrite vd_from_dual. reflexivity.
  - destruct lo as [[lx ly] lz], hi as [[hx hy] hz]. destruct Hbox as (Hx & Hy & Hz).
    unfold cell_init. cbn [cverts cplanes]. unfold init_duals, walls. cbn [map].
    repeat (apply Forall_cons; [one_box_vertex|]). apply Forall_nil.
Qed.

(* ---------- the whole construction *)
Fixpoint build_regular (dim : Z) (g : V3) (sites : list site) (prev : Z) (c : cell) : Prop :=
  match sites with
  | [] => True
  | s :: rest =>
    let d2 := dist2 g s in
    if d2 <? prev then True else
    let '(rn, rd) := max_radius2 dim g (cverts c) in
    if 4 * rn <? d2 * rd then True
    else match clip c (bisector g s) with
         | None => True
         | Some c' => clip_regular c (bisector g s) c' /\ build_regular dim g rest d2 c'
         end
  end.

(* the result satisfies the walls and the bisectors of a prefix of the sites; if the prefix is proper, the next site
   triggered the safety-radius stop on the final cell *)
Theorem build_loop_feasible dim g : forall sites prev c c' Q,
  FeasInv c Q -> build_regular dim g sites prev c -> build_loop dim g sites prev c = Some c' ->
  exists k, (k <= length sites)%nat /\ FeasInv c' (rev (map (bisector g) (firstn k sites)) ++ Q) /\
    (k = length sites \/
     exists s, nth_error sites k = Some s /\
       let '(rn, rd) := max_radius2 dim g (cverts c') in 4 * rn < dist2 g s * rd).
Proof.
  induction sites as [|s rest IH]; intros prev c c' Q Hinv Hreg H; cbn [build_loop] in H.
  - inversion H; subst. exists 0%nat. cbn. split; [lia|]. split; [exact Hinv|left; reflexivity].
  - cbn [build_regular] in Hreg. destruct (dist2 g s <? prev); [discriminate|].
    destruct (max_radius2 dim g (cverts c)) as [rn rd] eqn:Er.
    destruct (4 * rn <? dist2 g s * rd) eqn:Es.
    + inversion H; subst c'. exists 0%nat. cbn [firstn map rev app length]. split; [lia|]. split; [exact Hinv|].
      right. exists s. split; [reflexivity|]. rewrite Er. apply Z.ltb_lt. exact Es.
    + destruct (clip c (bisector g s)) as [c1|] eqn:Ec; [|discriminate]. destruct Hreg as [Hr1 Hreg'].
      pose proof (clip_feasible c (bisector g s) c1 Q Hinv Ec Hr1) as Hinv1.
      destruct (IH _ _ _ _ Hinv1 Hreg' H) as (k & Hk & Hf & Hstop).
      exists (S k). cbn [length firstn map rev]. split; [lia|]. split.
      * rewrite <- app_assoc. cbn [app]. exact Hf.
      * destruct Hstop as [->|(s' & Hs' & Hrad)]; [left; reflexivity|right; exists s'; split; [exact Hs'|exact Hrad]].
Qed.

Theorem build_feasible dim lo hi g sites c :
  (let '(lx, ly, lz) := lo in let '(hx, hy, hz) := hi in lx < hx /\ ly < hy /\ lz < hz) ->
  build_regular dim g sites 0 (cell_init lo hi) -> build dim lo hi g sites = Some c ->
  exists k, (k <= length sites)%nat /\
    Forall (feas (rev (map (bisector g) (firstn k sites)) ++ walls lo hi)) (cverts c) /\
    (k = length sites \/
     exists s, nth_error sites k = Some s /\
       let '(rn, rd) := max_radius2 dim g (cverts c) in 4 * rn < dist2 g s * rd).
Proof.
  intros Hbox Hreg H. unfold build in H.
  destruct (build_loop_feasible dim g sites 0 (cell_init lo hi) c (walls lo hi) (init_feasible lo hi Hbox) Hreg H) as (k & Hk & (_ & _ & Hf) & Hs).
  exists k. repeat split; assumption.
Qed.

(* ---------- beyond the stop: the sites that were never looked at cannot cut the vertices (3D) *)
From MV Require Import Proofs.GeomLemmas.
Definition rle (a b : rat) : Prop := fst a * snd b <= fst b * snd a.

Lemma rle_trans a b c : 0 < snd a -> 0 < snd b -> 0 < snd c -> rle a b -> rle b c -> rle a c.
Proof. destruct a as [an ad], b as [bn bd], c as [cn cd]. unfold rle. cbn [fst snd]. intros. nia. Qed.

Lemma radius2_den dim g p : snd (radius2 dim g p) = snd p * snd p.
Proof. destruct p as [x w]. reflexivity. Qed.

Lemma max_fold_ge dim g : forall vs acc, 0 < snd acc -> Forall (fun v => 0 < snd (vloc v)) vs ->
  let m := fold_left (fun acc v => let r := radius2 dim g (vloc v) in if rlt acc r then r else acc) vs acc in
  0 < snd m /\ rle acc m /\ Forall (fun v => rle (radius2 dim g (vloc v)) m) vs.
Proof.
  induction vs as [|v t IH]; intros acc Ha Hw; cbn [fold_left].
  - split; [exact Ha|]. split; [unfold rle; lia|constructor].
  - inversion Hw as [|? ? Hv Ht]; subst.
    set (r := radius2 dim g (vloc v)). assert (Hr : 0 < snd r) by (unfold r; rewrite radius2_den; nia).
    destruct (rlt acc r) eqn:E.
    + destruct (IH r Hr Ht) as (M0 & M1 & M2). split; [exact M0|]. split.
      * apply (rle_trans acc r _ Ha Hr M0); [|exact M1]. destruct acc as [an ad], r as [rn rd]. unfold rlt in E. apply Z.ltb_lt in E. unfold rle. cbn [fst snd]. lia.
      * constructor; [exact M1|exact M2].
    + destruct (IH acc Ha Ht) as (M0 & M1 & M2). split; [exact M0|]. split; [exact M1|].
      constructor; [|exact M2]. apply (rle_trans r acc _ Hr Ha M0); [|exact M1].
      destruct acc as [an ad], r as [rn rd]. unfold rlt in E. apply Z.ltb_ge in E. unfold rle. cbn [fst snd]. lia.
Qed.

Lemma max_radius2_ge dim g vs : Forall (fun v => 0 < snd (vloc v)) vs ->
  0 < snd (max_radius2 dim g vs) /\ Forall (fun v => rle (radius2 dim g (vloc v)) (max_radius2 dim g vs)) vs.
Proof.
  intros H. unfold max_radius2. destruct (max_fold_ge dim g vs (0, 1) ltac:(cbn; lia) H) as (A & _ & B). split; assumption.
Qed.

(* a vertex within the maximal radius is at least as close to g as to any site beyond twice that radius *)
Lemma far_site_feasible g s (p : hpoint) (rn rd : Z) : 0 < snd p -> 0 < rd ->
  rle (radius2 3 g p) (rn, rd) -> 4 * rn < dist2 g s * rd -> 0 <= side (bisector g s) p.
Proof.
  intros Hw Hrd Hle Hfar. apply bisector_side; [exact Hw|]. unfold closer.
  destruct p as [x w], s as [[id sh] pos]. cbn [snd site_pos] in *. unfold hdist2, hrel_to.
  unfold dist2 in Hfar.
  (* scaled integer points: v' = x, g' = w g, q' = w pos *)
  destruct g as [[g1 g2] g3], x as [[x1 x2] x3], pos as [[p1 p2] p3].
  unfold rle, radius2, proj_dim, vsub, vscale in Hle. change (3 =? 1) with false in Hle. change (3 =? 2) with false in Hle.
  cbv beta iota in Hle. cbn [fst snd] in Hle.
  pose proof (far_site_redundant (w * g1, w * g2, w * g3) (x1, x2, x3) (w * p1, w * p2, w * p3)
                (4 * ((x1 - w * g1) * (x1 - w * g1) + (x2 - w * g2) * (x2 - w * g2) + (x3 - w * g3) * (x3 - w * g3)))) as F.
  unfold d2, sq3 in F. unfold norm2, dot, vsub, vscale in *.
  assert (H0 : 0 <= 4 * ((x1 - w * g1) * (x1 - w * g1) + (x2 - w * g2) * (x2 - w * g2) + (x3 - w * g3) * (x3 - w * g3))).
  { pose proof (Z.square_nonneg (x1 - w * g1)). pose proof (Z.square_nonneg (x2 - w * g2)). pose proof (Z.square_nonneg (x3 - w * g3)). lia. }
  specialize (F H0 ltac:(lia)).
  assert (Hq : 4 * ((x1 - w * g1) * (x1 - w * g1) + (x2 - w * g2) * (x2 - w * g2) + (x3 - w * g3) * (x3 - w * g3))
               < (w * p1 - w * g1) * (w * p1 - w * g1) + (w * p2 - w * g2) * (w * p2 - w * g2) + (w * p3 - w * g3) * (w * p3 - w * g3)).
  { replace ((w * p1 - w * g1) * (w * p1 - w * g1) + (w * p2 - w * g2) * (w * p2 - w * g2) + (w * p3 - w * g3) * (w * p3 - w * g3))
      with (w * w * ((g1 - p1) * (g1 - p1) + (g2 - p2) * (g2 - p2) + (g3 - p3) * (g3 - p3))) by ring.
    set (A := (x1 - w * g1) * (x1 - w * g1) + (x2 - w * g2) * (x2 - w * g2) + (x3 - w * g3) * (x3 - w * g3)) in *.
    set (B := (g1 - p1) * (g1 - p1) + (g2 - p2) * (g2 - p2) + (g3 - p3) * (g3 - p3)) in *.
    assert (Hw2 : 0 < w * w) by nia.
    assert (S1 : 4 * A * rd <= 4 * rn * (w * w)) by nia.
    assert (S2 : 4 * rn * (w * w) < B * rd * (w * w)) by (apply Z.mul_lt_mono_pos_r; [exact Hw2|lia]).
    assert (S3 : (4 * A) * rd < (w * w * B) * rd) by nia.
    apply (Z.mul_lt_mono_pos_r rd); [exact Hrd|exact S3]. }
  specialize (F Hq). lia.
Qed.

From Coq Require Import Sorted.

Lemma ssorted_app_r {A} (R : A -> A -> Prop) (l1 l2 : list A) : StronglySorted R (l1 ++ l2) -> StronglySorted R l2.
Proof. induction l1 as [|a t IH]; cbn [app]; intros H; [exact H|]. inversion H; subst. apply IH. assumption. Qed.

(* every vertex of a regularly built 3D cell satisfies the walls and the bisector of EVERY site, including those the
   construction never looked at because of the safety radius (sites in the order of increasing distance, which is what
   the neighbour search delivers: C17) *)
Theorem build_vertices_feasible_3d lo hi g sites c :
  (let '(lx, ly, lz) := lo in let '(hx, hy, hz) := hi in lx < hx /\ ly < hy /\ lz < hz) ->
  StronglySorted (fun a b => dist2 g a <= dist2 g b) sites ->
  build_regular 3 g sites 0 (cell_init lo hi) -> build 3 lo hi g sites = Some c ->
  Forall (fun v => 0 < snd (vloc v) /\ Forall (fun r => 0 <= side r (vloc v)) (walls lo hi) /\
                   forall s, In s sites -> 0 <= side (bisector g s) (vloc v)) (cverts c).
Proof.
  intros Hbox Hsort Hreg H.
  destruct (build_feasible 3 lo hi g sites c Hbox Hreg H) as (k & Hk & Hf & Hstop).
  assert (Hw : Forall (fun v => 0 < snd (vloc v)) (cverts c)).
  { eapply Forall_impl; [|exact Hf]. intros v [A _]. exact A. }
  destruct (max_radius2_ge 3 g (cverts c) Hw) as [Hrd Hmax].
  rewrite Forall_forall in *. intros v Hv. destruct (Hf v Hv) as [Wv Qv]. apply Forall_app in Qv. destruct Qv as [Qpre Qwalls].
  split; [exact Wv|]. split; [exact Qwalls|]. intros s Hs.
  rewrite Forall_forall in Qpre.
  destruct Hstop as [->|(sk & Hsk & Hrad)].
  - rewrite firstn_all in Qpre. apply Qpre. rewrite <- in_rev. apply in_map. exact Hs.
  - destruct (nth_error_split sites k Hsk) as (l1 & l2 & E & L1). subst sites.
    rewrite <- L1, firstn_app, Nat.sub_diag, firstn_all in Qpre. cbn [firstn] in Qpre. rewrite app_nil_r in Qpre.
    apply in_app_or in Hs. destruct Hs as [Hs|Hs].
    + apply Qpre. rewrite <- in_rev. apply in_map. exact Hs.
    + (* sk itself or a later site: at least as far as sk *)
      assert (Hd : dist2 g sk <= dist2 g s).
      { destruct Hs as [<-|Hs]; [lia|]. apply ssorted_app_r in Hsort. inversion Hsort as [|? ? _ Hall]; subst.
        rewrite Forall_forall in Hall. apply Hall. exact Hs. }
      destruct (max_radius2 3 g (cverts c)) as [rn rd] eqn:Em. cbn [snd] in Hrd.
      apply (far_site_feasible g s (vloc v) rn rd Wv Hrd (Hmax v Hv)). nia.
Qed.

(* ... hence the whole hull of the vertices lies in the nearest-generator region of all sites *)
Corollary build_hull_in_region_3d lo hi g sites c l :
  (let '(lx, ly, lz) := lo in let '(hx, hy, hz) := hi in lx < hx /\ ly < hy /\ lz < hz) ->
  StronglySorted (fun a b => dist2 g a <= dist2 g b) sites ->
  build_regular 3 g sites 0 (cell_init lo hi) -> build 3 lo hi g sites = Some c ->
  Forall (fun '(lam, p) => 0 <= lam /\ exists v, In v (cverts c) /\ p = vloc v) l ->
  Exists (fun '(lam, _) => 0 < lam) l ->
  forall s, In s sites -> closer g s (hcomb l).
Proof.
  intros Hbox Hsort Hreg H Hl Hex s Hs.
  pose proof (build_vertices_feasible_3d lo hi g sites c Hbox Hsort Hreg H) as Hf. rewrite Forall_forall in Hf.
  assert (Hl' : Forall (fun '(lam, p) => 0 <= lam /\ 0 < snd p /\ 0 <= side (bisector g s) p) l).
  { eapply Forall_impl; [|exact Hl]. intros [lam p] (A & v & Hv & ->). destruct (Hf v Hv) as (W & _ & B). repeat split; auto. }
  assert (Hw : 0 < snd (hcomb l)).
  { apply weight_comb; [|exact Hex]. eapply Forall_impl; [|exact Hl']. intros [lam p] (A & B & _). split; assumption. }
  apply bisector_side; [exact Hw|]. apply side_comb. eapply Forall_impl; [|exact Hl']. intros [lam p] (A & _ & B). split; assumption.
Qed.

(* ---------- the regularity hypothesis is decidable: the extracted model evaluates it for every compared cell *)
Lemma vertex_nondegb_spec ps v : vertex_nondegb ps v = true -> vnondeg ps v.
Proof. unfold vertex_nondegb, vnondeg. destruct (vd v) as [[i j] k]. intros H. apply negb_true_iff in H. apply Z.eqb_neq in H. exact H. Qed.

Lemma clip_regularb_spec c q c' : clip_regularb c q c' = true -> clip_regular c q c'.
Proof.
  unfold clip_regularb, clip_regular. intros H. apply andb_prop in H. destruct H as [H1 H2]. split.
  - apply Forall_forall. intros v Hv. rewrite forallb_forall in H1. apply vertex_nondegb_spec. apply H1. exact Hv.
  - destruct (Nat.eqb_spec (length (cplanes c')) (length (cplanes c))) as [E|N].
    + split; [|intros N; contradiction]. intros _. apply Forall_forall. intros v Hv. rewrite forallb_forall in H2. apply Z.leb_le. apply H2. exact Hv.
    + split; [intros E; contradiction|]. intros _. apply Nat.leb_le. exact H2.
Qed.

Lemma build_regularb_spec dim g : forall sites prev c, build_regularb dim g sites prev c = true -> build_regular dim g sites prev c.
Proof.
  induction sites as [|s rest IH]; intros prev c H; cbn [build_regularb build_regular] in *; [exact I|].
  destruct (dist2 g s <? prev); [exact I|]. destruct (max_radius2 dim g (cverts c)) as [rn rd].
  destruct (4 * rn <? dist2 g s * rd); [exact I|]. destruct (clip c (bisector g s)) as [c1|]; [|exact I].
  apply andb_prop in H. destruct H as [H1 H2]. split; [apply clip_regularb_spec; exact H1|apply IH; exact H2].
Qed.
