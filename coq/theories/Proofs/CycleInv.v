(* The pointer array of SimpleCycle represents a simple cycle: invariant preserved by init / try_extend,
   and `init`'s reset loop restores the all-self array (the `clean` hypothesis of CycleProofs). *)
From Coq Require Import List Arith Lia Bool Permutation.
From MV Require Import Model.Cycle Proofs.CycleProofs.
Import ListNotations.

(* consecutive pairs of l, then (last, first): every pointer leads to the next node *)
Fixpoint chain (p : list nat) (first : nat) (l : list nat) : Prop :=
  match l with
  | [] => True
  | x :: t => match t with [] => ptr p x = first | y :: _ => ptr p x = y /\ chain p first t end
  end.
Definition closed_chain (p : list nat) (l : list nat) : Prop :=
  match l with [] => True | x :: _ => chain p x l end.

Definition cyc (p : list nat) (l : list nat) : Prop :=
  NoDup l /\ Forall (fun x => x < length p) l /\ (forall i, i < length p -> (ptr p i <> i <-> In i l)) /\ closed_chain p l.

Definition Inv (c : cycle) : Prop :=
  exists l, cyc (ptrs c) l /\ length l = clen c /\ (clen c > 0 -> In (cstart c) l).

Lemma chain_app p first a x b : chain p first (a ++ x :: b) <->
  chain p x a /\ chain p first (x :: b).
Proof.
  revert x b. induction a as [|y a IH]; intros x b; cbn [app].
  - cbn [chain]. tauto.
  - destruct a as [|z a'].
    + cbn [app chain]. tauto.
    + change ((y :: z :: a') ++ x :: b) with (y :: (z :: a') ++ x :: b).
      cbn [chain app]. change (z :: a' ++ x :: b) with ((z :: a') ++ x :: b).
      rewrite (IH x b). cbn [chain]. tauto.
Qed.

(* rotation *)
Lemma closed_rotate p x t : closed_chain p (x :: t) -> closed_chain p (t ++ [x]).
Proof.
  destruct t as [|y t']; [cbn; auto|]. cbn [closed_chain app].
  change (y :: t' ++ [x]) with ((y :: t') ++ x :: []).
  intros H. cbn [chain] in H. destruct H as [Hxy Ht].
  apply chain_app. split; [|cbn [chain]; exact Hxy].
  clear Hxy. revert y Ht. induction t' as [|z t'' IH]; intros y Ht; cbn [chain] in *; [exact Ht|].
  destruct Ht as [Hyz Ht]. split; [exact Hyz|]. apply IH. exact Ht.
Qed.

Lemma cyc_rotate p x t : cyc p (x :: t) -> cyc p (t ++ [x]).
Proof.
  intros (ND & FR & MEM & CL). split; [|split; [|split]].
  - apply Permutation_NoDup with (l := x :: t); [|exact ND]. apply Permutation_cons_append.
  - apply Forall_forall. intros y Hy. rewrite Forall_forall in FR. apply FR.
    apply in_app_or in Hy. destruct Hy as [Hy|[<-|[]]]; [right; exact Hy | left; reflexivity].
  - intros i Hi. rewrite (MEM i Hi). split; intros G.
    + destruct G as [<-|G]; apply in_or_app; [right; left; reflexivity | left; exact G].
    + apply in_app_or in G. destruct G as [G|[<-|[]]]; [right; exact G | left; reflexivity].
  - apply closed_rotate. exact CL.
Qed.

(* bring any member to the front *)
Lemma cyc_rotate_to p l k : cyc p l -> In k l -> exists t, cyc p (k :: t) /\ Permutation l (k :: t).
Proof.
  intros Hc Hk. apply in_split in Hk. destruct Hk as (a & b & ->).
  revert b Hc. induction a as [|x a IH]; intros b Hc.
  - exists b. split; [exact Hc | apply Permutation_refl].
  - apply cyc_rotate in Hc. cbn [app] in Hc. rewrite <- app_assoc in Hc. cbn [app] in Hc.
    destruct (IH (b ++ [x]) Hc) as (t & Ht & Pt). exists t. split; [exact Ht|].
    eapply perm_trans; [|exact Pt]. cbn [app].
    eapply perm_trans; [apply Permutation_cons_append|]. rewrite <- app_assoc. cbn [app]. apply Permutation_refl.
Qed.

Lemma chain_ext p q first l : (forall x, In x l -> ptr q x = ptr p x) -> chain p first l -> chain q first l.
Proof.
  induction l as [|x t IH]; intros E H; [exact I|]. cbn [chain] in *.
  destruct t as [|y t'].
  - rewrite E by (left; reflexivity). exact H.
  - destruct H as [H1 H2]. split; [rewrite E by (left; reflexivity); exact H1|].
    apply IH; [intros z Hz; apply E; right; exact Hz | exact H2].
Qed.

Lemma length_upd2 (p : list nat) a x b y : length (upd (upd p a x) b y) = length p.
Proof. now rewrite !length_upd. Qed.

Lemma chain_cons2 p f x y t : chain p f (x :: y :: t) <-> ptr p x = y /\ chain p f (y :: t).
Proof. reflexivity. Qed.

(* rule 1: splice i between k and j *)
Lemma cyc_rule1 p k j t i : cyc p (k :: j :: t) -> i < length p -> ~ In i (k :: j :: t) ->
  cyc (upd (upd p k i) i j) (k :: i :: j :: t).
Proof.
  intros (ND & FR & MEM & CL) Hi Hni.
  assert (Hk : k < length p) by (inversion FR; assumption).
  assert (Hik : i <> k) by (intros ->; apply Hni; left; reflexivity).
  assert (Hij : i <> j) by (intros ->; apply Hni; right; left; reflexivity).
  inversion ND as [|? ? Hkn ND']; subst.
  set (q := upd (upd p k i) i j).
  assert (Qk : ptr q k = i).
  { unfold q. rewrite ptr_upd_other by assumption. apply ptr_upd_same. exact Hk. }
  assert (Qi : ptr q i = j) by (unfold q; apply ptr_upd_same; rewrite length_upd; exact Hi).
  assert (Qo : forall x, x <> k -> x <> i -> ptr q x = ptr p x).
  { intros x H1 H2. unfold q. rewrite !ptr_upd_other by congruence. reflexivity. }
  split; [|split; [|split]].
  - constructor; [|constructor; [|exact ND']].
    + intros [E|H]; [congruence | apply Hkn; exact H].
    + intros H. apply Hni. right. exact H.
  - unfold q. rewrite length_upd2. constructor; [exact Hk|]. constructor; [exact Hi|]. inversion FR; assumption.
  - intros x Hx. unfold q in Hx. rewrite length_upd2 in Hx.
    destruct (Nat.eq_dec x k) as [->|Nk]; [rewrite Qk; split; [intros _; left; reflexivity | intros _; congruence]|].
    destruct (Nat.eq_dec x i) as [->|Ni]; [rewrite Qi; split; [intros _; right; left; reflexivity | intros _; congruence]|].
    rewrite Qo by assumption. rewrite (MEM x Hx). split; intros G.
    + destruct G as [G|G]; [congruence | right; right; exact G].
    + destruct G as [G|[G|G]]; [congruence | congruence | right; exact G].
  - unfold closed_chain in *. apply chain_cons2 in CL. destruct CL as [Ckj Cr].
    apply chain_cons2. split; [exact Qk|]. apply chain_cons2. split; [exact Qi|].
    apply (chain_ext p q); [|exact Cr].
    intros x Hx. apply Qo.
    + intros ->. apply Hkn. exact Hx.
    + intros ->. apply Hni. right. exact Hx.
Qed.

(* rule 2: j leaves, k now points to i *)
Lemma cyc_rule2 p k j i t : cyc p (k :: j :: i :: t) ->
  cyc (upd (upd p k i) j j) (k :: i :: t).
Proof.
  intros (ND & FR & MEM & CL).
  inversion FR as [|? ? Hk FR1]; subst. inversion FR1 as [|? ? Hj FR2]; subst.
  inversion ND as [|? ? Hkn ND1]; subst. inversion ND1 as [|? ? Hjn ND2]; subst.
  assert (Hkj : k <> j) by (intros ->; apply Hkn; left; reflexivity).
  set (q := upd (upd p k i) j j).
  assert (Qk : ptr q k = i).
  { unfold q. rewrite ptr_upd_other by congruence. apply ptr_upd_same. exact Hk. }
  assert (Qj : ptr q j = j) by (unfold q; apply ptr_upd_same; rewrite length_upd; exact Hj).
  assert (Qo : forall x, x <> k -> x <> j -> ptr q x = ptr p x).
  { intros x H1 H2. unfold q. rewrite !ptr_upd_other by congruence. reflexivity. }
  assert (Hki : k <> i) by (intros ->; apply Hkn; right; left; reflexivity).
  split; [|split; [|split]].
  - constructor; [|exact ND2]. intros H. apply Hkn. right. exact H.
  - unfold q. rewrite length_upd2. constructor; [exact Hk | exact FR2].
  - intros x Hx. unfold q in Hx. rewrite length_upd2 in Hx.
    destruct (Nat.eq_dec x k) as [->|Nk]; [rewrite Qk; split; [intros _; left; reflexivity | intros _; congruence]|].
    destruct (Nat.eq_dec x j) as [->|Nj].
    + rewrite Qj. split; [congruence|]. intros [G|G]; [congruence | exfalso; apply Hjn; exact G].
    + rewrite Qo by assumption. rewrite (MEM x Hx). split; intros G.
      * destruct G as [G|[G|G]]; [congruence | congruence | right; exact G].
      * destruct G as [G|G]; [congruence | right; right; exact G].
  - unfold closed_chain in *. apply chain_cons2 in CL. destruct CL as [Ckj CL]. apply chain_cons2 in CL. destruct CL as [Cji Cr].
    apply chain_cons2. split; [exact Qk|].
    apply (chain_ext p q); [|exact Cr].
    intros x Hx. apply Qo.
    + intros ->. apply Hkn. right. exact Hx.
    + intros ->. apply Hjn. exact Hx.
Qed.

Lemma cyc_head_next p k t : cyc p (k :: t) -> exists t', t = ptr p k :: t'.
Proof.
  intros (ND & FR & MEM & CL). destruct t as [|y t'].
  - exfalso. cbn in CL. assert (Hk : k < length p) by (inversion FR; assumption).
    apply (proj2 (MEM k Hk)); [left; reflexivity | exact CL].
  - apply chain_cons2 in CL. destruct CL as [E _]. exists t'. now rewrite E.
Qed.

Lemma contains_in c l i : cyc (ptrs c) l -> i < length (ptrs c) -> (cyc_contains c i = true <-> In i l).
Proof.
  intros (_ & _ & MEM & _) Hi. unfold cyc_contains. rewrite negb_true_iff, Nat.eqb_neq. apply MEM. exact Hi.
Qed.

Theorem try_rot_inv c ti tj tk c' : Inv c -> in_range_tri c ti tj tk -> ti <> tk ->
  try_rot c ti tj tk = Some c' -> Inv c'.
Proof.
  intros (l & Hc & Hl & Hs) (Hi & Hj & Hk) Nik H. unfold try_rot in H.
  set (p := ptrs c) in *.
  destruct (negb (cyc_contains c ti) && cyc_contains c tj && cyc_contains c tk && Nat.eqb (ptr p tk) tj) eqn:R1.
  - inversion H; subst c'; clear H.
    apply andb_true_iff in R1. destruct R1 as [R1 Ekj]. apply andb_true_iff in R1. destruct R1 as [R1 Ck].
    apply andb_true_iff in R1. destruct R1 as [Ci Cj]. apply Nat.eqb_eq in Ekj.
    apply negb_true_iff in Ci.
    assert (Hkl : In tk l) by (apply (contains_in c l tk Hc Hk); exact Ck).
    assert (Hil : ~ In ti l).
    { intros G. apply (contains_in c l ti Hc Hi) in G. congruence. }
    destruct (cyc_rotate_to p l tk Hc Hkl) as (t & Ht & Pt).
    destruct (cyc_head_next p tk t Ht) as (t' & ->). fold p in Ekj. rewrite Ekj in *.
    exists (tk :: ti :: tj :: t'). cbn [ptrs clen cstart]. split; [|split].
    + apply cyc_rule1; [exact Ht | exact Hi |]. intros G. apply Hil. eapply Permutation_in; [apply Permutation_sym; exact Pt | exact G].
    + cbn [length]. apply Permutation_length in Pt. cbn [length] in Pt. lia.
    + intros _. destruct (Nat.eq_dec (clen c) 0) as [Z|NZ].
      * apply Permutation_length in Pt. cbn in Pt. lia.
      * assert (G : In (cstart c) (tk :: tj :: t')) by (eapply Permutation_in; [exact Pt | apply Hs; lia]).
        destruct G as [G|[G|G]]; [left; exact G | right; right; left; exact G | right; right; right; exact G].
  - destruct (cyc_contains c ti && cyc_contains c tj && cyc_contains c tk && Nat.eqb (ptr p tk) tj && Nat.eqb (ptr p tj) ti) eqn:R2; [|discriminate].
    inversion H; subst c'; clear H.
    apply andb_true_iff in R2. destruct R2 as [R2 Eji]. apply andb_true_iff in R2. destruct R2 as [R2 Ekj].
    apply andb_true_iff in R2. destruct R2 as [R2 Ck]. apply andb_true_iff in R2. destruct R2 as [Ci Cj].
    apply Nat.eqb_eq in Ekj. apply Nat.eqb_eq in Eji.
    assert (Hkl : In tk l) by (apply (contains_in c l tk Hc Hk); exact Ck).
    destruct (cyc_rotate_to p l tk Hc Hkl) as (t & Ht & Pt).
    destruct (cyc_head_next p tk t Ht) as (t' & ->). fold p in Ekj. rewrite Ekj in *.
    (* the node after tj is ti *)
    assert (Ht2 : exists t'', t' = ti :: t'').
    { destruct Ht as (ND & FR & MEM & CL). unfold closed_chain in CL. apply chain_cons2 in CL. destruct CL as [_ CL].
      destruct t' as [|y t''].
      - cbn in CL. fold p in Eji. congruence.
      - apply chain_cons2 in CL. destruct CL as [E _]. fold p in Eji. exists t''. congruence. }
    destruct Ht2 as (t'' & ->).
    exists (tk :: ti :: t''). cbn [ptrs clen cstart]. split; [|split].
    + apply cyc_rule2. exact Ht.
    + apply Permutation_length in Pt. cbn [length] in *. lia.
    + intros _. assert (Hpos : clen c > 0) by (apply Permutation_length in Pt; cbn in Pt; lia).
      assert (G : In (cstart c) (tk :: tj :: ti :: t'')) by (eapply Permutation_in; [exact Pt | apply Hs; exact Hpos]).
      destruct (Nat.eqb_spec (cstart c) tj) as [E|NE].
      * right. left. reflexivity.
      * destruct G as [G|[G|[G|G]]]; [left; exact G | congruence | right; left; exact G | right; right; exact G].
Qed.

Theorem cyc_try_extend_inv c a b d c' : Inv c -> in_range_tri c a b d -> a <> b -> b <> d -> d <> a ->
  cyc_try_extend c a b d = Some c' -> Inv c'.
Proof.
  intros HI (Ha & Hb & Hd) Nab Nbd Nda H. unfold cyc_try_extend in H.
  assert (R1 : in_range_tri c a b d) by (unfold in_range_tri; auto).
  assert (R2 : in_range_tri c b d a) by (unfold in_range_tri; auto).
  assert (R3 : in_range_tri c d a b) by (unfold in_range_tri; auto).
  destruct (try_rot c a b d) as [c1|] eqn:E1.
  - inversion H; subst. exact (try_rot_inv c a b d c' HI R1 (not_eq_sym Nda) E1).
  - destruct (try_rot c b d a) as [c2|] eqn:E2.
    + inversion H; subst. exact (try_rot_inv c b d a c' HI R2 (not_eq_sym Nab) E2).
    + exact (try_rot_inv c d a b c' HI R3 (not_eq_sym Nbd) H).
Qed.

(* ---- the reset loop of init *)
Definition self_all (l : list nat) (p : list nat) : list nat := fold_left (fun q y => upd q y y) l p.

Lemma reset_chain t : forall p first x, NoDup (x :: t) -> chain p first (x :: t) ->
  cyc_reset (length (x :: t)) p x = self_all (x :: t) p.
Proof.
  induction t as [|y t' IH]; intros p first x ND CH.
  - reflexivity.
  - change (length (x :: y :: t')) with (S (length (y :: t'))). cbn [cyc_reset].
    apply chain_cons2 in CH. destruct CH as [Exy CH]. rewrite Exy.
    apply NoDup_cons_iff in ND. destruct ND as [Hx ND'].
    rewrite (IH (upd p x x) first y ND').
    + reflexivity.
    + apply (chain_ext p); [|exact CH]. intros z Hz. apply ptr_upd_other. intros ->. apply Hx. exact Hz.
Qed.

Lemma self_all_length l : forall p, length (self_all l p) = length p.
Proof. induction l as [|y t IH]; intros p; cbn [self_all fold_left]; [reflexivity|]. fold (self_all t (upd p y y)). rewrite IH. apply length_upd. Qed.

Lemma self_all_ptr l : forall p i, Forall (fun x => x < length p) l ->
  ptr (self_all l p) i = if existsb (Nat.eqb i) l then i else ptr p i.
Proof.
  induction l as [|y t IH]; intros p i FR; cbn [self_all fold_left existsb]; [reflexivity|].
  fold (self_all t (upd p y y)). inversion FR as [|? ? Hy FR']; subst.
  assert (FRu : Forall (fun x => x < length (upd p y y)) t) by (rewrite length_upd; exact FR').
  rewrite (IH _ _ FRu).
  destruct (existsb (Nat.eqb i) t) eqn:Et; [now rewrite orb_true_r|]. rewrite orb_false_r.
  destruct (Nat.eqb_spec i y) as [->|N].
  - apply ptr_upd_same. exact Hy.
  - apply ptr_upd_other. congruence.
Qed.

Lemma list_eq_seq (r : list nat) : forall o, (forall i, i < length r -> nth i r (o + i) = o + i) -> r = seq o (length r).
Proof.
  induction r as [|h t IH]; intros o H; [reflexivity|]. cbn [length seq]. f_equal.
  - specialize (H 0 (Nat.lt_0_succ _)). cbn in H. lia.
  - apply IH. intros i Hi. specialize (H (S i)). cbn [nth length] in H.
    replace (S o + i) with (o + S i) by lia. apply H. lia.
Qed.

Theorem inv_clean c : Inv c -> clean c /\ length (cyc_reset (clen c) (ptrs c) (cstart c)) = length (ptrs c).
Proof.
  intros (l & Hc & Hl & Hs). unfold clean.
  destruct (Nat.eq_dec (clen c) 0) as [Z|NZ].
  - rewrite Z. cbn [cyc_reset]. split; [|reflexivity].
    destruct l; [|cbn in Hl; lia]. destruct Hc as (_ & _ & MEM & _).
    apply list_eq_seq with (o := 0). intros i Hi. cbn [Nat.add].
    destruct (Nat.eq_dec (ptr (ptrs c) i) i) as [E|N]; [exact E|].
    exfalso. apply (proj1 (MEM i Hi)) in N. destruct N.
  - destruct (cyc_rotate_to (ptrs c) l (cstart c) Hc (Hs ltac:(lia))) as (t & Ht & Pt).
    assert (Len : clen c = length (cstart c :: t)) by (rewrite <- Hl; apply Permutation_length; exact Pt).
    destruct Ht as (ND & FR & MEM & CL). unfold closed_chain in CL.
    rewrite Len, (reset_chain t (ptrs c) (cstart c) (cstart c) ND CL).
    split; [|apply self_all_length].
    set (r := self_all (cstart c :: t) (ptrs c)).
    assert (Lr : length r = length (ptrs c)) by apply self_all_length.
    rewrite <- Lr.
    apply list_eq_seq with (o := 0). intros i Hi. cbn [Nat.add]. rewrite Lr in Hi.
    pose proof (self_all_ptr (cstart c :: t) (ptrs c) i FR) as P. fold r in P. unfold ptr in P at 1.
    assert (Q : nth i r i = i).
    { rewrite P. destruct (existsb (Nat.eqb i) (cstart c :: t)) eqn:Ex; [reflexivity|].
      destruct (Nat.eq_dec (ptr (ptrs c) i) i) as [E|N]; [exact E|].
      exfalso. apply (proj1 (MEM i Hi)) in N. assert (existsb (Nat.eqb i) (cstart c :: t) = true); [|congruence].
      apply existsb_exists. exists i. split; [exact N | apply Nat.eqb_refl]. }
    exact Q.
Qed.

(* ---- construction of cycles *)
Lemma ptr_seq n i : ptr (seq 0 n) i = i.
Proof. unfold ptr. destruct (Nat.lt_ge_cases i n); [now rewrite seq_nth | apply nth_overflow; now rewrite seq_length]. Qed.

Lemma inv_new n : Inv (cyc_new n).
Proof.
  exists []. cbn. split; [|split; [reflexivity | lia]].
  split; [constructor|]. split; [constructor|]. split; [|exact I].
  intros i _. rewrite ptr_seq. split; [congruence | intros []].
Qed.

Lemma ptr_app_self p i : ptr (p ++ [length p]) i = ptr p i.
Proof.
  unfold ptr. destruct (Nat.lt_ge_cases i (length p)) as [H|H].
  - now rewrite app_nth1.
  - rewrite (nth_overflow p) by lia. destruct (Nat.eq_dec i (length p)) as [->|N].
    + rewrite app_nth2 by lia. now rewrite Nat.sub_diag.
    + apply nth_overflow. rewrite app_length. cbn. lia.
Qed.

Lemma inv_grow c : Inv c -> Inv (cyc_grow c).
Proof.
  intros (l & (ND & FR & MEM & CL) & Hl & Hs). exists l. unfold cyc_grow. cbn [ptrs clen cstart].
  split; [|split; assumption]. split; [exact ND|]. split; [|split].
  - apply Forall_forall. intros x Hx. rewrite Forall_forall in FR. rewrite app_length. cbn. specialize (FR x Hx). lia.
  - intros i Hi. rewrite ptr_app_self. rewrite app_length in Hi. cbn in Hi.
    destruct (Nat.lt_ge_cases i (length (ptrs c))) as [H|H]; [apply MEM; exact H|].
    assert (i = length (ptrs c)) by lia. subst i. unfold ptr. rewrite nth_overflow by lia.
    split; [congruence|]. intros G. rewrite Forall_forall in FR. specialize (FR _ G). lia.
  - destruct l as [|x t]; [exact I|]. unfold closed_chain in *.
    apply (chain_ext (ptrs c)); [|exact CL]. intros z _. apply ptr_app_self.
Qed.

Lemma inv_init c a b d : Inv c ->
  a < length (ptrs c) -> b < length (ptrs c) -> d < length (ptrs c) -> a <> b -> b <> d -> d <> a ->
  Inv (cyc_init c a b d).
Proof.
  intros HI Ha Hb Hd Nab Nbd Nda. destruct (inv_clean c HI) as [Hc _]. unfold clean in Hc.
  unfold cyc_init. rewrite Hc. set (n := length (ptrs c)) in *. unfold Inv. cbn [ptrs clen cstart].
  set (q := upd (upd (upd (seq 0 n) a b) b d) d a).
  assert (Ln : length (seq 0 n) = n) by apply seq_length.
  assert (Qa : ptr q a = b).
  { unfold q. rewrite !ptr_upd_other by congruence. apply ptr_upd_same. now rewrite Ln. }
  assert (Qb : ptr q b = d).
  { unfold q. rewrite ptr_upd_other by congruence. apply ptr_upd_same. now rewrite length_upd, Ln. }
  assert (Qd : ptr q d = a) by (unfold q; apply ptr_upd_same; now rewrite !length_upd, Ln).
  assert (Qo : forall x, x <> a -> x <> b -> x <> d -> ptr q x = x).
  { intros x H1 H2 H3. unfold q. rewrite !ptr_upd_other by congruence. apply ptr_seq. }
  assert (Lq : length q = n) by (unfold q; now rewrite !length_upd, Ln).
  exists [a; b; d]. split; [|split; [reflexivity | intros _; left; reflexivity]].
  split; [|split; [|split]].
  - constructor; [intros [E|[E|[]]]; congruence|]. constructor; [intros [E|[]]; congruence|]. constructor; [intros []|constructor].
  - rewrite Lq. repeat constructor; assumption.
  - intros i Hi. destruct (Nat.eq_dec i a) as [->|N1]; [rewrite Qa; split; [intros _; left; reflexivity | intros _; congruence]|].
    destruct (Nat.eq_dec i b) as [->|N2]; [rewrite Qb; split; [intros _; right; left; reflexivity | intros _; congruence]|].
    destruct (Nat.eq_dec i d) as [->|N3]; [rewrite Qd; split; [intros _; right; right; left; reflexivity | intros _; congruence]|].
    rewrite Qo by assumption. split; [congruence|]. intros [E|[E|[E|[]]]]; congruence.
  - unfold closed_chain. apply chain_cons2. split; [exact Qa|]. apply chain_cons2. split; [exact Qb|]. exact Qd.
Qed.

Section BoundaryInv.
Variable V : Type.
Variable vdual : V -> dual.
Variable vdefault : V.

Definition distinct_duals (vs : list V) : Prop :=
  Forall (fun v => let '(a, b, d) := vdual v in a <> b /\ b <> d /\ d <> a) vs.

Lemma find_ext_inv fuel : forall c vs idx c' k, Inv c -> duals_in_range V vdual (length (ptrs c)) vs -> distinct_duals vs ->
  find_ext V vdual vdefault fuel c vs idx = Some (c', k) -> Inv c'.
Proof.
  induction fuel as [|f IH]; intros c vs idx c' k HI Hr Hd H; cbn [find_ext] in H; [discriminate|].
  destruct (Nat.ltb_spec idx (length vs)) as [Hlt|Hge]; [|discriminate].
  pose proof (duals_in_range_nth V vdual vdefault _ _ idx Hr Hlt) as Hrange.
  assert (Hdist : let '(a, b, d) := vdual (nth idx vs vdefault) in a <> b /\ b <> d /\ d <> a).
  { unfold distinct_duals in Hd. rewrite Forall_forall in Hd. apply Hd. now apply nth_In. }
  destruct (vdual (nth idx vs vdefault)) as [[a b] d] eqn:Ed.
  destruct (cyc_try_extend c a b d) as [c1|] eqn:Et.
  - inversion H; subst. destruct Hdist as (N1 & N2 & N3).
    eapply cyc_try_extend_inv; [exact HI | exact Hrange | exact N1 | exact N2 | exact N3 | exact Et].
  - eapply IH; eauto.
Qed.

Lemma distinct_duals_swap vs i j : distinct_duals vs -> i < length vs -> j < length vs ->
  distinct_duals (swap vdefault vs i j).
Proof.
  intros H Hi Hj. unfold distinct_duals in *. rewrite Forall_forall in *. intros v Hv.
  apply In_nth with (d := vdefault) in Hv. destruct Hv as (k & Hk & <-). rewrite length_swap in Hk.
  unfold swap. destruct (Nat.eq_dec k j) as [->|Nkj].
  - rewrite nth_upd_same by (rewrite length_upd; assumption). apply H. now apply nth_In.
  - rewrite nth_upd_other by congruence. destruct (Nat.eq_dec k i) as [->|Nki].
    + rewrite nth_upd_same by assumption. apply H. now apply nth_In.
    + rewrite nth_upd_other by congruence. apply H. now apply nth_In.
Qed.

Lemma boundary_loop_inv fuel : forall c vs i c' vs', Inv c -> duals_in_range V vdual (length (ptrs c)) vs -> distinct_duals vs ->
  boundary_loop V vdual vdefault fuel c vs i = Some (c', vs') -> Inv c'.
Proof.
  induction fuel as [|f IH]; intros c vs i c' vs' HI Hr Hd H; cbn [boundary_loop] in H.
  - inversion H; subst; exact HI.
  - destruct (Nat.ltb_spec i (length vs)) as [Hlt|Hge]; [|inversion H; subst; exact HI].
    destruct (find_ext V vdual vdefault (length vs) c vs i) as [[c1 k]|] eqn:Ef; [|discriminate].
    pose proof (find_ext_inv _ _ _ _ _ _ HI Hr Hd Ef) as HI1.
    destruct (find_ext_spec V vdual vdefault _ _ _ _ _ _ Hr Ef) as (Hk & Hl1 & _).
    eapply (IH c1 _ (S i) c' vs' HI1); [| | exact H].
    + rewrite Hl1. destruct (Nat.ltb i k); [apply duals_in_range_swap; [assumption|lia|lia] | assumption].
    + destruct (Nat.ltb i k); [apply distinct_duals_swap; [assumption|lia|lia] | assumption].
Qed.

(* the boundary computation maps proper cycles to proper cycles: so the `clean` hypothesis of the chain
   theorems holds at every clip of a construction that starts from a fresh cycle *)
Theorem compute_boundary_inv c vs c' vs' : Inv c -> duals_in_range V vdual (length (ptrs c)) vs -> distinct_duals vs ->
  compute_boundary V vdual vdefault c vs = Some (c', vs') -> Inv c'.
Proof.
  intros HI Hr Hd H. unfold compute_boundary in H. destruct vs as [|v0 t]; [discriminate|].
  destruct (vdual v0) as [[a b] d] eqn:E0.
  assert (Hr0 := Hr). unfold duals_in_range in Hr0. inversion Hr0 as [|? ? Hv0 _]; subst. rewrite E0 in Hv0.
  assert (Hd0 := Hd). unfold distinct_duals in Hd0. inversion Hd0 as [|? ? Hdd _]; subst. rewrite E0 in Hdd.
  destruct Hv0 as (Ha & Hb & Hdl). destruct Hdd as (N1 & N2 & N3).
  assert (HIi : Inv (cyc_init c a b d)) by (apply inv_init; assumption).
  eapply boundary_loop_inv; [exact HIi | | exact Hd | exact H].
  rewrite cyc_init_length. destruct (inv_clean c HI) as [_ L]. rewrite L. exact Hr.
Qed.
End BoundaryInv.


(* ---- the whole combinatorial clip keeps the cycle proper *)
Section ClipInv.
Variable V : Type.
Variable vdual : V -> dual.
Variable vdefault : V.

Lemma forall_swap (P : V -> Prop) vs i j : Forall P vs -> i < length vs -> j < length vs -> Forall P (swap vdefault vs i j).
Proof.
  intros H Hi Hj. rewrite Forall_forall in *. intros v Hv.
  apply In_nth with (d := vdefault) in Hv. destruct Hv as (k & Hk & <-). rewrite (length_swap V vdefault) in Hk.
  unfold swap. destruct (Nat.eq_dec k j) as [->|Nkj].
  - rewrite nth_upd_same by (rewrite length_upd; assumption). apply H. now apply nth_In.
  - rewrite nth_upd_other by congruence. destruct (Nat.eq_dec k i) as [->|Nki].
    + rewrite nth_upd_same by assumption. apply H. now apply nth_In.
    + rewrite nth_upd_other by congruence. apply H. now apply nth_In.
Qed.

Lemma partition_loop_forall (P : V -> Prop) removed fuel : forall vs i nv vs1 num_v,
  Forall P vs -> nv <= length vs ->
  partition_loop V vdefault fuel removed vs i nv = (vs1, num_v) -> Forall P vs1.
Proof.
  induction fuel as [|f IH]; intros vs i nv vs1 num_v HP Hn H; cbn [partition_loop] in H.
  - inversion H; subst; exact HP.
  - destruct (Nat.ltb_spec i nv) as [Hlt|Hge]; [|inversion H; subst; exact HP].
    destruct (removed (nth i vs vdefault)).
    + eapply IH; [| |exact H].
      * apply forall_swap; [exact HP | lia | lia].
      * rewrite (length_swap V vdefault). lia.
    + eapply IH; eauto.
Qed.

Lemma forall_skipn {A} (P : A -> Prop) n (l : list A) : Forall P l -> Forall P (skipn n l).
Proof.
  intros H. rewrite Forall_forall in *. intros x Hx. apply H. rewrite <- (firstn_skipn n l). apply in_or_app. right. exact Hx.
Qed.

Theorem clip_comb_inv c removed vs p_idx c' kept nd : Inv c ->
  duals_in_range V vdual (length (ptrs c)) vs -> distinct_duals V vdual vs ->
  clip_comb V vdual vdefault c removed vs p_idx = Some (c', kept, nd) -> Inv c'.
Proof.
  intros HI Hr Hd H. unfold clip_comb in H.
  destruct (partition_loop V vdefault (length vs) removed vs 0 (length vs)) as [vs1 num_v] eqn:Ep.
  destruct (Nat.eqb num_v (length vs)); [inversion H; subst; exact HI|].
  destruct (compute_boundary V vdual vdefault (cyc_grow c) (skipn num_v vs1)) as [[c2 vs2]|] eqn:Ec; [|discriminate].
  inversion H; subst. clear H.
  eapply compute_boundary_inv; [apply inv_grow; exact HI | | | exact Ec].
  - apply forall_skipn. unfold duals_in_range in *.
    eapply partition_loop_forall; [|apply Nat.le_refl|exact Ep].
    eapply Forall_impl; [|exact Hr]. intros v Hv. cbv beta in Hv. destruct (vdual v) as [[a b] d]. unfold cyc_grow. cbn [ptrs].
    rewrite app_length. cbn [length]. lia.
  - apply forall_skipn. eapply partition_loop_forall; [exact Hd | apply Nat.le_refl | exact Ep].
Qed.
End ClipInv.
