(* Defining equations of the public geometry helpers (geometry.rs) as polynomial identities over Z
   (denominators cleared; every statement is what the helper's formula satisfies in exact arithmetic),
   and the minimality of Sphere::extend over the reals. *)
From Coq Require Import ZArith Lia Psatz Reals Lra.
From MV Require Import Model.CellExact Proofs.CellProofs.
Open Scope Z_scope.

(* ---------- Plane::project_onto: y = x + ((p - x).n / n.n) n ; scaled: nn * y = nn * x + ((p - x).n) n *)
Definition proj_scaled (n p x : V3) : V3 := vadd (vscale (norm2 n) x) (vscale (dot (vsub p x) n) n).

Lemma project_on_plane n p x : dot n (proj_scaled n p x) = norm2 n * dot n p.
Proof.
  destruct n as [[n0 n1] n2], p as [[p0 p1] p2], x as [[x0 x1] x2].
  cbv [proj_scaled vadd vscale norm2 dot vsub]. ring.
Qed.

Lemma project_along_normal n p x : cross (vsub (proj_scaled n p x) (vscale (norm2 n) x)) n = (0, 0, 0).
Proof.
  destruct n as [[n0 n1] n2], p as [[p0 p1] p2], x as [[x0 x1] x2].
  cbv [proj_scaled vadd vscale norm2 dot vsub cross]. f_equal; [f_equal|]; ring.
Qed.

(* idempotent: a point already on the plane is its own projection *)
Lemma project_idempotent n p y : dot n y = dot n p -> proj_scaled n p y = vscale (norm2 n) y.
Proof.
  destruct n as [[n0 n1] n2], p as [[p0 p1] p2], y as [[y0 y1] y2].
  cbv [proj_scaled vadd vscale norm2 dot vsub]. intros H.
  assert (E : (p0 - y0) * n0 + (p1 - y1) * n1 + (p2 - y2) * n2 = 0) by lia.
  rewrite E. f_equal; [f_equal|]; ring.
Qed.

(* ---------- project_onto_intersection: intersection of the two planes with the plane through x
   perpendicular to both: on both planes, and x - y is perpendicular to the line direction *)
Lemma project_line_spec (p0 p1 : plane) (x : V3) :
  let y := project_onto_line p0 p1 x in
  side p0 y = 0 /\ side p1 y = 0 /\
  side (mkPlane (cross (pn p0) (pn p1)) (dot (cross (pn p0) (pn p1)) x) None 0) y = 0.
Proof. unfold project_onto_line. apply intersect_on_planes. Qed.

(* ---------- signed volume: antisymmetric under a swap of two vertices; the unit tetrahedron is positive *)
Definition vol6z (v0 v1 v2 v3 : V3) : Z := det3v (vsub v1 v0) (vsub v2 v0) (vsub v3 v0).
Lemma volume_antisym v0 v1 v2 v3 : vol6z v1 v0 v2 v3 = - vol6z v0 v1 v2 v3 /\ vol6z v0 v2 v1 v3 = - vol6z v0 v1 v2 v3.
Proof.
  destruct v0 as [[? ?] ?], v1 as [[? ?] ?], v2 as [[? ?] ?], v3 as [[? ?] ?].
  cbv [vol6z det3v dot cross vsub]. split; ring.
Qed.
Example volume_sign_convention : vol6z (0,0,0) (1,0,0) (0,1,0) (0,0,1) = 1.
Proof. reflexivity. Qed.

(* signed area: 2A n_unit = (v1-v0) x (v2-v0); swapping v1, v2 negates the vector area and hence the
   sign taken from the apex side *)
Lemma area_vector_antisym v0 v1 v2 : cross (vsub v2 v0) (vsub v1 v0) = vscale (-1) (cross (vsub v1 v0) (vsub v2 v0)).
Proof.
  destruct v0 as [[? ?] ?], v1 as [[? ?] ?], v2 as [[? ?] ?]. cbv [cross vsub vscale]. f_equal; [f_equal|]; ring.
Qed.

(* ---------- spheres through points (centre scaled by the denominators of the formulas) *)
(* two points: centre (a+b)/2, radius |a-b|/2:  |2c - 2a|^2 = |a - b|^2 = |2c - 2b|^2 *)
Lemma sphere_two_points a b :
  norm2 (vsub (vadd a b) (vscale 2 a)) = norm2 (vsub a b) /\ norm2 (vsub (vadd a b) (vscale 2 b)) = norm2 (vsub a b).
Proof.
  destruct a as [[? ?] ?], b as [[? ?] ?]. cbv [norm2 dot vsub vadd vscale]. split; ring.
Qed.

(* three points (relative to c: a, b): centre_rel = (|a|^2 b - |b|^2 a) x (a x b) / (2 |a x b|^2).
   With u the numerator and D = |a x b|^2: the centre u/(2D) is equidistant from 0, a, b and lies in their plane *)
Definition circ3_u (a b : V3) : V3 := cross (vsub (vscale (norm2 a) b) (vscale (norm2 b) a)) (cross a b).
Lemma sphere_three_points a b :
  let u := circ3_u a b in let D := norm2 (cross a b) in
  dot u a = norm2 a * D /\ dot u b = norm2 b * D /\ dot u (cross a b) = 0.
Proof.
  destruct a as [[a0 a1] a2], b as [[b0 b1] b2].
  cbv [circ3_u norm2 dot cross vsub vscale]. repeat split; ring.
Qed.
(* |u/(2D) - a|^2 = |u/(2D)|^2  <=>  2 u.a / (2D) = |a|^2  <=>  u.a = |a|^2 D *)

(* four points (relative to d: a, b, c): centre_rel = o / k with the Cramer solution of the three
   equidistance equations; the formula used by the code is the same solution written with 4x4 minors *)
Lemma sphere_four_points_equidistant a b c :
  let k := 2 * det3v a b c in
  let o := ( det3v (norm2 a, norm2 b, norm2 c) (let '(_, y, _) := a in let '(_, y', _) := b in let '(_, y'', _) := c in (y, y', y''))
                   (let '(_, _, z) := a in let '(_, _, z') := b in let '(_, _, z'') := c in (z, z', z'')),
             det3v (let '(x, _, _) := a in let '(x', _, _) := b in let '(x'', _, _) := c in (x, x', x'')) (norm2 a, norm2 b, norm2 c)
                   (let '(_, _, z) := a in let '(_, _, z') := b in let '(_, _, z'') := c in (z, z', z'')),
             det3v (let '(x, _, _) := a in let '(x', _, _) := b in let '(x'', _, _) := c in (x, x', x''))
                   (let '(_, y, _) := a in let '(_, y', _) := b in let '(_, y'', _) := c in (y, y', y'')) (norm2 a, norm2 b, norm2 c) ) in
  2 * dot o a = k * norm2 a /\ 2 * dot o b = k * norm2 b /\ 2 * dot o c = k * norm2 c.
Proof.
  destruct a as [[a0 a1] a2], b as [[b0 b1] b2], c as [[c0 c1] c2].
  cbv [det3v norm2 dot cross]. repeat split; ring.
Qed.

(* ---------- Sphere::extend over the reals: with d = |x - c| > r >= 0 the new sphere has centre
   c + ((d - r)/(2d)) (x - c) and radius (d + r)/2: it passes through x, is internally tangent to the old
   sphere, and every sphere containing x and the antipodal point of the old sphere has at least this radius *)
Open Scope R_scope.
Lemma extend_minimal (d r : R) : 0 <= r -> r < d ->
  let t := (d - r) / (2 * d) in            (* centre moves by t * (x - c), i.e. by t * d along the unit direction *)
  let r' := (d + r) / 2 in
  (* distance new centre - x equals r' *)
  d - t * d = r' /\
  (* old sphere inside: distance between centres + old radius = new radius (internal tangency) *)
  t * d + r = r' /\
  (* minimal: x and the antipodal point of the old sphere are d + r apart, any enclosing sphere has diameter >= d + r *)
  forall R', (d + r <= 2 * R') -> r' <= R'.
Proof.
  intros Hr Hd. cbv zeta. assert (d <> 0) by lra. repeat split.
  - field; assumption.
  - field; assumption.
  - intros R' H'. lra.
Qed.
