From Coq Require Import ZArith List Lia.
From MV Require Import Model.Insphere Model.Backend.
Open Scope Z_scope.

Section BackendCorrect.
Variable B : Type.
Variable val : B -> Z.                    (* the mathematical integer a backend value denotes *)
Variable of_i64 : Z -> B.
Variables badd bsub bmul : B -> B -> B.
Variable bzero : B.
(* what "the crate implements the integers" means; these are the assumptions about the four crates *)
Hypothesis val_of : forall x, val (of_i64 x) = x.
Hypothesis val_zero : val bzero = 0.
Hypothesis val_add : forall x y, val (badd x y) = val x + val y.
Hypothesis val_sub : forall x y, val (bsub x y) = val x - val y.
Hypothesis val_mul : forall x y, val (bmul x y) = val x * val y.

Definition val4 (q : B * B * B * B) : Z * Z * Z * Z := let '(a, b, c, d) := q in (val a, val b, val c, val d).

Lemma val_big_int a b : val4 (big_int_b B of_i64 badd bmul bzero a b) = big_int a b.
Proof.
  destruct a as [[a0 a1] a2], b as [[b0 b1] b2]. cbn [big_int_b big_int val4].
  rewrite !val_add, !val_mul, !val_of, val_zero. repeat f_equal.
Qed.

Lemma val_det2 a b c d : val (det2_b B badd bsub bmul bzero a b c d) = det2 (val a) (val b) (val c) (val d).
Proof. unfold det2_b, det2. rewrite val_sub, val_add, !val_mul, val_zero. ring. Qed.

Lemma val_det3 a0 a1 a2 b0 b1 b2 c0 c1 c2 :
  val (det3_b B badd bsub bmul bzero a0 a1 a2 b0 b1 b2 c0 c1 c2)
  = det3 (val a0) (val a1) (val a2) (val b0) (val b1) (val b2) (val c0) (val c1) (val c2).
Proof. unfold det3_b, det3. rewrite val_add, val_sub, val_add, !val_mul, !val_det2, val_zero. ring. Qed.

Lemma val_det4 b c d v :
  val (insphere_det4_b B badd bsub bmul bzero b c d v) = insphere_det4 (val4 b) (val4 c) (val4 d) (val4 v).
Proof.
  destruct b as [[[b0 b1] b2] b3], c as [[[c0 c1] c2] c3], d as [[[d0 d1] d2] d3], v as [[[v0 v1] v2] v3].
  cbn [insphere_det4_b insphere_det4 val4].
  rewrite val_add, val_sub, val_add, val_sub, !val_mul, !val_det3, val_zero. ring.
Qed.

Theorem determinant_correct a b c d v :
  val (determinant_b B of_i64 badd bsub bmul bzero a b c d v)
  = insphere_det4 (big_int b a) (big_int c a) (big_int d a) (big_int v a).
Proof. unfold determinant_b. now rewrite val_det4, !val_big_int. Qed.

(* the glues *)
Variable signum : B -> B.
Variable to_f64 : B -> Z.
Hypothesis signum_spec : forall x, val (signum x) = Z.sgn (val x).
Hypothesis to_f64_spec : forall x, -1 <= val x <= 1 -> to_f64 x = val x.
Variable sign_ordering : B -> comparison.
Hypothesis sign_ordering_spec : forall x, sign_ordering x = (val x ?= 0).
Variable sign_enum : B -> nb_sign.
Hypothesis sign_enum_spec : forall x, sign_enum x = match val x ?= 0 with Lt => Minus | Eq => NoSign | Gt => Plus end.

Lemma glue_signum_correct x : glue_signum B signum to_f64 x = Z.sgn (val x).
Proof.
  unfold glue_signum. rewrite to_f64_spec; rewrite signum_spec; [reflexivity|].
  destruct (val x); cbn; lia.
Qed.
Lemma glue_ordering_correct x : glue_ordering B sign_ordering x = Z.sgn (val x).
Proof. unfold glue_ordering. rewrite sign_ordering_spec. destruct (val x); reflexivity. Qed.
Lemma glue_enum_correct x : glue_enum B sign_enum x = Z.sgn (val x).
Proof. unfold glue_enum. rewrite sign_enum_spec. destruct (val x); reflexivity. Qed.

(* every backend computes the model's predicate, whichever glue it uses *)
Theorem backend_eq_model a b c d v :
  let det := determinant_b B of_i64 badd bsub bmul bzero a b c d v in
  glue_signum B signum to_f64 det = insphere_model a b c d v /\
  glue_ordering B sign_ordering det = insphere_model a b c d v /\
  glue_enum B sign_enum det = insphere_model a b c d v.
Proof.
  cbv zeta. rewrite glue_signum_correct, glue_ordering_correct, glue_enum_correct, determinant_correct.
  unfold insphere_model. auto.
Qed.
End BackendCorrect.

(* non-vacuity: Z itself is such a structure *)
Example backend_instance_Z a b c d v :
  glue_ordering Z (fun x => x ?= 0) (determinant_b Z (fun x => x) Z.add Z.sub Z.mul 0 a b c d v) = insphere_model a b c d v.
Proof.
  pose proof (backend_eq_model Z (fun x => x) (fun x => x) Z.add Z.sub Z.mul 0
                (fun _ => eq_refl) eq_refl (fun _ _ => eq_refl) (fun _ _ => eq_refl) (fun _ _ => eq_refl)
                Z.sgn (fun x => x) (fun _ => eq_refl) (fun _ _ => eq_refl)
                (fun x => x ?= 0) (fun _ => eq_refl)
                (fun x => match x ?= 0 with Lt => Minus | Eq => NoSign | Gt => Plus end) (fun _ => eq_refl) a b c d v) as H.
  exact (proj1 (proj2 H)).
Qed.
