(* iloc on IEEE binary64 (Flocq): the composition fadd 1 (fmul (fsub x A) I) is monotone in x whenever the
   computed values are finite and I >= 0. *)
From Coq Require Import ZArith Reals Lra Lia.
From Flocq Require Import Core BinarySingleNaN Binary Bits.
From MV Require Import Model.Grid.
Open Scope R_scope.

Notation fin := (is_finite 53 1024).
Notation b2r := (B2R 53 1024).
Definition rnd64 (x : R) : R := round radix2 (FLT_exp (3 - 1024 - 53) 53) ZnearestE x.

Lemma rnd64_le x y : x <= y -> rnd64 x <= rnd64 y.
Proof.
  intros. apply round_le; auto.
  - apply FLT_exp_valid. red; lia.
  - apply valid_rnd_N.
Qed.

(* an arithmetic operation on a non-finite operand is not finite *)
Lemma fadd_fin a b : fin (fadd a b) = true -> fin a = true /\ fin b = true.
Proof. unfold fadd, b64_plus. destruct a as [sa|sa|sa pa Ha|sa ma ea Ha], b as [sb|sb|sb pb Hb|sb mb eb Hb]; cbn; try discriminate; auto; try (destruct sa, sb; cbn; discriminate || auto). Qed.
Lemma fsub_fin a b : fin (fsub a b) = true -> fin a = true /\ fin b = true.
Proof. unfold fsub, b64_minus. destruct a as [sa|sa|sa pa Ha|sa ma ea Ha], b as [sb|sb|sb pb Hb|sb mb eb Hb]; cbn; try discriminate; auto; try (destruct sa, sb; cbn; discriminate || auto). Qed.
Lemma fmul_fin a b : fin (fmul a b) = true -> fin a = true /\ fin b = true.
Proof. unfold fmul, b64_mult. destruct a as [sa|sa|sa pa Ha|sa ma ea Ha], b as [sb|sb|sb pb Hb|sb mb eb Hb]; cbn; try discriminate; auto. Qed.

Lemma overflow_not_finite (r : binary64) s : B2FF 53 1024 r = binary_overflow 53 1024 mode_NE s -> fin r = false.
Proof.
  intros H. destruct r; cbn in *; try reflexivity; unfold binary_overflow, BinarySingleNaN.binary_overflow in H;
    cbn in H; destruct s; discriminate.
Qed.

Lemma fadd_b2r a b : fin (fadd a b) = true -> b2r (fadd a b) = rnd64 (b2r a + b2r b).
Proof.
  intros H. destruct (fadd_fin a b H) as [Fa Fb]. unfold fadd, b64_plus in *.
  match type of H with context[Bplus 53 1024 ?p1 ?p2 ?nan mode_NE a b] =>
    pose proof (Bplus_correct 53 1024 p1 p2 nan mode_NE a b Fa Fb) as C end.
  destruct (Rlt_bool _ _) in C.
  - destruct C as [E _]. exact E.
  - destruct C as [E _]. apply overflow_not_finite in E. congruence.
Qed.

Lemma fsub_b2r a b : fin (fsub a b) = true -> b2r (fsub a b) = rnd64 (b2r a - b2r b).
Proof.
  intros H. destruct (fsub_fin a b H) as [Fa Fb]. unfold fsub, b64_minus in *.
  match type of H with context[Bminus 53 1024 ?p1 ?p2 ?nan mode_NE a b] =>
    pose proof (Bminus_correct 53 1024 p1 p2 nan mode_NE a b Fa Fb) as C end.
  destruct (Rlt_bool _ _) in C.
  - destruct C as [E _]. exact E.
  - destruct C as [E _]. apply overflow_not_finite in E. congruence.
Qed.

Lemma fmul_b2r a b : fin (fmul a b) = true -> b2r (fmul a b) = rnd64 (b2r a * b2r b).
Proof.
  intros H. unfold fmul, b64_mult in *.
  match type of H with context[Bmult 53 1024 ?p1 ?p2 ?nan mode_NE a b] =>
    pose proof (Bmult_correct 53 1024 p1 p2 nan mode_NE a b) as C end.
  destruct (Rlt_bool _ _) in C.
  - destruct C as [E _]. exact E.
  - apply overflow_not_finite in C. congruence.
Qed.

(* the value whose mantissa is the grid coordinate: monotone in the position *)
Theorem tval_monotone (A I x y : f64) :
  (0 <= b2r I) -> (b2r x <= b2r y) ->
  fin (tval A I x) = true -> fin (tval A I y) = true ->
  b2r (tval A I x) <= b2r (tval A I y).
Proof.
  intros HI Hxy Fx Fy. unfold tval in *.
  destruct (fadd_fin _ _ Fx) as [_ Fmx]. destruct (fadd_fin _ _ Fy) as [_ Fmy].
  destruct (fmul_fin _ _ Fmx) as [Fsx _]. destruct (fmul_fin _ _ Fmy) as [Fsy _].
  rewrite (fadd_b2r _ _ Fx), (fadd_b2r _ _ Fy), (fmul_b2r _ _ Fmx), (fmul_b2r _ _ Fmy),
          (fsub_b2r _ _ Fsx), (fsub_b2r _ _ Fsy).
  apply rnd64_le. apply Rplus_le_compat_l. apply rnd64_le.
  apply Rmult_le_compat_r; [exact HI|]. apply rnd64_le. lra.
Qed.

(* the real-level map T of GridProofs.v is what the binary64 computation denotes *)
Theorem tval_is_T (A I x : f64) : fin (tval A I x) = true ->
  b2r (tval A I x) = rnd64 (b2r f_one + rnd64 (rnd64 (b2r x - b2r A) * b2r I)).
Proof.
  intros Fx. unfold tval in *.
  destruct (fadd_fin _ _ Fx) as [_ Fmx]. destruct (fmul_fin _ _ Fmx) as [Fsx _].
  now rewrite (fadd_b2r _ _ Fx), (fmul_b2r _ _ Fmx), (fsub_b2r _ _ Fsx).
Qed.
