(* Elementary exact-arithmetic lemmas shared by several properties (Z, no axioms):
   Cauchy-Schwarz / safety radius, per-axis periodic block, slab product, reciprocity,
   centroid on plane, clamp admissibility, five-point volume identity. *)
From Coq Require Import ZArith Psatz List Lia.
Import ListNotations.
Open Scope Z_scope.

Definition sq3 (a1 a2 a3 : Z) : Z := a1 * a1 + a2 * a2 + a3 * a3.
Definition P3 := (Z * Z * Z)%type.
Definition d2 (p q : P3) : Z :=
  let '(a, b, c) := p in let '(x, y, z) := q in sq3 (a - x) (b - y) (c - z).

(* ---------- C16: safety radius *)
Lemma cauchy_schwarz3 a1 a2 a3 b1 b2 b3 :
  (a1 * b1 + a2 * b2 + a3 * b3) * (a1 * b1 + a2 * b2 + a3 * b3) <= sq3 a1 a2 a3 * sq3 b1 b2 b3.
Proof.
  assert (H : sq3 a1 a2 a3 * sq3 b1 b2 b3 - (a1 * b1 + a2 * b2 + a3 * b3) * (a1 * b1 + a2 * b2 + a3 * b3)
     = (a1 * b2 - a2 * b1) * (a1 * b2 - a2 * b1) + (a1 * b3 - a3 * b1) * (a1 * b3 - a3 * b1)
       + (a2 * b3 - a3 * b2) * (a2 * b3 - a3 * b2)) by (unfold sq3; ring).
  pose proof (Z.square_nonneg (a1 * b2 - a2 * b1)). pose proof (Z.square_nonneg (a1 * b3 - a3 * b1)).
  pose proof (Z.square_nonneg (a2 * b3 - a3 * b2)). lia.
Qed.

(* relative coordinates: a = v - g, b = q - g.  4|a|^2 <= R2 < |b|^2  ==>  |a|^2 < |a - b|^2 *)
Lemma safety_rel a1 a2 a3 b1 b2 b3 R2 : 0 <= R2 -> 4 * sq3 a1 a2 a3 <= R2 -> R2 < sq3 b1 b2 b3 ->
  sq3 a1 a2 a3 < sq3 (a1 - b1) (a2 - b2) (a3 - b3).
Proof.
  intros HR Ha Hb. pose proof (cauchy_schwarz3 a1 a2 a3 b1 b2 b3) as CS.
  assert (E : sq3 (a1 - b1) (a2 - b2) (a3 - b3)
              = sq3 a1 a2 a3 - 2 * (a1 * b1 + a2 * b2 + a3 * b3) + sq3 b1 b2 b3) by (unfold sq3; ring).
  rewrite E. set (A := sq3 a1 a2 a3) in *. set (B := sq3 b1 b2 b3) in *.
  set (D := a1 * b1 + a2 * b2 + a3 * b3) in *.
  assert (0 <= A) by (unfold A, sq3; nia). assert (0 < B) by lia.
  assert (4 * (D * D) < B * B) by nia. nia.
Qed.

(* a point v with 4|v-g|^2 <= R^2 is strictly closer to g than to any q outside the ball of radius R *)
Theorem far_site_redundant (g v q : P3) (R2 : Z) :
  0 <= R2 -> 4 * d2 v g <= R2 -> R2 < d2 q g -> d2 v g < d2 v q.
Proof.
  destruct g as [[g1 g2] g3], v as [[v1 v2] v3], q as [[q1 q2] q3]. unfold d2. intros HR Hv Hq.
  replace (sq3 (v1 - q1) (v2 - q2) (v3 - q3))
    with (sq3 ((v1 - g1) - (q1 - g1)) ((v2 - g2) - (q2 - g2)) ((v3 - g3) - (q3 - g3))) by (unfold sq3; ring).
  apply (safety_rel _ _ _ _ _ _ R2); assumption.
Qed.

(* ---------- C06: one period on each side is enough (per axis) *)
Lemma axis_half (x s w : Z) : 0 < w ->
  (x - s) * (x - s) <= (x - s - w) * (x - s - w) -> (x - s) * (x - s) <= (x - s + w) * (x - s + w) ->
  - w <= 2 * (x - s) <= w.
Proof. intros. nia. Qed.

Lemma axis_block (x g s w : Z) : - w <= 2 * (x - g) <= w -> - w <= 2 * (x - s) <= w -> - w <= s - g <= w.
Proof. intros. lia. Qed.

(* being closer to s than to its image s + w e_x only depends on the x coordinate *)
Lemma closer_axis (x y z sx sy sz w : Z) :
  sq3 (x - sx) (y - sy) (z - sz) <= sq3 (x - (sx + w)) (y - sy) (z - sz) <->
  (x - sx) * (x - sx) <= (x - sx - w) * (x - sx - w).
Proof. unfold sq3. split; intros; nia. Qed.

(* a point x that is at least as close to site image s as to the neighbouring images s +- w e_a on
   every axis, and at least as close to g as to g +- w e_a, sees s within one period of g on every
   axis: images further than one period away never contribute a face *)
Theorem relevant_image_within_block (x g s w : Z) : 0 < w ->
  (x - g) * (x - g) <= (x - g - w) * (x - g - w) -> (x - g) * (x - g) <= (x - g + w) * (x - g + w) ->
  (x - s) * (x - s) <= (x - s - w) * (x - s - w) -> (x - s) * (x - s) <= (x - s + w) * (x - s + w) ->
  - w <= s - g <= w.
Proof.
  intros Hw G1 G2 S1 S2. apply (axis_block x g s w); apply axis_half; assumption.
Qed.

(* ---------- C08: slab product: sites in the plane z = 0 *)
Theorem slab_product (x y z gx gy sx sy : Z) :
  sq3 (x - gx) (y - gy) (z - 0) <= sq3 (x - sx) (y - sy) (z - 0) <->
  (x - gx) * (x - gx) + (y - gy) * (y - gy) <= (x - sx) * (x - sx) + (y - sy) * (y - sy).
Proof. unfold sq3. split; intros; lia. Qed.

Theorem line_product (x y z gx sx : Z) :
  sq3 (x - gx) (y - 0) (z - 0) <= sq3 (x - sx) (y - 0) (z - 0) <-> (x - gx) * (x - gx) <= (x - sx) * (x - sx).
Proof. unfold sq3. split; intros; lia. Qed.

(* ---------- C03: reciprocity: a point of cell i on the bisector towards j belongs to cell j *)
Theorem face_reciprocal (x gi gj : P3) (sites : list P3) :
  d2 x gi = d2 x gj -> (forall s, In s sites -> d2 x gi <= d2 x s) -> (forall s, In s sites -> d2 x gj <= d2 x s).
Proof. intros E H s Hs. rewrite <- E. auto. Qed.

(* translation by the shift: distances are translation invariant, so the face seen from j is the face
   seen from i translated by - shift *)
Lemma d2_translate (x y t : P3) :
  let '(x1, x2, x3) := x in let '(y1, y2, y3) := y in let '(t1, t2, t3) := t in
  d2 (x1 + t1, x2 + t2, x3 + t3) (y1 + t1, y2 + t2, y3 + t3) = d2 x y.
Proof. destruct x as [[? ?] ?], y as [[? ?] ?], t as [[? ?] ?]. unfold d2, sq3. ring. Qed.

(* ---------- C04: affine combinations of points of a plane stay in the plane *)
Theorem tri_centroid_on_plane nx ny nz d a1 a2 a3 b1 b2 b3 c1 c2 c3 :
  nx * a1 + ny * a2 + nz * a3 = d -> nx * b1 + ny * b2 + nz * b3 = d -> nx * c1 + ny * c2 + nz * c3 = d ->
  nx * (a1 + b1 + c1) + ny * (a2 + b2 + c2) + nz * (a3 + b3 + c3) = 3 * d.
Proof. intros. nia. Qed.

(* weighted: sum_k A_k (a_k + b_k + c_k) lies on the plane scaled by 3 sum_k A_k *)
Theorem weighted_centroid_on_plane (nx ny nz d : Z) (tris : list (Z * P3)) :
  Forall (fun '(A, (s1, s2, s3)) => nx * s1 + ny * s2 + nz * s3 = 3 * d) tris ->
  nx * fold_right (fun '(A, (s1, _, _)) acc => A * s1 + acc) 0 tris +
  ny * fold_right (fun '(A, (_, s2, _)) acc => A * s2 + acc) 0 tris +
  nz * fold_right (fun '(A, (_, _, s3)) acc => A * s3 + acc) 0 tris
  = 3 * d * fold_right (fun '(A, _) acc => A + acc) 0 tris.
Proof.
  induction 1 as [|[A [[s1 s2] s3]] t H HF IH]; cbn [fold_right]; [ring|]. nia.
Qed.

(* ---------- C17: clamp bound *)
Definition clamp t lo hi := Z.min (Z.max t lo) hi.
Lemma sq_le_of_abs a b : Z.abs a <= Z.abs b -> a * a <= b * b.
Proof. intros H. rewrite <- (Z.abs_square a), <- (Z.abs_square b). apply Z.square_le_mono_nonneg; lia. Qed.
Theorem clamp_admissible t lo hi pos : lo <= pos <= hi ->
  (clamp t lo hi - t) * (clamp t lo hi - t) <= (pos - t) * (pos - t).
Proof. unfold clamp. intros. apply sq_le_of_abs. lia. Qed.
Theorem clamp_nested t lo hi lo' hi' : lo <= lo' -> lo' <= hi' -> hi' <= hi ->
  (clamp t lo hi - t) * (clamp t lo hi - t) <= (clamp t lo' hi' - t) * (clamp t lo' hi' - t).
Proof. unfold clamp. intros. apply sq_le_of_abs. lia. Qed.

(* ---------- C02/C14: five-point identity (6 x signed volumes): moving the apex from g to h changes
   the cone over a triangle by the three side tetrahedra *)
Definition det3z a0 a1 a2 b0 b1 b2 c0 c1 c2 : Z :=
  a0 * (b1 * c2 - b2 * c1) - a1 * (b0 * c2 - b2 * c0) + a2 * (b0 * c1 - b1 * c0).
Definition vol6 (v0 v1 v2 v3 : P3) : Z :=
  let '(a0, a1, a2) := v0 in let '(b0, b1, b2) := v1 in let '(c0, c1, c2) := v2 in let '(t0, t1, t2) := v3 in
  det3z (b0 - a0) (b1 - a1) (b2 - a2) (c0 - a0) (c1 - a1) (c2 - a2) (t0 - a0) (t1 - a1) (t2 - a2).
Theorem five_point p q r g h :
  vol6 p q r g - vol6 p q r h = - (vol6 p q g h + vol6 q r g h + vol6 r p g h).
Proof.
  destruct p as [[? ?] ?], q as [[? ?] ?], r as [[? ?] ?], g as [[? ?] ?], h as [[? ?] ?].
  unfold vol6, det3z. ring.
Qed.
(* the side term is antisymmetric in the edge: summed over a closed surface (every edge used once in
   each direction) the side terms cancel, so the cone sum does not depend on the apex *)
Theorem side_term_antisym p q g h : vol6 p q g h = - vol6 q p g h.
Proof.
  destruct p as [[? ?] ?], q as [[? ?] ?], g as [[? ?] ?], h as [[? ?] ?]. unfold vol6, det3z. ring.
Qed.

Lemma farthest_on_segment_is_endpoint : forall (g p q : P3) (a b : Z), 0 <= a -> 0 <= b -> 0 < a + b ->
  let '(p1, p2, p3) := p in let '(q1, q2, q3) := q in let '(g1, g2, g3) := g in
  sq3 (a * p1 + b * q1 - (a + b) * g1) (a * p2 + b * q2 - (a + b) * g2) (a * p3 + b * q3 - (a + b) * g3)
  <= (a + b) * (a + b) * Z.max (d2 p g) (d2 q g).
Proof.
  intros [[g1 g2] g3] [[p1 p2] p3] [[q1 q2] q3] a b Ha Hb Hab. unfold d2.
  set (u1 := p1 - g1). set (u2 := p2 - g2). set (u3 := p3 - g3).
  set (v1 := q1 - g1). set (v2 := q2 - g2). set (v3 := q3 - g3).
  replace (a * p1 + b * q1 - (a + b) * g1) with (a * u1 + b * v1) by (unfold u1, v1; ring).
  replace (a * p2 + b * q2 - (a + b) * g2) with (a * u2 + b * v2) by (unfold u2, v2; ring).
  replace (a * p3 + b * q3 - (a + b) * g3) with (a * u3 + b * v3) by (unfold u3, v3; ring).
  pose proof (cauchy_schwarz3 u1 u2 u3 v1 v2 v3) as CS.
  set (U := sq3 u1 u2 u3) in *. set (V := sq3 v1 v2 v3) in *. set (D := u1 * v1 + u2 * v2 + u3 * v3) in *.
  assert (E : sq3 (a * u1 + b * v1) (a * u2 + b * v2) (a * u3 + b * v3) = a * a * U + 2 * a * b * D + b * b * V)
    by (unfold U, V, D, sq3; ring).
  rewrite E. set (M := Z.max U V).
  assert (HU : 0 <= U) by (unfold U, sq3; nia). assert (HV : 0 <= V) by (unfold V, sq3; nia).
  assert (HM1 : U <= M) by (unfold M; lia). assert (HM2 : V <= M) by (unfold M; lia).
  assert (HD : D <= M). { destruct (Z_le_gt_dec D 0); [lia|]. assert (D * D <= M * M) by nia. nia. }
  assert (0 <= a * b) by nia. nia.
Qed.

Lemma midpoint_1d : forall x g s : Z, g < s ->
  ((x - g) * (x - g) <= (x - s) * (x - s) <-> 2 * x <= g + s).
Proof. intros. split; intros; nia. Qed.

(* the principle of a floating-point filter: farther from zero than the error bound => sign is exact *)
Lemma filter_principle (exact computed errb : Z) :
  Z.abs (computed - exact) <= errb -> errb < Z.abs computed -> Z.sgn computed = Z.sgn exact.
Proof. intros H1 H2. lia. Qed.
