From Coq Require Import List Arith Lia Bool Permutation.
From MV Require Import Model.Par.
Import ListNotations.

Section ParProofs.
Variable U : Type.
Notation stage := (stage U).

Lemma enum_from_app pr o a b :
  enum_from U pr o (a ++ b) = enum_from U pr o a ++ enum_from U pr (o + length a) b.
Proof.
  revert o. induction a as [|x a IH]; intros o; cbn [enum_from app length].
  - now rewrite Nat.add_0_r.
  - rewrite IH. replace (S o + length a) with (o + S (length a)) by lia. reflexivity.
Qed.

Lemma zip_with_app pr a b c : length a <= length c ->
  zip_with U pr (a ++ b) c = zip_with U pr a c ++ zip_with U pr b (skipn (length a) c).
Proof.
  revert c. induction a as [|x a IH]; intros c Hl; cbn [app length skipn zip_with]; [reflexivity|].
  destruct c as [|y c]; cbn in Hl; [lia|]. cbn [zip_with app skipn]. rewrite IH by lia. reflexivity.
Qed.

Lemma zip_with_short pr a c : length c <= length a ->
  forall b, zip_with U pr (a ++ b) c = zip_with U pr a c.
Proof.
  revert c. induction a as [|x a IH]; intros c Hl b.
  - destruct c; cbn in Hl; [|lia]. destruct b; reflexivity.
  - destruct c as [|y c]; [reflexivity|]. cbn in Hl. cbn [app zip_with]. rewrite IH by lia. reflexivity.
Qed.

Lemma skipn_skipn {A} (n m : nat) (l : list A) : skipn n (skipn m l) = skipn (m + n) l.
Proof.
  revert l. induction m as [|m IH]; intros l; cbn [skipn Nat.add]; [reflexivity|].
  destruct l; [now destruct n|]. apply IH.
Qed.

Lemma zip_with_nil_r pr a : zip_with U pr a [] = [].
Proof. destruct a; reflexivity. Qed.

Lemma stage_sem_app (s : stage) o a b :
  stage_sem U s o (a ++ b) = stage_sem U s o a ++ stage_sem U s (o + length a) b.
Proof.
  destruct s as [pr|other pr|f|f|f]; cbn [stage_sem].
  - apply enum_from_app.
  - destruct (Nat.le_gt_cases (length a) (length (skipn o other))) as [H|H].
    + rewrite zip_with_app by assumption. now rewrite skipn_skipn.
    + rewrite zip_with_short by lia.
      assert (E : skipn (o + length a) other = []).
      { rewrite <- skipn_skipn. apply skipn_all2. lia. }
      rewrite E, zip_with_nil_r, app_nil_r. reflexivity.
  - apply map_app.
  - apply flat_map_app.
  - apply flat_map_app.
Qed.

Lemma length_stage_sem (s : stage) o l : length_preserving U s = true ->
  (match s with Zip other _ => length l <= length (skipn o other) | _ => True end) ->
  length (stage_sem U s o l) = length l.
Proof.
  destruct s as [pr|other pr|f|f|f]; cbn [length_preserving stage_sem]; intros H Hz; try discriminate.
  - revert o. induction l; intros o; cbn; auto.
  - revert Hz. generalize (skipn o other) as c. induction l as [|x l IH]; intros c Hz; [reflexivity|].
    destruct c as [|y c]; cbn in Hz; [lia|]. cbn. rewrite IH; [reflexivity | lia].
  - apply map_length.
Qed.

(* chunks can be processed independently: a non-indexed pipeline is a homomorphism for append *)
Lemma sem_app_unindexed (p : list stage) : wf_pipeline U false p = true ->
  forall o o' a b, sem U p o (a ++ b) = sem U p o a ++ sem U p o' b.
Proof.
  induction p as [|s t IH]; intros Hwf o o' a b; cbn [sem]; [reflexivity|].
  cbn [wf_pipeline] in Hwf. apply andb_true_iff in Hwf. destruct Hwf as [Hs Ht].
  cbn [andb] in Ht.
  assert (E : forall l o1 o2, stage_sem U s o1 l = stage_sem U s o2 l).
  { destruct s; cbn [uses_index] in Hs; try discriminate; reflexivity. }
  rewrite stage_sem_app, (E b (o + length a) o'). apply IH. exact Ht.
Qed.

(* the zip partner is long enough for the whole chunk (rayon's zip truncates to the shorter side; the
   code always zips slices of equal length) *)
Fixpoint zips_fit (p : list stage) (o n : nat) : Prop :=
  match p with
  | [] => True
  | s :: t => (match s with Zip other _ => o + n <= length other | _ => True end) /\
              (if length_preserving U s then zips_fit t o n else True)
  end.

Lemma sem_app_indexed (p : list stage) : wf_pipeline U true p = true ->
  forall o a b, zips_fit p o (length a + length b) ->
  sem U p o (a ++ b) = sem U p o a ++ sem U p (o + length a) b.
Proof.
  induction p as [|s t IH]; intros Hwf o a b Hz; cbn [sem]; [reflexivity|].
  cbn [wf_pipeline] in Hwf. apply andb_true_iff in Hwf. destruct Hwf as [_ Ht]. cbn [andb] in Ht.
  rewrite stage_sem_app. destruct Hz as [Hz1 Hz2].
  destruct (length_preserving U s) eqn:El.
  - assert (La : length (stage_sem U s o a) = length a).
    { apply length_stage_sem; [assumption|]. destruct s; auto. rewrite skipn_length. lia. }
    assert (Lb : length (stage_sem U s (o + length a) b) = length b).
    { apply length_stage_sem; [assumption|]. destruct s; auto. rewrite skipn_length. lia. }
    rewrite IH; [now rewrite La | exact Ht | now rewrite La, Lb].
  - apply sem_app_unindexed. exact Ht.
Qed.

(* every split of the index range, processed chunk by chunk and concatenated by position, gives the
   sequential result *)
Theorem par_eq_seq (p : list stage) : wf_pipeline U true p = true ->
  forall (t : split) o l, zips_fit p o (length l) -> par_sem U p o l t = sem U p o l.
Proof.
  intros Hwf t. induction t as [|k tl IHl tr IHr]; intros o l Hz; cbn [par_sem]; [reflexivity|].
  assert (Hl : length (firstn k l) + length (skipn k l) = length l).
  { rewrite <- app_length, firstn_skipn. reflexivity. }
  assert (Hfit : forall p' o1 n1 n2, n1 <= n2 -> zips_fit p' o1 n2 -> zips_fit p' o1 n1).
  { induction p' as [|s p' IHp]; intros o1 n1 n2 Hn H; cbn [zips_fit] in *; [exact I|].
    destruct H as [H1 H2]. split; [destruct s; auto; lia|]. destruct (length_preserving U s); [eapply IHp; eauto | exact I]. }
  assert (Hshift : forall p' o1 n1 n2, zips_fit p' o1 (n1 + n2) -> zips_fit p' (o1 + n1) n2).
  { induction p' as [|s p' IHp]; intros o1 n1 n2 H; cbn [zips_fit] in *; [exact I|].
    destruct H as [H1 H2]. split; [destruct s; auto; lia|]. destruct (length_preserving U s); [apply IHp; assumption | exact I]. }
  rewrite IHl, IHr.
  - rewrite <- sem_app_indexed; [now rewrite firstn_skipn | assumption | now rewrite Hl].
  - apply Hshift. now rewrite Hl.
  - eapply Hfit; [|exact Hz]. lia.
Qed.

(* results are placed by position: whatever the order in which the chunks complete, assembling the
   (position, result) pairs by position gives the same list *)
Fixpoint insert_by_pos (x : nat * list U) (l : list (nat * list U)) : list (nat * list U) :=
  match l with
  | [] => [x]
  | y :: t => if Nat.leb (fst x) (fst y) then x :: l else y :: insert_by_pos x t
  end.
Definition assemble (done : list (nat * list U)) : list U :=
  concat (map snd (fold_right insert_by_pos [] done)).

Lemma insert_perm x l : Permutation (insert_by_pos x l) (x :: l).
Proof.
  induction l as [|y t IH]; cbn [insert_by_pos]; [apply Permutation_refl|].
  destruct (Nat.leb (fst x) (fst y)); [apply Permutation_refl|].
  eapply perm_trans; [apply perm_skip, IH | apply perm_swap].
Qed.
End ParProofs.
