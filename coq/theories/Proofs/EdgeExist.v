(* Every new triangle (a, b, p) of a clip sits on an edge of the cell that joins a kept vertex and a removed vertex:
   the boundary cycle's chain is the sum of the removed triangles' boundaries, and the surface was closed. *)
From Coq Require Import List Arith Lia Bool ZArith Permutation.
From MV Require Import Model.Cycle Proofs.CycleProofs Proofs.CycleInv Proofs.CycleClosed.
Import ListNotations.
Open Scope Z_scope.

Definition has_edge (d : dual) (a b : nat) : Prop :=
  let '(i, j, k) := d in (i = a /\ j = b) \/ (j = a /\ k = b) \/ (k = a /\ i = b).

Lemma contrib_range x y a b : -1 <= contrib x y a b <= 1.
Proof. unfold contrib. destruct (Nat.eqb x y), (Nat.eqb x a && Nat.eqb y b), (Nat.eqb x b && Nat.eqb y a); lia. Qed.

Lemma contrib_pos x y a b : 0 < contrib x y a b -> x = a /\ y = b.
Proof.
  unfold contrib. destruct (Nat.eqb x y); [lia|].
  destruct (Nat.eqb x a && Nat.eqb y b) eqn:E; [|destruct (Nat.eqb x b && Nat.eqb y a); lia].
  intros _. apply andb_prop in E. destruct E as [E1 E2]. apply Nat.eqb_eq in E1, E2. auto.
Qed.

Lemma tchain_pos_edge i j k a b : 0 < tchain i j k a b -> has_edge (i, j, k) a b.
Proof.
  unfold tchain, has_edge. intros H.
  pose proof (contrib_range i j a b). pose proof (contrib_range j k a b). pose proof (contrib_range k i a b).
  destruct (Z.lt_ge_cases 0 (contrib i j a b)) as [P|N]; [left; apply contrib_pos; exact P|].
  destruct (Z.lt_ge_cases 0 (contrib j k a b)) as [P|N2]; [right; left; apply contrib_pos; exact P|].
  right; right. apply contrib_pos. lia.
Qed.

Lemma tchain_neg_edge i j k a b : tchain i j k a b < 0 -> has_edge (i, j, k) b a.
Proof.
  intros H. apply tchain_pos_edge. unfold tchain in *.
  rewrite (contrib_antisym i j a b), (contrib_antisym j k a b), (contrib_antisym k i a b). lia.
Qed.

Section Exist.
Variable V : Type.
Variable vdual : V -> dual.

Lemma sum_chain_pos_exists vs a b : 0 < sum_chain V vdual vs a b -> exists v, In v vs /\ has_edge (vdual v) a b.
Proof.
  induction vs as [|v t IH]; cbn [sum_chain]; [lia|]. intros H.
  destruct (Z.lt_ge_cases 0 (vchain V vdual v a b)) as [P|N].
  - exists v. split; [left; reflexivity|]. unfold vchain in P. destruct (vdual v) as [[i j] k]. apply tchain_pos_edge. exact P.
  - destruct IH as (w & Hw & He); [lia|]. exists w. split; [right; exact Hw|exact He].
Qed.

Lemma sum_chain_neg_exists vs a b : sum_chain V vdual vs a b < 0 -> exists v, In v vs /\ has_edge (vdual v) b a.
Proof.
  induction vs as [|v t IH]; cbn [sum_chain]; [lia|]. intros H.
  destruct (Z.lt_ge_cases (vchain V vdual v a b) 0) as [P|N].
  - exists v. split; [left; reflexivity|]. unfold vchain in P. destruct (vdual v) as [[i j] k]. apply tchain_neg_edge. exact P.
  - destruct IH as (w & Hw & He); [lia|]. exists w. split; [right; exact Hw|exact He].
Qed.
End Exist.

(* in a proper cycle with at least three nodes, consecutive nodes a -> b have chain coefficient +1 *)
Lemma pchain_consecutive c a b : Inv c -> (3 <= clen c)%nat ->
  In (a, b) (pairs (cyc_iter c (S (clen c)))) -> pchain (ptrs c) a b = 1.
Proof.
  intros HI Hlen Hin.
  destruct HI as (l & Hcyc & Hl & Hst). specialize (Hst ltac:(lia)).
  destruct (cyc_rotate_to (ptrs c) l (cstart c) Hcyc Hst) as (t & Hcyc' & Hperm).
  assert (Hl' : length (cstart c :: t) = clen c) by (rewrite <- (Permutation_length Hperm); exact Hl).
  pose proof Hcyc' as (Hnd & Hr & Hmem & Hclosed). cbn [closed_chain] in Hclosed.
  unfold cyc_iter in Hin. rewrite <- Hl' in Hin.
  pose proof (walk_chain (ptrs c) (cstart c) (cstart c :: t) ltac:(discriminate) Hclosed) as W. cbn [hd] in W. rewrite W in Hin.
  destruct (pairs_chain _ _ _ _ _ Hclosed Hin) as [Ia Eb].
  (* rotate the cycle so that it starts at a: a :: b :: c' :: ... *)
  destruct (cyc_rotate_to (ptrs c) (cstart c :: t) a Hcyc' Ia) as (t2 & Hcyc2 & Hperm2).
  assert (L2 : length (a :: t2) = clen c) by (rewrite <- (Permutation_length Hperm2); exact Hl').
  pose proof Hcyc2 as (Hnd2 & Hr2 & Hmem2 & Hcl2). cbn [closed_chain] in Hcl2.
  destruct t2 as [|b' t3]; [cbn in L2; lia|]. destruct t3 as [|c' t4]; [cbn in L2; lia|].
  change (chain (ptrs c) a (a :: b' :: c' :: t4)) in Hcl2. cbn [chain] in Hcl2. destruct Hcl2 as [Hab Hrest].
  assert (Hbc : ptr (ptrs c) b' = c') by exact (proj1 Hrest).
  apply NoDup_cons_iff in Hnd2. destruct Hnd2 as [Hna _].
  assert (Nab : a <> b') by (intro E; apply Hna; left; symmetry; exact E).
  assert (Nac : c' <> a) by (intro E; apply Hna; right; left; exact E).
  unfold pchain. rewrite Eb, Hab, Hbc.
  rewrite (proj2 (Nat.eqb_neq a b') Nab). cbn [negb andb]. rewrite Nat.eqb_refl.
  rewrite (proj2 (Nat.eqb_neq c' a) Nac). reflexivity.
Qed.

Section Partition.
Variable V : Type.
Variable vdefault : V.

Lemma nth_swap_cases (vs : list V) i j k : (i < length vs)%nat -> (j < length vs)%nat ->
  nth k (swap vdefault vs i j) vdefault = if Nat.eqb k j then nth i vs vdefault else if Nat.eqb k i then nth j vs vdefault else nth k vs vdefault.
Proof.
  intros Hi Hj. unfold swap. destruct (Nat.eqb_spec k j) as [->|Nkj].
  - rewrite nth_upd_same by (rewrite length_upd; exact Hj). reflexivity.
  - rewrite nth_upd_other by congruence. destruct (Nat.eqb_spec k i) as [->|Nki].
    + rewrite nth_upd_same by exact Hi. reflexivity.
    + rewrite nth_upd_other by congruence. reflexivity.
Qed.

Lemma partition_loop_split removed : forall fuel vs i nv vs1 num_v,
  (i <= nv)%nat -> (nv <= length vs)%nat -> (nv - i <= fuel)%nat ->
  (forall j, (j < i)%nat -> removed (nth j vs vdefault) = false) ->
  (forall j, (nv <= j < length vs)%nat -> removed (nth j vs vdefault) = true) ->
  partition_loop V vdefault fuel removed vs i nv = (vs1, num_v) ->
  length vs1 = length vs /\ (num_v <= length vs)%nat /\
  (forall j, (j < num_v)%nat -> removed (nth j vs1 vdefault) = false) /\
  (forall j, (num_v <= j < length vs)%nat -> removed (nth j vs1 vdefault) = true).
Proof.
  induction fuel as [|f IH]; intros vs i nv vs1 num_v Hi Hn Hf Hlo Hhi H; cbn [partition_loop] in H.
  - inversion H; subst. assert (i = num_v) by lia. subst i. repeat split; auto.
  - destruct (Nat.ltb_spec i nv) as [L|G].
    + destruct (removed (nth i vs vdefault)) eqn:Er.
      * assert (Ls : length (swap vdefault vs i (pred nv)) = length vs) by apply (length_swap V vdefault).
        assert (P1 : forall j, (j < i)%nat -> removed (nth j (swap vdefault vs i (pred nv)) vdefault) = false).
        { intros j Hj. rewrite nth_swap_cases by lia.
          destruct (Nat.eqb_spec j (pred nv)); [lia|]. destruct (Nat.eqb_spec j i); [lia|]. apply Hlo. exact Hj. }
        assert (P2 : forall j, (pred nv <= j < length (swap vdefault vs i (pred nv)))%nat -> removed (nth j (swap vdefault vs i (pred nv)) vdefault) = true).
        { intros j Hj. rewrite Ls in Hj. rewrite nth_swap_cases by lia.
          destruct (Nat.eqb_spec j (pred nv)) as [->|N1]; [exact Er|].
          destruct (Nat.eqb_spec j i) as [->|N2]; [lia|]. apply Hhi. lia. }
        pose proof (IH (swap vdefault vs i (pred nv)) i (pred nv) vs1 num_v ltac:(lia) ltac:(rewrite Ls; lia) ltac:(lia) P1 P2 H) as R. rewrite Ls in R. exact R.
      * apply IH in H; try lia; auto.
        intros j Hj. destruct (Nat.eq_dec j i) as [->|N]; [exact Er|apply Hlo; lia].
    + inversion H; subst. assert (i = num_v) by lia. subst i. repeat split; auto.
Qed.
End Partition.

Section ClipEdges.
Variable V : Type.
Variable vdual : V -> dual.
Variable vdefault : V.

Lemma partition_loop_noswap removed : forall fuel vs i nv vs1 num_v,
  partition_loop V vdefault fuel removed vs i nv = (vs1, num_v) -> (num_v <= nv)%nat /\ (num_v = nv -> vs1 = vs).
Proof.
  induction fuel as [|f IH]; intros vs i nv vs1 num_v H; cbn [partition_loop] in H; [inversion H; subst; auto|].
  destruct (Nat.ltb_spec i nv) as [L|G]; [|inversion H; subst; auto].
  destruct (removed (nth i vs vdefault)).
  - apply IH in H. destruct H as [A B]. split; [lia|]. intros E. lia.
  - apply IH in H. exact H.
Qed.

Lemma firstn_in_nth (l : list V) n v : In v (firstn n l) -> exists j, (j < n)%nat /\ (j < length l)%nat /\ nth j l vdefault = v.
Proof.
  revert n. induction l as [|h t IH]; intros [|n] H; cbn in H; try contradiction.
  destruct H as [<-|H]; [exists 0%nat; cbn; repeat split; lia|].
  destruct (IH n H) as (j & A & B & Cc). exists (S j). cbn. repeat split; try lia. exact Cc.
Qed.

Lemma skipn_in_nth (l : list V) n v : In v (skipn n l) -> exists j, (n <= j < length l)%nat /\ nth j l vdefault = v.
Proof.
  revert l. induction n as [|n IH]; intros l H.
  - cbn [skipn] in H. apply In_nth with (d := vdefault) in H. destruct H as (j & Hj & E). exists j. split; [lia|exact E].
  - destruct l as [|h t]; [cbn in H; contradiction|]. cbn [skipn] in H. destruct (IH t H) as (j & A & B).
    exists (S j). cbn. split; [lia|exact B].
Qed.

(* every new triangle (a, b, p) sits on an edge shared by a kept vertex (which has b -> a) and a removed vertex (a -> b) *)
Theorem clip_new_edges c removed vs p_idx c' kept nd :
  Inv c -> duals_in_range V vdual (length (ptrs c)) vs -> distinct_duals V vdual vs ->
  closed_surface (map vdual vs) ->
  clip_comb V vdual vdefault c removed vs p_idx = Some (c', kept, nd) ->
  (nd <> [] -> (3 <= clen c')%nat) ->
  Forall (fun v => removed v = false /\ In v vs) kept /\
  forall d, In d nd -> exists a b, d = (a, b, p_idx) /\
    (exists vk, In vk kept /\ has_edge (vdual vk) b a) /\
    (exists vr, In vr vs /\ removed vr = true /\ has_edge (vdual vr) a b).
Proof.
  intros HI Hr Hd Hcl H Hlen. unfold clip_comb in H.
  destruct (partition_loop V vdefault (length vs) removed vs 0 (length vs)) as [vs1 num_v] eqn:Ep.
  destruct (partition_loop_split V vdefault removed (length vs) vs 0%nat (length vs) vs1 num_v
              ltac:(lia) ltac:(lia) ltac:(lia) ltac:(intros; lia) ltac:(intros; lia) Ep) as (L1 & Hnv & Hlo & Hhi).
  destruct (partition_loop_noswap removed _ _ _ _ _ _ Ep) as [_ Hsame].
  destruct (partition_loop_sum V vdual vdefault removed (length vs) vs 0%nat (length vs) vs1 num_v (Nat.le_refl _) Ep) as [_ S1].
  assert (Hin1 : Forall (fun v => In v vs) vs1).
  { eapply (partition_loop_forall V vdefault (fun v => In v vs)); [|apply Nat.le_refl|exact Ep]. apply Forall_forall. auto. }
  rewrite Forall_forall in Hin1.
  assert (Hkept : Forall (fun v => removed v = false /\ In v vs) (firstn num_v vs1)).
  { apply Forall_forall. intros v Hv. destruct (firstn_in_nth _ _ _ Hv) as (j & A & B & <-). split; [apply Hlo; exact A|].
    apply Hin1. apply nth_In. exact B. }
  destruct (Nat.eqb num_v (length vs)) eqn:En.
  { inversion H; subst. split; [|intros d []]. apply Nat.eqb_eq in En. specialize (Hsame En). subst vs1.
    rewrite En, firstn_all in Hkept. exact Hkept. }
  destruct (compute_boundary V vdual vdefault (cyc_grow c) (skipn num_v vs1)) as [[c2 vs2]|] eqn:Ec; [|discriminate].
  inversion H; subst c' kept nd. clear H. split; [exact Hkept|].
  intros d Hdin. apply in_map_iff in Hdin. destruct Hdin as ([a b] & <- & Hab0). exists a, b. split; [reflexivity|].
  assert (Hab : In (a, b) (pairs (cyc_iter c2 (S (clen c2))))) by exact Hab0. clear Hab0.
  assert (Hr1 : duals_in_range V vdual (length (ptrs (cyc_grow c))) vs1).
  { unfold duals_in_range in *. eapply partition_loop_forall; [|apply Nat.le_refl|exact Ep].
    eapply Forall_impl; [|exact Hr]. intros v Hv. cbv beta in Hv. destruct (vdual v) as [[x y] z]. unfold cyc_grow. cbn [ptrs].
    rewrite app_length. cbn [length]. lia. }
  assert (Hdd : distinct_duals V vdual vs1) by (eapply partition_loop_forall; [exact Hd | apply Nat.le_refl | exact Ep]).
  pose proof (inv_grow c HI) as HIg. destruct (inv_clean _ HIg) as [Hclean Hleng].
  pose proof (compute_boundary_inv V vdual vdefault (cyc_grow c) (skipn num_v vs1) c2 vs2 HIg (forall_skipn _ _ _ Hr1) (forall_skipn _ _ _ Hdd) Ec) as HI2.
  pose proof (compute_boundary_chain V vdual vdefault (cyc_grow c) (skipn num_v vs1) c2 vs2 Hclean Hleng (forall_skipn _ _ _ Hr1) (forall_skipn _ _ _ Hdd) Ec a b) as Hch.
  assert (Hne : map (fun '(a0, b0) => (a0, b0, p_idx)) (pairs (cyc_iter c2 (S (clen c2)))) <> []).
  { intros E. apply map_eq_nil in E. rewrite E in Hab. exact Hab. }
  specialize (Hlen Hne).
  pose proof (pchain_consecutive c2 a b HI2 Hlen Hab) as P1. rewrite Hch in P1.
  split.
  - (* the kept side: closedness *)
    specialize (Hcl a b). rewrite dsum_map in Hcl. rewrite <- S1 in Hcl.
    rewrite (sum_chain_firstn_skipn V vdual num_v vs1) in Hcl.
    destruct (sum_chain_neg_exists V vdual (firstn num_v vs1) a b ltac:(lia)) as (vk & Hk & He). exists vk. split; assumption.
  - destruct (sum_chain_pos_exists V vdual (skipn num_v vs1) a b ltac:(lia)) as (vr & Hvr & He).
    exists vr. destruct (skipn_in_nth _ _ _ Hvr) as (j & Hj & <-). rewrite L1 in Hj.
    split; [apply Hin1; apply nth_In; lia|]. split; [apply Hhi; exact Hj|exact He].
Qed.
End ClipEdges.
