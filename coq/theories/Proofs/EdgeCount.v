(* Half of Euler's relation for the dual triangulation of a cell: in a closed oriented surface without repeated directed edges every
   undirected edge is used by exactly two triangles, once in each direction, hence 3 V = 2 E (V = number of dual triangles = vertices of
   the cell, E = number of edges directed "upwards").  Together with V - E + F = 2 (checked per cell on the implementation's output)
   this gives F = V / 2 + 2. *)
From Coq Require Import List Arith Lia Bool ZArith Permutation.
From MV Require Import Model.Cycle Proofs.CycleClosed Proofs.FaceClose.
Import ListNotations.
Close Scope Z_scope.
Open Scope nat_scope.

Definition pair_dec : forall x y : nat * nat, {x = y} + {x <> y}.
Proof. decide equality; apply Nat.eq_dec. Defined.
Definition dedges (ds : list dual) : list (nat * nat) := flat_map edges3 ds.
Definition up (e : nat * nat) : bool := fst e <? snd e.
Definition down (e : nat * nat) : bool := snd e <? fst e.
Definition swap (e : nat * nat) : nat * nat := (snd e, fst e).

Lemma dedges_length ds : length (dedges ds) = 3 * length ds.
Proof. unfold dedges. induction ds as [|[[a b] c] t IH]; cbn [flat_map edges3 app length]; lia. Qed.

Lemma count_edges3 d a b : ddist d -> count_occ pair_dec (edges3 d) (a, b) = if edgeb d a b then 1 else 0.
Proof.
  destruct d as [[i j] k]. unfold ddist, edgeb, edges3. intros [H1 [H2 H3]]. cbn [count_occ].
  destruct (pair_dec (i, j) (a, b)) as [E1|E1]; destruct (pair_dec (j, k) (a, b)) as [E2|E2]; destruct (pair_dec (k, i) (a, b)) as [E3|E3];
  try (inversion E1; subst); try (inversion E2; subst); try (inversion E3; subst); try congruence;
  repeat match goal with |- context [Nat.eqb ?x ?y] => destruct (Nat.eqb_spec x y); subst end; cbn; try reflexivity; try congruence;
  exfalso; try (apply E1; reflexivity); try (apply E2; reflexivity); try (apply E3; reflexivity).
Qed.

Lemma count_dedges ds a b : Forall ddist ds -> count_occ pair_dec (dedges ds) (a, b) = ecount ds a b.
Proof.
  unfold dedges. induction 1 as [|d t Hd _ IH]; cbn [flat_map ecount]; [reflexivity|].
  rewrite count_occ_app, IH, (count_edges3 d a b Hd). reflexivity.
Qed.

Lemma count_filter (f : nat * nat -> bool) l e : count_occ pair_dec (filter f l) e = if f e then count_occ pair_dec l e else 0.
Proof.
  induction l as [|x l IH]; cbn [filter count_occ]; [destruct (f e); reflexivity|].
  destruct (f x) eqn:Fx; cbn [count_occ]; destruct (pair_dec x e) as [->|N]; rewrite ?IH; try rewrite Fx; try reflexivity.
Qed.

Lemma swap_inj x y : swap x = swap y -> x = y.
Proof. destruct x, y. unfold swap. cbn. intros H. inversion H. reflexivity. Qed.

Theorem three_V_is_two_E ds : surfaceb ds = true ->
  length (filter up (dedges ds)) = length (filter down (dedges ds)) /\
  3 * length ds = 2 * length (filter up (dedges ds)).
Proof.
  intros Hs. destruct (surfaceb_spec ds Hs) as [Hd [Hc _]].
  assert (P : Permutation (filter down (dedges ds)) (map swap (filter up (dedges ds)))).
  { apply (Permutation_count_occ pair_dec). intros [a b].
    rewrite count_filter. replace (a, b) with (swap (b, a)) at 3 by reflexivity.
    rewrite <- (count_occ_map swap pair_dec pair_dec swap_inj). rewrite count_filter.
    unfold up, down. cbn [fst snd]. destruct (b <? a) eqn:L; [|reflexivity].
    apply Nat.ltb_lt in L. rewrite !count_dedges by exact Hd. apply closed_sym; [exact Hd|exact Hc|lia]. }
  pose proof (Permutation_length P) as PL. rewrite map_length in PL.
  split; [symmetry; exact PL|].
  (* every directed edge goes up or down, never level *)
  assert (T : forall l, Forall (fun e => fst e <> snd e) l -> length l = length (filter up l) + length (filter down l)).
  { induction 1 as [|[a b] l Hn _ IH]; [reflexivity|]. cbn [filter]. change (up (a, b)) with (a <? b). change (down (a, b)) with (b <? a). cbn [fst snd] in Hn.
    destruct (Nat.ltb_spec a b) as [U|U]; destruct (Nat.ltb_spec b a) as [D|D]; cbn [length]; rewrite IH; lia. }
  assert (F : Forall (fun e => fst e <> snd e) (dedges ds)).
  { unfold dedges. apply Forall_forall. intros [a b] Hin. apply in_flat_map in Hin. destruct Hin as [[[i j] k] [Hin He]].
    rewrite Forall_forall in Hd. specialize (Hd _ Hin). unfold ddist in Hd. cbn in He. cbn [fst snd].
    destruct He as [E|[E|[E|[]]]]; inversion E; subst; intuition congruence. }
  pose proof (T _ F) as TT. rewrite dedges_length in TT. lia.
Qed.
