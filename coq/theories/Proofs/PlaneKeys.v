(* The planes of a built cell carry pairwise distinct (neighbour, shift) keys whenever the sites do: every site is looked at
   once and contributes at most one plane.  This is the well-formedness hypothesis of the structural theorems (C12/C13/C07),
   discharged for the exact model; for the implementation it is what the neighbour stream guarantees (C17). *)
From Coq Require Import ZArith List Lia Bool.
From MV Require Import Model.Cycle Model.CellExact Proofs.CellProofs.
Import ListNotations.
Open Scope Z_scope.

Definition site_key (s : site) : Z * Z := let '(id, sh, _) := s in (id, sh).
Definition plane_key (q : plane) : option (Z * Z) := match pright q with Some r => Some (r, pshift q) | None => None end.

Lemma bisector_key g s : plane_key (bisector g s) = Some (site_key s).
Proof. destruct s as [[id sh] pos]. reflexivity. Qed.

(* the planes beyond the six walls, as keys *)
Definition ngb_keys (c : cell) : list (Z * Z) :=
  flat_map (fun q => match plane_key q with Some k => [k] | None => [] end) (cplanes c).

Lemma ngb_keys_app ps q cv cy : ngb_keys (mkCell (ps ++ [q]) cv cy) = ngb_keys (mkCell ps cv cy) ++ match plane_key q with Some k => [k] | None => [] end.
Proof. unfold ngb_keys. cbn [cplanes]. rewrite flat_map_app. cbn [flat_map]. rewrite app_nil_r. reflexivity. Qed.

Lemma ngb_keys_planes c c' : cplanes c' = cplanes c -> ngb_keys c' = ngb_keys c.
Proof. unfold ngb_keys. intros ->. reflexivity. Qed.

Lemma clip_keys c s g c' : clip c (bisector g s) = Some c' ->
  ngb_keys c' = ngb_keys c \/ ngb_keys c' = ngb_keys c ++ [site_key s].
Proof.
  intros H. destruct (clip_planes _ _ _ H) as [E|E].
  - left. apply ngb_keys_planes. exact E.
  - right. unfold ngb_keys. rewrite E, flat_map_app. cbn [flat_map]. rewrite bisector_key, app_nil_r. reflexivity.
Qed.

Lemma nodup_app_l {A} (a b : list A) : NoDup (a ++ b) -> NoDup a.
Proof. induction b as [|x t IH]; [rewrite app_nil_r; auto|]. intros H. apply NoDup_remove_1 in H. exact (IH H). Qed.

Lemma build_loop_keys dim g : forall sites prev c c',
  NoDup (ngb_keys c ++ map site_key sites) ->
  build_loop dim g sites prev c = Some c' ->
  NoDup (ngb_keys c') /\ incl (ngb_keys c') (ngb_keys c ++ map site_key sites).
Proof.
  induction sites as [|s rest IH]; intros prev c c' Hnd H; cbn [build_loop] in H.
  - inversion H; subst. cbn [map] in Hnd. rewrite app_nil_r in *. split; [exact Hnd|apply incl_refl].
  - destruct (dist2 g s <? prev); [discriminate|].
    destruct (max_radius2 dim g (cverts c)) as [rn rd].
    destruct (4 * rn <? dist2 g s * rd).
    + inversion H; subst. split; [apply nodup_app_l in Hnd; exact Hnd|apply incl_appl, incl_refl].
    + destruct (clip c (bisector g s)) as [c1|] eqn:Ec; [|discriminate].
      cbn [map] in Hnd.
      destruct (clip_keys _ _ _ _ Ec) as [E|E].
      * assert (Hnd1 : NoDup (ngb_keys c1 ++ map site_key rest)).
        { rewrite E. apply NoDup_remove_1 in Hnd. exact Hnd. }
        destruct (IH _ _ _ Hnd1 H) as [A B]. split; [exact A|]. rewrite E in B.
        intros k Hk. specialize (B k Hk). apply in_app_or in B. apply in_or_app. destruct B as [B|B]; [left; exact B|right; right; exact B].
      * assert (Hnd1 : NoDup (ngb_keys c1 ++ map site_key rest)).
        { rewrite E, <- app_assoc. cbn [app]. exact Hnd. }
        destruct (IH _ _ _ Hnd1 H) as [A B]. split; [exact A|]. rewrite E, <- app_assoc in B. cbn [app] in B. exact B.
Qed.

Theorem build_plane_keys_distinct dim lo hi g sites c :
  NoDup (map site_key sites) -> build dim lo hi g sites = Some c ->
  NoDup (ngb_keys c) /\ incl (ngb_keys c) (map site_key sites).
Proof.
  intros Hnd H. unfold build in H.
  assert (E0 : ngb_keys (cell_init lo hi) = []) by (destruct lo as [[? ?] ?], hi as [[? ?] ?]; reflexivity).
  destruct (build_loop_keys dim g sites 0 (cell_init lo hi) c ltac:(rewrite E0; exact Hnd) H) as [A B].
  rewrite E0 in B. split; [exact A|exact B].
Qed.
