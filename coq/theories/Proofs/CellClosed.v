(* Every cell the exact clipping model builds is combinatorially well formed: its vertices are dual triangles over
   existing plane indices, three distinct planes each, and the triangles form a closed oriented surface (every directed
   edge is matched by its reverse) - the combinatorial half of "the cell is a polytope" (C15/C18), for every input. *)
From Coq Require Import ZArith List Arith Lia Bool.
From MV Require Import Model.Cycle Model.CellExact Proofs.CycleProofs Proofs.CycleInv Proofs.CycleClosed.
Import ListNotations.

Definition cell_wf (c : cell) : Prop :=
  Inv (ccycle c) /\ length (ptrs (ccycle c)) = length (cplanes c) /\
  duals_in_range vertex vd (length (cplanes c)) (cverts c) /\ distinct_duals vertex vd (cverts c) /\
  closed_surface (map vd (cverts c)).

Lemma vd_from_dual ps d : vd (vertex_from_dual ps d) = d.
Proof. destruct d as [[i j] k]. reflexivity. Qed.

Lemma map_vd_from_dual ps ds : map vd (map (vertex_from_dual ps) ds) = ds.
Proof. induction ds as [|d t IH]; cbn [map]; [reflexivity|]. rewrite vd_from_dual, IH. reflexivity. Qed.

Lemma init_closed : closed_surface init_duals.
Proof.
  apply (closed_of_in_range 6).
  - unfold init_duals. repeat constructor.
  - intros x y Hx Hy.
    assert (Hall : forallb (fun x => forallb (fun y => Z.eqb (dsum init_duals x y) 0) (seq 0 6)) (seq 0 6) = true) by (vm_compute; reflexivity).
    rewrite forallb_forall in Hall. specialize (Hall x ltac:(apply in_seq; lia)).
    rewrite forallb_forall in Hall. specialize (Hall y ltac:(apply in_seq; lia)). apply Z.eqb_eq in Hall. exact Hall.
Qed.

Theorem cell_init_wf lo hi : cell_wf (cell_init lo hi).
Proof.
  unfold cell_wf, cell_init. cbn [ccycle cplanes cverts].
  assert (Lw : length (walls lo hi) = 6%nat) by (destruct lo as [[? ?] ?], hi as [[? ?] ?]; reflexivity).
  split; [apply inv_new|]. split; [unfold cyc_new; cbn [ptrs]; rewrite seq_length, Lw; reflexivity|].
  rewrite Lw. split; [|split].
  - unfold duals_in_range. rewrite Forall_map. unfold init_duals. repeat (constructor; [rewrite vd_from_dual; cbn; lia|]). constructor.
  - unfold distinct_duals. rewrite Forall_map. unfold init_duals. repeat (constructor; [rewrite vd_from_dual; cbn; lia|]). constructor.
  - rewrite map_vd_from_dual. exact init_closed.
Qed.

Theorem clip_wf c q c' : cell_wf c -> clip c q = Some c' -> cell_wf c'.
Proof.
  intros (HI & HL & Hr & Hd & Hcl) H. unfold clip in H.
  set (removed := fun v : vertex => (side q (vloc v) <? 0)%Z) in H.
  destruct (clip_comb vertex vd vdefault (ccycle c) removed (cverts c) (length (cplanes c))) as [[[cyc' kept] nd]|] eqn:E; [|discriminate].
  rewrite <- HL in Hr.
  assert (Hp : length (cplanes c) = length (ptrs (ccycle c))) by (symmetry; exact HL).
  pose proof (clip_comb_inv vertex vd vdefault _ _ _ _ _ _ _ HI Hr Hd E) as HI'.
  destruct (clip_preserves_closed_surface vertex vd vdefault _ _ _ _ _ _ _ HI Hr Hd Hp E Hcl) as [Hcl' Hrange'].
  destruct (clip_comb_shape vertex vd vdefault _ _ _ _ _ _ _ HI Hr Hd Hp E) as [Hlen' Hdist'].
  destruct nd as [|d0 nd'].
  - inversion H; subst. rewrite HL in Hr. repeat split; assumption.
  - inversion H; subst c'. clear H. unfold cell_wf. cbn [ccycle cplanes cverts].
    specialize (Hlen' ltac:(discriminate)).
    assert (Hpl : length (cplanes c ++ [q]) = length (ptrs cyc')) by (rewrite app_length; cbn [length]; lia).
    assert (Hmap : map vd (kept ++ map (vertex_from_dual (cplanes c ++ [q])) (d0 :: nd')) = map vd kept ++ d0 :: nd')
      by (rewrite map_app, map_vd_from_dual; reflexivity).
    split; [exact HI'|]. split; [symmetry; exact Hpl|]. rewrite Hpl. split; [|split].
    + rewrite <- Hmap in Hrange'. exact (proj1 (Forall_map vd _ _) Hrange').
    + rewrite <- Hmap in Hdist'. exact (proj1 (Forall_map vd _ _) Hdist').
    + assert (G : closed_surface (map vd (kept ++ map (vertex_from_dual (cplanes c ++ [q])) (d0 :: nd')))) by (rewrite Hmap; exact Hcl').
      exact G.
Qed.

Lemma build_loop_wf dim g : forall sites prev c c', cell_wf c -> build_loop dim g sites prev c = Some c' -> cell_wf c'.
Proof.
  induction sites as [|s rest IH]; intros prev c c' Hw H; cbn [build_loop] in H; [inversion H; subst; exact Hw|].
  destruct (dist2 g s <? prev)%Z; [discriminate|].
  destruct (max_radius2 dim g (cverts c)) as [rn rd].
  destruct (4 * rn <? dist2 g s * rd)%Z; [inversion H; subst; exact Hw|].
  destruct (clip c (bisector g s)) as [c1|] eqn:Ec; [|discriminate].
  eapply IH; [|exact H]. eapply clip_wf; [exact Hw|exact Ec].
Qed.

(* every cell the model builds - whatever the input, the dimensionality, the order and number of sites - is well formed *)
Theorem build_wf dim lo hi g sites c : build dim lo hi g sites = Some c -> cell_wf c.
Proof. unfold build. apply build_loop_wf. apply cell_init_wf. Qed.

Lemma build_all_loop_wf g : forall sites c c', cell_wf c -> build_all_loop g sites c = Some c' -> cell_wf c'.
Proof.
  induction sites as [|s rest IH]; intros c c' Hw H; cbn [build_all_loop] in H; [inversion H; subst; exact Hw|].
  destruct (clip c (bisector g s)) as [c1|] eqn:Ec; [|discriminate].
  eapply IH; [|exact H]. eapply clip_wf; [exact Hw|exact Ec].
Qed.

Theorem build_all_wf lo hi g sites c : build_all lo hi g sites = Some c -> cell_wf c.
Proof. unfold build_all. apply build_all_loop_wf. apply cell_init_wf. Qed.
