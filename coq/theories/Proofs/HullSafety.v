(* C16 at cell level: every point of the hull of the vertices of a built cell (vertices with positive weight) is within the
   largest vertex distance - half the reported safety radius - of the generator (3D). *)
From Coq Require Import ZArith List Lia Psatz.
From MV Require Import Model.Cycle Model.CellExact Proofs.CellProofs Proofs.HullProofs Proofs.HullRadius Proofs.Feasible.
Import ListNotations.
Open Scope Z_scope.

Theorem hull_within_max_radius g (vs : list vertex) l :
  Forall (fun v => 0 < snd (vloc v)) vs ->
  Forall (fun '(lam, p) => 0 <= lam /\ exists v, In v vs /\ p = vloc v) l ->
  let '(rn, rd) := max_radius2 3 g vs in
  0 < rd /\ rd * norm2 (hrel g (hcomb l)) <= snd (hcomb l) * snd (hcomb l) * rn.
Proof.
  intros Hw Hl. destruct (max_radius2_ge 3 g vs Hw) as [Hrd Hmax].
  destruct (max_radius2 3 g vs) as [rn rd] eqn:Em. cbn [snd] in Hrd. split; [exact Hrd|].
  assert (Hrn : 0 <= rn).
  { (* the maximum is at least the initial accumulator 0/1 *)
    unfold max_radius2 in Em. pose proof (max_fold_ge 3 g vs (0, 1) ltac:(cbn; lia) Hw) as (_ & M & _).
    cbv zeta in M. rewrite Em in M. unfold rle in M. cbn [fst snd] in M. rewrite Z.mul_0_l, Z.mul_1_r in M. exact M. }
  apply (hull_in_ball g rn rd Hrn Hrd). rewrite Forall_forall in *. intros [lam p] Hin.
  destruct (Hl _ Hin) as (A & v & Hv & ->). split; [exact A|]. split; [apply Hw; exact Hv|].
  specialize (Hmax v Hv). unfold rle, radius2, proj_dim in Hmax. destruct (vloc v) as [x w]. unfold hrel. cbn [snd].
  destruct (vsub x (vscale w g)) as [[a b] c0]. change (3 =? 1) with false in Hmax. change (3 =? 2) with false in Hmax.
  cbv beta iota in Hmax. cbn [fst snd] in Hmax. lia.
Qed.
