(* From the value t in [1, 2) to the integer grid coordinate: the 52 mantissa bits of a binary64 number in [1, 2)
   are exactly (t - 1) * 2^52, and its sign/exponent bits are those of 1.0. *)
From Coq Require Import ZArith Reals Lra Lia Bool.
From Flocq Require Import Core BinarySingleNaN Binary Bits Digits.
From MV Require Import Model.Grid Proofs.GridFlocq.
Open Scope R_scope.

Lemma pow2_IZR (n : Z) : (0 <= n)%Z -> IZR (2 ^ n) = bpow radix2 n.
Proof. intros H. rewrite <- (IZR_Zpower radix2 n H). reflexivity. Qed.

(* shape of a finite binary64 number whose value lies in [1, 2) *)
Lemma shape_in_1_2 (t : f64) : fin t = true -> 1 <= b2r t < 2 ->
  exists m pf, t = B754_finite 53 1024 false m (-52) pf /\ (2 ^ 52 <= Z.pos m < 2 ^ 53)%Z.
Proof.
  intros Ft [H1 H2]. destruct t as [s|s|s p Hp|s m e Hb]; try discriminate.
  - unfold B2R in H1. lra.
  - cbn [B2R] in H1, H2.
    assert (Hpos : s = false).
    { destruct s; [|reflexivity]. exfalso. unfold F2R in H1. cbn [Fnum Fexp cond_Zopp] in H1.
      match type of H1 with _ <= ?xx * ?yy =>
        assert (Hx : xx < 0) by (apply IZR_lt; cbn; lia); assert (Hy : 0 < yy) by apply bpow_gt_0;
        assert (xx * yy < 0) by nra; lra end. }
    subst s. unfold F2R in H1, H2. cbn [Fnum Fexp cond_Zopp] in H1, H2.
    pose proof Hb as Hb'. unfold SpecFloat.bounded in Hb'. apply andb_prop in Hb'. destruct Hb' as [Hc He].
    unfold SpecFloat.canonical_mantissa in Hc. apply Zeq_bool_eq in Hc. apply Zle_bool_imp_le in He.
    rewrite Zpos_digits2_pos in Hc.
    pose proof (Zdigits_correct radix2 (Z.pos m)) as Hd. set (dg := Zdigits radix2 (Z.pos m)) in *.
    rewrite Z.abs_eq in Hd by lia. change (Zpower radix2) with (Z.pow 2) in Hd.
    assert (Hdg : (0 < dg)%Z) by (apply Zdigits_gt_0; discriminate).
    unfold SpecFloat.fexp, SpecFloat.emin in Hc.
    (* m * 2^e in [1,2) pins dg + e = 1 *)
    assert (Hlo : bpow radix2 (dg - 1 + e) <= IZR (Z.pos m) * bpow radix2 e).
    { rewrite bpow_plus. apply Rmult_le_compat_r; [apply bpow_ge_0|]. rewrite <- pow2_IZR by lia. apply IZR_le. lia. }
    assert (Hhi : IZR (Z.pos m) * bpow radix2 e < bpow radix2 (dg + e)).
    { rewrite bpow_plus. apply Rmult_lt_compat_r; [apply bpow_gt_0|]. rewrite <- pow2_IZR by lia. apply IZR_lt. lia. }
    assert (Hsum : (dg + e = 1)%Z).
    { assert (A1 : bpow radix2 (dg - 1 + e) < bpow radix2 1) by (simpl (bpow radix2 1); lra).
      apply lt_bpow in A1.
      assert (A2 : bpow radix2 0 < bpow radix2 (dg + e)) by (simpl (bpow radix2 0); lra).
      apply lt_bpow in A2. lia. }
    assert (Hexp : e = (-52)%Z) by lia.
    subst e. assert (dg = 53%Z) by lia.
    exists m, Hb. split; [reflexivity|]. replace (dg - 1)%Z with 52%Z in Hd by lia. replace dg with 53%Z in Hd by lia. exact Hd.
Qed.

Definition mant52 (t : R) : R := (t - 1) * bpow radix2 52.

Theorem iloc_bits (t : f64) : fin t = true -> 1 <= b2r t < 2 ->
  t_in_range t = true /\
  (0 <= Z.land (to_bits t) mantissa_mask < 2 ^ 52)%Z /\
  IZR (Z.land (to_bits t) mantissa_mask) = mant52 (b2r t).
Proof.
  intros Ft Ht. destruct (shape_in_1_2 t Ft Ht) as (m & pf & -> & Hm).
  unfold t_in_range, to_bits, bits_of_b64, bits_of_binary_float, mantissa_mask.
  change (Z.pow 2 52) with 4503599627370496%Z in *. change (2 ^ 53)%Z with 9007199254740992%Z in Hm.
  change (Zpower 2 52) with 4503599627370496%Z.
  replace (Zle_bool 0 (Z.pos m - 4503599627370496)) with true by (symmetry; apply Zle_imp_le_bool; lia).
  unfold join_bits.
  replace (0 + (-52 - SpecFloat.emin (52 + 1) (2 ^ (11 - 1)) + 1))%Z with 1023%Z by (vm_compute; reflexivity).
  set (m' := (Z.pos m - 4503599627370496)%Z). assert (Hm' : (0 <= m' < 4503599627370496)%Z) by (unfold m'; lia).
  rewrite Z.shiftl_mul_pow2 by lia. change (2 ^ 52)%Z with 4503599627370496%Z.
  change 4503599627370495%Z with (Z.ones 52). rewrite Z.land_ones by lia. change (2 ^ 52)%Z with 4503599627370496%Z.
  assert (Emod : ((1023 * 4503599627370496 + m') mod 4503599627370496 = m')%Z).
  { rewrite Z.add_comm, Z_mod_plus_full. apply Z.mod_small. lia. }
  rewrite Emod. split; [|split].
  - rewrite Z.shiftr_div_pow2 by lia. change (2 ^ 52)%Z with 4503599627370496%Z.
    replace ((1023 * 4503599627370496 + m') / 4503599627370496)%Z with 1023%Z; [reflexivity|].
    symmetry. rewrite Z.add_comm, Z_div_plus_full by lia. rewrite Z.div_small by lia. reflexivity.
  - lia.
  - unfold mant52. cbn [B2R]. unfold F2R. cbn [Fnum Fexp cond_Zopp]. unfold m'. rewrite minus_IZR.
    replace (bpow radix2 52) with 4503599627370496 by (unfold bpow; replace (Zpower_pos radix2 52) with 4503599627370496%Z by (vm_compute; reflexivity); reflexivity).
    replace (bpow radix2 (-52)) with (/ 4503599627370496) by (unfold bpow; replace (Zpower_pos radix2 52) with 4503599627370496%Z by (vm_compute; reflexivity); reflexivity).
    field.
Qed.
