(* The grid map lands in [1, 2): real-number analysis of the rounded operations of cuboid + iloc
   (round-to-nearest binary64, gradual underflow), for every box that is not absurdly far from the origin. *)
From Coq Require Import ZArith Reals Lra Lia Psatz.
From Flocq Require Import Core Relative.
From MV Require Import Model.Grid Proofs.GridFlocq.
Open Scope R_scope.

Definition fmt64 : R -> Prop := generic_format radix2 (FLT_exp (3 - 1024 - 53) 53).
Definition u64 : R := / 9007199254740992.          (* 2^-53 *)
Definition eta64 : R := bpow radix2 (-1075).

Lemma rnd64_id x : fmt64 x -> rnd64 x = x.
Proof. intros H. apply round_generic; [apply valid_rnd_N|exact H]. Qed.

Lemma half_bpow_m52 : / 2 * bpow radix2 (- 53 + 1) = u64.
Proof.
  unfold u64. change (-53 + 1)%Z with (-52)%Z. unfold bpow.
  replace (Zpower_pos radix2 52) with 4503599627370496%Z by (vm_compute; reflexivity). lra.
Qed.

Lemma half_bpow_emin : / 2 * bpow radix2 (3 - 1024 - 53) = eta64.
Proof.
  unfold eta64. change (3 - 1024 - 53)%Z with (-1074)%Z. replace (-1074)%Z with (1 + -1075)%Z by lia.
  rewrite bpow_plus. replace (bpow radix2 1) with 2 by (unfold bpow; vm_compute Zpower_pos; simpl; lra). lra.
Qed.

(* |rnd x - x| <= u |x| + eta *)
Lemma rnd64_err x : Rabs (rnd64 x - x) <= u64 * Rabs x + eta64.
Proof.
  destruct (error_N_FLT radix2 (3 - 1024 - 53) 53 ltac:(lia) (fun z => negb (Z.even z)) x) as (eps & eta & He & Ht & Hz & E).
  unfold rnd64. change ZnearestE with (Znearest (fun z => negb (Z.even z))). rewrite E.
  assert (He' : Rabs eps <= u64) by (eapply Rle_trans; [exact He|right; exact half_bpow_m52]).
  assert (Ht' : Rabs eta <= eta64) by (eapply Rle_trans; [exact Ht|right; exact half_bpow_emin]).
  clear He Ht.
  replace (x * (1 + eps) + eta - x) with (x * eps + eta) by ring.
  eapply Rle_trans; [apply Rabs_triang|]. rewrite Rabs_mult.
  assert (0 <= Rabs x) by apply Rabs_pos.
  assert (Rabs x * Rabs eps <= u64 * Rabs x) by (rewrite (Rmult_comm u64); apply Rmult_le_compat_l; assumption).
  lra.
Qed.

Lemma rnd64_up x : rnd64 x <= x + u64 * Rabs x + eta64.
Proof. pose proof (rnd64_err x) as H. apply Rabs_le_inv in H. lra. Qed.
Lemma rnd64_lo x : x - u64 * Rabs x - eta64 <= rnd64 x.
Proof. pose proof (rnd64_err x) as H. apply Rabs_le_inv in H. lra. Qed.

Lemma rnd64_0 : rnd64 0 = 0.
Proof. apply round_0. apply valid_rnd_N. Qed.

Lemma rnd64_nonneg x : 0 <= x -> 0 <= rnd64 x.
Proof. intros H. rewrite <- rnd64_0. apply rnd64_le. exact H. Qed.

Lemma fmt64_small m e : (Z.abs m < 2 ^ 53)%Z -> (-1074 <= e)%Z -> fmt64 (F2R (Float radix2 m e)).
Proof.
  intros Hm He. apply generic_format_FLT. exact (FLT_spec radix2 (3 - 1024 - 53) 53 _ (Float radix2 m e) eq_refl Hm He).
Qed.

Lemma fmt64_1 : fmt64 1.
Proof. replace 1 with (F2R (Float radix2 1 0)) by (unfold F2R; simpl; lra). apply fmt64_small; lia. Qed.
Lemma fmt64_15_16 : fmt64 (15 / 16).
Proof. replace (15 / 16) with (F2R (Float radix2 15 (-4))) by (unfold F2R; simpl; lra). apply fmt64_small; lia. Qed.
Lemma fmt64_31_16 : fmt64 (31 / 16).
Proof. replace (31 / 16) with (F2R (Float radix2 31 (-4))) by (unfold F2R; simpl; lra). apply fmt64_small; lia. Qed.

Definition k60 : R := / 1152921504606846976.      (* 2^-60 *)

Lemma bpow_m175_le : bpow radix2 (-175) <= k60.
Proof.
  apply Rle_trans with (bpow radix2 (-60)); [apply bpow_le; lia|].
  unfold k60, bpow. replace (Zpower_pos radix2 60) with 1152921504606846976%Z by (vm_compute; reflexivity). lra.
Qed.

Section Range.
Variables a W S x : R.
Hypothesis FW : fmt64 W.
Hypothesis Fx : fmt64 x.
Hypothesis HW : 0 < W.
Hypothesis HS : W <= S.
Hypothesis HWlo : bpow radix2 (-900) <= W.
Hypothesis HShi : S <= bpow radix2 900.
Hypothesis Ha : Rabs a <= 1099511627776 * W.        (* |anchor| <= 2^40 widths *)
Hypothesis Hx : a - W <= x <= a + 2 * W.

Let r := rnd64 (3 / 2 * W).
Let A := rnd64 (a - r).
Let q := rnd64 (4 * S).
Let I := rnd64 (1 / q).
Let D := rnd64 (x - A).
Let y := rnd64 (D * I).
Let t := rnd64 (1 + y).

Lemma eta_le_W : eta64 <= k60 * W.
Proof.
  unfold eta64. replace (-1075)%Z with (-175 + -900)%Z by lia. rewrite bpow_plus.
  pose proof bpow_m175_le. pose proof (bpow_ge_0 radix2 (-175)). pose proof (bpow_ge_0 radix2 (-900)).
  apply Rle_trans with (bpow radix2 (-175) * W); [apply Rmult_le_compat_l; assumption|].
  apply Rmult_le_compat_r; lra.
Qed.

Lemma W_eta_le : W * eta64 <= k60.
Proof.
  unfold eta64. pose proof (bpow_ge_0 radix2 (-1075)).
  apply Rle_trans with (bpow radix2 900 * bpow radix2 (-1075)); [apply Rmult_le_compat_r; lra|].
  rewrite <- bpow_plus. replace (900 + -1075)%Z with (-175)%Z by lia. apply bpow_m175_le.
Qed.

Lemma r_bounds : W <= r <= 3 / 2 * W + u64 * (3 / 2 * W) + eta64.
Proof.
  unfold r. split.
  - rewrite <- (rnd64_id W FW) at 1. apply rnd64_le. lra.
  - pose proof (rnd64_up (3 / 2 * W)) as H. rewrite Rabs_pos_eq in H by lra. exact H.
Qed.

Lemma A_le_x : A <= x.
Proof.
  unfold A. rewrite <- (rnd64_id x Fx). apply rnd64_le. pose proof r_bounds. lra.
Qed.

Lemma A_lower : a - r - u64 * (Rabs a + r) - eta64 <= A.
Proof.
  unfold A. pose proof (rnd64_lo (a - r)) as H. pose proof r_bounds as Hr.
  assert (Rabs (a - r) <= Rabs a + r).
  { eapply Rle_trans; [apply Rabs_triang|]. rewrite Rabs_Ropp. rewrite (Rabs_pos_eq r) by lra. lra. }
  assert (0 < u64) by (unfold u64; lra).
  assert (u64 * Rabs (a - r) <= u64 * (Rabs a + r)) by (apply Rmult_le_compat_l; lra). lra.
Qed.

Lemma diff_bounds : 0 <= x - A <= 35003 / 10000 * W.
Proof.
  pose proof A_le_x. pose proof A_lower. pose proof r_bounds as Hr. pose proof eta_le_W.
  assert (0 <= Rabs a) by apply Rabs_pos.
  split; [lra|]. unfold u64, k60 in *. lra.
Qed.

Lemma D_bounds : 0 <= D <= 35004 / 10000 * W.
Proof.
  pose proof diff_bounds as [H0 H1]. unfold D. split; [apply rnd64_nonneg; exact H0|].
  pose proof (rnd64_up (x - A)) as H. rewrite Rabs_pos_eq in H by exact H0. pose proof eta_le_W.
  unfold u64, k60 in *. lra.
Qed.

Lemma q_lower : 399 / 100 * S <= q.
Proof.
  unfold q. pose proof (rnd64_lo (4 * S)) as H. rewrite Rabs_pos_eq in H by lra. pose proof eta_le_W.
  unfold u64, k60 in *. lra.
Qed.

Lemma I_bounds : 0 <= I <= (1 + u64) * / (399 / 100 * S) + eta64.
Proof.
  pose proof q_lower as Hq. assert (0 < S) by lra. assert (Hq0 : 0 < q) by lra.
  assert (Hi : 0 < / q) by (apply Rinv_0_lt_compat; exact Hq0).
  assert (Hi2 : / q <= / (399 / 100 * S)) by (apply Rinv_le_contravar; lra).
  unfold I. replace (1 / q) with (/ q) by (unfold Rdiv; ring). split; [apply rnd64_nonneg; lra|].
  pose proof (rnd64_up (/ q)) as Hrnd. rewrite Rabs_pos_eq in Hrnd by lra.
  assert (0 < u64) by (unfold u64; lra).
  assert (u64 * / q <= u64 * / (399 / 100 * S)) by (apply Rmult_le_compat_l; lra). lra.
Qed.

Lemma DI_bounds : 0 <= D * I <= 15 / 16.
Proof.
  pose proof D_bounds as [D0 D1]. pose proof I_bounds as [I0 I1]. assert (HS0 : 0 < S) by lra.
  split; [apply Rmult_le_pos; assumption|].
  apply Rle_trans with (35004 / 10000 * W * I); [apply Rmult_le_compat_r; assumption|].
  apply Rle_trans with (35004 / 10000 * W * ((1 + u64) * / (399 / 100 * S) + eta64)); [apply Rmult_le_compat_l; lra|].
  replace (/ (399 / 100 * S)) with (100 / 399 * / S) by (field; lra).
  assert (HWS : W * / S <= 1).
  { apply Rle_trans with (S * / S); [apply Rmult_le_compat_r; [left; apply Rinv_0_lt_compat; exact HS0|exact HS]|]. right. field. lra. }
  assert (0 <= W * / S) by (apply Rmult_le_pos; [lra|left; apply Rinv_0_lt_compat; exact HS0]).
  pose proof W_eta_le.
  replace (35004 / 10000 * W * ((1 + u64) * (100 / 399 * / S) + eta64))
    with (35004 / 10000 * (1 + u64) * (100 / 399) * (W * / S) + 35004 / 10000 * (W * eta64)) by ring.
  unfold u64, k60 in *. nra.
Qed.

(* magnitudes of the intermediate results (for the absence of overflow) *)
Lemma r_le : r <= 2 * W.
Proof. pose proof r_bounds as [_ H]. pose proof eta_le_W. unfold u64, k60 in *. lra. Qed.

Lemma A_abs : Rabs A <= 1099511627780 * W.
Proof.
  pose proof r_bounds as [Hr0 _]. pose proof r_le as Hr1. pose proof eta_le_W. pose proof A_lower as HA.
  assert (0 <= Rabs a) by apply Rabs_pos.
  assert (Hup : A <= a - r + u64 * (Rabs a + r) + eta64).
  { unfold A. pose proof (rnd64_up (a - r)) as Hu.
    assert (Rabs (a - r) <= Rabs a + r).
    { eapply Rle_trans; [apply Rabs_triang|]. rewrite Rabs_Ropp. rewrite (Rabs_pos_eq r) by lra. lra. }
    assert (0 < u64) by (unfold u64; lra).
    assert (u64 * Rabs (a - r) <= u64 * (Rabs a + r)) by (apply Rmult_le_compat_l; lra). lra. }
  pose proof (Rle_abs a). pose proof (Rle_abs (- a)) as Hn. rewrite Rabs_Ropp in Hn.
  apply Rabs_le. unfold u64, k60 in *. split; lra.
Qed.

Lemma q_upper : q <= 5 * S.
Proof.
  unfold q. pose proof (rnd64_up (4 * S)) as H. rewrite Rabs_pos_eq in H by lra. pose proof eta_le_W.
  unfold u64, k60 in *. lra.
Qed.

Lemma I_upper : I <= bpow radix2 900.
Proof.
  pose proof I_bounds as [_ H]. assert (HS0 : 0 < S) by lra.
  replace (/ (399 / 100 * S)) with (100 / 399 * / S) in H by (field; lra).
  assert (HiS : / S <= bpow radix2 900).
  { apply Rle_trans with (/ bpow radix2 (-900)).
    - apply Rinv_le_contravar; [apply bpow_gt_0|lra].
    - right. replace (bpow radix2 (-900)) with (/ bpow radix2 900) by (symmetry; exact (bpow_opp radix2 900)).
      apply Rinv_inv. }
  assert (0 < / S) by (apply Rinv_0_lt_compat; exact HS0).
  assert (Hb1 : 1 <= bpow radix2 900) by (change 1 with (bpow radix2 0); apply bpow_le; lia).
  assert (He : eta64 <= / 2).
  { unfold eta64. apply Rle_trans with (bpow radix2 (-1)); [apply bpow_le; lia|]. simpl. lra. }
  unfold u64 in *. nra.
Qed.

Theorem t_in_range_real : 1 <= t <= 31 / 16.
Proof.
  pose proof DI_bounds as [H0 H1].
  assert (Y0 : 0 <= y) by (apply rnd64_nonneg; exact H0).
  assert (Y1 : y <= 15 / 16) by (unfold y; rewrite <- (rnd64_id _ fmt64_15_16); apply rnd64_le; exact H1).
  unfold t. split.
  - rewrite <- (rnd64_id _ fmt64_1) at 1. apply rnd64_le. lra.
  - rewrite <- (rnd64_id _ fmt64_31_16). apply rnd64_le. lra.
Qed.
End Range.
