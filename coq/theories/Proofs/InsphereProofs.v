From Coq Require Import ZArith List Lia Ring.
From MV Require Import Model.Insphere.
Import ListNotations.
Open Scope Z_scope.

Lemma wrap64_id x : - 2 ^ 63 <= x < 2 ^ 63 -> wrap64 x = x.
Proof.
  intros H. unfold wrap64. rewrite Z.mod_small by lia. lia.
Qed.

Lemma wrap64_grid x y : 0 <= x < 2 ^ 52 -> 0 <= y < 2 ^ 52 -> wrap64 (x - y) = x - y.
Proof.
  intros Hx Hy. apply wrap64_id.
  assert (2 ^ 52 < 2 ^ 63) by (apply Z.pow_lt_mono_r; lia). lia.
Qed.

Lemma big_int_no_wrap a b : in_grid a -> in_grid b ->
  big_int a b = (let '(x, y, z) := sub3 a b in (x, y, z, n2 (sub3 a b))).
Proof.
  destruct a as [[a0 a1] a2], b as [[b0 b1] b2]. cbn [in_grid].
  intros (H0 & H1 & H2) (G0 & G1 & G2).
  unfold big_int. rewrite !wrap64_grid by assumption. reflexivity.
Qed.

(* the model, with all wraps removed *)
Definition insphere_nowrap (a b c d v : P3) : Z :=
  let lift p := let '(x, y, z) := sub3 p a in (x, y, z, n2 (sub3 p a)) in
  Z.sgn (insphere_det4 (lift b) (lift c) (lift d) (lift v)).

Lemma insphere_no_wrap a b c d v :
  in_grid a -> in_grid b -> in_grid c -> in_grid d -> in_grid v ->
  insphere_model a b c d v = insphere_nowrap a b c d v.
Proof.
  intros Ha Hb Hc Hd Hv. unfold insphere_model, insphere_nowrap.
  rewrite !big_int_no_wrap by assumption. reflexivity.
Qed.

(* the 4x4 cofactor expansion equals the textbook 5x5 determinant *)
Lemma det4_is_det5 a b c d v :
  (let lift p := let '(x, y, z) := sub3 p a in (x, y, z, n2 (sub3 p a)) in
   insphere_det4 (lift b) (lift c) (lift d) (lift v)) = det5_lifted a b c d v.
Proof.
  destruct a as [[a0 a1] a2], b as [[b0 b1] b2], c as [[c0 c1] c2],
           d as [[d0 d1] d2], v as [[v0 v1] v2].
  cbv [det5_lifted laplace lifted_row map drop_nth n2 sub3 insphere_det4 det3 det2].
  ring.
Qed.

Lemma insphere_is_det a b c d v :
  in_grid a -> in_grid b -> in_grid c -> in_grid d -> in_grid v ->
  insphere_model a b c d v = Z.sgn (det5_lifted a b c d v).
Proof.
  intros. rewrite insphere_no_wrap by assumption.
  unfold insphere_nowrap. f_equal. apply det4_is_det5.
Qed.

(* ---- geometric meaning ---- *)

Lemma circum_equidistant a b c d :
  power_scaled a b c d a = 0 /\ power_scaled a b c d b = 0 /\
  power_scaled a b c d c = 0 /\ power_scaled a b c d d = 0.
Proof.
  destruct a as [[a0 a1] a2], b as [[b0 b1] b2], c as [[c0 c1] c2], d as [[d0 d1] d2].
  cbv [power_scaled circum_k circum_o orient3 sub3 n2 dot3 det3 det2].
  repeat split; ring.
Qed.

Lemma det4_power a b c d v :
  (let lift p := let '(x, y, z) := sub3 p a in (x, y, z, n2 (sub3 p a)) in
   circum_k a b c d * insphere_det4 (lift b) (lift c) (lift d) (lift v))
  = orient3 a b c d * power_scaled a b c d v.
Proof.
  destruct a as [[a0 a1] a2], b as [[b0 b1] b2], c as [[c0 c1] c2],
           d as [[d0 d1] d2], v as [[v0 v1] v2].
  cbv [power_scaled circum_k circum_o orient3 sub3 n2 dot3 insphere_det4 det3 det2].
  ring.
Qed.

Lemma sgn_cancel k x y : 0 < k -> k * x = y -> Z.sgn x = Z.sgn y.
Proof.
  intros Hk <-. rewrite Z.sgn_mul. rewrite (Z.sgn_pos k) by assumption. lia.
Qed.

Lemma insphere_is_power a b c d v :
  in_grid a -> in_grid b -> in_grid c -> in_grid d -> in_grid v ->
  0 < orient3 a b c d ->
  insphere_model a b c d v = Z.sgn (power_scaled a b c d v).
Proof.
  intros Ha Hb Hc Hd Hv Ho. rewrite insphere_no_wrap by assumption.
  unfold insphere_nowrap.
  pose proof (det4_power a b c d v) as E. cbv zeta in E |- *.
  set (D := insphere_det4 _ _ _ _) in *.
  set (P := power_scaled a b c d v) in *.
  unfold circum_k in E.
  assert (E' : 2 * D = P) by nia.
  apply (sgn_cancel 2); [lia | exact E'].
Qed.

(* power < 0  <->  strictly closer to the circumcentre than the radius, in k-scaled form:
   | k (p - a) - o |^2 < | o |^2   (k > 0) *)
Lemma power_is_distance a b c d p :
  let k := circum_k a b c d in let o := circum_o a b c d in
  let q := (let '(x, y, z) := sub3 p a in (k * x, k * y, k * z)) in
  n2 (sub3 q o) - n2 o = k * power_scaled a b c d p.
Proof.
  destruct a as [[a0 a1] a2], b as [[b0 b1] b2], c as [[c0 c1] c2],
           d as [[d0 d1] d2], p as [[p0 p1] p2].
  cbv zeta. unfold power_scaled.
  set (k := circum_k _ _ _ _). set (o := circum_o _ _ _ _).
  destruct o as [[o0 o1] o2]. cbv [sub3 n2 dot3]. ring.
Qed.

Theorem insphere_geometric a b c d v :
  in_grid a -> in_grid b -> in_grid c -> in_grid d -> in_grid v ->
  0 < orient3 a b c d ->
  let k := circum_k a b c d in let o := circum_o a b c d in
  let scaled p := (let '(x, y, z) := sub3 p a in (k * x, k * y, k * z)) in
  let dist2c p := n2 (sub3 (scaled p) o) in   (* k^2 |p - centre|^2 *)
  (* a, b, c, d lie on the sphere of (scaled) radius^2 = |o|^2 around the centre *)
  dist2c a = n2 o /\ dist2c b = n2 o /\ dist2c c = n2 o /\ dist2c d = n2 o /\
  (insphere_model a b c d v = -1 <-> dist2c v < n2 o) /\
  (insphere_model a b c d v = 0 <-> dist2c v = n2 o) /\
  (insphere_model a b c d v = 1 <-> dist2c v > n2 o).
Proof.
  intros Ha Hb Hc Hd Hv Ho. cbv zeta.
  assert (Hk : 0 < circum_k a b c d) by (unfold circum_k; lia).
  destruct (circum_equidistant a b c d) as (Ea & Eb & Ec & Ed).
  pose proof (power_is_distance a b c d a) as Pa.
  pose proof (power_is_distance a b c d b) as Pb.
  pose proof (power_is_distance a b c d c) as Pc.
  pose proof (power_is_distance a b c d d) as Pd.
  pose proof (power_is_distance a b c d v) as Pv.
  cbv zeta in Pa, Pb, Pc, Pd, Pv.
  rewrite Ea in Pa. rewrite Eb in Pb. rewrite Ec in Pc. rewrite Ed in Pd.
  rewrite (insphere_is_power a b c d v) by assumption.
  set (P := power_scaled a b c d v) in *.
  set (k := circum_k a b c d) in *.
  repeat split; lia.
Qed.

(* the predicate is alternating in the four sphere points up to orientation sign:
   swapping b and c flips the sign; hence two cells handing the same five grid points to
   the predicate in differently rotated / reflected order get consistent answers *)
Lemma insphere_swap_bc a b c d v :
  in_grid a -> in_grid b -> in_grid c -> in_grid d -> in_grid v ->
  insphere_model a c b d v = - insphere_model a b c d v.
Proof.
  intros. rewrite !insphere_no_wrap by assumption. unfold insphere_nowrap.
  rewrite <- Z.sgn_opp. f_equal.
  destruct a as [[a0 a1] a2], b as [[b0 b1] b2], c as [[c0 c1] c2],
           d as [[d0 d1] d2], v as [[v0 v1] v2].
  cbv [sub3 n2 insphere_det4 det3 det2]. ring.
Qed.

Lemma insphere_rot_bcd a b c d v :
  in_grid a -> in_grid b -> in_grid c -> in_grid d -> in_grid v ->
  insphere_model a c d b v = insphere_model a b c d v.
Proof.
  intros. rewrite !insphere_no_wrap by assumption. unfold insphere_nowrap. f_equal.
  destruct a as [[a0 a1] a2], b as [[b0 b1] b2], c as [[c0 c1] c2],
           d as [[d0 d1] d2], v as [[v0 v1] v2].
  cbv [sub3 n2 insphere_det4 det3 det2]. ring.
Qed.

(* changing the reference point: the sign seen from cell b about (a, c, d, v) *)
Lemma insphere_swap_ab a b c d v :
  in_grid a -> in_grid b -> in_grid c -> in_grid d -> in_grid v ->
  insphere_model b a c d v = - insphere_model a b c d v.
Proof.
  intros. rewrite !insphere_is_det by assumption.
  rewrite <- Z.sgn_opp. f_equal.
  destruct a as [[a0 a1] a2], b as [[b0 b1] b2], c as [[c0 c1] c2],
           d as [[d0 d1] d2], v as [[v0 v1] v2].
  cbv [det5_lifted laplace lifted_row map drop_nth n2]. ring.
Qed.

(* non-vacuity: a concrete positively oriented tetrahedron on the grid *)
Example geometric_hyps_satisfiable :
  in_grid (0,0,0) /\ in_grid (4,0,0) /\ in_grid (0,4,0) /\ in_grid (0,0,4) /\ in_grid (1,1,1) /\
  0 < orient3 (0,0,0) (4,0,0) (0,4,0) (0,0,4) /\
  insphere_model (0,0,0) (4,0,0) (0,4,0) (0,0,4) (1,1,1) = -1 /\
  insphere_model (0,0,0) (4,0,0) (0,4,0) (0,0,4) (4,4,4) = 0 /\
  insphere_model (0,0,0) (4,0,0) (0,4,0) (0,0,4) (5,5,5) = 1.
Proof. cbn [in_grid]. repeat split; try lia; reflexivity. Qed.

(* ---- the grid must be a similarity: the predicate is invariant under translation and isotropic
   scaling of all five points, and NOT under an anisotropic scaling (finding fixed by ab48a7b) *)
Definition similar (k : Z) (t p : P3) : P3 :=
  let '(x, y, z) := p in let '(t0, t1, t2) := t in (k * x + t0, k * y + t1, k * z + t2).

Lemma insphere_similarity_invariant k t a b c d v : 0 < k ->
  insphere_nowrap (similar k t a) (similar k t b) (similar k t c) (similar k t d) (similar k t v)
  = insphere_nowrap a b c d v.
Proof.
  intros Hk. unfold insphere_nowrap.
  destruct a as [[a0 a1] a2], b as [[b0 b1] b2], c as [[c0 c1] c2],
           d as [[d0 d1] d2], v as [[v0 v1] v2], t as [[t0 t1] t2].
  cbv [similar sub3 n2].
  set (D := insphere_det4 (b0 - a0, b1 - a1, b2 - a2, _) _ _ _).
  match goal with |- Z.sgn ?L = _ => replace L with (k * k * k * k * k * D) end.
  - rewrite Z.sgn_mul. rewrite Z.sgn_pos by nia. lia.
  - unfold D. cbv [insphere_det4 det3 det2]. ring.
Qed.

Example anisotropic_scaling_changes_the_answer :
  let a := (0, 0, 0) in let b := (2, 0, 0) in let c := (0, 2, 0) in let d := (0, 0, 2) in let v := (-1, 1, 1) in
  let stretch p := (let '(x, y, z) := p in (x, y, 3 * z)) in
  insphere_nowrap a b c d v = 1 /\
  insphere_nowrap (stretch a) (stretch b) (stretch c) (stretch d) (stretch v) = -1.
Proof. vm_compute. split; reflexivity. Qed.
