(* with_faces / sort_face_vertices: the walk around a face only reorders the face's vertices (none lost, none duplicated),
   and keeps the first one in place. *)
From Coq Require Import List Arith Lia Bool Permutation ZArith.
From MV Require Import Model.Cycle Model.CellExact.
Import ListNotations.
Close Scope Z_scope.

Lemma count_occ_upd (l : list nat) : forall i x y, i < length l ->
  (count_occ Nat.eq_dec (upd l i x) y + (if Nat.eq_dec (nth i l 0) y then 1 else 0) =
   count_occ Nat.eq_dec l y + (if Nat.eq_dec x y then 1 else 0))%nat.
Proof.
  induction l as [|h t IH]; intros i x y Hi; [cbn in Hi; lia|].
  destruct i as [|i]; cbn [upd nth count_occ].
  - destruct (Nat.eq_dec x y), (Nat.eq_dec h y); lia.
  - cbn [length] in Hi. specialize (IH i x y ltac:(lia)). destruct (Nat.eq_dec h y); lia.
Qed.

Lemma length_upd_nat (l : list nat) i x : length (upd l i x) = length l.
Proof. revert i. induction l as [|h t IH]; intros [|i]; cbn; auto. Qed.

Lemma nth_upd_same_nat (l : list nat) i x : i < length l -> nth i (upd l i x) 0 = x.
Proof. revert i. induction l as [|h t IH]; intros [|i] H; cbn in *; try lia; auto. apply IH. lia. Qed.

Lemma nth_upd_other_nat (l : list nat) i j x : i <> j -> nth j (upd l i x) 0 = nth j l 0.
Proof. revert i j. induction l as [|h t IH]; intros [|i] [|j] H; cbn; auto; try lia. Qed.

Lemma nth_firstn_lt_nat (l : list nat) i n : i < n -> nth i (firstn n l) 0 = nth i l 0.
Proof. revert i n. induction l as [|h t IH]; intros [|i] [|n] H; cbn; auto; try lia. apply IH. lia. Qed.

Lemma swap_perm (l : list nat) i j : i < length l -> j < length l -> Permutation l (swap 0 l i j).
Proof.
  intros Hi Hj. apply Permutation_count_occ with (eq_dec := Nat.eq_dec). intros y. unfold swap.
  pose proof (count_occ_upd l i (nth j l 0) y Hi) as A.
  pose proof (count_occ_upd (upd l i (nth j l 0)) j (nth i l 0) y ltac:(rewrite length_upd_nat; exact Hj)) as B.
  destruct (Nat.eq_dec i j) as [->|N].
  - rewrite nth_upd_same_nat in B by exact Hj. destruct (Nat.eq_dec (nth j l 0) y); lia.
  - rewrite nth_upd_other_nat in B by exact N. destruct (Nat.eq_dec (nth j l 0) y), (Nat.eq_dec (nth i l 0) y); lia.
Qed.

Lemma find_next_range vs : forall vi pos np t, find_next vs vi pos np = Some t -> pos <= t < pos + length vi.
Proof.
  induction vi as [|x r IH]; intros pos np t H; cbn [find_next] in H; [discriminate|].
  destruct (dual_has (vd (nth x vs vdefault)) np); [inversion H; subst; cbn [length]; lia|].
  apply IH in H. cbn [length]. lia.
Qed.

Lemma sort_loop_perm vs p : forall fuel vi cur np vi', cur <= length vi ->
  sort_loop fuel vs p vi cur np = Some vi' ->
  Permutation vi vi' /\ firstn cur vi' = firstn cur vi.
Proof.
  induction fuel as [|f IH]; intros vi cur np vi' Hc H; cbn [sort_loop] in H; [inversion H; subst; split; reflexivity|].
  destruct (Nat.ltb_spec cur (pred (length vi))) as [L|G]; [|inversion H; subst; split; reflexivity].
  destruct (find_next vs (skipn cur vi) cur np) as [t|] eqn:Ef; [|discriminate].
  pose proof (find_next_range _ _ _ _ _ Ef) as Ht. rewrite skipn_length in Ht.
  assert (Hsw : Permutation vi (swap 0 vi cur t)) by (apply swap_perm; lia).
  apply IH in H; [|rewrite <- (Permutation_length Hsw); lia]. destruct H as [P F]. split.
  - eapply Permutation_trans; [exact Hsw|exact P].
  - assert (F' : firstn cur vi' = firstn cur (swap 0 vi cur t)).
    { replace (firstn cur vi') with (firstn cur (firstn (S cur) vi')) by (rewrite firstn_firstn; f_equal; lia).
      rewrite F. rewrite firstn_firstn. f_equal. lia. }
    rewrite F'. unfold swap.
    (* entries below cur are untouched by the two updates at cur <= t *)
    apply nth_ext with (d := 0) (d' := 0).
    + rewrite !firstn_length, !length_upd_nat. reflexivity.
    + intros n Hn. rewrite firstn_length in Hn. rewrite !length_upd_nat in Hn.
      rewrite !nth_firstn_lt_nat by lia. rewrite !nth_upd_other_nat by lia. reflexivity.
Qed.

Theorem sort_face_vertices_perm vs p vi vi' : sort_face_vertices vs p vi = Some vi' ->
  Permutation vi vi' /\ hd_error vi' = hd_error vi.
Proof.
  unfold sort_face_vertices. destruct vi as [|x r]; intros H; [inversion H; subst; split; reflexivity|].
  apply sort_loop_perm in H; [|cbn [length]; lia]. destruct H as [P F]. split; [exact P|].
  destruct vi' as [|y r']; [apply Permutation_sym, Permutation_nil in P; discriminate|]. cbn in F. inversion F; subst. reflexivity.
Qed.

(* ---------- consecutive vertices of the sorted list share the plane the walk was looking for: they are joined by an edge
   of the face (the last pair is placed by elimination: the loop stops one short, as the code does) *)
Definition np_of (vs : list vertex) (p : nat) (x : nat) : nat :=
  let v := nth x vs vdefault in dual_get (vd v) (S (dual_idx (vd v) p)).
Definition adj (vs : list vertex) (p : nat) (vi : list nat) (k : nat) : Prop :=
  dual_has (vd (nth (nth (S k) vi 0) vs vdefault)) (np_of vs p (nth k vi 0)) = true.

Lemma find_next_has vs : forall vi pos np t, find_next vs vi pos np = Some t ->
  dual_has (vd (nth (nth (t - pos) vi 0) vs vdefault)) np = true.
Proof.
  induction vi as [|x r IH]; intros pos np t H; cbn [find_next] in H; [discriminate|].
  destruct (dual_has (vd (nth x vs vdefault)) np) eqn:E.
  - inversion H; subst. rewrite Nat.sub_diag. exact E.
  - pose proof (find_next_range _ _ _ _ _ H) as R. apply IH in H.
    replace (t - pos) with (S (t - S pos)) by lia. exact H.
Qed.

Lemma nth_skipn_nat (l : list nat) n i : nth i (skipn n l) 0 = nth (n + i) l 0.
Proof. revert l. induction n as [|n IH]; intros l; [reflexivity|]. destruct l as [|h t]; [destruct i; reflexivity|]. apply IH. Qed.

Lemma adj_ext vs p vi vi' k : firstn (S (S k)) vi' = firstn (S (S k)) vi -> adj vs p vi k -> adj vs p vi' k.
Proof.
  intros F H. unfold adj in *.
  assert (E1 : nth (S k) vi' 0 = nth (S k) vi 0) by (rewrite <- (nth_firstn_lt_nat vi' (S k) (S (S k))), <- (nth_firstn_lt_nat vi (S k) (S (S k))) by lia; rewrite F; reflexivity).
  assert (E0 : nth k vi' 0 = nth k vi 0) by (rewrite <- (nth_firstn_lt_nat vi' k (S (S k))), <- (nth_firstn_lt_nat vi k (S (S k))) by lia; rewrite F; reflexivity).
  rewrite E1, E0. exact H.
Qed.

Lemma sort_loop_adj vs p : forall fuel vi cur np vi', 1 <= cur <= length vi ->
  np = np_of vs p (nth (cur - 1) vi 0) ->
  (forall k, S k < cur -> adj vs p vi k) ->
  length vi - cur <= fuel ->
  sort_loop fuel vs p vi cur np = Some vi' ->
  forall k, S k < pred (length vi') \/ S k < cur -> adj vs p vi' k.
Proof.
  induction fuel as [|f IH]; intros vi cur np vi' Hc Hnp Hadj Hf H k Hk; cbn [sort_loop] in H.
  - inversion H; subst. apply Hadj. lia.
  - destruct (Nat.ltb_spec cur (pred (length vi))) as [L|G]; [|inversion H; subst; apply Hadj; lia].
    destruct (find_next vs (skipn cur vi) cur np) as [t|] eqn:Ef; [|discriminate].
    pose proof (find_next_range _ _ _ _ _ Ef) as Ht. rewrite skipn_length in Ht.
    pose proof (find_next_has _ _ _ _ _ Ef) as Hh. rewrite nth_skipn_nat in Hh. replace (cur + (t - cur)) with t in Hh by lia.
    set (vi1 := swap 0 vi cur t) in *.
    assert (L1 : length vi1 = length vi) by (unfold vi1, swap; rewrite !length_upd_nat; reflexivity).
    assert (Ecur : nth cur vi1 0 = nth t vi 0).
    { unfold vi1, swap. destruct (Nat.eq_dec cur t) as [->|N].
      - rewrite nth_upd_same_nat by (rewrite length_upd_nat; lia). reflexivity.
      - rewrite nth_upd_other_nat by lia. rewrite nth_upd_same_nat by lia. reflexivity. }
    assert (Elow : forall n, n < cur -> nth n vi1 0 = nth n vi 0).
    { intros n Hn. unfold vi1, swap. rewrite !nth_upd_other_nat by lia. reflexivity. }
    eapply (IH vi1 (S cur) _ vi'); [rewrite L1; lia| | |rewrite L1; lia|exact H|].
    + replace (S cur - 1) with cur by lia. unfold np_of. rewrite Ecur. reflexivity.
    + intros k' Hk'. unfold adj. destruct (Nat.eq_dec (S k') cur) as [E|N].
      * rewrite E, Ecur. rewrite Elow by lia.
        replace k' with (cur - 1) by lia. rewrite <- Hnp. exact Hh.
      * rewrite !Elow by lia. apply Hadj. lia.
    + destruct Hk as [Hk|Hk]; [left; exact Hk|right; lia].
Qed.

Theorem sort_face_vertices_walk vs p vi vi' : sort_face_vertices vs p vi = Some vi' ->
  forall k, S k < pred (length vi') -> adj vs p vi' k.
Proof.
  unfold sort_face_vertices. destruct vi as [|x r]; intros H k Hk; [inversion H; subst; cbn in Hk; lia|].
  eapply (sort_loop_adj vs p (length (x :: r)) (x :: r) 1 _ vi'); [cbn [length]; lia|reflexivity| |lia|exact H|left; exact Hk].
  intros k' Hk'. lia.
Qed.
