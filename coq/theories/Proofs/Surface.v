(* Closed oriented triangle surfaces over Z^3: the signed cone sum (6 x volume), the vector
   area sum and the divergence sum; apex independence by edge cancellation. *)
From Coq Require Import ZArith List Lia Permutation Bool.
From MV Require Import Proofs.GeomLemmas.
Import ListNotations.
Open Scope Z_scope.

Definition tri := (P3 * P3 * P3)%type.
Definition edge := (P3 * P3)%type.

Definition tri_edges (t : tri) : list edge := let '(p, q, r) := t in [(p, q); (q, r); (r, p)].
Definition edges (ts : list tri) : list edge := flat_map tri_edges ts.
Definition swap_edge (e : edge) : edge := (snd e, fst e).

(* every directed edge is matched by its reverse: the surface has no boundary *)
Definition closed (ts : list tri) : Prop := Permutation (edges ts) (map swap_edge (edges ts)).

Definition zsum (l : list Z) : Z := fold_right Z.add 0 l.

Lemma zsum_app a b : zsum (a ++ b) = zsum a + zsum b.
Proof. unfold zsum. induction a; cbn [fold_right app]; lia. Qed.

Lemma zsum_perm a b : Permutation a b -> zsum a = zsum b.
Proof. unfold zsum. induction 1; cbn [fold_right]; lia. Qed.

(* cone sum with apex g: sum of 6 x signed volume of (p, q, r, g) *)
Definition cone6 (g : P3) (ts : list tri) : Z := zsum (map (fun '(p, q, r) => vol6 p q r g) ts).

Definition side (g h : P3) (e : edge) : Z := vol6 (fst e) (snd e) g h.

Lemma cone6_cons g p q r ts : cone6 g ((p, q, r) :: ts) = vol6 p q r g + cone6 g ts.
Proof. reflexivity. Qed.

Lemma zsum3 a b c : zsum [a; b; c] = a + b + c.
Proof. unfold zsum. cbn [fold_right]. lia. Qed.

Lemma cone_diff g h ts : cone6 g ts - cone6 h ts = - zsum (map (side g h) (edges ts)).
Proof.
  induction ts as [|[[p q] r] t IH]; [reflexivity|].
  rewrite !cone6_cons. change (edges ((p, q, r) :: t)) with (tri_edges (p, q, r) ++ edges t).
  rewrite map_app, zsum_app. cbn [tri_edges map]. rewrite zsum3. unfold side at 1 2 3. cbn [fst snd].
  pose proof (five_point p q r g h). lia.
Qed.

Lemma side_swap g h e : side g h (swap_edge e) = - side g h e.
Proof. destruct e as [p q]. unfold side, swap_edge. cbn [fst snd]. apply side_term_antisym. Qed.

Lemma zsum_map_opp {A} (f : A -> Z) l : zsum (map (fun x => - f x) l) = - zsum (map f l).
Proof. unfold zsum. induction l; cbn [fold_right map]; lia. Qed.

(* the signed decomposition of a closed surface into cones does not depend on the apex *)
Theorem apex_independence g h ts : closed ts -> cone6 g ts = cone6 h ts.
Proof.
  intros Hc. pose proof (cone_diff g h ts) as D.
  set (S := zsum (map (side g h) (edges ts))) in *.
  assert (E : S = - S).
  { unfold S at 1. rewrite (zsum_perm _ _ (Permutation_map (side g h) Hc)).
    rewrite map_map. rewrite (map_ext _ (fun e => - side g h e)) by (intros; apply side_swap).
    apply zsum_map_opp. }
  lia.
Qed.

(* vector area: 2 A = p x q + q x r + r x p, a sum over directed edges of an antisymmetric term *)
Definition cross_x (p q : P3) : Z := let '(p1, p2, p3) := p in let '(q1, q2, q3) := q in p2 * q3 - p3 * q2.
Definition cross_y (p q : P3) : Z := let '(p1, p2, p3) := p in let '(q1, q2, q3) := q in p3 * q1 - p1 * q3.
Definition cross_z (p q : P3) : Z := let '(p1, p2, p3) := p in let '(q1, q2, q3) := q in p1 * q2 - p2 * q1.

Definition area2_x (t : tri) : Z := let '(p, q, r) := t in cross_x p q + cross_x q r + cross_x r p.
Definition area2_y (t : tri) : Z := let '(p, q, r) := t in cross_y p q + cross_y q r + cross_y r p.
Definition area2_z (t : tri) : Z := let '(p, q, r) := t in cross_z p q + cross_z q r + cross_z r p.

(* it is (q - p) x (r - p) *)
Lemma area2_is_cross p q r :
  let '(p1, p2, p3) := p in let '(q1, q2, q3) := q in let '(r1, r2, r3) := r in
  area2_x (p, q, r) = (q2 - p2) * (r3 - p3) - (q3 - p3) * (r2 - p2) /\
  area2_y (p, q, r) = (q3 - p3) * (r1 - p1) - (q1 - p1) * (r3 - p3) /\
  area2_z (p, q, r) = (q1 - p1) * (r2 - p2) - (q2 - p2) * (r1 - p1).
Proof.
  destruct p as [[? ?] ?], q as [[? ?] ?], r as [[? ?] ?]. cbv [area2_x area2_y area2_z cross_x cross_y cross_z].
  repeat split; ring.
Qed.

Section EdgeSum.
Variable f : P3 -> P3 -> Z.
Hypothesis f_antisym : forall p q, f q p = - f p q.
Definition tri_f (t : tri) : Z := let '(p, q, r) := t in f p q + f q r + f r p.
Definition esum (ts : list tri) : Z := zsum (map tri_f ts).
Lemma zsum_cons x l : zsum (x :: l) = x + zsum l.
Proof. reflexivity. Qed.
Definition ef (e : edge) : Z := f (fst e) (snd e).
Lemma esum_edges ts : esum ts = zsum (map ef (edges ts)).
Proof.
  unfold esum. induction ts as [|[[p q] r] t IH]; [reflexivity|].
  change (edges ((p, q, r) :: t)) with (tri_edges (p, q, r) ++ edges t).
  rewrite map_app, zsum_app, <- IH. cbn [tri_edges map]. rewrite zsum3, zsum_cons. unfold ef. cbn [fst snd tri_f]. lia.
Qed.
Lemma esum_closed ts : closed ts -> esum ts = 0.
Proof.
  intros Hc. rewrite esum_edges.
  assert (E : zsum (map ef (edges ts)) = - zsum (map ef (edges ts))).
  { rewrite (zsum_perm _ _ (Permutation_map ef Hc)) at 1. rewrite map_map.
    rewrite (map_ext _ (fun e => - ef e)); [apply zsum_map_opp|].
    intros [p q]. unfold ef, swap_edge. cbn [fst snd]. apply f_antisym. }
  lia.
Qed.
End EdgeSum.

(* the vector areas of a closed surface sum to zero *)
Theorem closed_surface_area_sum ts : closed ts ->
  zsum (map area2_x ts) = 0 /\ zsum (map area2_y ts) = 0 /\ zsum (map area2_z ts) = 0.
Proof.
  intros Hc. repeat split.
  - apply (esum_closed cross_x); [|assumption]. intros [[? ?] ?] [[? ?] ?]. cbn. ring.
  - apply (esum_closed cross_y); [|assumption]. intros [[? ?] ?] [[? ?] ?]. cbn. ring.
  - apply (esum_closed cross_z); [|assumption]. intros [[? ?] ?] [[? ?] ?]. cbn. ring.
Qed.

(* divergence theorem, per triangle: (2 A) . (p + q + r - 3 g) = 3 * (6 V(p,q,r,g)) up to the sign
   convention of vol6 (apex g seen from the positive side gives a negative cone) *)
Theorem tri_divergence p q r g :
  let '(p1, p2, p3) := p in let '(q1, q2, q3) := q in let '(r1, r2, r3) := r in let '(g1, g2, g3) := g in
  area2_x (p, q, r) * (p1 + q1 + r1 - 3 * g1) + area2_y (p, q, r) * (p2 + q2 + r2 - 3 * g2) +
  area2_z (p, q, r) * (p3 + q3 + r3 - 3 * g3) = - 3 * vol6 p q r g.
Proof.
  destruct p as [[? ?] ?], q as [[? ?] ?], r as [[? ?] ?], g as [[? ?] ?].
  cbv [area2_x area2_y area2_z cross_x cross_y cross_z vol6 det3z]. ring.
Qed.

(* ---------- a boolean check of closedness (used for examples and for per-run validation) *)
Definition p3_eqb (a b : P3) : bool :=
  let '(a1, a2, a3) := a in let '(b1, b2, b3) := b in (a1 =? b1) && (a2 =? b2) && (a3 =? b3).
Definition edge_eqb (a b : edge) : bool := p3_eqb (fst a) (fst b) && p3_eqb (snd a) (snd b).

Lemma p3_eqb_eq a b : p3_eqb a b = true -> a = b.
Proof.
  destruct a as [[? ?] ?], b as [[? ?] ?]. cbn. rewrite !andb_true_iff, !Z.eqb_eq. intros [[-> ->] ->]. reflexivity.
Qed.
Lemma edge_eqb_eq a b : edge_eqb a b = true -> a = b.
Proof.
  destruct a, b. unfold edge_eqb. cbn [fst snd]. rewrite andb_true_iff. intros [H1 H2].
  apply p3_eqb_eq in H1. apply p3_eqb_eq in H2. congruence.
Qed.

Fixpoint remove1 (x : edge) (l : list edge) : option (list edge) :=
  match l with
  | [] => None
  | y :: t => if edge_eqb x y then Some t else match remove1 x t with Some r => Some (y :: r) | None => None end
  end.

Fixpoint permb (l l' : list edge) : bool :=
  match l with
  | [] => match l' with [] => true | _ => false end
  | x :: t => match remove1 x l' with Some r => permb t r | None => false end
  end.

Lemma remove1_perm x l r : remove1 x l = Some r -> Permutation l (x :: r).
Proof.
  revert r. induction l as [|y t IH]; intros r; cbn [remove1]; [discriminate|].
  destruct (edge_eqb x y) eqn:E.
  - intros H. inversion H; subst. apply edge_eqb_eq in E. subst. apply Permutation_refl.
  - destruct (remove1 x t) as [r'|]; [|discriminate]. intros H. inversion H; subst.
    eapply perm_trans; [apply perm_skip, IH; reflexivity | apply perm_swap].
Qed.

Lemma permb_sound l : forall l', permb l l' = true -> Permutation l l'.
Proof.
  induction l as [|x t IH]; intros l'; cbn [permb].
  - destruct l'; [constructor | discriminate].
  - destruct (remove1 x l') as [r|] eqn:E; [|discriminate]. intros H.
    apply remove1_perm in E. eapply perm_trans; [apply perm_skip, IH, H | apply Permutation_sym, E].
Qed.

Definition closedb (ts : list tri) : bool := permb (edges ts) (map swap_edge (edges ts)).
Theorem closedb_sound ts : closedb ts = true -> closed ts.
Proof. apply permb_sound. Qed.

(* non-vacuity: the boundary of a tetrahedron is closed, and its cone sum is apex independent *)
Example tetra_closed :
  let a := (0,0,0) in let b := (4,0,0) in let c := (0,4,0) in let d := (0,0,4) in
  let ts := [(a, c, b); (a, b, d); (a, d, c); (b, c, d)] in
  closed ts /\ cone6 (1,1,1) ts = cone6 (100,-7,3) ts /\ cone6 (1,1,1) ts = -64.
Proof.
  cbv zeta. split; [apply closedb_sound; vm_compute; reflexivity|]. split; vm_compute; reflexivity.
Qed.

Lemma sum_of_cells_is_union : forall (cells : list (P3 * list tri)) (h : P3),
  Forall (fun c => closed (snd c)) cells ->
  zsum (map (fun c => cone6 (fst c) (snd c)) cells) = cone6 h (flat_map (fun c => snd c) cells).
Proof.
  intros cells h Hc. induction cells as [|[g ts] t IH]; [reflexivity|].
  inversion Hc as [|? ? Hts Ht]; subst. cbn [map flat_map fst snd].
  assert (A : forall a b, cone6 h (a ++ b) = cone6 h a + cone6 h b) by (intros; unfold cone6; now rewrite map_app, zsum_app).
  rewrite A, <- (IH Ht), zsum_cons. cbn [fst snd]. rewrite (apex_independence g h ts Hts). reflexivity.
Qed.

Lemma opposite_triangles_cancel : forall (h p q r : P3), vol6 p q r h + vol6 q p r h = 0.
Proof.
  intros [[? ?] ?] [[? ?] ?] [[? ?] ?] [[? ?] ?]. unfold vol6, det3z. ring.
Qed.

(* 1D: cells are the intervals between consecutive midpoints; lengths telescope to the width.
   (coordinates doubled to stay in Z: 2*lo, 2*hi, generators 2*x_i sorted strictly increasing) *)
Fixpoint cuts (lo2 hi2 : Z) (xs : list Z) : list Z :=   (* cell boundaries, doubled *)
  match xs with
  | [] => [hi2]
  | x :: t => match t with [] => [hi2] | y :: _ => (x + y) / 1 :: cuts lo2 hi2 t end
  end.
Fixpoint lengths (left : Z) (bs : list Z) : list Z :=
  match bs with [] => [] | b :: t => (b - left) :: lengths b t end.
Lemma tiling_1d : forall lo2 hi2 xs,
  zsum (lengths lo2 (cuts lo2 hi2 xs)) = hi2 - lo2.
Proof.
  intros lo2 hi2 xs.
  assert (G : forall left bs, bs <> [] -> zsum (lengths left bs) = last bs 0 - left).
  { intros left bs. revert left. induction bs as [|b t IH]; intros left Hne; [congruence|].
    cbn [lengths]. rewrite zsum_cons. destruct t as [|b' t']; [cbn; unfold zsum; cbn; lia|].
    rewrite IH by discriminate. cbn [last]. lia. }
  assert (L : forall xs, cuts lo2 hi2 xs <> [] /\ last (cuts lo2 hi2 xs) 0 = hi2).
  { induction xs0 as [|x t IH]; cbn [cuts]; [split; [discriminate|reflexivity]|].
    destruct t as [|y t']; [split; [discriminate|reflexivity]|].
    destruct IH as [Hne Hl]. split; [discriminate|].
    cbn [last]. destruct (cuts lo2 hi2 (y :: t')) eqn:E; [congruence|]. exact Hl. }
  destruct (L xs) as [Hne Hl]. rewrite (G lo2 _ Hne), Hl. reflexivity.
Qed.
