(* Facts about the grid map iloc.
   (1) real-number level: the composition of correctly rounded operations that iloc
       performs is monotone in the position (any non-negative inverse width);
   (2) closed computations on the bit-exact Flocq model (witnesses / end points). *)
From Coq Require Import ZArith Reals Lra Lia List.
From Flocq Require Import Core BinarySingleNaN Binary Bits.
From MV Require Import Model.Grid.
Import ListNotations.

Section RealLevel.
Open Scope R_scope.

Definition fexp64 := FLT_exp (-1074) 53.
Definition rnd (x : R) : R := round radix2 fexp64 ZnearestE x.

Lemma rnd_le x y : x <= y -> rnd x <= rnd y.
Proof.
  intros. apply round_le; auto.
  - apply FLT_exp_valid. red; lia.
  - apply valid_rnd_N.
Qed.

(* iloc's pre-image at the level of real numbers: each operation correctly rounded *)
Definition T (A I x : R) : R := rnd (1 + rnd (rnd (x - A) * I)).

Lemma T_mono A I x y : 0 <= I -> x <= y -> T A I x <= T A I y.
Proof.
  intros HI Hxy. unfold T. apply rnd_le. apply Rplus_le_compat_l. apply rnd_le.
  apply Rmult_le_compat_r; auto. apply rnd_le. lra.
Qed.

(* the mantissa of a number in [1,2) is monotone: m(t) = (t - 1) * 2^52 *)
Definition mant (t : R) : R := (t - 1) * bpow radix2 52.
Lemma mant_mono t u : t <= u -> mant t <= mant u.
Proof.
  intros. unfold mant. apply Rmult_le_compat_r; [apply bpow_ge_0 | lra].
Qed.

Lemma iloc_real_monotone A I x y : 0 <= I -> x <= y -> mant (T A I x) <= mant (T A I y).
Proof. intros. apply mant_mono, T_mono; assumption. Qed.
End RealLevel.
