(* The converse of C01 in 1D and 2D: the unused coordinates of the generator and of every site are zero (the code
   projects them away, the correspondence feeds the model the projected positions), so "closer" only depends on the
   active coordinates, in which the safety radius is measured. *)
From Coq Require Import ZArith List Lia Bool Psatz Sorted.
From MV Require Import Model.Cycle Model.CellExact Proofs.CellProofs Proofs.HullProofs Proofs.GeomLemmas Proofs.Feasible.
Import ListNotations.
Open Scope Z_scope.

(* the coordinates beyond `dim` are zero *)
Definition flat (dim : Z) (v : V3) : Prop :=
  let '(x, y, z) := v in (dim =? 1 = true -> y = 0 /\ z = 0) /\ (dim =? 2 = true -> z = 0).

Lemma far_site_feasible_dim dim g s (p : hpoint) (rn rd : Z) : flat dim g -> flat dim (site_pos s) ->
  0 < snd p -> 0 < rd -> rle (radius2 dim g p) (rn, rd) -> 4 * rn < dist2 g s * rd -> 0 <= side (bisector g s) p.
Proof.
  intros Fg Fs Hw Hrd Hle Hfar. apply bisector_side; [exact Hw|]. unfold closer.
  destruct p as [x w], s as [[id sh] pos]. cbn [snd site_pos] in *. unfold hdist2, hrel_to. unfold dist2 in Hfar.
  destruct g as [[g1 g2] g3], x as [[x1 x2] x3], pos as [[p1 p2] p3].
  unfold rle, radius2, proj_dim, vsub, vscale in Hle. unfold flat in Fg, Fs.
  unfold norm2, dot, vsub, vscale in *.
  destruct (dim =? 1) eqn:E1; [|destruct (dim =? 2) eqn:E2].
  - destruct Fg as [Fg _], Fs as [Fs _]. destruct (Fg eq_refl) as [-> ->]. destruct (Fs eq_refl) as [-> ->].
    cbv beta iota in Hle. cbn [fst snd] in Hle.
    pose proof (far_site_redundant (w * g1, 0, 0) (x1, 0, 0) (w * p1, 0, 0) (4 * ((x1 - w * g1) * (x1 - w * g1)))) as F.
    unfold d2, sq3 in F. pose proof (Z.square_nonneg (x1 - w * g1)).
    assert (Hw2 : 0 < w * w) by nia.
    assert (S1 : 4 * ((x1 - w * g1) * (x1 - w * g1)) * rd <= 4 * rn * (w * w)) by nia.
    assert (S2 : 4 * rn * (w * w) < ((g1 - p1) * (g1 - p1) + (0 - 0) * (0 - 0) + (0 - 0) * (0 - 0)) * rd * (w * w)) by (apply Z.mul_lt_mono_pos_r; [exact Hw2|lia]).
    assert (Hq : 4 * ((x1 - w * g1) * (x1 - w * g1)) < (w * p1 - w * g1) * (w * p1 - w * g1) + (0 - 0) * (0 - 0) + (0 - 0) * (0 - 0)).
    { apply (Z.mul_lt_mono_pos_r rd); [exact Hrd|]. nia. }
    specialize (F ltac:(lia) ltac:(nia) Hq). nia.
  - destruct Fg as [_ Fg], Fs as [_ Fs]. specialize (Fg eq_refl). specialize (Fs eq_refl). subst g3 p3.
    cbv beta iota in Hle. cbn [fst snd] in Hle.
    pose proof (far_site_redundant (w * g1, w * g2, 0) (x1, x2, 0) (w * p1, w * p2, 0)
                  (4 * ((x1 - w * g1) * (x1 - w * g1) + (x2 - w * g2) * (x2 - w * g2)))) as F.
    unfold d2, sq3 in F. pose proof (Z.square_nonneg (x1 - w * g1)). pose proof (Z.square_nonneg (x2 - w * g2)).
    assert (Hw2 : 0 < w * w) by nia.
    set (A := (x1 - w * g1) * (x1 - w * g1) + (x2 - w * g2) * (x2 - w * g2)) in *.
    assert (HA : A + 0 * 0 = A) by ring.
    assert (S1 : 4 * A * rd <= 4 * rn * (w * w)) by nia.
    assert (S2 : 4 * rn * (w * w) < ((g1 - p1) * (g1 - p1) + (g2 - p2) * (g2 - p2) + (0 - 0) * (0 - 0)) * rd * (w * w)) by (apply Z.mul_lt_mono_pos_r; [exact Hw2|lia]).
    assert (Hq : 4 * A < (w * p1 - w * g1) * (w * p1 - w * g1) + (w * p2 - w * g2) * (w * p2 - w * g2) + (0 - 0) * (0 - 0)).
    { apply (Z.mul_lt_mono_pos_r rd); [exact Hrd|]. nia. }
    specialize (F ltac:(lia) ltac:(unfold A; nia) Hq). unfold A in F. nia.
  - (* three active coordinates: the 3D lemma *)
    assert (E3 : radius2 dim (g1, g2, g3) ((x1, x2, x3), w) = radius2 3 (g1, g2, g3) ((x1, x2, x3), w)).
    { unfold radius2, proj_dim. rewrite E1, E2. reflexivity. }
    pose proof (far_site_feasible (g1, g2, g3) (id, sh, (p1, p2, p3)) ((x1, x2, x3), w) rn rd Hw Hrd) as F3.
    unfold rle in F3. rewrite <- E3 in F3. unfold radius2, proj_dim, vsub, vscale, norm2, dot in F3. rewrite E1, E2 in F3.
    specialize (F3 Hle). unfold dist2, norm2, dot, vsub in F3. specialize (F3 Hfar).
    apply bisector_side in F3; [|exact Hw]. unfold closer, hdist2, hrel_to, site_pos, norm2, dot, vsub, vscale in F3. exact F3.
Qed.

Theorem build_vertices_feasible dim lo hi g sites c :
  (let '(lx, ly, lz) := lo in let '(hx, hy, hz) := hi in lx < hx /\ ly < hy /\ lz < hz) ->
  flat dim g -> Forall (fun s => flat dim (site_pos s)) sites ->
  StronglySorted (fun a b => dist2 g a <= dist2 g b) sites ->
  build_regular dim g sites 0 (cell_init lo hi) -> build dim lo hi g sites = Some c ->
  Forall (fun v => 0 < snd (vloc v) /\ Forall (fun r => 0 <= side r (vloc v)) (walls lo hi) /\
                   forall s, In s sites -> 0 <= side (bisector g s) (vloc v)) (cverts c).
Proof.
  intros Hbox Fg Fs Hsort Hreg H.
  destruct (build_feasible dim lo hi g sites c Hbox Hreg H) as (k & Hk & Hf & Hstop).
  assert (Hw : Forall (fun v => 0 < snd (vloc v)) (cverts c)).
  { eapply Forall_impl; [|exact Hf]. intros v [A _]. exact A. }
  destruct (max_radius2_ge dim g (cverts c) Hw) as [Hrd Hmax].
  rewrite Forall_forall in *. intros v Hv. destruct (Hf v Hv) as [Wv Qv]. apply Forall_app in Qv. destruct Qv as [Qpre Qwalls].
  split; [exact Wv|]. split; [exact Qwalls|]. intros s Hs.
  rewrite Forall_forall in Qpre.
  destruct Hstop as [->|(sk & Hsk & Hrad)].
  - rewrite firstn_all in Qpre. apply Qpre. rewrite <- in_rev. apply in_map. exact Hs.
  - destruct (nth_error_split sites k Hsk) as (l1 & l2 & E & L1). subst sites.
    rewrite <- L1, firstn_app, Nat.sub_diag, firstn_all in Qpre. cbn [firstn] in Qpre. rewrite app_nil_r in Qpre.
    pose proof (Fs s Hs) as Fss.
    apply in_app_or in Hs. destruct Hs as [Hs|Hs].
    + apply Qpre. rewrite <- in_rev. apply in_map. exact Hs.
    + assert (Hd : dist2 g sk <= dist2 g s).
      { destruct Hs as [<-|Hs]; [lia|]. apply ssorted_app_r in Hsort. inversion Hsort as [|? ? _ Hall]; subst.
        rewrite Forall_forall in Hall. apply Hall. exact Hs. }
      destruct (max_radius2 dim g (cverts c)) as [rn rd] eqn:Em. cbn [snd] in Hrd.
      apply (far_site_feasible_dim dim g s (vloc v) rn rd Fg Fss Wv Hrd (Hmax v Hv)). nia.
Qed.

Corollary build_hull_in_region dim lo hi g sites c l :
  (let '(lx, ly, lz) := lo in let '(hx, hy, hz) := hi in lx < hx /\ ly < hy /\ lz < hz) ->
  flat dim g -> Forall (fun s => flat dim (site_pos s)) sites ->
  StronglySorted (fun a b => dist2 g a <= dist2 g b) sites ->
  build_regular dim g sites 0 (cell_init lo hi) -> build dim lo hi g sites = Some c ->
  Forall (fun '(lam, p) => 0 <= lam /\ exists v, In v (cverts c) /\ p = vloc v) l ->
  Exists (fun '(lam, _) => 0 < lam) l ->
  forall s, In s sites -> closer g s (hcomb l).
Proof.
  intros Hbox Fg Fs Hsort Hreg H Hl Hex s Hs.
  pose proof (build_vertices_feasible dim lo hi g sites c Hbox Fg Fs Hsort Hreg H) as Hf. rewrite Forall_forall in Hf.
  assert (Hl' : Forall (fun '(lam, p) => 0 <= lam /\ 0 < snd p /\ 0 <= side (bisector g s) p) l).
  { eapply Forall_impl; [|exact Hl]. intros [lam p] (A & v & Hv & ->). destruct (Hf v Hv) as (W & _ & B). repeat split; auto. }
  assert (Hw : 0 < snd (hcomb l)).
  { apply weight_comb; [|exact Hex]. eapply Forall_impl; [|exact Hl']. intros [lam p] (A & B & _). split; assumption. }
  apply bisector_side; [exact Hw|]. apply side_comb. eapply Forall_impl; [|exact Hl']. intros [lam p] (A & _ & B). split; assumption.
Qed.
