(* One dimension, completely: the nearest-generator region of g inside [lo, hi] is the interval between the largest
   midpoint to its left and the smallest midpoint to its right (doubled coordinates avoid halves). *)
From Coq Require Import ZArith List Lia Psatz.
Import ListNotations.
Open Scope Z_scope.

Definition left2 (lo g : Z) (sites : list Z) : Z :=
  fold_left (fun acc s => if s <? g then Z.max acc (g + s) else acc) sites (2 * lo).
Definition right2 (hi g : Z) (sites : list Z) : Z :=
  fold_left (fun acc s => if g <? s then Z.min acc (g + s) else acc) sites (2 * hi).

Lemma left2_spec g : forall sites acc x,
  (fold_left (fun acc s => if s <? g then Z.max acc (g + s) else acc) sites acc <= x <->
   acc <= x /\ forall s, In s sites -> s < g -> g + s <= x).
Proof.
  induction sites as [|s t IH]; intros acc x; cbn [fold_left].
  - split; [intros H; split; [exact H|intros s []]|intros [H _]; exact H].
  - rewrite IH. destruct (Z.ltb_spec s g) as [L|G].
    + split.
      * intros [H1 H2]. split; [lia|]. intros s' [<-|Hs'] Hl; [lia|apply H2; assumption].
      * intros [H1 H2]. split; [specialize (H2 s (or_introl eq_refl) L); lia|]. intros s' Hs' Hl. apply H2; [right; exact Hs'|exact Hl].
    + split.
      * intros [H1 H2]. split; [exact H1|]. intros s' [<-|Hs'] Hl; [lia|apply H2; assumption].
      * intros [H1 H2]. split; [exact H1|]. intros s' Hs' Hl. apply H2; [right; exact Hs'|exact Hl].
Qed.

Lemma right2_spec g : forall sites acc x,
  (x <= fold_left (fun acc s => if g <? s then Z.min acc (g + s) else acc) sites acc <->
   x <= acc /\ forall s, In s sites -> g < s -> x <= g + s).
Proof.
  induction sites as [|s t IH]; intros acc x; cbn [fold_left].
  - split; [intros H; split; [exact H|intros s []]|intros [H _]; exact H].
  - rewrite IH. destruct (Z.ltb_spec g s) as [L|G].
    + split.
      * intros [H1 H2]. split; [lia|]. intros s' [<-|Hs'] Hl; [lia|apply H2; assumption].
      * intros [H1 H2]. split; [specialize (H2 s (or_introl eq_refl) L); lia|]. intros s' Hs' Hl. apply H2; [right; exact Hs'|exact Hl].
    + split.
      * intros [H1 H2]. split; [exact H1|]. intros s' [<-|Hs'] Hl; [lia|apply H2; assumption].
      * intros [H1 H2]. split; [exact H1|]. intros s' Hs' Hl. apply H2; [right; exact Hs'|exact Hl].
Qed.

Theorem voronoi_1d lo hi g sites x : ~ In g sites ->
  ((lo <= x <= hi /\ forall s, In s sites -> (x - g) * (x - g) <= (x - s) * (x - s)) <->
   left2 lo g sites <= 2 * x <= right2 hi g sites).
Proof.
  intros Hg. unfold left2, right2. rewrite left2_spec, right2_spec. split.
  - intros [[H1 H2] H]. repeat split; try lia.
    + intros s Hs Hl. specialize (H s Hs). nia.
    + intros s Hs Hl. specialize (H s Hs). nia.
  - intros [[H1 H2] [H3 H4]]. split; [lia|]. intros s Hs.
    destruct (Z.lt_trichotomy s g) as [L|[E|G]].
    + specialize (H2 s Hs L). nia.
    + subst s. contradiction.
    + specialize (H4 s Hs G). nia.
Qed.

(* the cells of a sorted set tile [lo, hi]: consecutive cells share their end point *)
Theorem neighbours_share_endpoint_1d lo hi a b sites : a < b ->
  (forall s, In s sites -> s < a \/ b < s \/ s = a \/ s = b) -> In a sites -> In b sites -> lo <= a -> b <= hi ->
  right2 hi a sites = a + b /\ left2 lo b sites = a + b.
Proof.
  intros Hab Hs Ia Ib Hlo Hhi. split.
  - apply Z.le_antisymm.
    + assert (H : a + b <= right2 hi a sites -> False \/ True) by (intros; right; exact I). clear H.
      destruct (Z.le_gt_cases (right2 hi a sites) (a + b)) as [L|G]; [exact L|exfalso].
      assert (K : a + b + 1 <= right2 hi a sites) by lia. unfold right2 in K. rewrite right2_spec in K.
      destruct K as [_ K]. specialize (K b Ib Hab). lia.
    + unfold right2. rewrite right2_spec. split; [lia|]. intros s Is Hl. destruct (Hs s Is) as [H|[H|[H|H]]]; lia.
  - apply Z.le_antisymm.
    + unfold left2. rewrite left2_spec. split; [lia|]. intros s Is Hl. destruct (Hs s Is) as [H|[H|[H|H]]]; lia.
    + destruct (Z.le_gt_cases (a + b) (left2 lo b sites)) as [L|G]; [exact L|exfalso].
      assert (K : left2 lo b sites <= a + b - 1) by lia. unfold left2 in K. rewrite left2_spec in K.
      destruct K as [_ K]. specialize (K a Ia Hab). lia.
Qed.
