(* The converse inclusion up to VerticesSpan: every convex combination of the vertices of a cell whose vertices satisfy all
   bisector constraints (the exact per-run check `vertices_feasible`) is at least as close to the generator as to every
   site.  Together with cell_superset_voronoi:  hull(vertices) <= Voronoi region <= polytope(planes);
   the three coincide iff the polytope is the hull of the maintained vertices (VerticesSpan), the one geometric fact left unproved. *)
From Coq Require Import ZArith List Lia Bool Psatz.
From MV Require Import Model.Cycle Model.CellExact Proofs.CellProofs.
Import ListNotations.
Open Scope Z_scope.

(* non-negative integer combination of homogeneous points (rational weights scale to integers) *)
Fixpoint hcomb (l : list (Z * hpoint)) : hpoint :=
  match l with
  | [] => ((0, 0, 0), 0)
  | (lam, (x, w)) :: t => let '(X, W) := hcomb t in (vadd (vscale lam x) X, lam * w + W)
  end.

Definition lin (q : plane) (p : hpoint) : Z := let '(x, w) := p in dot (pn q) x - pd q * w.

Lemma side_lin q p : 0 <= side q p <-> 0 <= lin q p.
Proof. destruct p as [x w]. unfold side, lin. destruct (dot (pn q) x - pd q * w); cbn; lia. Qed.

Lemma lin_comb q : forall l, lin q (hcomb l) = fold_right (fun '(lam, p) acc => lam * lin q p + acc) 0 l.
Proof.
  induction l as [|[lam [x w]] t IH]; cbn [hcomb fold_right].
  - unfold lin. destruct (pn q) as [[a b] c]. cbn. ring.
  - destruct (hcomb t) as [X W] eqn:E. rewrite <- IH. unfold lin.
    destruct (pn q) as [[a b] c], x as [[x0 x1] x2], X as [[X0 X1] X2]. cbn. ring.
Qed.

Lemma side_comb q : forall l, Forall (fun '(lam, p) => 0 <= lam /\ 0 <= side q p) l -> 0 <= side q (hcomb l).
Proof.
  intros l H. apply side_lin. rewrite lin_comb. induction l as [|[lam p] t IH]; cbn [fold_right]; [lia|].
  inversion H as [|? ? Hh Ht]; subst. cbv beta iota in Hh. destruct Hh as [Hl Hs]. specialize (IH Ht). apply side_lin in Hs. nia.
Qed.

Lemma weight_comb : forall l, Forall (fun '(lam, p) => 0 <= lam /\ 0 < snd p) l ->
  0 <= snd (hcomb l) /\ (Exists (fun '(lam, _) => 0 < lam) l -> 0 < snd (hcomb l)).
Proof.
  induction l as [|[lam [x w]] t IH]; intros H; cbn [hcomb]; [split; [cbn; lia|intros E; inversion E]|].
  inversion H as [|? ? Hh Ht]; subst. cbv beta iota in Hh. destruct Hh as [Hl Hw]. cbn [snd] in Hw. destruct (IH Ht) as [I0 I1].
  destruct (hcomb t) as [X W]. cbn [snd] in *. split; [nia|].
  intros E. inversion E as [? ? Hp|? ? Hp]; subst; [nia|]. specialize (I1 Hp). nia.
Qed.

(* the hull of the vertices of a feasible cell lies in the nearest-generator region *)
Theorem hull_in_region g sites c l :
  vertices_feasible g sites c = true ->
  Forall (fun '(lam, p) => 0 <= lam /\ 0 < snd p /\ exists v, In v (cverts c) /\ p = vloc v) l ->
  Exists (fun '(lam, _) => 0 < lam) l ->
  forall s, In s sites -> closer g s (hcomb l).
Proof.
  intros Hf Hl Hex s Hs.
  assert (Hw : 0 < snd (hcomb l)).
  { apply weight_comb; [|exact Hex]. eapply Forall_impl; [|exact Hl]. intros [lam p] (A & B & _). split; assumption. }
  apply bisector_side; [exact Hw|]. apply side_comb. eapply Forall_impl; [|exact Hl].
  intros [lam p] (A & _ & v & Hv & ->). split; [exact A|].
  unfold vertices_feasible in Hf. rewrite forallb_forall in Hf. specialize (Hf v Hv).
  rewrite forallb_forall in Hf. specialize (Hf s Hs). apply Z.leb_le in Hf. exact Hf.
Qed.
