(* Rounding-error analysis of HalfSpace::clip (voronoi/half_space.rs), at the level of real numbers with an abstract
   rounding operator: whenever the filter is conclusive (|clip| >= errb) the sign of the computed value is the sign of
   the exact n . (v - p) for the given floating-point n, p, v.  FilterB64.v instantiates it with IEEE binary64. *)
From Coq Require Import Reals Lra Lia.
From Flocq Require Import Raux.
Open Scope R_scope.

Definition u : R := / 9007199254740992.                                  (* 2^-53 *)
Definition EPSr : R := 7922816251426434 / 79228162514264337593543950336.   (* the double nearest 1e-13 = m * 2^-96 *)

Section Err.
Variable rnd : R -> R.
Variable eta : R.
Hypothesis eta_pos : 0 <= eta.
Hypothesis eta_small : eta <= u / 1000.
Hypothesis rnd_err : forall x, Rabs (rnd x - x) <= u * Rabs x + eta.
Hypothesis rnd_mono : forall x y, x <= y -> rnd x <= rnd y.
Hypothesis rnd_0 : rnd 0 = 0.
Hypothesis rnd_1 : rnd 1 = 1.
Hypothesis rnd_eps : rnd EPSr = EPSr.

Lemma rnd_bounds x X : - X <= x <= X -> x - (u * X + eta) <= rnd x <= x + (u * X + eta).
Proof.
  intros H. pose proof (rnd_err x) as E.
  assert (Rabs x <= X) by (apply Rabs_le; lra).
  assert (0 < u) by (unfold u; lra).
  assert (u * Rabs x <= u * X) by (apply Rmult_le_compat_l; lra).
  apply Rabs_le_inv in E. lra.
Qed.

Lemma rnd_nonneg x : 0 <= x -> 0 <= rnd x.
Proof. intros H. rewrite <- rnd_0. apply rnd_mono. exact H. Qed.

Lemma prod_bounds a b : - (Rabs a * Rabs b) <= a * b <= Rabs a * Rabs b.
Proof. rewrite <- Rabs_mult. pose proof (Rle_abs (a * b)). pose proof (Rle_abs (- (a * b))). rewrite Rabs_Ropp in *. lra. Qed.

Definition dotr (a1 a2 a3 b1 b2 b3 : R) : R := rnd (rnd (rnd (a1 * b1) + rnd (a2 * b2)) + rnd (a3 * b3)).

(* floating-point dot product: error and magnitude *)
Lemma dot_err a1 a2 a3 b1 b2 b3 K :
  Rabs a1 * Rabs b1 + Rabs a2 * Rabs b2 + Rabs a3 * Rabs b3 <= K ->
  let s := dotr a1 a2 a3 b1 b2 b3 in
  let e := a1 * b1 + a2 * b2 + a3 * b3 in
  e - (4 * u * K + 8 * eta) <= s <= e + (4 * u * K + 8 * eta) /\ - K <= e <= K.
Proof.
  intros HK s e. unfold s, e, dotr.
  pose proof (prod_bounds a1 b1) as P1. pose proof (prod_bounds a2 b2) as P2. pose proof (prod_bounds a3 b3) as P3.
  set (A1 := Rabs a1 * Rabs b1) in *. set (A2 := Rabs a2 * Rabs b2) in *. set (A3 := Rabs a3 * Rabs b3) in *.
  assert (0 <= A1) by (unfold A1; apply Rmult_le_pos; apply Rabs_pos).
  assert (0 <= A2) by (unfold A2; apply Rmult_le_pos; apply Rabs_pos).
  assert (0 <= A3) by (unfold A3; apply Rmult_le_pos; apply Rabs_pos).
  set (p1 := a1 * b1) in *. set (p2 := a2 * b2) in *. set (p3 := a3 * b3) in *.
  pose proof (rnd_bounds p1 A1 P1) as T1. pose proof (rnd_bounds p2 A2 P2) as T2. pose proof (rnd_bounds p3 A3 P3) as T3.
  set (t1 := rnd p1) in *. set (t2 := rnd p2) in *. set (t3 := rnd p3) in *.
  set (X12 := (1 + u) * (A1 + A2) + 2 * eta).
  assert (B12 : - X12 <= t1 + t2 <= X12) by (unfold X12, u in *; lra).
  pose proof (rnd_bounds (t1 + t2) X12 B12) as S12. set (s12 := rnd (t1 + t2)) in *.
  set (X3 := (1 + u) * X12 + (1 + u) * A3 + 2 * eta).
  assert (B3 : - X3 <= s12 + t3 <= X3) by (unfold X3, X12, u in *; lra).
  pose proof (rnd_bounds (s12 + t3) X3 B3) as S3.
  unfold X3, X12, u in *. split; lra.
Qed.

Section Clip.
Variables n1 n2 n3 p1 p2 p3 v1 v2 v3 : R.
Let N := Rabs n1 + Rabs n2 + Rabs n3.
Let M := Rmax (Rmax (Rabs p1) (Rmax (Rabs p2) (Rabs p3))) (Rmax (Rabs v1) (Rmax (Rabs v2) (Rabs v3))).
Let E := n1 * (v1 - p1) + n2 * (v2 - p2) + n3 * (v3 - p3).
(* a finite binary64 scale is below 2^1024 = 4 u / eta *)
Hypothesis etaM : eta * M <= 4 * u.

Definition d_r := dotr n1 n2 n3 p1 p2 p3.
Definition clip_r := rnd (dotr n1 n2 n3 v1 v2 v3 - d_r).
Definition errb0_r := rnd (EPSr * rnd (1 + dotr (Rabs n1) (Rabs n2) (Rabs n3) (Rabs p1) (Rabs p2) (Rabs p3))).
Definition errb1_r := rnd (rnd (EPSr * rnd (rnd (Rabs n1 + Rabs n2) + Rabs n3)) * M).
Definition errb_r := Rmax errb0_r errb1_r.

Lemma M_ge : Rabs p1 <= M /\ Rabs p2 <= M /\ Rabs p3 <= M /\ Rabs v1 <= M /\ Rabs v2 <= M /\ Rabs v3 <= M /\ 0 <= M.
Proof.
  unfold M. pose proof (Rabs_pos p1).
  pose proof (Rmax_l (Rmax (Rabs p1) (Rmax (Rabs p2) (Rabs p3))) (Rmax (Rabs v1) (Rmax (Rabs v2) (Rabs v3)))).
  pose proof (Rmax_r (Rmax (Rabs p1) (Rmax (Rabs p2) (Rabs p3))) (Rmax (Rabs v1) (Rmax (Rabs v2) (Rabs v3)))).
  pose proof (Rmax_l (Rabs p1) (Rmax (Rabs p2) (Rabs p3))). pose proof (Rmax_r (Rabs p1) (Rmax (Rabs p2) (Rabs p3))).
  pose proof (Rmax_l (Rabs p2) (Rabs p3)). pose proof (Rmax_r (Rabs p2) (Rabs p3)).
  pose proof (Rmax_l (Rabs v1) (Rmax (Rabs v2) (Rabs v3))). pose proof (Rmax_r (Rabs v1) (Rmax (Rabs v2) (Rabs v3))).
  pose proof (Rmax_l (Rabs v2) (Rabs v3)). pose proof (Rmax_r (Rabs v2) (Rabs v3)).
  repeat split; lra.
Qed.

Lemma K_bound w1 w2 w3 : Rabs w1 <= M -> Rabs w2 <= M -> Rabs w3 <= M ->
  Rabs n1 * Rabs w1 + Rabs n2 * Rabs w2 + Rabs n3 * Rabs w3 <= N * M.
Proof.
  intros H1 H2 H3. unfold N.
  pose proof (Rmult_le_compat_l _ _ _ (Rabs_pos n1) H1). pose proof (Rmult_le_compat_l _ _ _ (Rabs_pos n2) H2).
  pose proof (Rmult_le_compat_l _ _ _ (Rabs_pos n3) H3). lra.
Qed.

(* the computed value is within 11 u N M + 18 eta of the exact one *)
Lemma clip_err : E - (11 * u * (N * M) + 18 * eta) <= clip_r <= E + (11 * u * (N * M) + 18 * eta).
Proof.
  destruct M_ge as (Hp1 & Hp2 & Hp3 & Hv1 & Hv2 & Hv3 & HM).
  assert (HN : 0 <= N) by (unfold N; pose proof (Rabs_pos n1); pose proof (Rabs_pos n2); pose proof (Rabs_pos n3); lra).
  assert (HK : 0 <= N * M) by (apply Rmult_le_pos; assumption).
  destruct (dot_err n1 n2 n3 v1 v2 v3 (N * M) (K_bound _ _ _ Hv1 Hv2 Hv3)) as [Sv Ev].
  destruct (dot_err n1 n2 n3 p1 p2 p3 (N * M) (K_bound _ _ _ Hp1 Hp2 Hp3)) as [Sp Ep].
  unfold clip_r, d_r.
  set (sv := dotr n1 n2 n3 v1 v2 v3) in *. set (sp := dotr n1 n2 n3 p1 p2 p3) in *.
  set (K := N * M) in *.
  assert (B : - (2 * K + 8 * u * K + 16 * eta) <= sv - sp <= 2 * K + 8 * u * K + 16 * eta) by (unfold u in *; lra).
  pose proof (rnd_bounds _ _ B) as C.
  unfold E. unfold u in *. lra.
Qed.

Lemma errb0_ge : EPSr <= errb0_r.
Proof.
  unfold errb0_r. rewrite <- rnd_eps at 1. apply rnd_mono.
  assert (0 <= dotr (Rabs n1) (Rabs n2) (Rabs n3) (Rabs p1) (Rabs p2) (Rabs p3)).
  { unfold dotr. apply rnd_nonneg. apply Rplus_le_le_0_compat; [apply rnd_nonneg; apply Rplus_le_le_0_compat|];
      apply rnd_nonneg; apply Rmult_le_pos; apply Rabs_pos. }
  assert (1 <= rnd (1 + dotr (Rabs n1) (Rabs n2) (Rabs n3) (Rabs p1) (Rabs p2) (Rabs p3))).
  { rewrite <- rnd_1 at 1. apply rnd_mono. lra. }
  assert (0 < EPSr) by (unfold EPSr; lra).
  rewrite <- (Rmult_1_r EPSr) at 1. apply Rmult_le_compat_l; lra.
Qed.

Lemma errb1_ge : 800 * u * (N * M) - 13 * u <= errb1_r.
Proof.
  destruct M_ge as (_ & _ & _ & _ & _ & _ & HM).
  pose proof (Rabs_pos n1) as A1. pose proof (Rabs_pos n2) as A2. pose proof (Rabs_pos n3) as A3.
  unfold errb1_r, N.
  set (a1 := Rabs n1) in *. set (a2 := Rabs n2) in *. set (a3 := Rabs n3) in *.
  assert (B12 : - (a1 + a2) <= a1 + a2 <= a1 + a2) by lra.
  pose proof (rnd_bounds _ _ B12) as S12. pose proof (rnd_nonneg (a1 + a2) ltac:(lra)) as P12.
  set (s12 := rnd (a1 + a2)) in *.
  assert (B3 : - (s12 + a3) <= s12 + a3 <= s12 + a3) by lra.
  pose proof (rnd_bounds _ _ B3) as S3. pose proof (rnd_nonneg (s12 + a3) ltac:(lra)) as P3.
  set (s3 := rnd (s12 + a3)) in *.
  assert (0 < EPSr) by (unfold EPSr; lra).
  assert (Pq : 0 <= EPSr * s3) by (apply Rmult_le_pos; lra).
  assert (Bq : - (EPSr * s3) <= EPSr * s3 <= EPSr * s3) by lra.
  pose proof (rnd_bounds _ _ Bq) as Sq. pose proof (rnd_nonneg _ Pq) as Pq'.
  set (q := rnd (EPSr * s3)) in *.
  assert (Pe : 0 <= q * M) by (apply Rmult_le_pos; lra).
  assert (Be : - (q * M) <= q * M <= q * M) by lra.
  pose proof (rnd_bounds _ _ Be) as Se.
  (* q >= c (a1+a2+a3) - 3 eta with c = 900 u *)
  assert (Lq : 900 * u * (a1 + a2 + a3) - 3 * eta <= q).
  { unfold EPSr, u in *. lra. }
  assert (LqM : (900 * u * (a1 + a2 + a3) - 3 * eta) * M <= q * M) by (apply Rmult_le_compat_r; lra).
  assert (HK : 0 <= (a1 + a2 + a3) * M) by (apply Rmult_le_pos; lra).
  replace ((900 * u * (a1 + a2 + a3) - 3 * eta) * M) with (900 * u * ((a1 + a2 + a3) * M) - 3 * (eta * M)) in LqM by ring.
  set (K := (a1 + a2 + a3) * M) in *. set (eM := eta * M) in *.
  unfold u in *. lra.
Qed.

(* the bound the code compares with exceeds the rounding error, strictly *)
Theorem err_lt_errb : 11 * u * (N * M) + 18 * eta < errb_r.
Proof.
  pose proof errb0_ge as H0. pose proof errb1_ge as H1.
  destruct M_ge as (_ & _ & _ & _ & _ & _ & HM).
  assert (HN : 0 <= N) by (unfold N; pose proof (Rabs_pos n1); pose proof (Rabs_pos n2); pose proof (Rabs_pos n3); lra).
  assert (HK : 0 <= N * M) by (apply Rmult_le_pos; assumption).
  unfold errb_r. pose proof (Rmax_l errb0_r errb1_r). pose proof (Rmax_r errb0_r errb1_r).
  set (K := N * M) in *.
  destruct (Rle_or_lt K 1) as [HK1|HK1]; unfold EPSr, u in *; lra.
Qed.

(* a conclusive filter decision has the sign of the exact expression *)
Theorem clip_conclusive_sound :
  (errb_r <= clip_r -> 0 < E) /\ (clip_r <= - errb_r -> E < 0).
Proof.
  pose proof clip_err as C. pose proof err_lt_errb as L. split; intros H; lra.
Qed.
End Clip.
End Err.
