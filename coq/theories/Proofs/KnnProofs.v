From Coq Require Import ZArith List Bool Lia Permutation Sorted.
From MV Require Import Model.Knn.
Import ListNotations.
Open Scope Z_scope.

(* ---------- specification: h are the k nearest of xs in increasing order *)
Definition sorted (h : list cand) : Prop := StronglySorted (fun a b => ckey a <= ckey b) h.

Definition k_nearest (k : nat) (xs h : list cand) : Prop :=
  sorted h /\ length h = Nat.min k (length xs) /\
  exists rest, Permutation xs (h ++ rest) /\ forall a b, In a h -> In b rest -> ckey a <= ckey b.

(* ---------- insertion *)
Lemma kinsert_perm x l : Permutation (x :: l) (kinsert x l).
Proof.
  induction l as [|y t IH]; cbn [kinsert]; [reflexivity|].
  destruct (ckey x <? ckey y); [reflexivity|].
  rewrite perm_swap. constructor. exact IH.
Qed.

Lemma kinsert_length x l : length (kinsert x l) = S (length l).
Proof. rewrite <- (Permutation_length (kinsert_perm x l)). reflexivity. Qed.

Lemma kinsert_sorted x l : sorted l -> sorted (kinsert x l).
Proof.
  unfold sorted. induction l as [|y t IH]; cbn [kinsert]; intros H.
  - constructor; constructor.
  - inversion H as [|? ? Ht Hy]; subst.
    destruct (ckey x <? ckey y) eqn:E.
    + constructor; [exact H|]. constructor; [lia|].
      rewrite Forall_forall in *. intros z Hz. specialize (Hy z Hz). lia.
    + constructor; [apply IH; exact Ht|].
      rewrite Forall_forall in *. intros z Hz.
      apply (Permutation_in _ (Permutation_sym (kinsert_perm x t))) in Hz.
      destruct Hz as [<-|Hz]; [lia|apply Hy; exact Hz].
Qed.

(* ---------- last / removelast of a sorted list *)
Lemma sorted_last_max h a : sorted h -> In a h -> ckey a <= hmax h.
Proof.
  unfold sorted, hmax. induction h as [|y t IH]; intros Hs Hin; [destruct Hin|].
  inversion Hs as [|? ? Ht Hy]; subst.
  destruct t as [|z t'].
  - destruct Hin as [<-|[]]. cbn. lia.
  - change (last (y :: z :: t') (0, 0%nat)) with (last (z :: t') (0, 0%nat)).
    destruct Hin as [<-|Hin].
    + rewrite Forall_forall in Hy. apply Hy.
      clear. generalize z. induction t' as [|u t'' IH']; intros z0; [left; reflexivity|].
      change (last (z0 :: u :: t'') (0, 0%nat)) with (last (u :: t'') (0, 0%nat)). right. apply IH'.
    + apply IH; assumption.
Qed.

Lemma removelast_sorted h : sorted h -> sorted (removelast h).
Proof.
  unfold sorted. induction h as [|y t IH]; intros Hs; [constructor|].
  inversion Hs as [|? ? Ht Hy]; subst. destruct t as [|z t']; [constructor|].
  change (removelast (y :: z :: t')) with (y :: removelast (z :: t')).
  constructor; [apply IH; exact Ht|].
  rewrite Forall_forall in *. intros u Hu. apply Hy.
  clear - Hu. revert z Hu. induction t' as [|v t'' IH']; intros z Hu; [destruct Hu|].
  change (removelast (z :: v :: t'')) with (z :: removelast (v :: t'')) in Hu.
  destruct Hu as [<-|Hu]; [left; reflexivity|right; apply IH'; exact Hu].
Qed.

Lemma split_last (h : list cand) : h <> [] -> h = removelast h ++ [last h (0, 0%nat)].
Proof. intros H. apply app_removelast_last. exact H. Qed.

(* ---------- one knn_offer keeps the specification *)
Lemma knn_offer_spec k xs h x : (0 < k)%nat -> k_nearest k xs h -> k_nearest k (xs ++ [x]) (knn_offer k h x).
Proof.
  intros Hk (Hs & Hlen & rest & Hperm & Hle). unfold knn_offer.
  destruct (Nat.ltb (length h) k) eqn:Elt.
  - (* not hfull: everything seen so far is in the heap *)
    apply Nat.ltb_lt in Elt.
    assert (Hrest : rest = []).
    { assert (L := Permutation_length Hperm). rewrite app_length in L.
      destruct rest; [reflexivity|]. cbn in L. lia. }
    subst rest. rewrite app_nil_r in Hperm.
    split; [apply kinsert_sorted; exact Hs|]. split.
    + rewrite kinsert_length, app_length. cbn. lia.
    + exists []. split; [|intros a b _ []]. rewrite app_nil_r.
      rewrite <- kinsert_perm. rewrite Permutation_app_comm. cbn. constructor. exact Hperm.
  - apply Nat.ltb_ge in Elt.
    assert (Hfull : length h = k) by lia.
    assert (Hne : h <> []) by (destruct h; [cbn in Hfull; lia|discriminate]).
    destruct (ckey x <? hmax h) eqn:Ex.
    + (* replaces the maximum *)
      apply Z.ltb_lt in Ex.
      pose proof (split_last h Hne) as Esp. set (m := last h (0, 0%nat)) in *.
      assert (Hm : ckey m = hmax h) by reflexivity.
      split; [apply kinsert_sorted, removelast_sorted; exact Hs|]. split.
      * rewrite kinsert_length, app_length. cbn.
        assert (L : length h = (length (removelast h) + 1)%nat) by (rewrite Esp at 1; rewrite app_length; reflexivity).
        lia.
      * exists (m :: rest). split.
        -- rewrite <- kinsert_perm.
           transitivity (x :: xs); [rewrite Permutation_app_comm; reflexivity|]. constructor.
           rewrite Hperm. rewrite Esp at 1. rewrite <- app_assoc. reflexivity.
        -- intros a b Ha Hb.
           assert (Hmax : forall c, In c h -> ckey c <= ckey m) by (intros c Hc; rewrite Hm; apply sorted_last_max; assumption).
           assert (Hrl : forall c, In c (removelast h) -> In c h) by (intros c Hc; rewrite Esp; apply in_or_app; left; exact Hc).
           apply (Permutation_in _ (Permutation_sym (kinsert_perm x _))) in Ha.
           destruct Hb as [<-|Hb].
           ++ destruct Ha as [<-|Ha]; [lia|apply Hmax, Hrl, Ha].
           ++ assert (Hmb : ckey m <= ckey b) by (apply Hle; [rewrite Esp; apply in_or_app; right; left; reflexivity|exact Hb]).
              destruct Ha as [<-|Ha]; [lia|]. apply Hle; [apply Hrl, Ha|exact Hb].
    + (* not better than the maximum: stays outside *)
      apply Z.ltb_ge in Ex.
      split; [exact Hs|]. split; [rewrite app_length; cbn; lia|].
      exists (rest ++ [x]). split; [rewrite Hperm, app_assoc; reflexivity|].
      intros a b Ha Hb. apply in_app_or in Hb. destruct Hb as [Hb|[<-|[]]]; [apply Hle; assumption|].
      pose proof (sorted_last_max h a Hs Ha). lia.
Qed.

Lemma offers_spec k : (0 < k)%nat -> forall ys xs h, k_nearest k xs h -> k_nearest k (xs ++ ys) (fold_left (knn_offer k) ys h).
Proof.
  intros Hk. induction ys as [|y t IH]; intros xs h H; cbn [fold_left].
  - rewrite app_nil_r. exact H.
  - replace (xs ++ y :: t) with ((xs ++ [y]) ++ t) by (rewrite <- app_assoc; reflexivity).
    apply IH. apply knn_offer_spec; assumption.
Qed.

(* ---------- offering something that is not better than a hfull heap's maximum changes nothing *)
Lemma knn_offer_noop k h x : hfull k h = true -> hmax h <= ckey x -> knn_offer k h x = h.
Proof.
  unfold hfull, knn_offer. intros Hf Hx. apply Nat.eqb_eq in Hf.
  replace (Nat.ltb (length h) k) with false by (symmetry; apply Nat.ltb_ge; lia).
  replace (ckey x <? hmax h) with false by (symmetry; apply Z.ltb_ge; lia). reflexivity.
Qed.

Lemma offers_noop k h ys : hfull k h = true -> Forall (fun x => hmax h <= ckey x) ys -> fold_left (knn_offer k) ys h = h.
Proof.
  intros Hf. induction ys as [|y t IH]; intros H; cbn [fold_left]; [reflexivity|].
  inversion H; subst. rewrite knn_offer_noop by assumption. apply IH. assumption.
Qed.

(* ---------- the pruning rules are invisible: a skipped cell or an unvisited ring would not have changed the heap *)
Definition kgroup_wf (g : kgroup) : Prop := Forall (fun x => glb g <= ckey x) (gmembers g).

Lemma visit_group_eq k h g : kgroup_wf g -> visit_group k h g = fold_left (knn_offer k) (gmembers g) h.
Proof.
  intros Hwf. unfold visit_group. destruct (hfull k h && (hmax h <? glb g)) eqn:E; [|reflexivity].
  apply andb_prop in E. destruct E as [Hf Hl]. apply Z.ltb_lt in Hl.
  symmetry. apply offers_noop; [exact Hf|].
  unfold kgroup_wf in Hwf. rewrite Forall_forall in *. intros x Hx. specialize (Hwf x Hx). lia.
Qed.

Lemma visit_groups_eq k gs : Forall kgroup_wf gs -> forall h,
  fold_left (visit_group k) gs h = fold_left (knn_offer k) (kgroup_cands gs) h.
Proof.
  induction gs as [|g t IH]; intros Hwf h; cbn [fold_left kgroup_cands flat_map]; [reflexivity|].
  inversion Hwf; subst. rewrite fold_left_app. rewrite visit_group_eq by assumption. apply IH. assumption.
Qed.

(* rings: every cell's bound is admissible, and the bound checked after a ring is below every later particle *)
Fixpoint rings_wf (rings : list (Z * list kgroup)) : Prop :=
  match rings with
  | [] => True
  | (rb, gs) :: rest => Forall kgroup_wf gs /\ Forall (fun x => rb * rb <= ckey x) (all_cands rest) /\ rings_wf rest
  end.

Lemma knn_search_rings_eq k : forall rings h, rings_wf rings ->
  knn_search_rings k rings h = fold_left (knn_offer k) (all_cands rings) h.
Proof.
  induction rings as [|[rb gs] rest IH]; intros h Hwf; cbn [knn_search_rings all_cands flat_map snd]; [reflexivity|].
  destruct Hwf as (Hg & Hb & Hr). rewrite fold_left_app. rewrite visit_groups_eq by exact Hg.
  set (h' := fold_left (knn_offer k) (kgroup_cands gs) h).
  destruct (hfull k h' && (hmax h' <? rb * rb)) eqn:E.
  - apply andb_prop in E. destruct E as [Hf Hl]. apply Z.ltb_lt in Hl.
    symmetry. apply offers_noop; [exact Hf|].
    rewrite Forall_forall in *. intros x Hx. specialize (Hb x Hx). lia.
  - apply IH. exact Hr.
Qed.

(* ---------- the theorem: the knn_search returns the k nearest candidates in increasing order of distance *)
Theorem knn_search_k_nearest k rings : rings_wf rings -> k_nearest k (all_cands rings) (knn_search k rings).
Proof.
  intros Hwf. unfold knn_search. destruct (Nat.eqb k 0) eqn:Ek.
  - apply Nat.eqb_eq in Ek. subst k. split; [constructor|]. split; [reflexivity|].
    exists (all_cands rings). split; [reflexivity|intros a b []].
  - apply Nat.eqb_neq in Ek. rewrite knn_search_rings_eq by exact Hwf.
    apply (offers_spec k ltac:(lia) (all_cands rings) [] []).
    split; [constructor|]. split; [cbn; lia|]. exists []. split; [reflexivity|intros a b []].
Qed.

(* the specification determines the sequence of distances *)
Lemma sorted_perm_keys_unique : forall l1 l2 : list Z,
  StronglySorted Z.le l1 -> StronglySorted Z.le l2 -> Permutation l1 l2 -> l1 = l2.
Proof.
  induction l1 as [|a t IH]; intros l2 H1 H2 P.
  - apply Permutation_nil in P. subst. reflexivity.
  - destruct l2 as [|b u]; [apply Permutation_sym, Permutation_nil in P; discriminate|].
    inversion H1 as [|? ? Ht Ha]; subst. inversion H2 as [|? ? Hu Hb]; subst.
    assert (a = b).
    { rewrite Forall_forall in Ha, Hb.
      assert (Ia : In a (b :: u)) by (apply (Permutation_in _ P); left; reflexivity).
      assert (Ib : In b (a :: t)) by (apply (Permutation_in _ (Permutation_sym P)); left; reflexivity).
      destruct Ia as [->|Ia]; [reflexivity|]. destruct Ib as [->|Ib]; [reflexivity|].
      specialize (Ha b Ib). specialize (Hb a Ia). lia. }
    subst b. f_equal. apply IH; [assumption..|]. apply Permutation_cons_inv in P. exact P.
Qed.

(* ---------- the ring bound: after ring r has been visited, every particle of a cell whose index differs by
   more than r on some axis is at least dist_to_face + r * (smallest cell width) away from the query *)
Lemma axis_ring_bound w i j p q r dtf :
  0 < w -> 0 <= r -> i * w <= p <= (i + 1) * w -> j * w <= q <= (j + 1) * w ->
  0 <= dtf -> dtf <= p - i * w -> dtf <= (i + 1) * w - p ->
  r + 1 <= Z.abs (j - i) -> dtf + r * w <= Z.abs (q - p).
Proof.
  intros Hw Hr Hp Hq Hd0 Hd1 Hd2 Hj.
  destruct (Z.abs_spec (j - i)) as [[Hs Ea]|[Hs Ea]]; rewrite Ea in Hj.
  - assert (i + r + 1 <= j) by lia. assert ((i + r + 1) * w <= j * w) by nia.
    rewrite Z.abs_eq by nia. nia.
  - assert (j + 1 <= i - r) by lia. assert ((j + 1) * w <= (i - r) * w) by nia.
    rewrite Z.abs_neq by nia. nia.
Qed.

Definition kV3 := (Z * Z * Z)%type.
Definition ax (a : nat) (v : kV3) : Z := let '(x, y, z) := v in match a with O => x | S O => y | _ => z end.
Definition kdist2 (p q : kV3) : Z :=
  (ax 0 q - ax 0 p) * (ax 0 q - ax 0 p) + (ax 1 q - ax 1 p) * (ax 1 q - ax 1 p) + (ax 2 q - ax 2 p) * (ax 2 q - ax 2 p).
Definition in_cell (w i p : kV3) : Prop := forall a, (a < 3)%nat -> ax a i * ax a w <= ax a p <= (ax a i + 1) * ax a w.
(* min_distance_to_face *)
Definition below_face_dist (w i p : kV3) (dtf : Z) : Prop :=
  0 <= dtf /\ forall a, (a < 3)%nat -> dtf <= ax a p - ax a i * ax a w /\ dtf <= (ax a i + 1) * ax a w - ax a p.
(* the cell j is not in rings 0..r around cell i *)
Definition beyond_ring (i j : kV3) (r : Z) : Prop := exists a, (a < 3)%nat /\ r + 1 <= Z.abs (ax a j - ax a i).

Theorem ring_bound (w i j p q : kV3) (wmin r dtf : Z) :
  (forall a, (a < 3)%nat -> 0 < wmin <= ax a w) -> 0 <= r ->
  in_cell w i p -> in_cell w j q -> below_face_dist w i p dtf -> beyond_ring i j r ->
  (dtf + r * wmin) * (dtf + r * wmin) <= kdist2 p q.
Proof.
  intros Hw Hr Hp Hq (Hd0 & Hd) (a & Ha & Hj).
  destruct (Hd a Ha) as [Hd1 Hd2]. destruct (Hw a Ha) as [Hw0 Hw1].
  pose proof (axis_ring_bound (ax a w) (ax a i) (ax a j) (ax a p) (ax a q) r dtf ltac:(lia) Hr (Hp a Ha) (Hq a Ha) Hd0 Hd1 Hd2 Hj) as B.
  assert (B' : dtf + r * wmin <= Z.abs (ax a q - ax a p)) by nia.
  assert (S : (dtf + r * wmin) * (dtf + r * wmin) <= (ax a q - ax a p) * (ax a q - ax a p)).
  { assert (0 <= dtf + r * wmin) by nia. rewrite <- Z.abs_square. nia. }
  unfold kdist2.
  pose proof (Z.square_nonneg (ax 0 q - ax 0 p)). pose proof (Z.square_nonneg (ax 1 q - ax 1 p)).
  pose proof (Z.square_nonneg (ax 2 q - ax 2 p)).
  destruct a as [|[|[|a]]]; [lia|lia|lia|lia].
Qed.

(* ---------- the specification pins the sequence of distances: it is the first k entries of THE sorted list of
   all candidate distances (so the answer of the search equals brute force up to the choice among equal distances) *)
Fixpoint zinsert (x : Z) (l : list Z) : list Z :=
  match l with [] => [x] | y :: t => if x <? y then x :: l else y :: zinsert x t end.
Definition zsort (l : list Z) : list Z := fold_right zinsert [] l.

Lemma zinsert_perm x l : Permutation (x :: l) (zinsert x l).
Proof.
  induction l as [|y t IH]; cbn [zinsert]; [reflexivity|].
  destruct (x <? y); [reflexivity|]. rewrite perm_swap. constructor. exact IH.
Qed.
Lemma zinsert_sorted x l : StronglySorted Z.le l -> StronglySorted Z.le (zinsert x l).
Proof.
  induction l as [|y t IH]; cbn [zinsert]; intros H; [constructor; constructor|].
  inversion H as [|? ? Ht Hy]; subst. destruct (x <? y) eqn:E.
  - constructor; [exact H|]. constructor; [lia|]. rewrite Forall_forall in *. intros z Hz. specialize (Hy z Hz). lia.
  - constructor; [apply IH; exact Ht|]. rewrite Forall_forall in *. intros z Hz.
    apply (Permutation_in _ (Permutation_sym (zinsert_perm x t))) in Hz. destruct Hz as [<-|Hz]; [lia|apply Hy; exact Hz].
Qed.
Lemma zsort_perm l : Permutation l (zsort l).
Proof. induction l as [|x t IH]; cbn; [reflexivity|]. rewrite <- zinsert_perm. constructor. exact IH. Qed.
Lemma zsort_sorted l : StronglySorted Z.le (zsort l).
Proof. induction l as [|x t IH]; cbn; [constructor|apply zinsert_sorted; exact IH]. Qed.

Lemma sorted_map_keys h : sorted h -> StronglySorted Z.le (map ckey h).
Proof.
  unfold sorted. induction 1 as [|a t Ht IH Ha]; cbn; [constructor|]. constructor; [exact IH|].
  rewrite Forall_forall in *. intros z Hz. apply in_map_iff in Hz. destruct Hz as (b & <- & Hb). apply Ha; exact Hb.
Qed.

Lemma sorted_app (l1 l2 : list Z) : StronglySorted Z.le l1 -> StronglySorted Z.le l2 ->
  (forall a b, In a l1 -> In b l2 -> a <= b) -> StronglySorted Z.le (l1 ++ l2).
Proof.
  induction 1 as [|a t Ht IH Ha]; intros H2 Hle; cbn; [exact H2|].
  constructor; [apply IH; [exact H2|intros; apply Hle; [right|]; assumption]|].
  apply Forall_app. split; [exact Ha|]. rewrite Forall_forall. intros b Hb. apply Hle; [left; reflexivity|exact Hb].
Qed.

Theorem k_nearest_keys_are_sorted_prefix k xs h : k_nearest k xs h ->
  map ckey h = firstn k (zsort (map ckey xs)).
Proof.
  intros (Hs & Hlen & rest & Hperm & Hle).
  set (L := map ckey h ++ zsort (map ckey rest)).
  assert (HL : StronglySorted Z.le L).
  { apply sorted_app; [apply sorted_map_keys; exact Hs|apply zsort_sorted|].
    intros a b Ha Hb. apply in_map_iff in Ha. destruct Ha as (a' & <- & Ha').
    apply (Permutation_in _ (Permutation_sym (zsort_perm _))) in Hb. apply in_map_iff in Hb. destruct Hb as (b' & <- & Hb').
    apply Hle; assumption. }
  assert (HP : Permutation L (zsort (map ckey xs))).
  { unfold L. rewrite <- zsort_perm. rewrite <- zsort_perm. rewrite <- map_app. apply Permutation_map. symmetry. exact Hperm. }
  rewrite <- (sorted_perm_keys_unique L _ HL (zsort_sorted _) HP). unfold L.
  assert (Lx : length xs = (length h + length rest)%nat) by (rewrite (Permutation_length Hperm), app_length; reflexivity).
  destruct (Nat.le_gt_cases k (length xs)) as [Hk|Hk].
  - assert (length h = k) by lia. rewrite firstn_app. rewrite map_length.
    replace (k - length h)%nat with 0%nat by lia. cbn [firstn]. rewrite app_nil_r.
    rewrite firstn_all2 by (rewrite map_length; lia). reflexivity.
  - assert (length rest = 0%nat) by lia. destruct rest; [|discriminate]. cbn [map zsort fold_right]. rewrite app_nil_r.
    rewrite firstn_all2 by (rewrite map_length; lia). reflexivity.
Qed.

Corollary knn_search_is_brute_force k rings : rings_wf rings ->
  map ckey (knn_search k rings) = firstn k (zsort (map ckey (all_cands rings))).
Proof. intros H. apply k_nearest_keys_are_sorted_prefix. apply knn_search_k_nearest. exact H. Qed.
