(* The grid map on IEEE binary64 (Flocq Bplus/Bminus/Bmult/Bdiv, round to nearest even) never overflows and lands in
   [1, 31/16] for every box of sane magnitude: the debug assertions of iloc cannot fire and the mantissa is a valid
   52-bit grid coordinate. *)
From Coq Require Import ZArith Reals Lra Lia Psatz.
From Flocq Require Import Core BinarySingleNaN Binary Bits.
From MV Require Import Model.Grid Proofs.GridFlocq Proofs.GridRange.
Open Scope R_scope.

Ltac const_b2r c m e :=
  let E := fresh "E" in
  assert (E : exists pf, c = B754_finite 53 1024 false m e pf) by (vm_compute; eexists; reflexivity);
  destruct E as [? ->]; cbn [B2R]; unfold F2R; cbn [Fnum Fexp cond_Zopp]; unfold bpow.

Lemma b2r_one : b2r f_one = 1.
Proof.
  const_b2r f_one 4503599627370496%positive (-52)%Z.
  replace (Zpower_pos radix2 52) with 4503599627370496%Z by (vm_compute; reflexivity). lra.
Qed.
Lemma b2r_offset : b2r GRID_OFFSET = 3 / 2.
Proof.
  const_b2r GRID_OFFSET 6755399441055744%positive (-52)%Z.
  replace (Zpower_pos radix2 52) with 4503599627370496%Z by (vm_compute; reflexivity). lra.
Qed.
Lemma b2r_scale : b2r GRID_SCALE = 4.
Proof.
  const_b2r GRID_SCALE 4503599627370496%positive (-50)%Z.
  replace (Zpower_pos radix2 50) with 1125899906842624%Z by (vm_compute; reflexivity). lra.
Qed.
Lemma fin_one : fin f_one = true. Proof. reflexivity. Qed.
Lemma fin_offset : fin GRID_OFFSET = true. Proof. reflexivity. Qed.
Lemma fin_scale : fin GRID_SCALE = true. Proof. reflexivity. Qed.

Definition big : R := bpow radix2 1024.

(* the operations are exact-then-rounded and finite as long as the rounded result is below 2^1024 *)
Lemma fadd_ok a b : fin a = true -> fin b = true -> Rabs (rnd64 (b2r a + b2r b)) < big ->
  fin (fadd a b) = true /\ b2r (fadd a b) = rnd64 (b2r a + b2r b).
Proof.
  intros Fa Fb H. unfold fadd, b64_plus.
  match goal with |- context[Bplus 53 1024 ?p1 ?p2 ?nan mode_NE a b] =>
    pose proof (Bplus_correct 53 1024 p1 p2 nan mode_NE a b Fa Fb) as C end.
  rewrite Rlt_bool_true in C by exact H. destruct C as (E & F & _). split; [exact F|exact E].
Qed.
Lemma fsub_ok a b : fin a = true -> fin b = true -> Rabs (rnd64 (b2r a - b2r b)) < big ->
  fin (fsub a b) = true /\ b2r (fsub a b) = rnd64 (b2r a - b2r b).
Proof.
  intros Fa Fb H. unfold fsub, b64_minus.
  match goal with |- context[Bminus 53 1024 ?p1 ?p2 ?nan mode_NE a b] =>
    pose proof (Bminus_correct 53 1024 p1 p2 nan mode_NE a b Fa Fb) as C end.
  rewrite Rlt_bool_true in C by exact H. destruct C as (E & F & _). split; [exact F|exact E].
Qed.
Lemma fmul_ok a b : fin a = true -> fin b = true -> Rabs (rnd64 (b2r a * b2r b)) < big ->
  fin (fmul a b) = true /\ b2r (fmul a b) = rnd64 (b2r a * b2r b).
Proof.
  intros Fa Fb H. unfold fmul, b64_mult.
  match goal with |- context[Bmult 53 1024 ?p1 ?p2 ?nan mode_NE a b] =>
    pose proof (Bmult_correct 53 1024 p1 p2 nan mode_NE a b) as C end.
  rewrite Rlt_bool_true in C by exact H. destruct C as (E & F & _). split; [rewrite F, Fa, Fb; reflexivity|exact E].
Qed.
Lemma fdiv_ok a b : fin a = true -> b2r b <> 0 -> Rabs (rnd64 (b2r a / b2r b)) < big ->
  fin (fdiv a b) = true /\ b2r (fdiv a b) = rnd64 (b2r a / b2r b).
Proof.
  intros Fa Nb H. unfold fdiv, b64_div.
  match goal with |- context[Bdiv 53 1024 ?p1 ?p2 ?nan mode_NE a b] =>
    pose proof (Bdiv_correct 53 1024 p1 p2 nan mode_NE a b Nb) as C end.
  rewrite Rlt_bool_true in C by exact H. destruct C as (E & F & _). split; [rewrite F; exact Fa|exact E].
Qed.

Lemma fmt64_b2r (f : f64) : fmt64 (b2r f).
Proof. apply generic_format_B2R. Qed.

Lemma below_big v e : (e < 1024)%Z -> Rabs v <= bpow radix2 e -> Rabs v < big.
Proof. intros He H. eapply Rle_lt_trans; [exact H|]. apply bpow_lt. exact He. Qed.

Lemma le_big v : Rabs v <= 1125899906842624 * bpow radix2 900 -> Rabs v < big.
Proof.
  intros H. eapply Rle_lt_trans; [exact H|]. unfold big.
  replace 1125899906842624 with (bpow radix2 50) by (unfold bpow; replace (Zpower_pos radix2 50) with 1125899906842624%Z by (vm_compute; reflexivity); reflexivity).
  rewrite <- bpow_plus. apply bpow_lt. lia.
Qed.

Section B64.
Variables a W S x : f64.
Hypothesis Fa : fin a = true.
Hypothesis FW : fin W = true.
Hypothesis FS : fin S = true.
Hypothesis Fx : fin x = true.
Hypothesis HW : 0 < b2r W.
Hypothesis HS : b2r W <= b2r S.
Hypothesis HWlo : bpow radix2 (-900) <= b2r W.
Hypothesis HShi : b2r S <= bpow radix2 900.
Hypothesis Ha : Rabs (b2r a) <= 1099511627776 * b2r W.
Hypothesis Hx : b2r a - b2r W <= b2r x <= b2r a + 2 * b2r W.

Let B := bpow radix2 900.
Let rW := b2r W.

Theorem iloc_in_range_b64 :
  let ga := fsub a (fmul GRID_OFFSET W) in
  let gi := fdiv f_one (fmul GRID_SCALE S) in
  fin ga = true /\ fin gi = true /\ 0 <= b2r gi /\ fin (tval ga gi x) = true /\ 1 <= b2r (tval ga gi x) <= 31 / 16.
Proof.
  intros ga gi.
  pose proof (fmt64_b2r W) as GW. pose proof (fmt64_b2r x) as Gx.
  assert (HWB : b2r W <= B) by (unfold B; lra).
  assert (HSB : b2r S <= B) by (unfold B; lra).
  assert (HIB : forall v, v <= bpow radix2 900 -> v <= B) by (intros v Hv; exact Hv).
  assert (HB1 : 1 <= B) by (unfold B; change 1 with (bpow radix2 0); apply bpow_le; lia).
  (* r = 1.5 * W *)
  pose proof (r_bounds (b2r W) GW HW) as [Hr0 _]. pose proof (r_le (b2r W) GW HW HWlo) as Hr1.
  destruct (fmul_ok GRID_OFFSET W fin_offset FW) as [Fr Er].
  { rewrite b2r_offset. apply le_big. rewrite Rabs_pos_eq by lra. fold B. lra. }
  rewrite b2r_offset in Er.
  (* A *)
  pose proof (A_abs (b2r a) (b2r W) GW HW HWlo Ha) as HA.
  destruct (fsub_ok a (fmul GRID_OFFSET W) Fa Fr) as [FA EA].
  { rewrite Er. apply le_big. fold B. lra. }
  rewrite Er in EA. fold ga in FA, EA.
  (* q = 4 * S *)
  pose proof (q_lower (b2r W) (b2r S) HW HS HWlo) as Hq0. pose proof (q_upper (b2r W) (b2r S) HW HS HWlo) as Hq1.
  destruct (fmul_ok GRID_SCALE S fin_scale FS) as [Fq Eq].
  { rewrite b2r_scale. apply le_big. rewrite Rabs_pos_eq by lra. fold B. lra. }
  rewrite b2r_scale in Eq.
  (* I *)
  pose proof (I_bounds (b2r W) (b2r S) HW HS HWlo) as [HI0 _]. pose proof (HIB _ (I_upper (b2r W) (b2r S) HW HS HWlo HShi)) as HI1.
  destruct (fdiv_ok f_one (fmul GRID_SCALE S) fin_one) as [FI EI].
  { rewrite Eq. lra. }
  { rewrite b2r_one, Eq. apply le_big. rewrite Rabs_pos_eq by exact HI0. fold B. lra. }
  rewrite b2r_one, Eq in EI. fold gi in FI, EI.
  (* D = x - A *)
  pose proof (D_bounds (b2r a) (b2r W) (b2r x) GW Gx HW HWlo Ha Hx) as [HD0 HD1].
  destruct (fsub_ok x ga Fx FA) as [FD ED].
  { rewrite EA. apply le_big. rewrite Rabs_pos_eq by exact HD0. fold B. lra. }
  rewrite EA in ED.
  (* y = D * I *)
  pose proof (DI_bounds (b2r a) (b2r W) (b2r S) (b2r x) GW Gx HW HS HWlo HShi Ha Hx) as [HY0 HY1].
  assert (Y0 : 0 <= rnd64 (b2r (fsub x ga) * b2r gi)) by (rewrite ED, EI; apply rnd64_nonneg; exact HY0).
  assert (Y1 : rnd64 (b2r (fsub x ga) * b2r gi) <= 15 / 16).
  { rewrite ED, EI. rewrite <- (rnd64_id _ fmt64_15_16). apply rnd64_le. exact HY1. }
  destruct (fmul_ok (fsub x ga) gi FD FI) as [FY EY].
  { apply le_big. rewrite Rabs_pos_eq by exact Y0. fold B. lra. }
  (* t = 1 + y *)
  pose proof (t_in_range_real (b2r a) (b2r W) (b2r S) (b2r x) GW Gx HW HS HWlo HShi Ha Hx) as [HT0 HT1].
  assert (ET : rnd64 (b2r f_one + b2r (fmul (fsub x ga) gi)) =
               rnd64 (1 + rnd64 (rnd64 (b2r x - rnd64 (b2r a - rnd64 (3 / 2 * b2r W))) * rnd64 (1 / rnd64 (4 * b2r S))))).
  { rewrite b2r_one, EY, ED, EI. reflexivity. }
  destruct (fadd_ok f_one (fmul (fsub x ga) gi) fin_one FY) as [FT ETT].
  { rewrite ET. apply le_big. rewrite Rabs_pos_eq by lra. fold B. lra. }
  unfold tval. split; [exact FA|]. split; [exact FI|]. split; [rewrite EI; exact HI0|]. split; [exact FT|]. rewrite ETT, ET. split; assumption.
Qed.
End B64.

