(* Composition: for every box of sane magnitude the integer grid coordinate of every admissible position is defined
   (no overflow, debug assertions hold), lies in [0, 2^52) and is monotone in the position - on IEEE binary64 bits. *)
From Coq Require Import ZArith Reals Lra Lia.
From Flocq Require Import Core BinarySingleNaN Binary Bits.
From MV Require Import Model.Grid Proofs.GridFlocq Proofs.GridRange Proofs.GridRangeB64 Proofs.GridBits.
Open Scope R_scope.

Definition sane_box (a W S : f64) : Prop :=
  fin a = true /\ fin W = true /\ fin S = true /\
  0 < b2r W /\ b2r W <= b2r S /\ bpow radix2 (-900) <= b2r W /\ b2r S <= bpow radix2 900 /\
  Rabs (b2r a) <= 1099511627776 * b2r W.

(* the closed range iloc is asked about: the (tripled) box, its mirror images and everything in between *)
Definition admissible (a W x : f64) : Prop :=
  fin x = true /\ b2r a - b2r W <= b2r x <= b2r a + 2 * b2r W.

Theorem grid_coordinate_total (a W S x : f64) : sane_box a W S -> admissible a W x ->
  let '(_, _, ga, gi) := cuboid_axis a W S in
  t_in_range (tval ga gi x) = true /\ (0 <= iloc1 ga gi x < 2 ^ 52)%Z /\
  IZR (iloc1 ga gi x) = mant52 (b2r (tval ga gi x)).
Proof.
  intros (Fa & FW & FS & HW & HS & Hlo & Hhi & Ha) (Fx & Hx). unfold cuboid_axis.
  destruct (iloc_in_range_b64 a W S x Fa FW FS Fx HW HS Hlo Hhi Ha Hx) as (_ & _ & _ & Ft & Ht).
  apply iloc_bits; [exact Ft|lra].
Qed.

Theorem grid_coordinate_monotone (a W S x y : f64) : sane_box a W S -> admissible a W x -> admissible a W y ->
  b2r x <= b2r y ->
  let '(_, _, ga, gi) := cuboid_axis a W S in (iloc1 ga gi x <= iloc1 ga gi y)%Z.
Proof.
  intros Hbox Hax Hay Hxy. pose proof (grid_coordinate_total a W S x Hbox Hax) as Tx.
  pose proof (grid_coordinate_total a W S y Hbox Hay) as Ty. unfold cuboid_axis in *.
  destruct Tx as (_ & _ & Ex). destruct Ty as (_ & _ & Ey).
  destruct Hbox as (Fa & FW & FS & HW & HS & Hlo & Hhi & Ha). destruct Hax as (Fx & Hx). destruct Hay as (Fy & Hy).
  destruct (iloc_in_range_b64 a W S x Fa FW FS Fx HW HS Hlo Hhi Ha Hx) as (_ & _ & HI & Ftx & _).
  destruct (iloc_in_range_b64 a W S y Fa FW FS Fy HW HS Hlo Hhi Ha Hy) as (_ & _ & _ & Fty & _).
  apply le_IZR. rewrite Ex, Ey. unfold mant52. apply Rmult_le_compat_r; [apply bpow_ge_0|].
  apply Rplus_le_compat_r. apply tval_monotone; [exact HI|exact Hxy|exact Ftx|exact Fty].
Qed.

(* non-vacuity: the unit box at the origin is sane and 0.5 is an admissible position *)
Definition f_zero : f64 := of_bits 0.
Definition f_half : f64 := of_bits 0x3FE0000000000000.
Lemma b2r_zero : b2r f_zero = 0. Proof. reflexivity. Qed.
Lemma b2r_half : b2r f_half = / 2.
Proof.
  const_b2r f_half 4503599627370496%positive (-53)%Z.
  replace (Zpower_pos radix2 53) with 9007199254740992%Z by (vm_compute; reflexivity). lra.
Qed.
Lemma unit_box_sane : sane_box f_zero f_one f_one /\ admissible f_zero f_one f_half.
Proof.
  unfold sane_box, admissible. rewrite b2r_zero, b2r_one, b2r_half, Rabs_R0.
  assert (bpow radix2 (-900) <= 1) by (change 1 with (bpow radix2 0); apply bpow_le; lia).
  assert (1 <= bpow radix2 900) by (change 1 with (bpow radix2 0); apply bpow_le; lia).
  repeat split; try reflexivity; lra.
Qed.
