From Coq Require Import List Arith Bool Lia Permutation.
From MV Require Import Model.Assemble.
Import ListNotations.

(* ------------------------------------------------------------------ finalize: per-cell lists *)

Lemma nth_updl {A} (l : list (list A)) c x k : c < length l ->
  nth k (updl l c x) [] = if Nat.eqb k c then nth k l [] ++ [x] else nth k l [].
Proof.
  revert c k. induction l as [|h t IH]; intros c k Hc; cbn in *; [lia|].
  destruct c, k; cbn; auto.
  rewrite IH by lia. reflexivity.
Qed.

Lemma length_updl {A} (l : list (list A)) c x : length (updl l c x) = length l.
Proof. revert c. induction l; intros [|c]; cbn; auto. Qed.

Lemma updl_out {A} (l : list (list A)) c x : length l <= c -> updl l c x = l.
Proof.
  revert c. induction l as [|h t IH]; intros c Hc; cbn in *; auto.
  destruct c; [lia|]. f_equal. apply IH. lia.
Qed.

Definition in_range (n : nat) (f : sface) : Prop :=
  fleft f < n /\ match fright f with Some r => r < n | None => True end.

(* which cells list face number i *)
Definition contrib (c i : nat) (f : sface) : list nat :=
  (if Nat.eqb (fleft f) c then [i] else []) ++
  (match fright f, fshift f with
   | Some r, None => if Nat.eqb r c then [i] else []
   | _, _ => []
   end).

Fixpoint spec_list (c i : nat) (fs : list sface) : list nat :=
  match fs with [] => [] | f :: t => contrib c i f ++ spec_list c (S i) t end.

Lemma push_face_nth acc i f k : in_range (length acc) f ->
  nth k (push_face acc i f) [] = nth k acc [] ++ contrib k i f /\
  length (push_face acc i f) = length acc.
Proof.
  intros [Hl Hr]. unfold push_face, contrib.
  destruct (fright f) as [r|] eqn:Er; destruct (fshift f) eqn:Es;
    rewrite ?nth_updl, ?length_updl by (rewrite ?length_updl; lia);
    rewrite ?(Nat.eqb_sym k);
    repeat match goal with |- context[Nat.eqb ?a ?b] => destruct (Nat.eqb a b) end;
    rewrite ?app_nil_r, <- ?app_assoc; auto.
Qed.

Lemma link_nth fs : forall acc i k, Forall (in_range (length acc)) fs ->
  nth k (link acc i fs) [] = nth k acc [] ++ spec_list k i fs /\
  length (link acc i fs) = length acc.
Proof.
  induction fs as [|f t IH]; intros acc i k HF; cbn.
  - rewrite app_nil_r; auto.
  - inversion HF; subst. destruct (push_face_nth acc i f k) as [E L]; auto.
    destruct (IH (push_face acc i f) (S i) k) as [E' L']; [rewrite L; auto|].
    rewrite E', E, L', L, <- app_assoc. auto.
Qed.

Lemma nth_repeat_nil {A} n c : nth c (repeat (@nil A) n) [] = [].
Proof. revert c. induction n; intros [|c]; cbn; auto. Qed.

Lemma per_cell_spec n fs c : Forall (in_range n) fs ->
  nth c (per_cell n fs) [] = spec_list c 0 fs.
Proof.
  intros HF. unfold per_cell. destruct (link_nth fs (repeat [] n) 0 c) as [E _].
  - rewrite repeat_length; auto.
  - rewrite E, nth_repeat_nil. reflexivity.
Qed.

Lemma per_cell_length n fs : Forall (in_range n) fs -> length (per_cell n fs) = n.
Proof.
  intros HF. unfold per_cell. destruct (link_nth fs (repeat [] n) 0 0) as [_ L].
  - rewrite repeat_length; auto.
  - rewrite L, repeat_length. reflexivity.
Qed.

(* ------------------------------------------------------------------ offsets / counts / slices *)

Fixpoint prefix_sums (off : nat) (cs : list nat) : list nat :=
  match cs with [] => [] | c :: t => off :: prefix_sums (off + c) t end.

Lemma prefix_is_prefix_sums off ls : prefix off ls = prefix_sums off (map (@length nat) ls).
Proof. revert off. induction ls as [|l t IH]; intros off; cbn; [reflexivity|]. now rewrite IH. Qed.

Lemma length_concat_sum (ls : list (list nat)) : length (concat ls) = list_sum (map (@length nat) ls).
Proof. induction ls as [|l t IH]; cbn; [reflexivity|]. now rewrite app_length, IH. Qed.

(* the slice [offset, offset+count) of the concatenation is the c-th list *)
Lemma slice_concat (ls : list (list nat)) : forall c off pre,
  length pre = off -> c < length ls ->
  firstn (length (nth c ls [])) (skipn (nth c (prefix off ls) 0) (pre ++ concat ls)) = nth c ls [].
Proof.
  induction ls as [|l t IH]; intros c off pre Hpre Hc; cbn in Hc; [lia|].
  destruct c as [|c]; cbn [nth prefix concat].
  - rewrite skipn_app. rewrite <- Hpre, skipn_all, Nat.sub_diag. cbn [skipn app].
    rewrite firstn_app, firstn_all, Nat.sub_diag. cbn. now rewrite app_nil_r.
  - rewrite app_assoc. apply IH; [rewrite app_length; lia | lia].
Qed.

Theorem face_indices_per_cell n fs c : Forall (in_range n) fs -> c < n ->
  face_indices (finalize n fs) c = nth c (per_cell n fs) [].
Proof.
  intros HF Hc. unfold face_indices, finalize. cbn [counts offsets connections].
  pose proof (per_cell_length n fs HF) as L.
  replace (nth c (map (@length nat) (per_cell n fs)) 0) with (length (nth c (per_cell n fs) [])).
  2:{ change 0 with (length (@nil nat)). now rewrite map_nth. }
  apply (slice_concat (per_cell n fs) c 0 []); [reflexivity | lia].
Qed.

Theorem offsets_prefix_sums n fs :
  offsets (finalize n fs) = prefix_sums 0 (counts (finalize n fs)) /\
  list_sum (counts (finalize n fs)) = length (connections (finalize n fs)) /\
  connections (finalize n fs) = concat (per_cell n fs) /\
  (Forall (in_range n) fs -> length (counts (finalize n fs)) = n).
Proof.
  unfold finalize; cbn [offsets counts connections]. repeat split.
  - apply prefix_is_prefix_sums.
  - symmetry. apply length_concat_sum.
  - intros HF. now rewrite map_length, per_cell_length.
Qed.

(* ------------------------------------------------------------------ who lists a face *)

Definition is_left (fs : list sface) (i c : nat) : bool := Nat.eqb (fleft (nth i fs sface_default)) c.
Definition is_unshifted_right (fs : list sface) (i c : nat) : bool :=
  match fright (nth i fs sface_default), fshift (nth i fs sface_default) with
  | Some r, None => Nat.eqb r c
  | _, _ => false
  end.

Lemma count_occ_contrib c j i f :
  count_occ Nat.eq_dec (contrib c j f) i =
  if Nat.eqb i j then (if Nat.eqb (fleft f) c then 1 else 0) +
                      (match fright f, fshift f with Some r, None => if Nat.eqb r c then 1 else 0 | _, _ => 0 end)
  else 0.
Proof.
  unfold contrib. rewrite count_occ_app.
  destruct (Nat.eqb_spec i j) as [->|Hne].
  - destruct (Nat.eqb (fleft f) c); destruct (fright f) as [r|]; destruct (fshift f);
      try destruct (Nat.eqb r c); cbn; destruct (Nat.eq_dec j j); try congruence; reflexivity.
  - destruct (Nat.eqb (fleft f) c); destruct (fright f) as [r|]; destruct (fshift f);
      try destruct (Nat.eqb r c); cbn; destruct (Nat.eq_dec j i); try congruence; reflexivity.
Qed.

Lemma count_occ_spec_list c fs : forall j i,
  count_occ Nat.eq_dec (spec_list c j fs) i =
  if (Nat.leb j i) && (Nat.ltb i (j + length fs))
  then (if Nat.eqb (fleft (nth (i - j) fs sface_default)) c then 1 else 0) +
       (match fright (nth (i - j) fs sface_default), fshift (nth (i - j) fs sface_default) with
        | Some r, None => if Nat.eqb r c then 1 else 0 | _, _ => 0 end)
  else 0.
Proof.
  induction fs as [|f t IH]; intros j i; cbn [spec_list length].
  - cbn [count_occ length].
    destruct (Nat.leb_spec j i), (Nat.ltb_spec i (j + 0)); cbn [andb]; try reflexivity; lia.
  - rewrite count_occ_app, count_occ_contrib, IH.
    destruct (Nat.eqb_spec i j) as [->|Hne].
    + rewrite Nat.sub_diag. cbn [nth].
      replace (Nat.leb (S j) j) with false by (symmetry; apply Nat.leb_gt; lia). cbn [andb].
      replace (Nat.leb j j) with true by (symmetry; apply Nat.leb_le; lia).
      replace (Nat.ltb j (j + S (length t))) with true by (symmetry; apply Nat.ltb_lt; lia).
      cbn [andb]. lia.
    + destruct (Nat.leb_spec j i) as [Hle|Hgt].
      * assert (Hlt : S j <= i) by lia.
        replace (Nat.leb (S j) i) with true by (symmetry; apply Nat.leb_le; lia).
        replace (Nat.ltb i (S j + length t)) with (Nat.ltb i (j + S (length t)))
          by (destruct (Nat.ltb_spec i (S j + length t)), (Nat.ltb_spec i (j + S (length t))); auto; lia).
        cbn [andb]. destruct (Nat.ltb i (j + S (length t))); [|reflexivity].
        replace (i - j) with (S (i - S j)) by lia. cbn [nth]. reflexivity.
      * replace (Nat.leb (S j) i) with false by (symmetry; apply Nat.leb_gt; lia). reflexivity.
Qed.

Theorem listed_iff n fs c i : Forall (in_range n) fs -> c < n -> i < length fs ->
  count_occ Nat.eq_dec (face_indices (finalize n fs) c) i =
    (if is_left fs i c then 1 else 0) + (if is_unshifted_right fs i c then 1 else 0).
Proof.
  intros HF Hc Hi. rewrite face_indices_per_cell, per_cell_spec by assumption.
  rewrite count_occ_spec_list. cbn [Nat.leb andb]. rewrite Nat.sub_0_r, Nat.add_0_l.
  replace (Nat.ltb i (length fs)) with true by (symmetry; apply Nat.ltb_lt; lia).
  unfold is_left, is_unshifted_right.
  destruct (fright (nth i fs sface_default)) as [r|]; destruct (fshift (nth i fs sface_default)); reflexivity.
Qed.

Corollary listed_only_valid n fs c i : Forall (in_range n) fs -> c < n ->
  In i (face_indices (finalize n fs) c) -> i < length fs.
Proof.
  intros HF Hc Hin. rewrite face_indices_per_cell, per_cell_spec in Hin by assumption.
  apply (count_occ_In Nat.eq_dec) in Hin. rewrite count_occ_spec_list in Hin.
  cbn [Nat.leb andb] in Hin. rewrite Nat.add_0_l in Hin.
  destruct (Nat.ltb_spec i (length fs)); [assumption | lia].
Qed.

(* ------------------------------------------------------------------ neighbour iterator *)

Definition interior_unshifted (f : sface) : option nat :=
  match fright f, fshift f with Some r, None => Some r | _, _ => None end.

(* what cell c (whose stored idx is c) yields for one face *)
Definition nbr_contrib (c : nat) (f : sface) : list nat :=
  match interior_unshifted f with
  | Some r => (if Nat.eqb (fleft f) c then [r] else []) ++
              (if Nat.eqb r c then [if Nat.eqb (fleft f) c then r else fleft f] else [])
  | None => []
  end.

Fixpoint nbrs (c : nat) (fs : list sface) : list nat :=
  match fs with [] => [] | f :: t => nbr_contrib c f ++ nbrs c t end.

Lemma nbrs_from_spec c fs : forall pre,
  flat_map (fun i => let f := nth i (pre ++ fs) sface_default in
                     match fshift f, fright f with
                     | None, Some r => [if Nat.eqb (fleft f) c then r else fleft f]
                     | _, _ => []
                     end) (spec_list c (length pre) fs) = nbrs c fs.
Proof.
  induction fs as [|f t IH]; intros pre; cbn [spec_list nbrs flat_map]; [reflexivity|].
  rewrite flat_map_app.
  replace (pre ++ f :: t) with ((pre ++ [f]) ++ t) by (rewrite <- app_assoc; reflexivity).
  specialize (IH (pre ++ [f])). rewrite app_length in IH. cbn [length] in IH.
  rewrite Nat.add_1_r in IH. rewrite IH. f_equal.
  unfold contrib, nbr_contrib, interior_unshifted.
  assert (Hn : nth (length pre) ((pre ++ [f]) ++ t) sface_default = f).
  { rewrite <- app_assoc. rewrite app_nth2 by lia. rewrite Nat.sub_diag. reflexivity. }
  destruct (Nat.eqb (fleft f) c) eqn:El; destruct (fright f) as [r|] eqn:Er; destruct (fshift f) eqn:Es;
    cbn [app flat_map]; rewrite ?Hn, ?Er, ?Es, ?El; cbn [app];
    try destruct (Nat.eqb r c) eqn:Erc; cbn [app flat_map]; rewrite ?Hn, ?Er, ?Es, ?El; reflexivity.
Qed.

Theorem neighbour_ids_nbrs n fs c : Forall (in_range n) fs -> c < n ->
  neighbour_ids fs (finalize n fs) c c = nbrs c fs.
Proof.
  intros HF Hc. unfold neighbour_ids. rewrite face_indices_per_cell, per_cell_spec by assumption.
  apply (nbrs_from_spec c fs []).
Qed.

(* well-formed face lists: no unshifted self face; no two unshifted interior faces join the same
   unordered pair of generators *)
Definition upair_eq (a b a' b' : nat) : Prop := (a = a' /\ b = b') \/ (a = b' /\ b = a').

Definition no_self (f : sface) : Prop :=
  match interior_unshifted f with Some r => r <> fleft f | None => True end.

Definition distinct_pair (f f' : sface) : Prop :=
  match interior_unshifted f, interior_unshifted f' with
  | Some r, Some r' => ~ upair_eq (fleft f) r (fleft f') r'
  | _, _ => True
  end.

Fixpoint faces_wf (fs : list sface) : Prop :=
  match fs with
  | [] => True
  | f :: t => no_self f /\ Forall (distinct_pair f) t /\ faces_wf t
  end.

Lemma in_nbrs c x fs : In x (nbrs c fs) ->
  exists f r, In f fs /\ interior_unshifted f = Some r /\
              (upair_eq (fleft f) r c x \/ (fleft f = c /\ r = c /\ x = c)).
Proof.
  induction fs as [|f t IH]; cbn [nbrs]; [intros []|].
  intros H. apply in_app_or in H. destruct H as [H|H].
  - unfold nbr_contrib in H. destruct (interior_unshifted f) as [r|] eqn:Ei; [|destruct H].
    exists f, r. split; [left; reflexivity|]. split; [exact Ei|].
    apply in_app_or in H. destruct H as [H|H].
    + destruct (Nat.eqb_spec (fleft f) c) as [El|El]; [|destruct H].
      destruct H as [<-|[]]. left. left. auto.
    + destruct (Nat.eqb_spec r c) as [Er|Er]; [|destruct H].
      destruct H as [<-|[]]. destruct (Nat.eqb_spec (fleft f) c) as [El|El].
      * right. repeat split; auto.
      * left. right. auto.
  - destruct (IH H) as (f' & r & Hin & Hi & Hp).
    exists f', r. split; [right; assumption|]. auto.
Qed.

Lemma nbr_contrib_wf c f : no_self f ->
  nbr_contrib c f = [] \/ exists x r, nbr_contrib c f = [x] /\ interior_unshifted f = Some r /\
                                      upair_eq (fleft f) r c x /\ x <> c.
Proof.
  unfold no_self, nbr_contrib. destruct (interior_unshifted f) as [r|]; [|left; reflexivity].
  intros Hns.
  destruct (Nat.eqb_spec (fleft f) c) as [El|El]; destruct (Nat.eqb_spec r c) as [Er|Er]; cbn [app].
  - congruence.
  - right. exists r, r. repeat split; auto. left; auto.
  - right. exists (fleft f), r. repeat split; auto. right; auto.
  - left; reflexivity.
Qed.

Theorem nbrs_nodup_not_self c fs : faces_wf fs -> NoDup (nbrs c fs) /\ ~ In c (nbrs c fs).
Proof.
  induction fs as [|f t IH]; cbn [nbrs faces_wf].
  - intros _. split; [constructor | intros []].
  - intros (Hns & Hd & Hwf). destruct (IH Hwf) as [ND NI].
    destruct (nbr_contrib_wf c f Hns) as [E | (x & r & E & Hi & Hp & Hx)]; rewrite E; cbn [app].
    + split; assumption.
    + split.
      * constructor; [|assumption]. intros Hin.
        destruct (in_nbrs c x t Hin) as (f' & r' & Hin' & Hi' & [Hp' | (_ & _ & Hxc)]).
        -- rewrite Forall_forall in Hd. specialize (Hd f' Hin'). unfold distinct_pair in Hd.
           rewrite Hi, Hi' in Hd. apply Hd.
           unfold upair_eq in *. destruct Hp as [[? ?]|[? ?]], Hp' as [[? ?]|[? ?]]; subst; auto.
        -- congruence.
      * intros [Hc|Hc]; [congruence | contradiction].
Qed.

(* ------------------------------------------------------------------ the faces produced by cells are well formed *)

Lemma faces_wf_app a b :
  faces_wf a -> faces_wf b -> (forall f f', In f a -> In f' b -> distinct_pair f f') -> faces_wf (a ++ b).
Proof.
  induction a as [|x a IH]; cbn [app faces_wf]; intros Ha Hb Hab; [assumption|].
  destruct Ha as (Hns & Hd & Ha). split; [assumption|]. split.
  - apply Forall_app. split; [assumption|]. apply Forall_forall. intros f' Hf'. apply Hab; [left; reflexivity | assumption].
  - apply IH; auto. intros f f' Hf Hf'. apply Hab; [right; assumption | assumption].
Qed.

Definition constructed (cells : list (option scell)) : list scell :=
  flat_map (fun oc => match oc with Some c => [c] | None => [] end) cells.

Lemma all_faces_constructed mask cells :
  all_faces mask cells = flat_map (cell_faces mask) (constructed cells).
Proof.
  unfold all_faces, constructed. induction cells as [|[c|] t IH]; cbn [flat_map app]; [reflexivity| |assumption].
  now rewrite IH.
Qed.

(* keys (right generator, shift) of the planes of a cell that can carry a face *)
Definition face_keys (c : scell) : list (nat * option nat) :=
  flat_map (fun p => match sright p with
                     | Some r => if shastet p && svalid p then [(r, sshift p)] else []
                     | None => [] end) (splanes c).

Definition cell_ok (c : scell) : Prop := NoDup (face_keys c).

Lemma in_cell_faces mask c f : In f (cell_faces mask c) ->
  fleft f = sidx c /\
  exists p, In p (splanes c) /\ fright f = sright p /\ fshift f = sshift p /\
            shastet p = true /\ should_construct (sidx c) mask p = true.
Proof.
  unfold cell_faces, enumerate. generalize 0 as k. induction (splanes c) as [|p t IH]; intros k; cbn [enumerate_from flat_map]; [intros []|].
  intros H. apply in_app_or in H. destruct H as [H|H].
  - destruct (shastet p) eqn:E1; destruct (should_construct (sidx c) mask p) eqn:E2; cbn [andb] in H;
      try (destruct H; fail).
    destruct H as [H|[]]. subst f. cbn. split; [reflexivity|]. exists p. repeat split; auto using in_eq.
  - destruct (IH (S k) H) as (Hl & p' & Hin & Hrest). split; [assumption|]. exists p'. split; [right; assumption | assumption].
Qed.

Lemma should_construct_valid idx mask p : should_construct idx mask p = true -> svalid p = true.
Proof. unfold should_construct. destruct (svalid p); cbn; congruence. Qed.

Lemma should_construct_interior idx mask p r :
  should_construct idx mask p = true -> sright p = Some r -> sshift p = None ->
  idx < r \/ mask_inactive mask r = true.
Proof.
  unfold should_construct. intros H Er Es. rewrite Er, Es in H.
  apply andb_true_iff in H. destruct H as [_ H]. apply orb_true_iff in H.
  destruct H as [H|H]; [left; now apply Nat.ltb_lt | right; assumption].
Qed.

(* faces of a single cell: distinct keys give distinct pairs; the rule excludes an unshifted self face
   of an active cell *)
Lemma cell_faces_wf mask c : cell_ok c -> mask_inactive mask (sidx c) = false -> faces_wf (cell_faces mask c).
Proof.
  unfold cell_ok, face_keys, cell_faces, enumerate. generalize 0 as k.
  induction (splanes c) as [|p t IH]; intros k ND Hact; cbn [enumerate_from flat_map]; [exact I|].
  cbn [flat_map] in ND.
  assert (NDt : NoDup (flat_map (fun p0 => match sright p0 with
             | Some r => if shastet p0 && svalid p0 then [(r, sshift p0)] else [] | None => [] end) t)).
  { destruct (sright p); [destruct (shastet p && svalid p)|]; cbn [app] in ND; try assumption. now inversion ND. }
  specialize (IH (S k) NDt Hact).
  destruct (shastet p) eqn:E1; destruct (should_construct (sidx c) mask p) eqn:E2; cbn [andb app]; try assumption.
  cbn [faces_wf]. split; [|split; [|assumption]].
  - unfold no_self, interior_unshifted. cbn.
    destruct (sright p) as [r|] eqn:Er; [|exact I]. destruct (sshift p) eqn:Es; [exact I|].
    destruct (should_construct_interior _ _ _ _ E2 Er Es) as [H|H]; [lia|].
    intros ->. congruence.
  - apply Forall_forall. intros f' Hf'.
    assert (Hf'' : In f' (cell_faces mask {| sidx := sidx c; splanes := t |}) \/ True) by (right; exact I).
    clear Hf''.
    (* f' comes from a plane p' in t with the same left *)
    assert (Hex : fleft f' = sidx c /\ exists p', In p' t /\ fright f' = sright p' /\ fshift f' = sshift p' /\
                   shastet p' = true /\ should_construct (sidx c) mask p' = true).
    { clear -Hf'. revert Hf'. generalize (S k) as j. induction t as [|q t IHt]; intros j; cbn [enumerate_from flat_map]; [intros []|].
      intros H. apply in_app_or in H. destruct H as [H|H].
      - destruct (shastet q) eqn:F1; destruct (should_construct (sidx c) mask q) eqn:F2; cbn [andb] in H;
          try (destruct H; fail).
        destruct H as [H|[]]. subst f'. cbn. split; [reflexivity|]. exists q. repeat split; auto using in_eq.
      - destruct (IHt (S j) H) as (Hl & p' & Hin & Hrest). split; [assumption|]. exists p'. split; [right; assumption|assumption]. }
    destruct Hex as (Hl' & p' & Hin' & Hr' & Hs' & Ht' & Hc').
    unfold distinct_pair, interior_unshifted. cbn [fleft fright fshift].
    destruct (sright p) as [r|] eqn:Er; [|exact I]. destruct (sshift p) eqn:Es; [exact I|].
    rewrite Hr', Hs'. destruct (sright p') as [r'|] eqn:Er'; [|exact I]. destruct (sshift p') eqn:Es'; [exact I|].
    rewrite Hl'. intros [[_ Hrr]|[Hcr Hrc]].
    + (* same key twice *)
      subst r'. rewrite (should_construct_valid _ _ _ E2) in ND. cbn [andb app] in ND.
      inversion ND as [|? ? Hnotin _]; subst. apply Hnotin.
      apply in_flat_map. exists p'. split; [assumption|].
      rewrite Er', Ht', (should_construct_valid _ _ _ Hc'), Es'. cbn. left; reflexivity.
    + (* r = sidx c: unshifted self face of an active cell *)
      subst r. destruct (should_construct_interior _ _ _ _ E2 Er Es) as [H|H]; [lia | congruence].
Qed.

Definition cells_ok (mask : option (list bool)) (cs : list scell) : Prop :=
  NoDup (map sidx cs) /\ Forall cell_ok cs /\ Forall (fun c => mask_inactive mask (sidx c) = false) cs.

Theorem all_faces_wf mask cs : cells_ok mask cs -> faces_wf (flat_map (cell_faces mask) cs).
Proof.
  intros (ND & Hok & Hact). induction cs as [|c t IH]; cbn [flat_map]; [exact I|].
  inversion ND as [|? ? Hnotin NDt]; subst. inversion Hok as [|? ? Hok_c Hok_t]; subst.
  inversion Hact as [|? ? Hact_c Hact_t]; subst.
  apply faces_wf_app; [apply cell_faces_wf; assumption | apply IH; assumption |].
  intros f f' Hf Hf'. apply in_flat_map in Hf'. destruct Hf' as (c' & Hc' & Hf').
  destruct (in_cell_faces _ _ _ Hf) as (Hl & p & _ & Hr & Hs & _ & Hsc).
  destruct (in_cell_faces _ _ _ Hf') as (Hl' & p' & _ & Hr' & Hs' & _ & Hsc').
  assert (Hne : sidx c <> sidx c').
  { intros E. apply Hnotin. rewrite E. now apply in_map. }
  assert (Hact' : mask_inactive mask (sidx c') = false).
  { rewrite Forall_forall in Hact_t. apply Hact_t. assumption. }
  unfold distinct_pair, interior_unshifted. rewrite Hr, Hs, Hr', Hs', Hl, Hl'.
  destruct (sright p) as [r|] eqn:Er; [|exact I]. destruct (sshift p) eqn:Es; [exact I|].
  destruct (sright p') as [r'|] eqn:Er'; [|exact I]. destruct (sshift p') eqn:Es'; [exact I|].
  intros [[E _]|[E1 E2]]; [contradiction|]. subst r r'.
  destruct (should_construct_interior _ _ _ _ Hsc Er Es) as [H1|H1];
  destruct (should_construct_interior _ _ _ _ Hsc' Er' Es') as [H2|H2]; try lia; congruence.
Qed.

(* ------------------------------------------------------------------ the assembled tessellation *)

Definition cell_in_range (n : nat) (c : scell) : Prop :=
  sidx c < n /\ Forall (fun p => match sright p with Some r => r < n | None => True end) (splanes c).

Lemma all_faces_in_range mask cells n :
  Forall (cell_in_range n) (constructed cells) -> Forall (in_range n) (all_faces mask cells).
Proof.
  intros H. rewrite all_faces_constructed. apply Forall_forall. intros f Hf.
  apply in_flat_map in Hf. destruct Hf as (c & Hc & Hf).
  rewrite Forall_forall in H. destruct (H c Hc) as [Hi Hp].
  destruct (in_cell_faces _ _ _ Hf) as (Hl & p & Hin & Hr & _).
  split; [lia|]. rewrite Hr. rewrite Forall_forall in Hp. exact (Hp p Hin).
Qed.

Theorem assemble_neighbour_ids_nodup_not_self mask cells c :
  cells_ok mask (constructed cells) ->
  Forall (cell_in_range (length cells)) (constructed cells) ->
  c < length cells ->
  nth c (tstored (assemble mask cells)) 0 = c ->
  NoDup (tess_neighbour_ids (assemble mask cells) c) /\ ~ In c (tess_neighbour_ids (assemble mask cells) c).
Proof.
  intros Hok Hr Hc Hs. unfold tess_neighbour_ids. rewrite Hs. unfold assemble. cbn [tfaces tconn].
  rewrite neighbour_ids_nbrs; [|apply all_faces_in_range; assumption | assumption].
  apply nbrs_nodup_not_self. rewrite all_faces_constructed. apply all_faces_wf. assumption.
Qed.

Lemma enumerate_from_stored k cells :
  map (fun '(i, oc) => stored_idx i oc) (enumerate_from k cells) = seq k (length cells).
Proof.
  revert k. induction cells as [|oc t IH]; intros k; cbn; [reflexivity|]. now rewrite IH.
Qed.

Lemma stored_idx_own mask cells c : c < length cells -> nth c (tstored (assemble mask cells)) 0 = c.
Proof.
  intros Hc. unfold assemble, enumerate. cbn [tstored]. rewrite enumerate_from_stored.
  now rewrite seq_nth.
Qed.

(* for EVERY cell, constructed or not *)
Theorem neighbour_ids_nodup_not_self_all mask cells c :
  cells_ok mask (constructed cells) ->
  Forall (cell_in_range (length cells)) (constructed cells) ->
  c < length cells ->
  NoDup (tess_neighbour_ids (assemble mask cells) c) /\ ~ In c (tess_neighbour_ids (assemble mask cells) c).
Proof.
  intros. apply assemble_neighbour_ids_nodup_not_self; auto using stored_idx_own.
Qed.

(* every face has a constructed (selected) left cell *)
Theorem face_left_constructed mask cells f :
  In f (all_faces mask cells) -> exists c, In (Some c) cells /\ fleft f = sidx c.
Proof.
  unfold all_faces. intros H. apply in_flat_map in H. destruct H as ([c|] & Hc & Hf); [|destruct Hf].
  exists c. split; [assumption|]. now destruct (in_cell_faces _ _ _ Hf).
Qed.

(* ------------------------------------------------------------------ C13: routes and integral lists *)

Lemma mask_inactive_active n mask r : r < n -> (match mask with Some m => length m = n | None => True end) ->
  mask_inactive (Some (cell_is_active n mask)) r = mask_inactive mask r.
Proof.
  intros Hr Hl. destruct mask as [m|]; cbn; [reflexivity|].
  rewrite nth_indep with (d' := true) by (rewrite repeat_length; lia).
  clear Hl. revert r Hr. induction n; intros r Hr; [lia|]. destruct r; cbn; [reflexivity|]. apply IHn. lia.
Qed.

Lemma cell_faces_ext m1 m2 c :
  (forall p r, In p (splanes c) -> sright p = Some r -> mask_inactive m1 r = mask_inactive m2 r) ->
  cell_faces m1 c = cell_faces m2 c.
Proof.
  unfold cell_faces, enumerate. generalize 0 as k. induction (splanes c) as [|p t IH]; intros k H; cbn [enumerate_from flat_map]; [reflexivity|].
  rewrite (IH (S k)) by (intros; eapply H; eauto using in_cons). f_equal.
  assert (E : should_construct (sidx c) m1 p = should_construct (sidx c) m2 p).
  { unfold should_construct. destruct (sright p) as [r|] eqn:Er; [|reflexivity]. destruct (sshift p); [reflexivity|].
    rewrite (H p r (in_eq _ _) Er). reflexivity. }
  now rewrite E.
Qed.

Lemma all_faces_ext m1 m2 cells :
  (forall c p r, In c (constructed cells) -> In p (splanes c) -> sright p = Some r ->
                 mask_inactive m1 r = mask_inactive m2 r) ->
  all_faces m1 cells = all_faces m2 cells.
Proof.
  unfold all_faces, constructed. induction cells as [|[c|] t IH]; intros H; cbn [flat_map]; [reflexivity| |].
  - f_equal.
    + apply cell_faces_ext. intros p r Hp Er. apply (H c p r); [cbn; left; reflexivity | assumption | assumption].
    + apply IH. intros c' p r Hc'. apply H. cbn [flat_map app]. right. assumption.
  - apply IH. intros c' p r Hc'. apply H. cbn [flat_map app]. assumption.
Qed.

Theorem assemble_active_mask mask cells :
  (match mask with Some m => length m = length cells | None => True end) ->
  Forall (cell_in_range (length cells)) (constructed cells) ->
  assemble (Some (cell_is_active (length cells) mask)) cells = assemble mask cells.
Proof.
  intros Hm Hr. unfold assemble.
  assert (E : all_faces (Some (cell_is_active (length cells) mask)) cells = all_faces mask cells).
  { apply all_faces_ext. intros c p r Hc Hp Er. apply mask_inactive_active; [|assumption].
    rewrite Forall_forall in Hr. destruct (Hr c Hc) as [_ Hps]. rewrite Forall_forall in Hps.
    specialize (Hps p Hp). now rewrite Er in Hps. }
  now rewrite E.
Qed.

Theorem from_integrator_eq_direct geom n mask :
  (match mask with Some m => length m = n | None => True end) ->
  (forall i, i < n -> cell_in_range n (geom i)) ->
  build_via_integrator geom n mask = build_direct geom n mask.
Proof.
  intros Hm Hg. unfold build_via_integrator, build_direct, integrator_cells.
  set (cells := map _ (seq 0 n)).
  assert (L : length cells = n) by (unfold cells; now rewrite map_length, seq_length).
  rewrite <- L at 1. apply assemble_active_mask.
  - rewrite L. assumption.
  - rewrite L. unfold cells, constructed. apply Forall_forall. intros c Hc.
    apply in_flat_map in Hc. destruct Hc as (oc & Hoc & Hc). apply in_map_iff in Hoc.
    destruct Hoc as (i & Ei & Hi). apply in_seq in Hi. subst oc.
    destruct (mask_get mask i); [|destruct Hc]. destruct Hc as [<-|[]]. apply Hg. lia.
Qed.

(* symmetric face integrals = the non-symmetric ones minus the faces already reported by a
   constructed lower-index neighbour without shift (order preserved) *)
Definition sym_skip_face (active : list bool) (f : sface) : bool :=
  match fshift f, fright f with
  | None, Some r => Nat.ltb r (fleft f) && nth r active false
  | _, _ => false
  end.

Theorem sym_is_filtered_nonsym active cells :
  face_integrals_sym active cells = filter (fun f => negb (sym_skip_face active f)) (face_integrals cells).
Proof.
  unfold face_integrals_sym, face_integrals.
  induction cells as [|[c|] t IH]; cbn [flat_map]; [reflexivity| |assumption].
  rewrite filter_app, <- IH. f_equal. clear IH.
  unfold cell_face_integrals_sym, cell_face_integrals, enumerate. generalize 0 as k.
  induction (splanes c) as [|p ps IHp]; intros k; cbn [enumerate_from flat_map]; [reflexivity|].
  rewrite filter_app, <- IHp. f_equal.
  destruct (shastet p && svalid p); cbn [andb filter]; [|reflexivity].
  unfold sym_skip_face, sym_skip. cbn [fshift fright fleft].
  destruct (sshift p); [reflexivity|]. destruct (sright p) as [r|]; [|reflexivity].
  destruct (Nat.ltb r (sidx c) && nth r active false); reflexivity.
Qed.

(* with no unshifted self plane, the symmetric face integrals are exactly the stored face list
   (same faces, same order, same left/right/shift) *)
Definition no_self_plane (c : scell) : Prop :=
  Forall (fun p => ~ (sright p = Some (sidx c) /\ sshift p = None)) (splanes c).

Theorem sym_integrals_are_face_list active cells :
  Forall no_self_plane (constructed cells) ->
  face_integrals_sym active cells = all_faces (Some active) cells.
Proof.
  unfold face_integrals_sym, all_faces, constructed.
  induction cells as [|[c|] t IH]; intros H; cbn [flat_map]; [reflexivity| |].
  - cbn [flat_map app] in H. inversion H as [|? ? Hc Ht]; subst. rewrite (IH Ht). f_equal. clear IH H Ht.
    unfold cell_face_integrals_sym, cell_faces, enumerate, no_self_plane in *. generalize 0 as k.
    induction (splanes c) as [|p ps IHp]; intros k; cbn [enumerate_from flat_map]; [reflexivity|].
    inversion Hc as [|? ? Hp Hps]; subst. rewrite (IHp Hps). f_equal.
    destruct (shastet p); cbn [andb]; [|reflexivity].
    unfold should_construct, sym_skip, mask_inactive.
    destruct (svalid p); cbn [andb]; [|reflexivity].
    destruct (sshift p) eqn:Es; [destruct (sright p); reflexivity|].
    destruct (sright p) as [r|] eqn:Er; [|reflexivity].
    assert (Hne : r <> sidx c) by (intros ->; apply Hp; auto).
    destruct (Nat.ltb_spec r (sidx c)), (Nat.ltb_spec (sidx c) r); try lia; cbn [andb orb negb];
      destruct (nth r active false); reflexivity.
  - apply IH. exact H.
Qed.

(* cell integrals: one per constructed cell in index order; with-data variants pair data[i] with cell i *)
Theorem cell_integrals_with_data_aligned {D} (cells : list (option scell)) (data : list D) d0 :
  length data = length cells ->
  (forall i c, nth_error cells i = Some (Some c) -> sidx c = i) ->
  Forall (fun '(i, d) => d = nth i data d0) (cell_integrals_with_data cells data).
Proof.
  unfold cell_integrals_with_data.
  assert (G : forall (cs : list (option scell)) (ds pre : list D),
            length ds = length cs ->
            (forall i c, nth_error cs i = Some (Some c) -> sidx c = length pre + i) ->
            Forall (fun '(i, d) => d = nth i (pre ++ ds) d0)
                   (flat_map (fun '(oc, d) => match oc with Some c => [(sidx c, d)] | None => [] end) (zip cs ds))).
  { induction cs as [|oc cs IH]; intros ds pre L Hp; destruct ds as [|d ds]; cbn in L; try lia; cbn [zip flat_map]; [constructor|].
    apply Forall_app. split.
    - destruct oc as [c|]; [|constructor]. constructor; [|constructor].
      rewrite (Hp 0 c eq_refl). rewrite Nat.add_0_r. rewrite app_nth2 by lia. now rewrite Nat.sub_diag.
    - replace (pre ++ d :: ds) with ((pre ++ [d]) ++ ds) by (rewrite <- app_assoc; reflexivity).
      apply IH; [lia|]. intros i c Hi. rewrite app_length. cbn [length]. rewrite (Hp (S i) c Hi). lia. }
  intros L Hp. apply (G cells data [] L). intros i c Hi. cbn. now apply Hp.
Qed.
