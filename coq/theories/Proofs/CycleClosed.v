(* The dual triangulation stays a closed oriented surface through every clip:
   if the boundaries of all dual triangles cancel (every directed edge is used as often as its reverse), they still do
   after the removed triangles are replaced by the fan of new triangles (cur, next, p) around the boundary cycle. *)
From Coq Require Import List Arith Lia Bool ZArith Permutation.
From MV Require Import Model.Cycle Proofs.CycleProofs Proofs.CycleInv.
Import ListNotations.

Open Scope Z_scope.

(* chain of a list of dual triangles *)
Definition dchain (d : dual) (x y : nat) : Z := let '(a, b, c) := d in tchain a b c x y.
Fixpoint dsum (ds : list dual) (x y : nat) : Z :=
  match ds with [] => 0 | d :: t => dchain d x y + dsum t x y end.
Definition closed_surface (ds : list dual) : Prop := forall x y, dsum ds x y = 0.

Lemma dsum_app a b x y : dsum (a ++ b) x y = dsum a x y + dsum b x y.
Proof. induction a; cbn [app dsum]; lia. Qed.

(* ---------- the walk around a proper cycle *)
Lemma walk_chain p first : forall l, l <> [] -> chain p first l ->
  cyc_walk (S (length l)) p (hd 0%nat l) = l ++ [first].
Proof.
  induction l as [|x t IH]; intros Hne Hc; [congruence|].
  destruct t as [|y t'].
  - cbn in Hc. cbn. rewrite Hc. reflexivity.
  - destruct Hc as [Hxy Hc]. specialize (IH ltac:(discriminate) Hc). cbn [hd] in IH |- *.
    change (cyc_walk (S (length (x :: y :: t'))) p x) with (x :: cyc_walk (S (length (y :: t'))) p (ptr p x)).
    rewrite Hxy, IH. reflexivity.
Qed.

(* sum of the pointer contributions along a list of nodes *)
Fixpoint csum (p : list nat) (l : list nat) (x y : nat) : Z :=
  match l with [] => 0 | i :: t => contrib i (ptr p i) x y + csum p t x y end.

Lemma contrib_node i j x y : i <> x -> i <> y -> contrib i j x y = 0.
Proof.
  intros Hx Hy. unfold contrib. destruct (Nat.eqb i j); [reflexivity|].
  rewrite (proj2 (Nat.eqb_neq i x)), (proj2 (Nat.eqb_neq i y)) by assumption. reflexivity.
Qed.

(* over a duplicate-free list: only the entries x and y themselves matter *)
Lemma csum_nodup p : forall l x y, NoDup l -> x <> y ->
  csum p l x y = (if in_dec Nat.eq_dec x l then contrib x (ptr p x) x y else 0)
               + (if in_dec Nat.eq_dec y l then contrib y (ptr p y) x y else 0).
Proof.
  induction l as [|i t IH]; intros x y Hnd Hxy; cbn [csum]; [reflexivity|].
  inversion Hnd as [|? ? Hni Hnd']; subst. rewrite (IH x y Hnd' Hxy).
  destruct (Nat.eq_dec i x) as [->|Nix]; [|destruct (Nat.eq_dec i y) as [->|Niy]].
  - destruct (in_dec Nat.eq_dec x (x :: t)) as [_|N]; [|exfalso; apply N; left; reflexivity].
    destruct (in_dec Nat.eq_dec x t) as [I|_]; [contradiction|].
    destruct (in_dec Nat.eq_dec y (x :: t)) as [I1|N1], (in_dec Nat.eq_dec y t) as [I2|N2]; try lia.
    + destruct I1 as [E|I1]; [congruence|contradiction].
    + exfalso. apply N1. right. exact I2.
  - destruct (in_dec Nat.eq_dec y (y :: t)) as [_|N]; [|exfalso; apply N; left; reflexivity].
    destruct (in_dec Nat.eq_dec y t) as [I|_]; [contradiction|].
    destruct (in_dec Nat.eq_dec x (y :: t)) as [I1|N1], (in_dec Nat.eq_dec x t) as [I2|N2]; try lia.
    + destruct I1 as [E|I1]; [congruence|contradiction].
    + exfalso. apply N1. right. exact I2.
  - rewrite contrib_node by assumption.
    destruct (in_dec Nat.eq_dec x (i :: t)) as [I1|N1], (in_dec Nat.eq_dec x t) as [I2|N2];
    destruct (in_dec Nat.eq_dec y (i :: t)) as [J1|M1], (in_dec Nat.eq_dec y t) as [J2|M2]; try lia;
      try (destruct I1 as [E|I1]; [congruence|contradiction]);
      try (destruct J1 as [E|J1]; [congruence|contradiction]);
      try (exfalso; apply N1; right; assumption); try (exfalso; apply M1; right; assumption).
Qed.

(* the chain of the pointer array is the sum over the nodes of the cycle *)
Lemma pchain_is_csum p l x y : cyc p l -> (x < length p)%nat -> (y < length p)%nat ->
  pchain p x y = csum p l x y.
Proof.
  intros (Hnd & Hr & Hmem & _) Hx Hy. destruct (Nat.eq_dec x y) as [->|Hxy].
  - unfold pchain. rewrite Nat.eqb_refl. cbn [negb andb].
    assert (forall l', csum p l' y y = 0) as Hz.
    { induction l' as [|i t IH]; cbn [csum]; [reflexivity|]. rewrite IH. unfold contrib.
      destruct (Nat.eqb i (ptr p i)) eqn:E; [reflexivity|]. destruct (Nat.eqb i y) eqn:E1; cbn [andb]; [|lia].
      destruct (Nat.eqb (ptr p i) y) eqn:E2; cbn [andb]; [|lia].
      apply Nat.eqb_eq in E1, E2. apply Nat.eqb_neq in E. congruence. }
    rewrite Hz. lia.
  - rewrite (csum_nodup p l x y Hnd Hxy). unfold pchain. rewrite (proj2 (Nat.eqb_neq x y) Hxy). cbn [negb andb].
    assert (Hcx : (if in_dec Nat.eq_dec x l then contrib x (ptr p x) x y else 0) = if Nat.eqb (ptr p x) y then 1 else 0).
    { destruct (in_dec Nat.eq_dec x l) as [I|N].
      - unfold contrib. assert (ptr p x <> x) by (apply (Hmem x Hx); exact I).
        rewrite (proj2 (Nat.eqb_neq x (ptr p x))) by congruence. rewrite Nat.eqb_refl. cbn [andb].
        rewrite (proj2 (Nat.eqb_neq x y) Hxy). cbn [andb]. lia.
      - assert (ptr p x = x) by (destruct (Nat.eq_dec (ptr p x) x); [assumption|exfalso; apply N; apply (Hmem x Hx); assumption]).
        rewrite H. rewrite (proj2 (Nat.eqb_neq x y) Hxy). reflexivity. }
    assert (Hcy : (if in_dec Nat.eq_dec y l then contrib y (ptr p y) x y else 0) = - (if Nat.eqb (ptr p y) x then 1 else 0)).
    { destruct (in_dec Nat.eq_dec y l) as [I|N].
      - unfold contrib. assert (ptr p y <> y) by (apply (Hmem y Hy); exact I).
        rewrite (proj2 (Nat.eqb_neq y (ptr p y))) by congruence. rewrite Nat.eqb_refl.
        rewrite (proj2 (Nat.eqb_neq y x)) by congruence. cbn [andb]. lia.
      - assert (ptr p y = y) by (destruct (Nat.eq_dec (ptr p y) y); [assumption|exfalso; apply N; apply (Hmem y Hy); assumption]).
        rewrite H. rewrite (proj2 (Nat.eqb_neq y x)) by congruence. reflexivity. }
    rewrite Hcx, Hcy. lia.
Qed.

(* ---------- the fan of new triangles around a closed walk *)
Fixpoint esum (w : list nat) (x y : nat) : Z :=
  match w with
  | a :: ((b :: _) as t) => contrib a b x y + esum t x y
  | _ => 0
  end.

Definition fan (p_idx : nat) (w : list nat) : list dual := map (fun '(a, b) => (a, b, p_idx)) (pairs w).

Lemma fan_sum q : forall w x y, w <> [] ->
  dsum (fan q w) x y = esum w x y + contrib (last w 0%nat) q x y - contrib (hd 0%nat w) q x y.
Proof.
  induction w as [|a t IH]; intros x y Hne; [congruence|].
  destruct t as [|b t'].
  - cbn. lia.
  - specialize (IH x y ltac:(discriminate)).
    change (fan q (a :: b :: t')) with ((a, b, q) :: fan q (b :: t')).
    cbn [dsum dchain]. rewrite IH. unfold tchain. rewrite (contrib_rev a q x y).
    change (esum (a :: b :: t') x y) with (contrib a b x y + esum (b :: t') x y).
    change (last (a :: b :: t') 0%nat) with (last (b :: t') 0%nat). cbn [hd]. lia.
Qed.

Lemma esum_chain p first : forall l x y, chain p first l -> esum (l ++ [first]) x y = csum p l x y.
Proof.
  induction l as [|a t IH]; intros x y Hc; [reflexivity|].
  destruct t as [|b t'].
  - cbn in Hc. cbn. rewrite Hc. lia.
  - destruct Hc as [Hab Hc]. change ((a :: b :: t') ++ [first]) with (a :: b :: (t' ++ [first])).
    change (esum (a :: b :: t' ++ [first]) x y) with (contrib a b x y + esum ((b :: t') ++ [first]) x y).
    rewrite (IH x y Hc). cbn [csum]. rewrite Hab. reflexivity.
Qed.

Lemma last_app_single {A} (l : list A) (z d : A) : last (l ++ [z]) d = z.
Proof. induction l as [|a t IH]; [reflexivity|]. destruct t; [reflexivity|]. exact IH. Qed.

(* the fan around the cycle has the cycle's chain as its boundary *)
Theorem fan_boundary c q x y : Inv c -> (0 < clen c)%nat -> (x < length (ptrs c))%nat -> (y < length (ptrs c))%nat ->
  dsum (fan q (cyc_iter c (S (clen c)))) x y = pchain (ptrs c) x y.
Proof.
  intros (l & Hcyc & Hlen & Hst) Hpos Hx Hy. specialize (Hst Hpos).
  destruct (cyc_rotate_to (ptrs c) l (cstart c) Hcyc Hst) as (t & Hcyc' & Hperm).
  assert (Hl : length (cstart c :: t) = clen c) by (rewrite <- (Permutation_length Hperm); exact Hlen).
  pose proof Hcyc' as (_ & _ & _ & Hclosed). cbn [closed_chain] in Hclosed.
  unfold cyc_iter. rewrite <- Hl.
  pose proof (walk_chain (ptrs c) (cstart c) (cstart c :: t) ltac:(discriminate) Hclosed) as W. cbn [hd] in W. rewrite W.
  rewrite fan_sum by (destruct t; discriminate).
  rewrite last_app_single. change (hd 0%nat ((cstart c :: t) ++ [cstart c])) with (cstart c).
  rewrite (esum_chain (ptrs c) (cstart c) (cstart c :: t) x y Hclosed).
  rewrite (pchain_is_csum (ptrs c) (cstart c :: t) x y Hcyc' Hx Hy). lia.
Qed.

Lemma contrib_x_absent i j x y : i <> x -> j <> x -> contrib i j x y = 0.
Proof.
  intros Hi Hj. unfold contrib. destruct (Nat.eqb i j); [reflexivity|].
  rewrite (proj2 (Nat.eqb_neq i x) Hi), (proj2 (Nat.eqb_neq j x) Hj). cbn [andb]. rewrite andb_false_r. reflexivity.
Qed.
Lemma contrib_y_absent i j x y : i <> y -> j <> y -> contrib i j x y = 0.
Proof. intros Hi Hj. rewrite <- (Z.opp_involutive (contrib i j x y)), <- contrib_antisym. rewrite contrib_x_absent by assumption. reflexivity. Qed.

Section ClipClosed.
Variable V : Type.
Variable vdual : V -> dual.
Variable vdefault : V.

Lemma dsum_map vs x y : dsum (map vdual vs) x y = sum_chain V vdual vs x y.
Proof. induction vs as [|v t IH]; cbn [map dsum sum_chain]; [reflexivity|]. rewrite IH. unfold dchain, vchain. destruct (vdual v) as [[a b] d]. reflexivity. Qed.

Lemma partition_loop_sum removed fuel : forall vs i nv vs1 num_v, (nv <= length vs)%nat ->
  partition_loop V vdefault fuel removed vs i nv = (vs1, num_v) ->
  length vs1 = length vs /\ forall x y, sum_chain V vdual vs1 x y = sum_chain V vdual vs x y.
Proof.
  induction fuel as [|f IH]; intros vs i nv vs1 num_v Hn H; cbn [partition_loop] in H.
  - inversion H; subst. split; [reflexivity|reflexivity].
  - destruct (Nat.ltb_spec i nv) as [Hlt|Hge]; [|inversion H; subst; split; reflexivity].
    destruct (removed (nth i vs vdefault)).
    + apply IH in H; [|rewrite (length_swap V vdefault); lia]. destruct H as [L S]. rewrite (length_swap V vdefault) in L.
      split; [exact L|]. intros x y. rewrite S. apply sum_chain_swap; lia.
    + apply IH in H; [exact H|exact Hn].
Qed.

Lemma sum_chain_firstn_skipn n vs x y :
  sum_chain V vdual vs x y = sum_chain V vdual (firstn n vs) x y + sum_chain V vdual (skipn n vs) x y.
Proof. rewrite <- (firstn_skipn n vs) at 1. apply sum_chain_app. Qed.

Lemma pchain_empty_cycle p x y : cyc p [] -> (x < length p)%nat -> (y < length p)%nat -> pchain p x y = 0.
Proof.
  intros (_ & _ & Hmem & _) Hx Hy. unfold pchain.
  assert (Px : ptr p x = x) by (destruct (Nat.eq_dec (ptr p x) x) as [E|N]; [exact E|destruct (proj1 (Hmem x Hx) N)]).
  assert (Py : ptr p y = y) by (destruct (Nat.eq_dec (ptr p y) y) as [E|N]; [exact E|destruct (proj1 (Hmem y Hy) N)]).
  rewrite Px, Py. destruct (Nat.eqb x y) eqn:E; cbn [negb andb]; [reflexivity|].
  rewrite (Nat.eqb_sym y x), E. reflexivity.
Qed.

(* clipping replaces the removed triangles by a fan with the same boundary: the surface stays closed *)
Theorem clip_preserves_closed c removed vs p_idx c' kept nd :
  Inv c -> duals_in_range V vdual (length (ptrs c)) vs -> distinct_duals V vdual vs ->
  clip_comb V vdual vdefault c removed vs p_idx = Some (c', kept, nd) ->
  closed_surface (map vdual vs) ->
  forall x y, (x < length (ptrs c'))%nat -> (y < length (ptrs c'))%nat -> dsum (map vdual kept ++ nd) x y = 0.
Proof.
  intros HI Hr Hd H Hcl x y Hx Hy. unfold clip_comb in H.
  destruct (partition_loop V vdefault (length vs) removed vs 0 (length vs)) as [vs1 num_v] eqn:Ep.
  destruct (partition_loop_sum removed (length vs) vs 0%nat (length vs) vs1 num_v (Nat.le_refl _) Ep) as [L1 S1].
  destruct (Nat.eqb num_v (length vs)).
  { inversion H; subst. rewrite app_nil_r. apply Hcl. }
  destruct (compute_boundary V vdual vdefault (cyc_grow c) (skipn num_v vs1)) as [[c2 vs2]|] eqn:Ec; [|discriminate].
  inversion H; subst c' kept nd. clear H.
  assert (Hr1 : duals_in_range V vdual (length (ptrs (cyc_grow c))) (skipn num_v vs1)).
  { apply forall_skipn. unfold duals_in_range in *. eapply partition_loop_forall; [|apply Nat.le_refl|exact Ep].
    eapply Forall_impl; [|exact Hr]. intros v Hv. cbv beta in Hv. destruct (vdual v) as [[a b] d]. unfold cyc_grow. cbn [ptrs].
    rewrite app_length. cbn [length]. lia. }
  assert (Hd1 : distinct_duals V vdual (skipn num_v vs1)).
  { apply forall_skipn. eapply partition_loop_forall; [exact Hd | apply Nat.le_refl | exact Ep]. }
  pose proof (inv_grow c HI) as HIg. destruct (inv_clean _ HIg) as [Hclean Hlen].
  pose proof (compute_boundary_chain V vdual vdefault (cyc_grow c) (skipn num_v vs1) c2 vs2 Hclean Hlen Hr1 Hd1 Ec x y) as Hch.
  pose proof (compute_boundary_inv V vdual vdefault (cyc_grow c) (skipn num_v vs1) c2 vs2 HIg Hr1 Hd1 Ec) as HI2.
  rewrite dsum_app, dsum_map.
  match goal with |- _ + dsum ?F x y = 0 => assert (Hfan : dsum F x y = pchain (ptrs c2) x y) end.
  { destruct (Nat.eq_dec (clen c2) 0) as [Z|NZ].
    - rewrite Z. cbn. destruct HI2 as (l & Hcyc & Hl & _). rewrite Z in Hl. destruct l; [|discriminate].
      symmetry. apply pchain_empty_cycle; assumption.
    - exact (fan_boundary c2 p_idx x y HI2 ltac:(lia) Hx Hy). }
  rewrite Hfan, Hch. specialize (Hcl x y). rewrite dsum_map in Hcl. rewrite <- S1 in Hcl.
  rewrite (sum_chain_firstn_skipn num_v vs1) in Hcl. exact Hcl.
Qed.

Definition dual_lt (n : nat) (d : dual) : Prop := let '(a, b, e) := d in (a < n /\ b < n /\ e < n)%nat.

Lemma dsum_absent n ds x y : Forall (dual_lt n) ds -> (n <= x \/ n <= y)%nat -> dsum ds x y = 0.
Proof.
  intros H Hxy. induction H as [|d t Hd _ IH]; cbn [dsum]; [reflexivity|]. rewrite IH.
  destruct d as [[a b] e]. cbn in Hd. cbn [dchain]. unfold tchain. destruct Hxy as [Hx|Hy].
  - rewrite !contrib_x_absent by lia. reflexivity.
  - rewrite !contrib_y_absent by lia. reflexivity.
Qed.

Lemma closed_of_in_range n ds : Forall (dual_lt n) ds ->
  (forall x y, (x < n)%nat -> (y < n)%nat -> dsum ds x y = 0) -> closed_surface ds.
Proof.
  intros Hr H x y. destruct (Nat.lt_ge_cases x n) as [Hx|Hx]; [destruct (Nat.lt_ge_cases y n) as [Hy|Hy]|].
  - apply H; assumption.
  - apply (dsum_absent n); [exact Hr|right; exact Hy].
  - apply (dsum_absent n); [exact Hr|left; exact Hx].
Qed.

Lemma pairs_in (w : list nat) a b : In (a, b) (pairs w) -> In a w /\ In b w.
Proof.
  induction w as [|u t IH]; [intros []|]. destruct t as [|v t'].
  - intros [].
  - change (pairs (u :: v :: t')) with ((u, v) :: pairs (v :: t')). intros [E|H].
    + inversion E; subst. split; [left; reflexivity|right; left; reflexivity].
    + destruct (IH H) as [Ha Hb]. split; right; assumption.
Qed.

Lemma walk_in_range c : Inv c -> (0 < clen c)%nat -> Forall (fun i => (i < length (ptrs c))%nat) (cyc_iter c (S (clen c))).
Proof.
  intros (l & Hcyc & Hlen & Hst) Hpos. specialize (Hst Hpos).
  destruct (cyc_rotate_to (ptrs c) l (cstart c) Hcyc Hst) as (t & Hcyc' & Hperm).
  assert (Hl : length (cstart c :: t) = clen c) by (rewrite <- (Permutation_length Hperm); exact Hlen).
  pose proof Hcyc' as (_ & Hr & _ & Hclosed). cbn [closed_chain] in Hclosed.
  unfold cyc_iter. rewrite <- Hl.
  pose proof (walk_chain (ptrs c) (cstart c) (cstart c :: t) ltac:(discriminate) Hclosed) as W. cbn [hd] in W. rewrite W.
  apply Forall_app. split; [exact Hr|]. constructor; [|constructor]. inversion Hr; assumption.
Qed.

Lemma find_ext_length fuel : forall c vs idx c' k,
  find_ext V vdual vdefault fuel c vs idx = Some (c', k) -> length (ptrs c') = length (ptrs c).
Proof.
  induction fuel as [|f IH]; intros c vs idx c' k H; cbn [find_ext] in H; [discriminate|].
  destruct (Nat.ltb idx (length vs)); [|discriminate].
  destruct (vdual (nth idx vs vdefault)) as [[a b] d].
  destruct (cyc_try_extend c a b d) as [c1|] eqn:E.
  - inversion H; subst. eapply cyc_try_extend_length; exact E.
  - eapply IH; exact H.
Qed.

Lemma boundary_loop_length fuel : forall c vs i c' vs',
  boundary_loop V vdual vdefault fuel c vs i = Some (c', vs') -> length (ptrs c') = length (ptrs c).
Proof.
  induction fuel as [|f IH]; intros c vs i c' vs' H; cbn [boundary_loop] in H; [inversion H; reflexivity|].
  destruct (Nat.ltb i (length vs)); [|inversion H; reflexivity].
  destruct (find_ext V vdual vdefault (length vs) c vs i) as [[c1 k]|] eqn:Ef; [|discriminate].
  apply IH in H. rewrite H. eapply find_ext_length; exact Ef.
Qed.

Lemma compute_boundary_length c vs c' vs' : Inv c ->
  compute_boundary V vdual vdefault c vs = Some (c', vs') -> length (ptrs c') = length (ptrs c).
Proof.
  intros HI H. unfold compute_boundary in H. destruct vs as [|v0 t]; [discriminate|].
  destruct (vdual v0) as [[a b] d]. apply boundary_loop_length in H. rewrite H, cyc_init_length.
  destruct (inv_clean _ HI) as [_ Hlen]. exact Hlen.
Qed.

(* full statement: a closed surface stays a closed surface, every index in range of the grown cycle *)
Theorem clip_preserves_closed_surface c removed vs p_idx c' kept nd :
  Inv c -> duals_in_range V vdual (length (ptrs c)) vs -> distinct_duals V vdual vs ->
  p_idx = length (ptrs c) ->
  clip_comb V vdual vdefault c removed vs p_idx = Some (c', kept, nd) ->
  closed_surface (map vdual vs) ->
  closed_surface (map vdual kept ++ nd) /\ Forall (dual_lt (length (ptrs c'))) (map vdual kept ++ nd).
Proof.
  intros HI Hr Hd Hp H Hcl.
  assert (Hrange : Forall (dual_lt (length (ptrs c'))) (map vdual kept ++ nd)).
  { unfold clip_comb in H.
    destruct (partition_loop V vdefault (length vs) removed vs 0 (length vs)) as [vs1 num_v] eqn:Ep.
    assert (Hr0 : Forall (dual_lt (length (ptrs c))) (map vdual vs)).
    { unfold duals_in_range in Hr. rewrite Forall_map. eapply Forall_impl; [|exact Hr]. intros v Hv. cbv beta in Hv. unfold dual_lt. exact Hv. }
    destruct (Nat.eqb num_v (length vs)).
    { inversion H; subst. rewrite app_nil_r. exact Hr0. }
    destruct (compute_boundary V vdual vdefault (cyc_grow c) (skipn num_v vs1)) as [[c2 vs2]|] eqn:Ec; [|discriminate].
    inversion H; subst c' kept nd. clear H.
    assert (Hr1 : duals_in_range V vdual (length (ptrs (cyc_grow c))) vs1).
    { unfold duals_in_range in *. eapply partition_loop_forall; [|apply Nat.le_refl|exact Ep].
      eapply Forall_impl; [|exact Hr]. intros v Hv. cbv beta in Hv. destruct (vdual v) as [[a b] d]. unfold cyc_grow. cbn [ptrs].
      rewrite app_length. cbn [length]. lia. }
    assert (Hd1 : distinct_duals V vdual (skipn num_v vs1)).
    { apply forall_skipn. eapply partition_loop_forall; [exact Hd | apply Nat.le_refl | exact Ep]. }
    pose proof (inv_grow c HI) as HIg.
    pose proof (compute_boundary_inv V vdual vdefault (cyc_grow c) (skipn num_v vs1) c2 vs2 HIg (forall_skipn _ _ _ Hr1) Hd1 Ec) as HI2.
    pose proof (compute_boundary_length _ _ _ _ HIg Ec) as Hlen2.
    apply Forall_app. split.
    - rewrite Forall_map. rewrite Hlen2. apply Forall_forall. intros v Hv.
      assert (Hv1 : In v vs1) by (rewrite <- (firstn_skipn num_v vs1); apply in_or_app; left; exact Hv).
      unfold duals_in_range in Hr1. rewrite Forall_forall in Hr1. specialize (Hr1 v Hv1). unfold dual_lt. exact Hr1.
    - rewrite Forall_map. apply Forall_forall. intros [a b] Hab. unfold dual_lt.
      assert (Hab' : In (a, b) (pairs (cyc_iter c2 (S (clen c2))))) by exact Hab. clear Hab.
      destruct (Nat.eq_dec (clen c2) 0) as [Z|NZ]; [rewrite Z in Hab'; cbn in Hab'; destruct Hab'|].
      pose proof (walk_in_range c2 HI2 ltac:(lia)) as Hw. rewrite Forall_forall in Hw.
      destruct (pairs_in _ _ _ Hab') as [Ia Ib]. split; [apply Hw; exact Ia|]. split; [apply Hw; exact Ib|].
      rewrite Hlen2. unfold cyc_grow. cbn [ptrs]. rewrite app_length. cbn [length]. lia. }
  split; [|exact Hrange].
  apply (closed_of_in_range (length (ptrs c'))); [exact Hrange|].
  intros x y Hx Hy. eapply clip_preserves_closed; eassumption.
Qed.

(* ---------- the nodes of the boundary cycle are indices of planes of removed triangles: all below the new plane's index *)
Definition nodes_lt (n : nat) (p : list nat) : Prop := forall i, ptr p i <> i -> (i < n)%nat.

Lemma ptr_upd_cases p x y i : ptr (upd p x y) i = ptr p i \/ (i = x /\ (x < length p)%nat).
Proof.
  destruct (Nat.eq_dec x i) as [->|N]; [|left; apply ptr_upd_other; exact N].
  destruct (Nat.lt_ge_cases i (length p)) as [L|G]; [right; split; [reflexivity|exact L]|left].
  unfold ptr. rewrite !nth_overflow; [reflexivity|exact G|rewrite length_upd; exact G].
Qed.

Lemma nodes_lt_upd n p x y : nodes_lt n p -> (x < n)%nat -> nodes_lt n (upd p x y).
Proof.
  intros H Hx i Hi. destruct (ptr_upd_cases p x y i) as [E|[-> _]]; [|exact Hx]. rewrite E in Hi. apply H. exact Hi.
Qed.

Lemma nodes_lt_upd_self n p x : nodes_lt n p -> nodes_lt n (upd p x x).
Proof.
  intros H i Hi. destruct (ptr_upd_cases p x x i) as [E|[-> L]].
  - rewrite E in Hi. apply H. exact Hi.
  - exfalso. apply Hi. apply ptr_upd_same. exact L.
Qed.

Lemma nodes_lt_reset n : forall k p cur, nodes_lt n p -> nodes_lt n (cyc_reset k p cur).
Proof. induction k as [|k IH]; intros p cur H; cbn [cyc_reset]; [exact H|]. apply IH. apply nodes_lt_upd_self. exact H. Qed.

Lemma nodes_lt_init n c a b d : nodes_lt n (ptrs c) -> (a < n)%nat -> (b < n)%nat -> (d < n)%nat ->
  nodes_lt n (ptrs (cyc_init c a b d)).
Proof.
  intros H Ha Hb Hd. unfold cyc_init. cbn [ptrs].
  apply nodes_lt_upd; [|exact Hd]. apply nodes_lt_upd; [|exact Hb]. apply nodes_lt_upd; [|exact Ha]. apply nodes_lt_reset. exact H.
Qed.

Lemma nodes_lt_try_rot n c ti tj tk c' : nodes_lt n (ptrs c) -> (ti < n)%nat -> (tj < n)%nat -> (tk < n)%nat ->
  try_rot c ti tj tk = Some c' -> nodes_lt n (ptrs c').
Proof.
  intros H Hi Hj Hk E. unfold try_rot in E.
  destruct (negb (cyc_contains c ti) && cyc_contains c tj && cyc_contains c tk && Nat.eqb (ptr (ptrs c) tk) tj).
  - inversion E; subst. cbn [ptrs]. apply nodes_lt_upd; [|exact Hi]. apply nodes_lt_upd; [exact H|exact Hk].
  - destruct (cyc_contains c ti && cyc_contains c tj && cyc_contains c tk && Nat.eqb (ptr (ptrs c) tk) tj && Nat.eqb (ptr (ptrs c) tj) ti); [|discriminate].
    inversion E; subst. cbn [ptrs]. apply nodes_lt_upd_self. apply nodes_lt_upd; [exact H|exact Hk].
Qed.

Lemma nodes_lt_try_extend n c a b d c' : nodes_lt n (ptrs c) -> (a < n)%nat -> (b < n)%nat -> (d < n)%nat ->
  cyc_try_extend c a b d = Some c' -> nodes_lt n (ptrs c').
Proof.
  intros H Ha Hb Hd E. unfold cyc_try_extend in E.
  destruct (try_rot c a b d) as [c1|] eqn:E1; [inversion E; subst; eapply nodes_lt_try_rot; [exact H| | | |exact E1]; assumption|].
  destruct (try_rot c b d a) as [c2|] eqn:E2; [inversion E; subst; eapply nodes_lt_try_rot; [exact H| | | |exact E2]; assumption|].
  eapply nodes_lt_try_rot; [exact H| | | |exact E]; assumption.
Qed.

Lemma nodes_lt_find_ext n fuel : forall c vs idx c' k, nodes_lt n (ptrs c) -> duals_in_range V vdual n vs ->
  find_ext V vdual vdefault fuel c vs idx = Some (c', k) -> nodes_lt n (ptrs c').
Proof.
  induction fuel as [|f IH]; intros c vs idx c' k H Hr E; cbn [find_ext] in E; [discriminate|].
  destruct (Nat.ltb_spec idx (length vs)) as [L|G]; [|discriminate].
  pose proof (duals_in_range_nth V vdual vdefault n vs idx Hr L) as Hn.
  destruct (vdual (nth idx vs vdefault)) as [[a b] d] eqn:Ed.
  destruct (cyc_try_extend c a b d) as [c1|] eqn:E1.
  - inversion E; subst. destruct Hn as (Ha & Hb & Hd). eapply nodes_lt_try_extend; [exact H|exact Ha|exact Hb|exact Hd|exact E1].
  - eapply IH; [exact H|exact Hr|exact E].
Qed.

Lemma find_ext_idx fuel : forall c vs idx c' k,
  find_ext V vdual vdefault fuel c vs idx = Some (c', k) -> (idx <= k < length vs)%nat.
Proof.
  induction fuel as [|f IH]; intros c vs idx c' k E; cbn [find_ext] in E; [discriminate|].
  destruct (Nat.ltb_spec idx (length vs)) as [L|G]; [|discriminate].
  destruct (vdual (nth idx vs vdefault)) as [[a b] d].
  destruct (cyc_try_extend c a b d) as [c1|]; [inversion E; subst; lia|].
  apply IH in E. lia.
Qed.

Lemma nodes_lt_boundary_loop n fuel : forall c vs i c' vs', nodes_lt n (ptrs c) -> duals_in_range V vdual n vs ->
  boundary_loop V vdual vdefault fuel c vs i = Some (c', vs') -> nodes_lt n (ptrs c').
Proof.
  induction fuel as [|f IH]; intros c vs i c' vs' H Hr E; cbn [boundary_loop] in E; [inversion E; subst; exact H|].
  destruct (Nat.ltb_spec i (length vs)) as [L|G]; [|inversion E; subst; exact H].
  destruct (find_ext V vdual vdefault (length vs) c vs i) as [[c1 k]|] eqn:Ef; [|discriminate].
  pose proof (nodes_lt_find_ext n _ _ _ _ _ _ H Hr Ef) as H1.
  pose proof (find_ext_idx _ _ _ _ _ _ Ef) as Hk.
  eapply IH; [exact H1| |exact E].
  destruct (Nat.ltb i k); [apply duals_in_range_swap; [exact Hr|lia|lia]|exact Hr].
Qed.

Lemma nodes_lt_grow c : nodes_lt (length (ptrs c)) (ptrs (cyc_grow c)).
Proof.
  intros i Hi. unfold cyc_grow in Hi. cbn [ptrs] in Hi.
  destruct (Nat.lt_ge_cases i (length (ptrs c))) as [L|G]; [exact L|]. exfalso. apply Hi. unfold ptr.
  destruct (Nat.eq_dec i (length (ptrs c))) as [->|N].
  - rewrite app_nth2 by lia. rewrite Nat.sub_diag. reflexivity.
  - apply nth_overflow. rewrite app_length. cbn [length]. lia.
Qed.

Lemma nodes_lt_compute_boundary c vs c' vs' : duals_in_range V vdual (length (ptrs c)) vs ->
  compute_boundary V vdual vdefault (cyc_grow c) vs = Some (c', vs') -> nodes_lt (length (ptrs c)) (ptrs c').
Proof.
  intros Hr E. unfold compute_boundary in E. destruct vs as [|v0 t]; [discriminate|].
  pose proof Hr as Hr'. unfold duals_in_range in Hr'. inversion Hr' as [|? ? H0 _]; subst.
  destruct (vdual v0) as [[a b] d]. destruct H0 as (Ha & Hb & Hd).
  eapply nodes_lt_boundary_loop; [|exact Hr|exact E]. apply nodes_lt_init; [apply nodes_lt_grow|exact Ha|exact Hb|exact Hd].
Qed.

Lemma pairs_chain p first : forall l a b, chain p first l -> In (a, b) (pairs (l ++ [first])) -> In a l /\ b = ptr p a.
Proof.
  induction l as [|u t IH]; intros a b Hc Hin; [destruct Hin|].
  destruct t as [|v t'].
  - cbn in Hin, Hc. destruct Hin as [E|[]]. inversion E; subst. split; [left; reflexivity|reflexivity].
  - destruct Hc as [Huv Hc]. change ((u :: v :: t') ++ [first]) with (u :: v :: (t' ++ [first])) in Hin.
    change (pairs (u :: v :: t' ++ [first])) with ((u, v) :: pairs ((v :: t') ++ [first])) in Hin.
    destruct Hin as [E|Hin].
    + inversion E; subst. split; [left; reflexivity|reflexivity].
    + destruct (IH a b Hc Hin) as [Ia Eb]. split; [right; exact Ia|exact Eb].
Qed.

(* the new triangles (cur, next, p) are well formed: three distinct plane indices, the first two below p *)
Lemma fan_wf c n a b : Inv c -> nodes_lt n (ptrs c) ->
  In (a, b) (pairs (cyc_iter c (S (clen c)))) -> (a < n /\ b < n)%nat /\ a <> b.
Proof.
  intros HI Hn Hin.
  destruct (Nat.eq_dec (clen c) 0) as [Z|NZ]; [rewrite Z in Hin; cbn in Hin; destruct Hin|].
  destruct HI as (l & Hcyc & Hlen & Hst). specialize (Hst ltac:(lia)).
  destruct (cyc_rotate_to (ptrs c) l (cstart c) Hcyc Hst) as (t & Hcyc' & Hperm).
  assert (Hl : length (cstart c :: t) = clen c) by (rewrite <- (Permutation_length Hperm); exact Hlen).
  pose proof Hcyc' as (Hnd & Hr & Hmem & Hclosed). cbn [closed_chain] in Hclosed.
  unfold cyc_iter in Hin. rewrite <- Hl in Hin.
  pose proof (walk_chain (ptrs c) (cstart c) (cstart c :: t) ltac:(discriminate) Hclosed) as W. cbn [hd] in W. rewrite W in Hin.
  destruct (pairs_chain _ _ _ _ _ Hclosed Hin) as [Ia Eb].
  rewrite Forall_forall in Hr. pose proof (Hr a Ia) as Har.
  assert (Hna : ptr (ptrs c) a <> a) by (apply (Hmem a Har); exact Ia).
  assert (Hb_in : In b (cstart c :: t)).
  { destruct (pairs_in _ _ _ Hin) as [_ Ib]. apply in_app_or in Ib. destruct Ib as [Ib|[<-|[]]]; [exact Ib|left; reflexivity]. }
  pose proof (Hr b Hb_in) as Hbr.
  assert (Hnb : ptr (ptrs c) b <> b) by (apply (Hmem b Hbr); exact Hb_in).
  split; [split; [apply Hn; exact Hna|apply Hn; exact Hnb]|]. congruence.
Qed.

Definition dual_distinct (d : dual) : Prop := let '(a, b, e) := d in a <> b /\ b <> e /\ e <> a.

Theorem clip_comb_shape c removed vs p_idx c' kept nd :
  Inv c -> duals_in_range V vdual (length (ptrs c)) vs -> distinct_duals V vdual vs ->
  p_idx = length (ptrs c) ->
  clip_comb V vdual vdefault c removed vs p_idx = Some (c', kept, nd) ->
  (nd <> [] -> length (ptrs c') = S (length (ptrs c))) /\
  Forall dual_distinct (map vdual kept ++ nd).
Proof.
  intros HI Hr Hd Hp H. unfold clip_comb in H.
  destruct (partition_loop V vdefault (length vs) removed vs 0 (length vs)) as [vs1 num_v] eqn:Ep.
  assert (Hd0 : Forall dual_distinct (map vdual vs)).
  { unfold distinct_duals in Hd. rewrite Forall_map. eapply Forall_impl; [|exact Hd]. intros v Hv. unfold dual_distinct. exact Hv. }
  destruct (Nat.eqb num_v (length vs)).
  { inversion H; subst. split; [intros N; congruence|]. rewrite app_nil_r. exact Hd0. }
  destruct (compute_boundary V vdual vdefault (cyc_grow c) (skipn num_v vs1)) as [[c2 vs2]|] eqn:Ec; [|discriminate].
  inversion H; subst c' kept nd. clear H.
  assert (Hr1 : duals_in_range V vdual (length (ptrs (cyc_grow c))) vs1).
  { unfold duals_in_range in *. eapply partition_loop_forall; [|apply Nat.le_refl|exact Ep].
    eapply Forall_impl; [|exact Hr]. intros v Hv. cbv beta in Hv. destruct (vdual v) as [[a b] d]. unfold cyc_grow. cbn [ptrs].
    rewrite app_length. cbn [length]. lia. }
  assert (Hr1' : duals_in_range V vdual (length (ptrs c)) vs1).
  { unfold duals_in_range in *. eapply partition_loop_forall; [exact Hr|apply Nat.le_refl|exact Ep]. }
  assert (Hdd : distinct_duals V vdual vs1) by (eapply partition_loop_forall; [exact Hd | apply Nat.le_refl | exact Ep]).
  pose proof (inv_grow c HI) as HIg.
  pose proof (compute_boundary_inv V vdual vdefault (cyc_grow c) (skipn num_v vs1) c2 vs2 HIg (forall_skipn _ _ _ Hr1) (forall_skipn _ _ _ Hdd) Ec) as HI2.
  pose proof (compute_boundary_length _ _ _ _ HIg Ec) as Hlen2.
  pose proof (nodes_lt_compute_boundary c (skipn num_v vs1) c2 vs2 (forall_skipn _ _ _ Hr1') Ec) as Hn2.
  split.
  - intros _. rewrite Hlen2. unfold cyc_grow. cbn [ptrs]. rewrite app_length. cbn [length]. lia.
  - apply Forall_app. split.
    + rewrite Forall_map. apply Forall_forall. intros v Hv.
      assert (Hv1 : In v vs1) by (rewrite <- (firstn_skipn num_v vs1); apply in_or_app; left; exact Hv).
      unfold distinct_duals in Hdd. rewrite Forall_forall in Hdd. specialize (Hdd v Hv1). unfold dual_distinct. exact Hdd.
    + rewrite Forall_map. apply Forall_forall. intros [a b] Hab. unfold dual_distinct.
      destruct (fan_wf c2 (length (ptrs c)) a b HI2 Hn2 Hab) as [[Ha Hb] Hab']. lia.
Qed.
End ClipClosed.
