From Coq Require Import ZArith List Lia Permutation Sorted.
From MV Require Import Model.BestFirst.
Import ListNotations.
Open Scope Z_scope.

(* ------------------------------------------------------------------ generic best-first search *)
Section BF.
Variable A : Type.

Fixpoint asize (t : atree A) : nat :=
  match t with AL _ _ => 1 | AN _ cs => S (fold_right (fun c n => (asize c + n)%nat) 0%nat cs) end.
Definition sizes (h : list (atree A)) : nat := fold_right (fun c n => (asize c + n)%nat) 0%nat h.
Fixpoint leaves (t : atree A) : list (Z * A) :=
  match t with AL k x => [(k, x)] | AN _ cs => flat_map leaves cs end.
Definition leavess (h : list (atree A)) := flat_map leaves h.

(* admissible: the key of a node is a lower bound of the keys of its children *)
Inductive adm : atree A -> Prop :=
| adm_L k x : adm (AL k x)
| adm_N k cs : Forall adm cs -> Forall (fun c => k <= akey c) cs -> adm (AN k cs).

Variable pop : list (atree A) -> option (atree A * list (atree A)).
Hypothesis pop_spec : forall h t h', pop h = Some (t, h') ->
  Permutation h (t :: h') /\ Forall (fun u => akey t <= akey u) h'.
Hypothesis pop_none : forall h, pop h = None -> h = [].

Lemma run_lb_sorted fuel : forall h lb, Forall adm h -> Forall (fun u => lb <= akey u) h ->
  Forall (fun kx => lb <= fst kx) (run A pop fuel h) /\
  StronglySorted (fun a b => fst a <= fst b) (run A pop fuel h).
Proof.
  induction fuel as [|f IH]; intros h lb Hadm Hlb; cbn [run].
  - split; constructor.
  - destruct (pop h) as [[t h']|] eqn:Ep; [|split; constructor].
    destruct (pop_spec _ _ _ Ep) as [Hperm Hmin].
    assert (Hadm' : Forall adm (t :: h')) by (eapply Permutation_Forall; eauto).
    assert (Hlb' : Forall (fun u => lb <= akey u) (t :: h')) by (eapply Permutation_Forall; eauto).
    inversion Hadm' as [|? ? Ht Hh']; subst. inversion Hlb' as [|? ? Hlt Hlh']; subst.
    destruct t as [k x|k cs]; cbn [akey] in *.
    + destruct (IH h' k Hh' Hmin) as [F S]. split.
      * constructor; [cbn; lia|]. eapply Forall_impl; [|exact F]. cbn. intros; lia.
      * constructor; [exact S|]. eapply Forall_impl; [|exact F]. cbn. intros; lia.
    + inversion Ht as [|? ? Hc Hk]; subst.
      assert (Forall adm (cs ++ h')) by (apply Forall_app; auto).
      assert (Forall (fun u => k <= akey u) (cs ++ h')) by (apply Forall_app; auto).
      destruct (IH (cs ++ h') k) as [F S]; auto. split; [|exact S].
      eapply Forall_impl; [|exact F]. cbn. intros; lia.
Qed.

Lemma sizes_app a b : sizes (a ++ b) = (sizes a + sizes b)%nat.
Proof. unfold sizes. induction a; cbn; lia. Qed.
Lemma sizes_perm a b : Permutation a b -> sizes a = sizes b.
Proof. unfold sizes. induction 1; cbn; lia. Qed.
Lemma leavess_app a b : leavess (a ++ b) = leavess a ++ leavess b.
Proof. apply flat_map_app. Qed.
Lemma leavess_perm a b : Permutation a b -> Permutation (leavess a) (leavess b).
Proof.
  unfold leavess. induction 1; cbn; auto.
  - apply Permutation_app_head; auto.
  - rewrite !app_assoc. apply Permutation_app_tail. apply Permutation_app_comm.
  - eapply perm_trans; eauto.
Qed.

Lemma run_complete fuel : forall h, (sizes h <= fuel)%nat -> Permutation (run A pop fuel h) (leavess h).
Proof.
  induction fuel as [|f IH]; intros h Hs; cbn [run].
  - destruct h as [|t h]; [constructor|]. unfold sizes in Hs; cbn in Hs. destruct t; cbn in Hs; lia.
  - destruct (pop h) as [[t h']|] eqn:Ep.
    + destruct (pop_spec _ _ _ Ep) as [Hperm _].
      pose proof (sizes_perm _ _ Hperm) as Es. pose proof (leavess_perm _ _ Hperm) as El.
      destruct t as [k x|k cs].
      * unfold sizes in Es; cbn in Es. fold (sizes h') in Es.
        eapply perm_trans; [|apply Permutation_sym; exact El]. cbn. constructor. apply IH. unfold sizes in *. lia.
      * unfold sizes in Es; cbn in Es. fold (sizes cs) in Es. fold (sizes h') in Es.
        eapply perm_trans; [|apply Permutation_sym; exact El]. cbn. fold (leavess cs). fold (leavess h').
        rewrite <- leavess_app. apply IH. rewrite sizes_app. unfold sizes in *. lia.
    + rewrite (pop_none _ Ep). constructor.
Qed.
End BF.

(* ------------------------------------------------------------------ pop_min returns a minimal element *)
Lemma min_key_le {A} (h : list (atree A)) : forall m, min_key h m <= m /\ Forall (fun u => min_key h m <= akey u) h.
Proof.
  induction h as [|t r IH]; intros m; cbn [min_key]; [split; [lia|constructor]|].
  destruct (IH (Z.min m (akey t))) as [H1 H2]. split; [lia|]. constructor; [lia | exact H2].
Qed.

Lemma min_key_in {A} (h : list (atree A)) : forall m, min_key h m = m \/ exists u, In u h /\ akey u = min_key h m.
Proof.
  induction h as [|t r IH]; intros m; cbn [min_key]; [left; reflexivity|].
  destruct (IH (Z.min m (akey t))) as [E|(u & Hu & Eu)].
  - rewrite E. destruct (Z.min_spec m (akey t)) as [[_ ->]|[_ ->]]; [left; reflexivity|].
    right. exists t. split; [left; reflexivity | reflexivity].
  - right. exists u. split; [right; assumption | assumption].
Qed.

Lemma remove_key_spec {A} (h : list (atree A)) m t h' : remove_key h m = Some (t, h') ->
  Permutation h (t :: h') /\ akey t = m.
Proof.
  revert t h'. induction h as [|x r IH]; intros t h'; cbn [remove_key]; [discriminate|].
  destruct (Z.eqb_spec (akey x) m) as [E|E].
  - intros H. inversion H; subst. split; [apply Permutation_refl | reflexivity].
  - destruct (remove_key r m) as [[u r']|] eqn:Er; [|discriminate]. intros H. inversion H; subst.
    destruct (IH _ _ eq_refl) as [P K]. split; [|exact K].
    eapply perm_trans; [apply perm_skip, P | apply perm_swap].
Qed.

Lemma remove_key_some {A} (h : list (atree A)) m : (exists u, In u h /\ akey u = m) -> remove_key h m <> None.
Proof.
  induction h as [|x r IH]; intros (u & Hu & Eu); cbn [remove_key]; [destruct Hu|].
  destruct (Z.eqb_spec (akey x) m); [discriminate|].
  destruct Hu as [->|Hu]; [congruence|].
  destruct (remove_key r m) as [[? ?]|] eqn:Er; [discriminate|]. exfalso. apply IH; [exists u; auto | reflexivity].
Qed.

Lemma pop_min_spec {A} (h : list (atree A)) t h' : pop_min h = Some (t, h') ->
  Permutation h (t :: h') /\ Forall (fun u => akey t <= akey u) h'.
Proof.
  unfold pop_min. destruct h as [|x r]; [discriminate|]. intros H.
  destruct (remove_key_spec _ _ _ _ H) as [P K]. split; [exact P|].
  destruct (min_key_le r (akey x)) as [L F].
  assert (Fall : Forall (fun u => akey t <= akey u) (x :: r)).
  { rewrite K. constructor; [lia | exact F]. }
  eapply Permutation_Forall in Fall; [|exact P]. now inversion Fall.
Qed.

Lemma pop_min_none {A} (h : list (atree A)) : pop_min h = None -> h = [].
Proof.
  unfold pop_min. destruct h as [|x r]; [reflexivity|]. intros H. exfalso.
  revert H. apply remove_key_some.
  destruct (min_key_in r (akey x)) as [E|(u & Hu & Eu)].
  - exists x. split; [left; reflexivity | now rewrite E].
  - exists u. split; [right; assumption | assumption].
Qed.

(* ------------------------------------------------------------------ the R-tree annotation is admissible *)
Definition inside (lo hi p : V3) : Prop :=
  let '(l0, l1, l2) := lo in let '(h0, h1, h2) := hi in let '(p0, p1, p2) := p in
  l0 <= p0 <= h0 /\ l1 <= p1 <= h1 /\ l2 <= p2 <= h2.
Definition box_in (lo hi lo' hi' : V3) : Prop :=    (* [lo',hi'] non-empty and inside [lo,hi] *)
  let '(l0, l1, l2) := lo in let '(h0, h1, h2) := hi in
  let '(a0, a1, a2) := lo' in let '(b0, b1, b2) := hi' in
  l0 <= a0 /\ a0 <= b0 /\ b0 <= h0 /\ l1 <= a1 /\ a1 <= b1 /\ b1 <= h1 /\ l2 <= a2 /\ a2 <= b2 /\ b2 <= h2.

(* well formed: every child (leaf position or child envelope) lies inside the parent's envelope *)
Inductive wf_tree : rtree -> Prop :=
| wf_leaf id pos : wf_tree (RLeaf id pos)
| wf_node lo hi cs :
    Forall wf_tree cs ->
    Forall (fun c => match c with RLeaf _ pos => inside lo hi pos | RNode lo' hi' _ => box_in lo hi lo' hi' end) cs ->
    wf_tree (RNode lo hi cs).

Lemma sq_le_abs a b : Z.abs a <= Z.abs b -> sq a <= sq b.
Proof. intros H. unfold sq. rewrite <- (Z.abs_square a), <- (Z.abs_square b). apply Z.square_le_mono_nonneg; lia. Qed.

Lemma clamp_leaf t lo hi p : lo <= p <= hi -> sq (clampz t lo hi - t) <= sq (t - p).
Proof. intros. apply sq_le_abs. unfold clampz. lia. Qed.
Lemma clamp_node t lo hi lo' hi' : lo <= lo' -> lo' <= hi' -> hi' <= hi ->
  sq (clampz t lo hi - t) <= sq (clampz t lo' hi' - t).
Proof. intros. apply sq_le_abs. unfold clampz. lia. Qed.

Lemma key_node_le_leaf q sh lo hi pos : inside lo hi pos -> key_node q sh lo hi <= key_leaf q sh pos.
Proof.
  destruct q as [[q0 q1] q2], sh as [[s0 s1] s2], lo as [[l0 l1] l2], hi as [[h0 h1] h2], pos as [[p0 p1] p2].
  cbn [inside key_node key_leaf]. intros (H0 & H1 & H2).
  pose proof (clamp_leaf (q0 + s0) l0 h0 p0 H0). pose proof (clamp_leaf (q1 + s1) l1 h1 p1 H1).
  pose proof (clamp_leaf (q2 + s2) l2 h2 p2 H2). lia.
Qed.
Lemma key_node_le_node q sh lo hi lo' hi' : box_in lo hi lo' hi' -> key_node q sh lo hi <= key_node q sh lo' hi'.
Proof.
  destruct q as [[q0 q1] q2], sh as [[s0 s1] s2], lo as [[l0 l1] l2], hi as [[h0 h1] h2],
           lo' as [[a0 a1] a2], hi' as [[b0 b1] b2].
  cbn [box_in key_node]. intros (A0 & A1 & A2 & B0 & B1 & B2 & C0 & C1 & C2).
  pose proof (clamp_node (q0 + s0) l0 h0 a0 b0 A0 A1 A2). pose proof (clamp_node (q1 + s1) l1 h1 a1 b1 B0 B1 B2).
  pose proof (clamp_node (q2 + s2) l2 h2 a2 b2 C0 C1 C2). lia.
Qed.

Lemma sq_nonneg x : 0 <= sq x.
Proof. unfold sq. apply Z.square_nonneg. Qed.
Lemma key_leaf_nonneg q sh pos : 0 <= key_leaf q sh pos.
Proof.
  destruct q as [[q0 q1] q2], sh as [[s0 s1] s2], pos as [[p0 p1] p2]. cbn [key_leaf].
  pose proof (sq_nonneg (q0 + s0 - p0)). pose proof (sq_nonneg (q1 + s1 - p1)). pose proof (sq_nonneg (q2 + s2 - p2)). lia.
Qed.
Lemma key_node_nonneg q sh lo hi : 0 <= key_node q sh lo hi.
Proof.
  destruct q as [[q0 q1] q2], sh as [[s0 s1] s2], lo as [[l0 l1] l2], hi as [[h0 h1] h2]. cbn [key_node].
  pose proof (sq_nonneg (clampz (q0 + s0) l0 h0 - (q0 + s0))). pose proof (sq_nonneg (clampz (q1 + s1) l1 h1 - (q1 + s1))).
  pose proof (sq_nonneg (clampz (q2 + s2) l2 h2 - (q2 + s2))). lia.
Qed.
Lemma akey_annotate_nonneg q sh code c : 0 <= akey (annotate q sh code c).
Proof. destruct c; cbn [annotate akey]; [apply key_leaf_nonneg | apply key_node_nonneg]. Qed.

Lemma annotate_adm q sh code : forall t, wf_tree t -> adm (Z * Z) (annotate q sh code t).
Proof.
  fix IH 1. intros t Hwf. destruct t as [id pos|lo hi cs]; cbn [annotate]; [constructor|].
  inversion Hwf as [|? ? ? Hcs Hin]; subst. clear Hwf. constructor.
  - clear Hin. induction cs as [|c cs IHcs]; cbn [map]; [constructor|].
    inversion Hcs; subst. constructor; [apply IH; assumption | apply IHcs; assumption].
  - clear Hcs. induction cs as [|c cs IHcs]; cbn [map]; [constructor|].
    inversion Hin as [|? ? Hc Hrest]; subst. constructor; [|apply IHcs; assumption].
    destruct c as [id pos|lo' hi' cs']; cbn [annotate akey].
    + apply key_node_le_leaf; assumption.
    + apply key_node_le_node; assumption.
Qed.

(* ------------------------------------------------------------------ the visit stream *)
Fixpoint rleaves (q sh : V3) (code : Z) (t : rtree) : list (Z * (Z * Z)) :=
  match t with
  | RLeaf id pos => [(key_leaf q sh pos, (id, code))]
  | RNode _ _ cs => flat_map (rleaves q sh code) cs
  end.

Lemma leaves_annotate q sh code : forall t, leaves (Z * Z) (annotate q sh code t) = rleaves q sh code t.
Proof.
  fix IH 1. intros t. destruct t as [id pos|lo hi cs]; cbn [annotate leaves rleaves]; [reflexivity|].
  induction cs as [|c cs IHcs]; cbn [map flat_map]; [reflexivity|]. now rewrite IH, IHcs.
Qed.

Lemma asize_annotate q sh code : forall t, asize (Z * Z) (annotate q sh code t) = rsize t.
Proof.
  fix IH 1. intros t. destruct t as [id pos|lo hi cs]; cbn [annotate asize rsize]; [reflexivity|].
  f_equal. induction cs as [|c cs IHcs]; cbn [map fold_right]; [reflexivity|]. now rewrite IH, IHcs.
Qed.

Definition all_leaves (q : V3) (shifts : list (V3 * Z)) (root_children : list rtree) : list (Z * (Z * Z)) :=
  flat_map (fun '(sh, code) => flat_map (rleaves q sh code) root_children) shifts.

Lemma leaves_annotate_list q sh code cs :
  flat_map (leaves (Z * Z)) (map (annotate q sh code) cs) = flat_map (rleaves q sh code) cs.
Proof.
  induction cs as [|c cs IHc]; cbn [map flat_map]; [reflexivity|]. now rewrite leaves_annotate, IHc.
Qed.

Lemma leavess_initial q shifts cs :
  leavess (Z * Z) (initial_heap q shifts cs) = all_leaves q shifts cs.
Proof.
  unfold leavess, initial_heap, all_leaves. induction shifts as [|[sh code] t IH]; cbn [flat_map]; [reflexivity|].
  rewrite flat_map_app, IH. f_equal. apply leaves_annotate_list.
Qed.

Lemma sizes_annotate_list q sh code cs :
  sizes (Z * Z) (map (annotate q sh code) cs) = fold_right (fun c n => (rsize c + n)%nat) 0%nat cs.
Proof.
  unfold sizes. induction cs as [|c cs IHc]; cbn [map fold_right]; [reflexivity|]. rewrite asize_annotate. f_equal. exact IHc.
Qed.

Lemma sizes_initial q shifts cs :
  sizes (Z * Z) (initial_heap q shifts cs) = (length shifts * fold_right (fun c n => (rsize c + n)%nat) 0%nat cs)%nat.
Proof.
  unfold initial_heap. induction shifts as [|[sh code] t IH]; cbn [flat_map length]; [reflexivity|].
  rewrite sizes_app, IH, sizes_annotate_list. lia.
Qed.

(* every (leaf, shift) exactly once, in non-decreasing exact distance, for every well-formed tree *)
Theorem visits_complete_once q shifts cs :
  Permutation (visits q shifts cs) (all_leaves q shifts cs).
Proof.
  unfold visits. rewrite <- leavess_initial.
  apply (run_complete (Z * Z) pop_min (@pop_min_spec _) (@pop_min_none _)).
  rewrite sizes_initial. lia.
Qed.

Theorem visits_sorted q shifts cs : Forall wf_tree cs ->
  StronglySorted (fun a b => fst a <= fst b) (visits q shifts cs) /\ Forall (fun kx => 0 <= fst kx) (visits q shifts cs).
Proof.
  intros Hwf. unfold visits.
  assert (Hadm : Forall (adm (Z * Z)) (initial_heap q shifts cs)).
  { unfold initial_heap. apply Forall_forall. intros u Hu. apply in_flat_map in Hu.
    destruct Hu as ([sh code] & _ & Hu). apply in_map_iff in Hu. destruct Hu as (c & <- & Hc).
    apply annotate_adm. rewrite Forall_forall in Hwf. auto. }
  assert (Hlb : Forall (fun u => 0 <= akey u) (initial_heap q shifts cs)).
  { unfold initial_heap. apply Forall_forall. intros u Hu. apply in_flat_map in Hu.
    destruct Hu as ([sh code] & _ & Hu). apply in_map_iff in Hu. destruct Hu as (c & <- & Hc).
    apply akey_annotate_nonneg. }
  match goal with |- context[run _ _ ?f ?h] => destruct (run_lb_sorted (Z * Z) pop_min (@pop_min_spec _) f h 0 Hadm Hlb) as [F S] end. split; assumption.
Qed.

(* any other admissible pop (BinaryHeap's unspecified tie order) gives a stream with the same two properties *)
Theorem any_pop_sorted_complete (pop : list (atree (Z * Z)) -> option (atree (Z * Z) * list (atree (Z * Z)))) :
  (forall h t h', pop h = Some (t, h') -> Permutation h (t :: h') /\ Forall (fun u => akey t <= akey u) h') ->
  (forall h, pop h = None -> h = []) ->
  forall q shifts cs fuel, Forall wf_tree cs ->
  (length shifts * fold_right (fun c n => (rsize c + n)%nat) 0%nat cs <= fuel)%nat ->
  let out := run (Z * Z) pop fuel (initial_heap q shifts cs) in
  StronglySorted (fun a b => fst a <= fst b) out /\ Permutation out (all_leaves q shifts cs).
Proof.
  intros Hs Hn q shifts cs fuel Hwf Hf. cbv zeta. split.
  - assert (Hadm : Forall (adm (Z * Z)) (initial_heap q shifts cs)).
    { unfold initial_heap. apply Forall_forall. intros u Hu. apply in_flat_map in Hu.
      destruct Hu as ([sh code] & _ & Hu). apply in_map_iff in Hu. destruct Hu as (c & <- & Hc).
      apply annotate_adm. rewrite Forall_forall in Hwf. auto. }
    assert (Hlb : Forall (fun u => 0 <= akey u) (initial_heap q shifts cs)).
    { unfold initial_heap. apply Forall_forall. intros u Hu. apply in_flat_map in Hu.
      destruct Hu as ([sh code] & _ & Hu). apply in_map_iff in Hu. destruct Hu as (c & <- & Hc).
      apply akey_annotate_nonneg. }
    now destruct (run_lb_sorted (Z * Z) pop Hs fuel _ 0 Hadm Hlb).
  - rewrite <- leavess_initial. apply (run_complete (Z * Z) pop Hs Hn). now rewrite sizes_initial.
Qed.
