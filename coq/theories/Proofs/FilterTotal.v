(* HalfSpace::clip on binary64: for all finite inputs of sane magnitude (every component at most 2^300 in absolute value) nothing
   overflows, so the soundness theorem of FilterB64.v holds without finiteness hypotheses on computed values. *)
From Coq Require Import ZArith Reals Lra Lia.
From Flocq Require Import Core BinarySingleNaN Binary Bits.
From MV Require Import Model.Grid Model.Filter Proofs.GridFlocq Proofs.GridRangeB64 Proofs.FilterErr Proofs.FilterB64.
Open Scope R_scope.

Lemma rnd64_abs_le x e : (-1074 <= e)%Z -> Rabs x <= bpow radix2 e -> Rabs (rnd64 x) <= bpow radix2 e.
Proof.
  intros He H. unfold rnd64. apply abs_round_le_generic; [apply FLT_exp_valid; red; lia|apply valid_rnd_N| |exact H].
  apply generic_format_bpow. unfold FLT_exp. lia.
Qed.

Definition le2 (a : f64) (e : Z) : Prop := fin a = true /\ Rabs (b2r a) <= bpow radix2 e.

Lemma bpow_lt_big e : (e < 1024)%Z -> bpow radix2 e < big.
Proof. intros. unfold big. apply bpow_lt. exact H. Qed.

Lemma fmul_le2 a b ea eb : le2 a ea -> le2 b eb -> (-1074 <= ea + eb < 1024)%Z -> le2 (fmul a b) (ea + eb).
Proof.
  intros [Fa Ha] [Fb Hb] He.
  assert (B : Rabs (b2r a * b2r b) <= bpow radix2 (ea + eb)).
  { rewrite Rabs_mult, bpow_plus. apply Rmult_le_compat; try apply Rabs_pos; assumption. }
  pose proof (rnd64_abs_le (b2r a * b2r b) (ea + eb) ltac:(lia) B) as R.
  destruct (fmul_ok a b Fa Fb) as [F E]; [eapply Rle_lt_trans; [exact R|apply bpow_lt_big; lia]|].
  split; [exact F|rewrite E; exact R].
Qed.

Lemma fadd_le2 a b e : le2 a e -> le2 b e -> (-1074 <= e + 1 < 1024)%Z -> le2 (fadd a b) (e + 1).
Proof.
  intros [Fa Ha] [Fb Hb] He.
  assert (B : Rabs (b2r a + b2r b) <= bpow radix2 (e + 1)).
  { eapply Rle_trans; [apply Rabs_triang|]. rewrite bpow_plus. change (bpow radix2 1) with 2. lra. }
  pose proof (rnd64_abs_le (b2r a + b2r b) (e + 1) ltac:(lia) B) as R.
  destruct (fadd_ok a b Fa Fb) as [F E]; [eapply Rle_lt_trans; [exact R|apply bpow_lt_big; lia]|].
  split; [exact F|rewrite E; exact R].
Qed.

Lemma fsub_le2 a b e : le2 a e -> le2 b e -> (-1074 <= e + 1 < 1024)%Z -> le2 (fsub a b) (e + 1).
Proof.
  intros [Fa Ha] [Fb Hb] He.
  assert (B : Rabs (b2r a - b2r b) <= bpow radix2 (e + 1)).
  { unfold Rminus. eapply Rle_trans; [apply Rabs_triang|]. rewrite Rabs_Ropp, bpow_plus. change (bpow radix2 1) with 2. lra. }
  pose proof (rnd64_abs_le (b2r a - b2r b) (e + 1) ltac:(lia) B) as R.
  destruct (fsub_ok a b Fa Fb) as [F E]; [eapply Rle_lt_trans; [exact R|apply bpow_lt_big; lia]|].
  split; [exact F|rewrite E; exact R].
Qed.

Lemma le2_mono a e e' : le2 a e -> (e <= e')%Z -> le2 a e'.
Proof. intros [F H] L. split; [exact F|]. eapply Rle_trans; [exact H|apply bpow_le; exact L]. Qed.

Lemma fabs_le2 a e : le2 a e -> le2 (fabs a) e.
Proof. intros [F H]. split; [rewrite fabs_fin; exact F|rewrite fabs_b2r, Rabs_Rabsolu; exact H]. Qed.

Lemma fmax_le2 a b e : le2 a e -> le2 b e -> le2 (fmax a b) e.
Proof.
  intros [Fa Ha] [Fb Hb]. destruct (fmax_ok a b Fa Fb) as [F E]. split; [exact F|]. rewrite E.
  unfold Rmax. destruct (Rle_dec (b2r a) (b2r b)); assumption.
Qed.

Lemma eps_le2 : le2 HS_EPSILON 0.
Proof. split; [reflexivity|]. rewrite b2r_eps. unfold EPSr. change (bpow radix2 0) with 1. apply Rabs_le. lra. Qed.
Lemma one_le2 : le2 f_one 0.
Proof. split; [reflexivity|]. rewrite b2r_one'. change (bpow radix2 0) with 1. apply Rabs_le. lra. Qed.

Definition vle2 (a : vec) (e : Z) : Prop := let '(x, y, z) := a in le2 x e /\ le2 y e /\ le2 z e.

Lemma vdot_le2 a b e : vle2 a e -> vle2 b e -> (-537 <= e <= 510)%Z -> le2 (vdot a b) (e + e + 2).
Proof.
  destruct a as [[a1 a2] a3], b as [[b1 b2] b3]. intros (A1 & A2 & A3) (B1 & B2 & B3) He. cbn [vdot].
  pose proof (fmul_le2 _ _ _ _ A1 B1 ltac:(lia)) as P1. pose proof (fmul_le2 _ _ _ _ A2 B2 ltac:(lia)) as P2.
  pose proof (fmul_le2 _ _ _ _ A3 B3 ltac:(lia)) as P3.
  pose proof (fadd_le2 _ _ _ P1 P2 ltac:(lia)) as S12.
  pose proof (fadd_le2 _ _ _ S12 (le2_mono _ _ (e + e + 1) P3 ltac:(lia)) ltac:(lia)) as S.
  replace (e + e + 2)%Z with (e + e + 1 + 1)%Z by lia. exact S.
Qed.

Lemma vabs_le2 a e : vle2 a e -> vle2 (vabs a) e.
Proof. destruct a as [[x y] z]. intros (A & B & C). cbn [vabs vle2]. split; [|split]; apply fabs_le2; assumption. Qed.

Theorem clip_finite (n p v : vec) : vle2 n 300 -> vle2 p 300 -> vle2 v 300 ->
  fin (clip_value n p v) = true /\ fin (hs_errb n p) = true /\ fin (clip_errb1 n p v) = true.
Proof.
  intros Hn Hp Hv.
  pose proof (vdot_le2 n v 300 Hn Hv ltac:(lia)) as Dv. pose proof (vdot_le2 n p 300 Hn Hp ltac:(lia)) as Dp.
  pose proof (fsub_le2 _ _ _ Dv Dp ltac:(lia)) as [Fc _].
  pose proof (vdot_le2 _ _ 300 (vabs_le2 _ _ Hn) (vabs_le2 _ _ Hp) ltac:(lia)) as Da.
  pose proof (fadd_le2 _ _ _ (le2_mono _ _ (300 + 300 + 2) one_le2 ltac:(lia)) Da ltac:(lia)) as S1.
  pose proof (fmul_le2 _ _ _ _ eps_le2 S1 ltac:(lia)) as [F0 _].
  assert (Hsum : le2 (vsum (vabs n)) 302).
  { destruct n as [[n1 n2] n3]. destruct Hn as (A & B & C). cbn [vabs vsum].
    pose proof (fadd_le2 _ _ _ (fabs_le2 _ _ A) (fabs_le2 _ _ B) ltac:(lia)) as S12.
    exact (fadd_le2 _ _ _ S12 (le2_mono _ _ (300 + 1) (fabs_le2 _ _ C) ltac:(lia)) ltac:(lia)). }
  assert (Hsc : le2 (clip_scale p v) 300).
  { destruct p as [[p1 p2] p3], v as [[v1 v2] v3]. destruct Hp as (A & B & C), Hv as (D & E & F). unfold clip_scale. cbn [vabs vmaxel].
    apply fmax_le2; apply fmax_le2; try apply fmax_le2; apply fabs_le2; assumption. }
  pose proof (fmul_le2 _ _ _ _ (fmul_le2 _ _ _ _ eps_le2 Hsum ltac:(lia)) Hsc ltac:(lia)) as [F1 _].
  unfold clip_value, hs_d, hs_errb, clip_errb1. split; [|split]; assumption.
Qed.

(* soundness of the filter for every input of sane magnitude, no hypothesis on computed values *)
Theorem clip_filter_sound_bounded (n p v : vec) : vle2 n 300 -> vle2 p 300 -> vle2 v 300 ->
  (clip_filter n p v = 1%Z -> 0 < exactE n p v) /\ (clip_filter n p v = (-1)%Z -> exactE n p v < 0).
Proof.
  intros Hn Hp Hv. destruct (clip_finite n p v Hn Hp Hv) as (Fc & F0 & F1). apply clip_filter_sound; assumption.
Qed.
