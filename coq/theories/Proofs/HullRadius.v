(* The farthest point of the hull of the vertices from the generator is a vertex: every convex combination of points
   within distance R of g is within distance R of g (squared, homogeneous, integer weights).  With VerticesSpan this is
   "the cell lies in the ball of radius max vertex distance", the basis of the safety radius (C16). *)
From Coq Require Import ZArith List Lia Psatz.
From MV Require Import Model.Cycle Model.CellExact Proofs.CellProofs Proofs.HullProofs Proofs.GeomLemmas.
Import ListNotations.
Open Scope Z_scope.

(* W * (x / W - g) for a homogeneous point *)
Definition hrel (g : V3) (p : hpoint) : V3 := let '(x, w) := p in vsub x (vscale w g).

Lemma dot_cs (a b : V3) : dot a b * dot a b <= norm2 a * norm2 b.
Proof.
  destruct a as [[a1 a2] a3], b as [[b1 b2] b3]. unfold norm2, dot.
  pose proof (cauchy_schwarz3 a1 a2 a3 b1 b2 b3) as H. unfold sq3 in H. lia.
Qed.

Lemma norm2_add (a b : V3) : norm2 (vadd a b) = norm2 a + 2 * dot a b + norm2 b.
Proof. destruct a as [[a1 a2] a3], b as [[b1 b2] b3]. unfold norm2, dot, vadd. ring. Qed.

Lemma norm2_nonneg (a : V3) : 0 <= norm2 a.
Proof. destruct a as [[a1 a2] a3]. unfold norm2, dot. nia. Qed.

(* |a|^2 <= alpha^2 R, |b|^2 <= beta^2 R  ==>  |a + b|^2 <= (alpha + beta)^2 R   (R = rn / rd) *)
Lemma ball_add (a b : V3) (alpha beta rn rd : Z) : 0 <= alpha -> 0 <= beta -> 0 <= rn -> 0 < rd ->
  rd * norm2 a <= alpha * alpha * rn -> rd * norm2 b <= beta * beta * rn ->
  rd * norm2 (vadd a b) <= (alpha + beta) * (alpha + beta) * rn.
Proof.
  intros Ha Hb Hrn Hrd Na Nb. rewrite norm2_add.
  pose proof (dot_cs a b) as CS. pose proof (norm2_nonneg a) as Pa. pose proof (norm2_nonneg b) as Pb.
  (* (rd * a.b)^2 <= (rd |a|^2)(rd |b|^2) <= (alpha beta rn)^2, and alpha beta rn >= 0 *)
  assert (S : (rd * dot a b) * (rd * dot a b) <= (alpha * beta * rn) * (alpha * beta * rn)).
  { apply Z.le_trans with ((rd * norm2 a) * (rd * norm2 b)); [nia|].
    apply Z.le_trans with ((alpha * alpha * rn) * (rd * norm2 b)); [apply Z.mul_le_mono_nonneg_r; nia|].
    replace (alpha * beta * rn * (alpha * beta * rn)) with ((alpha * alpha * rn) * (beta * beta * rn)) by ring.
    apply Z.mul_le_mono_nonneg_l; nia. }
  assert (D : rd * dot a b <= alpha * beta * rn) by nia.
  nia.
Qed.

Lemma hrel_comb g : forall l, hrel g (hcomb l) =
  fold_right (fun '(lam, p) acc => vadd (vscale lam (hrel g p)) acc) (0, 0, 0) l.
Proof.
  induction l as [|[lam [x w]] t IH]; cbn [hcomb fold_right].
  - destruct g as [[g1 g2] g3]. cbn. reflexivity.
  - destruct (hcomb t) as [X W] eqn:E. rewrite <- IH. unfold hrel.
    destruct g as [[g1 g2] g3], x as [[x1 x2] x3], X as [[X1 X2] X3]. cbn. f_equal; [f_equal|]; ring.
Qed.

Lemma norm2_scale k a : norm2 (vscale k a) = k * k * norm2 a.
Proof. destruct a as [[a1 a2] a3]. unfold norm2, dot, vscale. ring. Qed.

(* every convex combination of points within squared distance rn/rd of g is within that distance *)
Theorem hull_in_ball g rn rd : 0 <= rn -> 0 < rd -> forall l,
  Forall (fun '(lam, p) => 0 <= lam /\ 0 < snd p /\ rd * norm2 (hrel g p) <= snd p * snd p * rn) l ->
  rd * norm2 (hrel g (hcomb l)) <= snd (hcomb l) * snd (hcomb l) * rn /\ 0 <= snd (hcomb l).
Proof.
  intros Hrn Hrd. induction l as [|[lam [x w]] t IH]; intros H.
  - cbn [hcomb snd]. unfold hrel. destruct g as [[g1 g2] g3]. cbn. lia.
  - inversion H as [|? ? Hh Ht]; subst. cbv beta iota in Hh. destruct Hh as (Hl & Hw & Hb). cbn [snd] in Hw, Hb.
    destruct (IH Ht) as [IHb IHw]. rewrite hrel_comb in *. cbn [hcomb fold_right].
    destruct (hcomb t) as [X W] eqn:E. cbn [snd] in *. split; [|nia].
    apply (ball_add _ _ (lam * w) W rn rd); try nia.
    rewrite norm2_scale. nia.
Qed.
