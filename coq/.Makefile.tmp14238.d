theories/Model/Insphere.vo theories/Model/Insphere.glob theories/Model/Insphere.v.beautified theories/Model/Insphere.required_vo: theories/Model/Insphere.v 
theories/Model/Insphere.vio: theories/Model/Insphere.v 
theories/Model/Insphere.vos theories/Model/Insphere.vok theories/Model/Insphere.required_vos: theories/Model/Insphere.v 
theories/Model/Grid.vo theories/Model/Grid.glob theories/Model/Grid.v.beautified theories/Model/Grid.required_vo: theories/Model/Grid.v 
theories/Model/Grid.vio: theories/Model/Grid.v 
theories/Model/Grid.vos theories/Model/Grid.vok theories/Model/Grid.required_vos: theories/Model/Grid.v 
theories/Model/Filter.vo theories/Model/Filter.glob theories/Model/Filter.v.beautified theories/Model/Filter.required_vo: theories/Model/Filter.v theories/Model/Grid.vo
theories/Model/Filter.vio: theories/Model/Filter.v theories/Model/Grid.vio
theories/Model/Filter.vos theories/Model/Filter.vok theories/Model/Filter.required_vos: theories/Model/Filter.v theories/Model/Grid.vos
theories/Model/Cycle.vo theories/Model/Cycle.glob theories/Model/Cycle.v.beautified theories/Model/Cycle.required_vo: theories/Model/Cycle.v 
theories/Model/Cycle.vio: theories/Model/Cycle.v 
theories/Model/Cycle.vos theories/Model/Cycle.vok theories/Model/Cycle.required_vos: theories/Model/Cycle.v 
theories/Model/CellExact.vo theories/Model/CellExact.glob theories/Model/CellExact.v.beautified theories/Model/CellExact.required_vo: theories/Model/CellExact.v theories/Model/Cycle.vo
theories/Model/CellExact.vio: theories/Model/CellExact.v theories/Model/Cycle.vio
theories/Model/CellExact.vos theories/Model/CellExact.vok theories/Model/CellExact.required_vos: theories/Model/CellExact.v theories/Model/Cycle.vos
theories/Model/Assemble.vo theories/Model/Assemble.glob theories/Model/Assemble.v.beautified theories/Model/Assemble.required_vo: theories/Model/Assemble.v 
theories/Model/Assemble.vio: theories/Model/Assemble.v 
theories/Model/Assemble.vos theories/Model/Assemble.vok theories/Model/Assemble.required_vos: theories/Model/Assemble.v 
theories/Model/BestFirst.vo theories/Model/BestFirst.glob theories/Model/BestFirst.v.beautified theories/Model/BestFirst.required_vo: theories/Model/BestFirst.v 
theories/Model/BestFirst.vio: theories/Model/BestFirst.v 
theories/Model/BestFirst.vos theories/Model/BestFirst.vok theories/Model/BestFirst.required_vos: theories/Model/BestFirst.v 
theories/Model/Backend.vo theories/Model/Backend.glob theories/Model/Backend.v.beautified theories/Model/Backend.required_vo: theories/Model/Backend.v theories/Model/Insphere.vo
theories/Model/Backend.vio: theories/Model/Backend.v theories/Model/Insphere.vio
theories/Model/Backend.vos theories/Model/Backend.vok theories/Model/Backend.required_vos: theories/Model/Backend.v theories/Model/Insphere.vos
theories/Model/Par.vo theories/Model/Par.glob theories/Model/Par.v.beautified theories/Model/Par.required_vo: theories/Model/Par.v 
theories/Model/Par.vio: theories/Model/Par.v 
theories/Model/Par.vos theories/Model/Par.vok theories/Model/Par.required_vos: theories/Model/Par.v 
theories/Model/Knn.vo theories/Model/Knn.glob theories/Model/Knn.v.beautified theories/Model/Knn.required_vo: theories/Model/Knn.v 
theories/Model/Knn.vio: theories/Model/Knn.v 
theories/Model/Knn.vos theories/Model/Knn.vok theories/Model/Knn.required_vos: theories/Model/Knn.v 
theories/Proofs/InsphereProofs.vo theories/Proofs/InsphereProofs.glob theories/Proofs/InsphereProofs.v.beautified theories/Proofs/InsphereProofs.required_vo: theories/Proofs/InsphereProofs.v theories/Model/Insphere.vo
theories/Proofs/InsphereProofs.vio: theories/Proofs/InsphereProofs.v theories/Model/Insphere.vio
theories/Proofs/InsphereProofs.vos theories/Proofs/InsphereProofs.vok theories/Proofs/InsphereProofs.required_vos: theories/Proofs/InsphereProofs.v theories/Model/Insphere.vos
theories/Proofs/GridProofs.vo theories/Proofs/GridProofs.glob theories/Proofs/GridProofs.v.beautified theories/Proofs/GridProofs.required_vo: theories/Proofs/GridProofs.v theories/Model/Grid.vo
theories/Proofs/GridProofs.vio: theories/Proofs/GridProofs.v theories/Model/Grid.vio
theories/Proofs/GridProofs.vos theories/Proofs/GridProofs.vok theories/Proofs/GridProofs.required_vos: theories/Proofs/GridProofs.v theories/Model/Grid.vos
theories/Proofs/GridFlocq.vo theories/Proofs/GridFlocq.glob theories/Proofs/GridFlocq.v.beautified theories/Proofs/GridFlocq.required_vo: theories/Proofs/GridFlocq.v theories/Model/Grid.vo
theories/Proofs/GridFlocq.vio: theories/Proofs/GridFlocq.v theories/Model/Grid.vio
theories/Proofs/GridFlocq.vos theories/Proofs/GridFlocq.vok theories/Proofs/GridFlocq.required_vos: theories/Proofs/GridFlocq.v theories/Model/Grid.vos
theories/Proofs/GridRange.vo theories/Proofs/GridRange.glob theories/Proofs/GridRange.v.beautified theories/Proofs/GridRange.required_vo: theories/Proofs/GridRange.v theories/Model/Grid.vo theories/Proofs/GridFlocq.vo
theories/Proofs/GridRange.vio: theories/Proofs/GridRange.v theories/Model/Grid.vio theories/Proofs/GridFlocq.vio
theories/Proofs/GridRange.vos theories/Proofs/GridRange.vok theories/Proofs/GridRange.required_vos: theories/Proofs/GridRange.v theories/Model/Grid.vos theories/Proofs/GridFlocq.vos
theories/Proofs/GridRangeB64.vo theories/Proofs/GridRangeB64.glob theories/Proofs/GridRangeB64.v.beautified theories/Proofs/GridRangeB64.required_vo: theories/Proofs/GridRangeB64.v theories/Model/Grid.vo theories/Proofs/GridFlocq.vo theories/Proofs/GridRange.vo
theories/Proofs/GridRangeB64.vio: theories/Proofs/GridRangeB64.v theories/Model/Grid.vio theories/Proofs/GridFlocq.vio theories/Proofs/GridRange.vio
theories/Proofs/GridRangeB64.vos theories/Proofs/GridRangeB64.vok theories/Proofs/GridRangeB64.required_vos: theories/Proofs/GridRangeB64.v theories/Model/Grid.vos theories/Proofs/GridFlocq.vos theories/Proofs/GridRange.vos
theories/Proofs/GridBits.vo theories/Proofs/GridBits.glob theories/Proofs/GridBits.v.beautified theories/Proofs/GridBits.required_vo: theories/Proofs/GridBits.v theories/Model/Grid.vo theories/Proofs/GridFlocq.vo
theories/Proofs/GridBits.vio: theories/Proofs/GridBits.v theories/Model/Grid.vio theories/Proofs/GridFlocq.vio
theories/Proofs/GridBits.vos theories/Proofs/GridBits.vok theories/Proofs/GridBits.required_vos: theories/Proofs/GridBits.v theories/Model/Grid.vos theories/Proofs/GridFlocq.vos
theories/Proofs/GridTotal.vo theories/Proofs/GridTotal.glob theories/Proofs/GridTotal.v.beautified theories/Proofs/GridTotal.required_vo: theories/Proofs/GridTotal.v theories/Model/Grid.vo theories/Proofs/GridFlocq.vo theories/Proofs/GridRange.vo theories/Proofs/GridRangeB64.vo theories/Proofs/GridBits.vo
theories/Proofs/GridTotal.vio: theories/Proofs/GridTotal.v theories/Model/Grid.vio theories/Proofs/GridFlocq.vio theories/Proofs/GridRange.vio theories/Proofs/GridRangeB64.vio theories/Proofs/GridBits.vio
theories/Proofs/GridTotal.vos theories/Proofs/GridTotal.vok theories/Proofs/GridTotal.required_vos: theories/Proofs/GridTotal.v theories/Model/Grid.vos theories/Proofs/GridFlocq.vos theories/Proofs/GridRange.vos theories/Proofs/GridRangeB64.vos theories/Proofs/GridBits.vos
theories/Proofs/CycleProofs.vo theories/Proofs/CycleProofs.glob theories/Proofs/CycleProofs.v.beautified theories/Proofs/CycleProofs.required_vo: theories/Proofs/CycleProofs.v theories/Model/Cycle.vo
theories/Proofs/CycleProofs.vio: theories/Proofs/CycleProofs.v theories/Model/Cycle.vio
theories/Proofs/CycleProofs.vos theories/Proofs/CycleProofs.vok theories/Proofs/CycleProofs.required_vos: theories/Proofs/CycleProofs.v theories/Model/Cycle.vos
theories/Proofs/CycleInv.vo theories/Proofs/CycleInv.glob theories/Proofs/CycleInv.v.beautified theories/Proofs/CycleInv.required_vo: theories/Proofs/CycleInv.v theories/Model/Cycle.vo theories/Proofs/CycleProofs.vo
theories/Proofs/CycleInv.vio: theories/Proofs/CycleInv.v theories/Model/Cycle.vio theories/Proofs/CycleProofs.vio
theories/Proofs/CycleInv.vos theories/Proofs/CycleInv.vok theories/Proofs/CycleInv.required_vos: theories/Proofs/CycleInv.v theories/Model/Cycle.vos theories/Proofs/CycleProofs.vos
theories/Proofs/CycleClosed.vo theories/Proofs/CycleClosed.glob theories/Proofs/CycleClosed.v.beautified theories/Proofs/CycleClosed.required_vo: theories/Proofs/CycleClosed.v theories/Model/Cycle.vo theories/Proofs/CycleProofs.vo theories/Proofs/CycleInv.vo
theories/Proofs/CycleClosed.vio: theories/Proofs/CycleClosed.v theories/Model/Cycle.vio theories/Proofs/CycleProofs.vio theories/Proofs/CycleInv.vio
theories/Proofs/CycleClosed.vos theories/Proofs/CycleClosed.vok theories/Proofs/CycleClosed.required_vos: theories/Proofs/CycleClosed.v theories/Model/Cycle.vos theories/Proofs/CycleProofs.vos theories/Proofs/CycleInv.vos
theories/Proofs/AssembleProofs.vo theories/Proofs/AssembleProofs.glob theories/Proofs/AssembleProofs.v.beautified theories/Proofs/AssembleProofs.required_vo: theories/Proofs/AssembleProofs.v theories/Model/Assemble.vo
theories/Proofs/AssembleProofs.vio: theories/Proofs/AssembleProofs.v theories/Model/Assemble.vio
theories/Proofs/AssembleProofs.vos theories/Proofs/AssembleProofs.vok theories/Proofs/AssembleProofs.required_vos: theories/Proofs/AssembleProofs.v theories/Model/Assemble.vos
theories/Proofs/CellProofs.vo theories/Proofs/CellProofs.glob theories/Proofs/CellProofs.v.beautified theories/Proofs/CellProofs.required_vo: theories/Proofs/CellProofs.v theories/Model/Cycle.vo theories/Model/CellExact.vo
theories/Proofs/CellProofs.vio: theories/Proofs/CellProofs.v theories/Model/Cycle.vio theories/Model/CellExact.vio
theories/Proofs/CellProofs.vos theories/Proofs/CellProofs.vok theories/Proofs/CellProofs.required_vos: theories/Proofs/CellProofs.v theories/Model/Cycle.vos theories/Model/CellExact.vos
theories/Proofs/CellClosed.vo theories/Proofs/CellClosed.glob theories/Proofs/CellClosed.v.beautified theories/Proofs/CellClosed.required_vo: theories/Proofs/CellClosed.v theories/Model/Cycle.vo theories/Model/CellExact.vo theories/Proofs/CycleProofs.vo theories/Proofs/CycleInv.vo theories/Proofs/CycleClosed.vo
theories/Proofs/CellClosed.vio: theories/Proofs/CellClosed.v theories/Model/Cycle.vio theories/Model/CellExact.vio theories/Proofs/CycleProofs.vio theories/Proofs/CycleInv.vio theories/Proofs/CycleClosed.vio
theories/Proofs/CellClosed.vos theories/Proofs/CellClosed.vok theories/Proofs/CellClosed.required_vos: theories/Proofs/CellClosed.v theories/Model/Cycle.vos theories/Model/CellExact.vos theories/Proofs/CycleProofs.vos theories/Proofs/CycleInv.vos theories/Proofs/CycleClosed.vos
theories/Proofs/HullProofs.vo theories/Proofs/HullProofs.glob theories/Proofs/HullProofs.v.beautified theories/Proofs/HullProofs.required_vo: theories/Proofs/HullProofs.v theories/Model/Cycle.vo theories/Model/CellExact.vo theories/Proofs/CellProofs.vo
theories/Proofs/HullProofs.vio: theories/Proofs/HullProofs.v theories/Model/Cycle.vio theories/Model/CellExact.vio theories/Proofs/CellProofs.vio
theories/Proofs/HullProofs.vos theories/Proofs/HullProofs.vok theories/Proofs/HullProofs.required_vos: theories/Proofs/HullProofs.v theories/Model/Cycle.vos theories/Model/CellExact.vos theories/Proofs/CellProofs.vos
theories/Proofs/EdgeExist.vo theories/Proofs/EdgeExist.glob theories/Proofs/EdgeExist.v.beautified theories/Proofs/EdgeExist.required_vo: theories/Proofs/EdgeExist.v theories/Model/Cycle.vo theories/Proofs/CycleProofs.vo theories/Proofs/CycleInv.vo theories/Proofs/CycleClosed.vo
theories/Proofs/EdgeExist.vio: theories/Proofs/EdgeExist.v theories/Model/Cycle.vio theories/Proofs/CycleProofs.vio theories/Proofs/CycleInv.vio theories/Proofs/CycleClosed.vio
theories/Proofs/EdgeExist.vos theories/Proofs/EdgeExist.vok theories/Proofs/EdgeExist.required_vos: theories/Proofs/EdgeExist.v theories/Model/Cycle.vos theories/Proofs/CycleProofs.vos theories/Proofs/CycleInv.vos theories/Proofs/CycleClosed.vos
theories/Proofs/Feasible.vo theories/Proofs/Feasible.glob theories/Proofs/Feasible.v.beautified theories/Proofs/Feasible.required_vo: theories/Proofs/Feasible.v theories/Model/Cycle.vo theories/Model/CellExact.vo theories/Proofs/CellProofs.vo theories/Proofs/HullProofs.vo theories/Proofs/CycleProofs.vo theories/Proofs/CycleInv.vo theories/Proofs/CycleClosed.vo theories/Proofs/CellClosed.vo theories/Proofs/EdgeExist.vo theories/Proofs/GeomLemmas.vo
theories/Proofs/Feasible.vio: theories/Proofs/Feasible.v theories/Model/Cycle.vio theories/Model/CellExact.vio theories/Proofs/CellProofs.vio theories/Proofs/HullProofs.vio theories/Proofs/CycleProofs.vio theories/Proofs/CycleInv.vio theories/Proofs/CycleClosed.vio theories/Proofs/CellClosed.vio theories/Proofs/EdgeExist.vio theories/Proofs/GeomLemmas.vio
theories/Proofs/Feasible.vos theories/Proofs/Feasible.vok theories/Proofs/Feasible.required_vos: theories/Proofs/Feasible.v theories/Model/Cycle.vos theories/Model/CellExact.vos theories/Proofs/CellProofs.vos theories/Proofs/HullProofs.vos theories/Proofs/CycleProofs.vos theories/Proofs/CycleInv.vos theories/Proofs/CycleClosed.vos theories/Proofs/CellClosed.vos theories/Proofs/EdgeExist.vos theories/Proofs/GeomLemmas.vos
theories/Proofs/FeasibleDim.vo theories/Proofs/FeasibleDim.glob theories/Proofs/FeasibleDim.v.beautified theories/Proofs/FeasibleDim.required_vo: theories/Proofs/FeasibleDim.v theories/Model/Cycle.vo theories/Model/CellExact.vo theories/Proofs/CellProofs.vo theories/Proofs/HullProofs.vo theories/Proofs/GeomLemmas.vo theories/Proofs/Feasible.vo
theories/Proofs/FeasibleDim.vio: theories/Proofs/FeasibleDim.v theories/Model/Cycle.vio theories/Model/CellExact.vio theories/Proofs/CellProofs.vio theories/Proofs/HullProofs.vio theories/Proofs/GeomLemmas.vio theories/Proofs/Feasible.vio
theories/Proofs/FeasibleDim.vos theories/Proofs/FeasibleDim.vok theories/Proofs/FeasibleDim.required_vos: theories/Proofs/FeasibleDim.v theories/Model/Cycle.vos theories/Model/CellExact.vos theories/Proofs/CellProofs.vos theories/Proofs/HullProofs.vos theories/Proofs/GeomLemmas.vos theories/Proofs/Feasible.vos
theories/Proofs/HullSafety.vo theories/Proofs/HullSafety.glob theories/Proofs/HullSafety.v.beautified theories/Proofs/HullSafety.required_vo: theories/Proofs/HullSafety.v theories/Model/Cycle.vo theories/Model/CellExact.vo theories/Proofs/CellProofs.vo theories/Proofs/HullProofs.vo theories/Proofs/HullRadius.vo theories/Proofs/Feasible.vo
theories/Proofs/HullSafety.vio: theories/Proofs/HullSafety.v theories/Model/Cycle.vio theories/Model/CellExact.vio theories/Proofs/CellProofs.vio theories/Proofs/HullProofs.vio theories/Proofs/HullRadius.vio theories/Proofs/Feasible.vio
theories/Proofs/HullSafety.vos theories/Proofs/HullSafety.vok theories/Proofs/HullSafety.required_vos: theories/Proofs/HullSafety.v theories/Model/Cycle.vos theories/Model/CellExact.vos theories/Proofs/CellProofs.vos theories/Proofs/HullProofs.vos theories/Proofs/HullRadius.vos theories/Proofs/Feasible.vos
theories/Proofs/SharedFace.vo theories/Proofs/SharedFace.glob theories/Proofs/SharedFace.v.beautified theories/Proofs/SharedFace.required_vo: theories/Proofs/SharedFace.v theories/Model/Cycle.vo theories/Model/CellExact.vo theories/Proofs/CellProofs.vo theories/Proofs/HullProofs.vo
theories/Proofs/SharedFace.vio: theories/Proofs/SharedFace.v theories/Model/Cycle.vio theories/Model/CellExact.vio theories/Proofs/CellProofs.vio theories/Proofs/HullProofs.vio
theories/Proofs/SharedFace.vos theories/Proofs/SharedFace.vok theories/Proofs/SharedFace.required_vos: theories/Proofs/SharedFace.v theories/Model/Cycle.vos theories/Model/CellExact.vos theories/Proofs/CellProofs.vos theories/Proofs/HullProofs.vos
theories/Proofs/PlaneKeys.vo theories/Proofs/PlaneKeys.glob theories/Proofs/PlaneKeys.v.beautified theories/Proofs/PlaneKeys.required_vo: theories/Proofs/PlaneKeys.v theories/Model/Cycle.vo theories/Model/CellExact.vo theories/Proofs/CellProofs.vo
theories/Proofs/PlaneKeys.vio: theories/Proofs/PlaneKeys.v theories/Model/Cycle.vio theories/Model/CellExact.vio theories/Proofs/CellProofs.vio
theories/Proofs/PlaneKeys.vos theories/Proofs/PlaneKeys.vok theories/Proofs/PlaneKeys.required_vos: theories/Proofs/PlaneKeys.v theories/Model/Cycle.vos theories/Model/CellExact.vos theories/Proofs/CellProofs.vos
theories/Proofs/FilterErr.vo theories/Proofs/FilterErr.glob theories/Proofs/FilterErr.v.beautified theories/Proofs/FilterErr.required_vo: theories/Proofs/FilterErr.v 
theories/Proofs/FilterErr.vio: theories/Proofs/FilterErr.v 
theories/Proofs/FilterErr.vos theories/Proofs/FilterErr.vok theories/Proofs/FilterErr.required_vos: theories/Proofs/FilterErr.v 
theories/Proofs/FilterB64.vo theories/Proofs/FilterB64.glob theories/Proofs/FilterB64.v.beautified theories/Proofs/FilterB64.required_vo: theories/Proofs/FilterB64.v theories/Model/Grid.vo theories/Model/Filter.vo theories/Proofs/GridFlocq.vo theories/Proofs/FilterErr.vo
theories/Proofs/FilterB64.vio: theories/Proofs/FilterB64.v theories/Model/Grid.vio theories/Model/Filter.vio theories/Proofs/GridFlocq.vio theories/Proofs/FilterErr.vio
theories/Proofs/FilterB64.vos theories/Proofs/FilterB64.vok theories/Proofs/FilterB64.required_vos: theories/Proofs/FilterB64.v theories/Model/Grid.vos theories/Model/Filter.vos theories/Proofs/GridFlocq.vos theories/Proofs/FilterErr.vos
theories/Proofs/HullRadius.vo theories/Proofs/HullRadius.glob theories/Proofs/HullRadius.v.beautified theories/Proofs/HullRadius.required_vo: theories/Proofs/HullRadius.v theories/Model/Cycle.vo theories/Model/CellExact.vo theories/Proofs/CellProofs.vo theories/Proofs/HullProofs.vo theories/Proofs/GeomLemmas.vo
theories/Proofs/HullRadius.vio: theories/Proofs/HullRadius.v theories/Model/Cycle.vio theories/Model/CellExact.vio theories/Proofs/CellProofs.vio theories/Proofs/HullProofs.vio theories/Proofs/GeomLemmas.vio
theories/Proofs/HullRadius.vos theories/Proofs/HullRadius.vok theories/Proofs/HullRadius.required_vos: theories/Proofs/HullRadius.v theories/Model/Cycle.vos theories/Model/CellExact.vos theories/Proofs/CellProofs.vos theories/Proofs/HullProofs.vos theories/Proofs/GeomLemmas.vos
theories/Proofs/OneD.vo theories/Proofs/OneD.glob theories/Proofs/OneD.v.beautified theories/Proofs/OneD.required_vo: theories/Proofs/OneD.v 
theories/Proofs/OneD.vio: theories/Proofs/OneD.v 
theories/Proofs/OneD.vos theories/Proofs/OneD.vok theories/Proofs/OneD.required_vos: theories/Proofs/OneD.v 
theories/Proofs/FaceWalk.vo theories/Proofs/FaceWalk.glob theories/Proofs/FaceWalk.v.beautified theories/Proofs/FaceWalk.required_vo: theories/Proofs/FaceWalk.v theories/Model/Cycle.vo theories/Model/CellExact.vo
theories/Proofs/FaceWalk.vio: theories/Proofs/FaceWalk.v theories/Model/Cycle.vio theories/Model/CellExact.vio
theories/Proofs/FaceWalk.vos theories/Proofs/FaceWalk.vok theories/Proofs/FaceWalk.required_vos: theories/Proofs/FaceWalk.v theories/Model/Cycle.vos theories/Model/CellExact.vos
theories/Proofs/FaceClose.vo theories/Proofs/FaceClose.glob theories/Proofs/FaceClose.v.beautified theories/Proofs/FaceClose.required_vo: theories/Proofs/FaceClose.v theories/Model/Cycle.vo theories/Model/CellExact.vo theories/Proofs/CycleProofs.vo theories/Proofs/CycleInv.vo theories/Proofs/CycleClosed.vo theories/Proofs/FaceWalk.vo
theories/Proofs/FaceClose.vio: theories/Proofs/FaceClose.v theories/Model/Cycle.vio theories/Model/CellExact.vio theories/Proofs/CycleProofs.vio theories/Proofs/CycleInv.vio theories/Proofs/CycleClosed.vio theories/Proofs/FaceWalk.vio
theories/Proofs/FaceClose.vos theories/Proofs/FaceClose.vok theories/Proofs/FaceClose.required_vos: theories/Proofs/FaceClose.v theories/Model/Cycle.vos theories/Model/CellExact.vos theories/Proofs/CycleProofs.vos theories/Proofs/CycleInv.vos theories/Proofs/CycleClosed.vos theories/Proofs/FaceWalk.vos
theories/Proofs/GeomLemmas.vo theories/Proofs/GeomLemmas.glob theories/Proofs/GeomLemmas.v.beautified theories/Proofs/GeomLemmas.required_vo: theories/Proofs/GeomLemmas.v 
theories/Proofs/GeomLemmas.vio: theories/Proofs/GeomLemmas.v 
theories/Proofs/GeomLemmas.vos theories/Proofs/GeomLemmas.vok theories/Proofs/GeomLemmas.required_vos: theories/Proofs/GeomLemmas.v 
theories/Proofs/BestFirstProofs.vo theories/Proofs/BestFirstProofs.glob theories/Proofs/BestFirstProofs.v.beautified theories/Proofs/BestFirstProofs.required_vo: theories/Proofs/BestFirstProofs.v theories/Model/BestFirst.vo
theories/Proofs/BestFirstProofs.vio: theories/Proofs/BestFirstProofs.v theories/Model/BestFirst.vio
theories/Proofs/BestFirstProofs.vos theories/Proofs/BestFirstProofs.vok theories/Proofs/BestFirstProofs.required_vos: theories/Proofs/BestFirstProofs.v theories/Model/BestFirst.vos
theories/Proofs/HelperProofs.vo theories/Proofs/HelperProofs.glob theories/Proofs/HelperProofs.v.beautified theories/Proofs/HelperProofs.required_vo: theories/Proofs/HelperProofs.v theories/Model/CellExact.vo theories/Proofs/CellProofs.vo
theories/Proofs/HelperProofs.vio: theories/Proofs/HelperProofs.v theories/Model/CellExact.vio theories/Proofs/CellProofs.vio
theories/Proofs/HelperProofs.vos theories/Proofs/HelperProofs.vok theories/Proofs/HelperProofs.required_vos: theories/Proofs/HelperProofs.v theories/Model/CellExact.vos theories/Proofs/CellProofs.vos
theories/Proofs/BackendProofs.vo theories/Proofs/BackendProofs.glob theories/Proofs/BackendProofs.v.beautified theories/Proofs/BackendProofs.required_vo: theories/Proofs/BackendProofs.v theories/Model/Insphere.vo theories/Model/Backend.vo
theories/Proofs/BackendProofs.vio: theories/Proofs/BackendProofs.v theories/Model/Insphere.vio theories/Model/Backend.vio
theories/Proofs/BackendProofs.vos theories/Proofs/BackendProofs.vok theories/Proofs/BackendProofs.required_vos: theories/Proofs/BackendProofs.v theories/Model/Insphere.vos theories/Model/Backend.vos
theories/Proofs/ParProofs.vo theories/Proofs/ParProofs.glob theories/Proofs/ParProofs.v.beautified theories/Proofs/ParProofs.required_vo: theories/Proofs/ParProofs.v theories/Model/Par.vo
theories/Proofs/ParProofs.vio: theories/Proofs/ParProofs.v theories/Model/Par.vio
theories/Proofs/ParProofs.vos theories/Proofs/ParProofs.vok theories/Proofs/ParProofs.required_vos: theories/Proofs/ParProofs.v theories/Model/Par.vos
theories/Proofs/KnnProofs.vo theories/Proofs/KnnProofs.glob theories/Proofs/KnnProofs.v.beautified theories/Proofs/KnnProofs.required_vo: theories/Proofs/KnnProofs.v theories/Model/Knn.vo
theories/Proofs/KnnProofs.vio: theories/Proofs/KnnProofs.v theories/Model/Knn.vio
theories/Proofs/KnnProofs.vos theories/Proofs/KnnProofs.vok theories/Proofs/KnnProofs.required_vos: theories/Proofs/KnnProofs.v theories/Model/Knn.vos
theories/Proofs/Surface.vo theories/Proofs/Surface.glob theories/Proofs/Surface.v.beautified theories/Proofs/Surface.required_vo: theories/Proofs/Surface.v theories/Proofs/GeomLemmas.vo
theories/Proofs/Surface.vio: theories/Proofs/Surface.v theories/Proofs/GeomLemmas.vio
theories/Proofs/Surface.vos theories/Proofs/Surface.vok theories/Proofs/Surface.required_vos: theories/Proofs/Surface.v theories/Proofs/GeomLemmas.vos
theories/Properties/C01.vo theories/Properties/C01.glob theories/Properties/C01.v.beautified theories/Properties/C01.required_vo: theories/Properties/C01.v theories/Model/Cycle.vo theories/Model/CellExact.vo theories/Proofs/CellProofs.vo theories/Proofs/HullProofs.vo theories/Proofs/OneD.vo theories/Proofs/Feasible.vo theories/Proofs/FeasibleDim.vo
theories/Properties/C01.vio: theories/Properties/C01.v theories/Model/Cycle.vio theories/Model/CellExact.vio theories/Proofs/CellProofs.vio theories/Proofs/HullProofs.vio theories/Proofs/OneD.vio theories/Proofs/Feasible.vio theories/Proofs/FeasibleDim.vio
theories/Properties/C01.vos theories/Properties/C01.vok theories/Properties/C01.required_vos: theories/Properties/C01.v theories/Model/Cycle.vos theories/Model/CellExact.vos theories/Proofs/CellProofs.vos theories/Proofs/HullProofs.vos theories/Proofs/OneD.vos theories/Proofs/Feasible.vos theories/Proofs/FeasibleDim.vos
theories/Properties/C02.vo theories/Properties/C02.glob theories/Properties/C02.v.beautified theories/Properties/C02.required_vo: theories/Properties/C02.v theories/Proofs/GeomLemmas.vo theories/Proofs/Surface.vo theories/Proofs/OneD.vo
theories/Properties/C02.vio: theories/Properties/C02.v theories/Proofs/GeomLemmas.vio theories/Proofs/Surface.vio theories/Proofs/OneD.vio
theories/Properties/C02.vos theories/Properties/C02.vok theories/Properties/C02.required_vos: theories/Properties/C02.v theories/Proofs/GeomLemmas.vos theories/Proofs/Surface.vos theories/Proofs/OneD.vos
theories/Properties/C03.vo theories/Properties/C03.glob theories/Properties/C03.v.beautified theories/Properties/C03.required_vo: theories/Properties/C03.v theories/Model/Assemble.vo theories/Proofs/AssembleProofs.vo theories/Proofs/GeomLemmas.vo theories/Model/Cycle.vo theories/Model/CellExact.vo theories/Proofs/CellProofs.vo theories/Proofs/HullProofs.vo theories/Proofs/SharedFace.vo
theories/Properties/C03.vio: theories/Properties/C03.v theories/Model/Assemble.vio theories/Proofs/AssembleProofs.vio theories/Proofs/GeomLemmas.vio theories/Model/Cycle.vio theories/Model/CellExact.vio theories/Proofs/CellProofs.vio theories/Proofs/HullProofs.vio theories/Proofs/SharedFace.vio
theories/Properties/C03.vos theories/Properties/C03.vok theories/Properties/C03.required_vos: theories/Properties/C03.v theories/Model/Assemble.vos theories/Proofs/AssembleProofs.vos theories/Proofs/GeomLemmas.vos theories/Model/Cycle.vos theories/Model/CellExact.vos theories/Proofs/CellProofs.vos theories/Proofs/HullProofs.vos theories/Proofs/SharedFace.vos
theories/Properties/C04.vo theories/Properties/C04.glob theories/Properties/C04.v.beautified theories/Properties/C04.required_vo: theories/Properties/C04.v theories/Model/CellExact.vo theories/Proofs/CellProofs.vo theories/Proofs/GeomLemmas.vo theories/Proofs/Surface.vo
theories/Properties/C04.vio: theories/Properties/C04.v theories/Model/CellExact.vio theories/Proofs/CellProofs.vio theories/Proofs/GeomLemmas.vio theories/Proofs/Surface.vio
theories/Properties/C04.vos theories/Properties/C04.vok theories/Properties/C04.required_vos: theories/Properties/C04.v theories/Model/CellExact.vos theories/Proofs/CellProofs.vos theories/Proofs/GeomLemmas.vos theories/Proofs/Surface.vos
theories/Properties/C05.vo theories/Properties/C05.glob theories/Properties/C05.v.beautified theories/Properties/C05.required_vo: theories/Properties/C05.v theories/Model/Insphere.vo theories/Proofs/InsphereProofs.vo theories/Model/Cycle.vo theories/Model/CellExact.vo theories/Proofs/CellProofs.vo theories/Proofs/GeomLemmas.vo theories/Model/Grid.vo theories/Model/Filter.vo theories/Proofs/FilterErr.vo theories/Proofs/FilterB64.vo
theories/Properties/C05.vio: theories/Properties/C05.v theories/Model/Insphere.vio theories/Proofs/InsphereProofs.vio theories/Model/Cycle.vio theories/Model/CellExact.vio theories/Proofs/CellProofs.vio theories/Proofs/GeomLemmas.vio theories/Model/Grid.vio theories/Model/Filter.vio theories/Proofs/FilterErr.vio theories/Proofs/FilterB64.vio
theories/Properties/C05.vos theories/Properties/C05.vok theories/Properties/C05.required_vos: theories/Properties/C05.v theories/Model/Insphere.vos theories/Proofs/InsphereProofs.vos theories/Model/Cycle.vos theories/Model/CellExact.vos theories/Proofs/CellProofs.vos theories/Proofs/GeomLemmas.vos theories/Model/Grid.vos theories/Model/Filter.vos theories/Proofs/FilterErr.vos theories/Proofs/FilterB64.vos
theories/Properties/C06.vo theories/Properties/C06.glob theories/Properties/C06.v.beautified theories/Properties/C06.required_vo: theories/Properties/C06.v theories/Proofs/GeomLemmas.vo
theories/Properties/C06.vio: theories/Properties/C06.v theories/Proofs/GeomLemmas.vio
theories/Properties/C06.vos theories/Properties/C06.vok theories/Properties/C06.required_vos: theories/Properties/C06.v theories/Proofs/GeomLemmas.vos
theories/Properties/C07.vo theories/Properties/C07.glob theories/Properties/C07.v.beautified theories/Properties/C07.required_vo: theories/Properties/C07.v theories/Model/Assemble.vo theories/Proofs/AssembleProofs.vo
theories/Properties/C07.vio: theories/Properties/C07.v theories/Model/Assemble.vio theories/Proofs/AssembleProofs.vio
theories/Properties/C07.vos theories/Properties/C07.vok theories/Properties/C07.required_vos: theories/Properties/C07.v theories/Model/Assemble.vos theories/Proofs/AssembleProofs.vos
theories/Properties/C08.vo theories/Properties/C08.glob theories/Properties/C08.v.beautified theories/Properties/C08.required_vo: theories/Properties/C08.v theories/Proofs/GeomLemmas.vo
theories/Properties/C08.vio: theories/Properties/C08.v theories/Proofs/GeomLemmas.vio
theories/Properties/C08.vos theories/Properties/C08.vok theories/Properties/C08.required_vos: theories/Properties/C08.v theories/Proofs/GeomLemmas.vos
theories/Properties/C09.vo theories/Properties/C09.glob theories/Properties/C09.v.beautified theories/Properties/C09.required_vo: theories/Properties/C09.v theories/Model/Par.vo theories/Proofs/ParProofs.vo
theories/Properties/C09.vio: theories/Properties/C09.v theories/Model/Par.vio theories/Proofs/ParProofs.vio
theories/Properties/C09.vos theories/Properties/C09.vok theories/Properties/C09.required_vos: theories/Properties/C09.v theories/Model/Par.vos theories/Proofs/ParProofs.vos
theories/Properties/C10.vo theories/Properties/C10.glob theories/Properties/C10.v.beautified theories/Properties/C10.required_vo: theories/Properties/C10.v theories/Model/Insphere.vo theories/Model/Grid.vo theories/Proofs/InsphereProofs.vo theories/Proofs/GridProofs.vo theories/Proofs/GridFlocq.vo theories/Proofs/GridRange.vo theories/Proofs/GridRangeB64.vo theories/Proofs/GridBits.vo theories/Proofs/GridTotal.vo
theories/Properties/C10.vio: theories/Properties/C10.v theories/Model/Insphere.vio theories/Model/Grid.vio theories/Proofs/InsphereProofs.vio theories/Proofs/GridProofs.vio theories/Proofs/GridFlocq.vio theories/Proofs/GridRange.vio theories/Proofs/GridRangeB64.vio theories/Proofs/GridBits.vio theories/Proofs/GridTotal.vio
theories/Properties/C10.vos theories/Properties/C10.vok theories/Properties/C10.required_vos: theories/Properties/C10.v theories/Model/Insphere.vos theories/Model/Grid.vos theories/Proofs/InsphereProofs.vos theories/Proofs/GridProofs.vos theories/Proofs/GridFlocq.vos theories/Proofs/GridRange.vos theories/Proofs/GridRangeB64.vos theories/Proofs/GridBits.vos theories/Proofs/GridTotal.vos
theories/Properties/C11.vo theories/Properties/C11.glob theories/Properties/C11.v.beautified theories/Properties/C11.required_vo: theories/Properties/C11.v theories/Model/Insphere.vo theories/Model/Backend.vo theories/Proofs/BackendProofs.vo
theories/Properties/C11.vio: theories/Properties/C11.v theories/Model/Insphere.vio theories/Model/Backend.vio theories/Proofs/BackendProofs.vio
theories/Properties/C11.vos theories/Properties/C11.vok theories/Properties/C11.required_vos: theories/Properties/C11.v theories/Model/Insphere.vos theories/Model/Backend.vos theories/Proofs/BackendProofs.vos
theories/Properties/C12.vo theories/Properties/C12.glob theories/Properties/C12.v.beautified theories/Properties/C12.required_vo: theories/Properties/C12.v theories/Model/Assemble.vo theories/Proofs/AssembleProofs.vo theories/Model/Cycle.vo theories/Model/CellExact.vo theories/Proofs/PlaneKeys.vo
theories/Properties/C12.vio: theories/Properties/C12.v theories/Model/Assemble.vio theories/Proofs/AssembleProofs.vio theories/Model/Cycle.vio theories/Model/CellExact.vio theories/Proofs/PlaneKeys.vio
theories/Properties/C12.vos theories/Properties/C12.vok theories/Properties/C12.required_vos: theories/Properties/C12.v theories/Model/Assemble.vos theories/Proofs/AssembleProofs.vos theories/Model/Cycle.vos theories/Model/CellExact.vos theories/Proofs/PlaneKeys.vos
theories/Properties/C13.vo theories/Properties/C13.glob theories/Properties/C13.v.beautified theories/Properties/C13.required_vo: theories/Properties/C13.v theories/Model/Assemble.vo theories/Proofs/AssembleProofs.vo
theories/Properties/C13.vio: theories/Properties/C13.v theories/Model/Assemble.vio theories/Proofs/AssembleProofs.vio
theories/Properties/C13.vos theories/Properties/C13.vok theories/Properties/C13.required_vos: theories/Properties/C13.v theories/Model/Assemble.vos theories/Proofs/AssembleProofs.vos
theories/Properties/C14.vo theories/Properties/C14.glob theories/Properties/C14.v.beautified theories/Properties/C14.required_vo: theories/Properties/C14.v theories/Model/Assemble.vo theories/Proofs/AssembleProofs.vo theories/Proofs/GeomLemmas.vo theories/Proofs/Surface.vo
theories/Properties/C14.vio: theories/Properties/C14.v theories/Model/Assemble.vio theories/Proofs/AssembleProofs.vio theories/Proofs/GeomLemmas.vio theories/Proofs/Surface.vio
theories/Properties/C14.vos theories/Properties/C14.vok theories/Properties/C14.required_vos: theories/Properties/C14.v theories/Model/Assemble.vos theories/Proofs/AssembleProofs.vos theories/Proofs/GeomLemmas.vos theories/Proofs/Surface.vos
theories/Properties/C15.vo theories/Properties/C15.glob theories/Properties/C15.v.beautified theories/Properties/C15.required_vo: theories/Properties/C15.v theories/Model/Cycle.vo theories/Model/CellExact.vo theories/Proofs/CellProofs.vo theories/Proofs/CycleProofs.vo theories/Proofs/CycleInv.vo theories/Proofs/CycleClosed.vo theories/Proofs/CellClosed.vo theories/Proofs/FaceWalk.vo theories/Proofs/FaceClose.vo
theories/Properties/C15.vio: theories/Properties/C15.v theories/Model/Cycle.vio theories/Model/CellExact.vio theories/Proofs/CellProofs.vio theories/Proofs/CycleProofs.vio theories/Proofs/CycleInv.vio theories/Proofs/CycleClosed.vio theories/Proofs/CellClosed.vio theories/Proofs/FaceWalk.vio theories/Proofs/FaceClose.vio
theories/Properties/C15.vos theories/Properties/C15.vok theories/Properties/C15.required_vos: theories/Properties/C15.v theories/Model/Cycle.vos theories/Model/CellExact.vos theories/Proofs/CellProofs.vos theories/Proofs/CycleProofs.vos theories/Proofs/CycleInv.vos theories/Proofs/CycleClosed.vos theories/Proofs/CellClosed.vos theories/Proofs/FaceWalk.vos theories/Proofs/FaceClose.vos
theories/Properties/C16.vo theories/Properties/C16.glob theories/Properties/C16.v.beautified theories/Properties/C16.required_vo: theories/Properties/C16.v theories/Proofs/GeomLemmas.vo theories/Model/CellExact.vo theories/Proofs/HullProofs.vo theories/Proofs/HullRadius.vo theories/Model/Cycle.vo theories/Proofs/HullSafety.vo
theories/Properties/C16.vio: theories/Properties/C16.v theories/Proofs/GeomLemmas.vio theories/Model/CellExact.vio theories/Proofs/HullProofs.vio theories/Proofs/HullRadius.vio theories/Model/Cycle.vio theories/Proofs/HullSafety.vio
theories/Properties/C16.vos theories/Properties/C16.vok theories/Properties/C16.required_vos: theories/Properties/C16.v theories/Proofs/GeomLemmas.vos theories/Model/CellExact.vos theories/Proofs/HullProofs.vos theories/Proofs/HullRadius.vos theories/Model/Cycle.vos theories/Proofs/HullSafety.vos
theories/Properties/C17.vo theories/Properties/C17.glob theories/Properties/C17.v.beautified theories/Properties/C17.required_vo: theories/Properties/C17.v theories/Model/BestFirst.vo theories/Proofs/BestFirstProofs.vo
theories/Properties/C17.vio: theories/Properties/C17.v theories/Model/BestFirst.vio theories/Proofs/BestFirstProofs.vio
theories/Properties/C17.vos theories/Properties/C17.vok theories/Properties/C17.required_vos: theories/Properties/C17.v theories/Model/BestFirst.vos theories/Proofs/BestFirstProofs.vos
theories/Properties/C18.vo theories/Properties/C18.glob theories/Properties/C18.v.beautified theories/Properties/C18.required_vo: theories/Properties/C18.v theories/Model/Cycle.vo theories/Proofs/CycleProofs.vo theories/Proofs/CycleInv.vo theories/Proofs/CycleClosed.vo
theories/Properties/C18.vio: theories/Properties/C18.v theories/Model/Cycle.vio theories/Proofs/CycleProofs.vio theories/Proofs/CycleInv.vio theories/Proofs/CycleClosed.vio
theories/Properties/C18.vos theories/Properties/C18.vok theories/Properties/C18.required_vos: theories/Properties/C18.v theories/Model/Cycle.vos theories/Proofs/CycleProofs.vos theories/Proofs/CycleInv.vos theories/Proofs/CycleClosed.vos
theories/Properties/C19.vo theories/Properties/C19.glob theories/Properties/C19.v.beautified theories/Properties/C19.required_vo: theories/Properties/C19.v theories/Model/CellExact.vo theories/Proofs/CellProofs.vo theories/Proofs/HelperProofs.vo
theories/Properties/C19.vio: theories/Properties/C19.v theories/Model/CellExact.vio theories/Proofs/CellProofs.vio theories/Proofs/HelperProofs.vio
theories/Properties/C19.vos theories/Properties/C19.vok theories/Properties/C19.required_vos: theories/Properties/C19.v theories/Model/CellExact.vos theories/Proofs/CellProofs.vos theories/Proofs/HelperProofs.vos
theories/Properties/C20.vo theories/Properties/C20.glob theories/Properties/C20.v.beautified theories/Properties/C20.required_vo: theories/Properties/C20.v theories/Proofs/GeomLemmas.vo theories/Model/Knn.vo theories/Proofs/KnnProofs.vo
theories/Properties/C20.vio: theories/Properties/C20.v theories/Proofs/GeomLemmas.vio theories/Model/Knn.vio theories/Proofs/KnnProofs.vio
theories/Properties/C20.vos theories/Properties/C20.vok theories/Properties/C20.required_vos: theories/Properties/C20.v theories/Proofs/GeomLemmas.vos theories/Model/Knn.vos theories/Proofs/KnnProofs.vos
theories/Extract/Extract.vo theories/Extract/Extract.glob theories/Extract/Extract.v.beautified theories/Extract/Extract.required_vo: theories/Extract/Extract.v theories/Model/Insphere.vo theories/Model/Cycle.vo theories/Model/CellExact.vo theories/Model/Assemble.vo theories/Model/BestFirst.vo theories/Model/Knn.vo theories/Proofs/FaceClose.vo
theories/Extract/Extract.vio: theories/Extract/Extract.v theories/Model/Insphere.vio theories/Model/Cycle.vio theories/Model/CellExact.vio theories/Model/Assemble.vio theories/Model/BestFirst.vio theories/Model/Knn.vio theories/Proofs/FaceClose.vio
theories/Extract/Extract.vos theories/Extract/Extract.vok theories/Extract/Extract.required_vos: theories/Extract/Extract.v theories/Model/Insphere.vos theories/Model/Cycle.vos theories/Model/CellExact.vos theories/Model/Assemble.vos theories/Model/BestFirst.vos theories/Model/Knn.vos theories/Proofs/FaceClose.vos
