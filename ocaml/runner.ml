(* Line protocol driver around the extracted Coq model.
   input : case file (same as the Rust harness reads)
   output: "<lineno> <tokens...>" per case this runner knows *)
open Big_int_Z

let z = big_int_of_string
let zs = string_of_big_int

let split s = List.filter (fun t -> t <> "") (String.split_on_char ' ' s)

let p3 = function
  | a :: b :: c :: rest -> ((z a, z b), z c), rest
  | _ -> failwith "p3"

let run_line lineno line =
  match split line with
  | "insphere" :: rest ->
    let a, rest = p3 rest in
    let b, rest = p3 rest in
    let c, rest = p3 rest in
    let d, rest = p3 rest in
    let v, _ = p3 rest in
    let r = Model.insphere_model a b c d v in
    let g = List.for_all Model.in_gridb [a; b; c; d; v] in
    Printf.printf "%d %s %d\n" lineno (zs r) (if g then 1 else 0)
  | "insphere_sweep" :: k :: off :: ai :: _ ->
    let k = int_of_string k and off = z off and ai = int_of_string ai in
    let pt i =
      let c j = add_big_int off (big_int_of_int j) in
      ((c (i / (k * k)), c ((i / k) mod k)), c (i mod k)) in
    let n = k * k * k in
    let a = pt ai in
    let buf = Buffer.create (n * n * n * n + 16) in
    for bi = 0 to n - 1 do for ci = 0 to n - 1 do for di = 0 to n - 1 do for vi = 0 to n - 1 do
      let r = sign_big_int (Model.insphere_model a (pt bi) (pt ci) (pt di) (pt vi)) in
      Buffer.add_char buf (if r < 0 then '-' else if r > 0 then '+' else '0')
    done done done done;
    Printf.printf "%d %s\n" lineno (Buffer.contents buf)
  | _ -> ()

let () =
  let ic = open_in Sys.argv.(1) in
  let n = ref 0 in
  (try
     while true do
       let line = input_line ic in
       let line = String.trim line in
       if line <> "" && line.[0] <> '#' then run_line !n line;
       incr n
     done
   with End_of_file -> ());
  close_in ic
