(* Line protocol driver around the extracted Coq model.
   input : case file (same as the Rust harness reads)
   output: "<lineno> <tokens...>" per case this runner knows *)
open Big_int_Z

let z = big_int_of_string
let zs = string_of_big_int

let split s = List.filter (fun t -> t <> "") (String.split_on_char ' ' s)

let p3 = function
  | a :: b :: c :: rest -> ((z a, z b), z c), rest
  | _ -> failwith "p3"

let rec nat_of_int n = if n <= 0 then Model.O else Model.S (nat_of_int (n - 1))
let rec int_of_nat = function Model.O -> 0 | Model.S n -> 1 + int_of_nat n

let v3s ((a, b), c) = Printf.sprintf "[%s,%s,%s]" (zs a) (zs b) (zs c)
let rats (n, d) = Printf.sprintf "[%s,%s]" (zs n) (zs d)
let join f l = String.concat "," (List.map f l)

(* tokens -> (v3, rest) *)
let v3 = p3

let rec take_sites n toks acc =
  if n = 0 then (List.rev acc, toks)
  else match toks with
    | id :: sh :: rest ->
      let pos, rest = v3 rest in
      take_sites (n - 1) rest (((z id, z sh), pos) :: acc)
    | _ -> failwith "sites"

let cell_json (dim : Big_int_Z.big_int) g flags (c : Model.cell) =
  let open Model in
  let planes = join (fun p ->
      Printf.sprintf "[%s,%s,%s,%s]" (v3s p.pn) (zs p.pd)
        (match p.pright with Some r -> zs r | None -> "null") (zs p.pshift)) c.cplanes in
  let verts = join (fun v ->
      let ((a, b), d) = v.vd in
      let (x, w) = v.vloc in
      Printf.sprintf "[%d,%d,%d,%s,%s]" (int_of_nat a) (int_of_nat b) (int_of_nat d) (v3s x) (zs w)) c.cverts in
  let r2 = max_radius2 dim g c.cverts in
  let ts = decompose c g in
  let vol6 = vol6_of g ts in
  let csum = join (fun k -> rats (centroid_sum g ts (nat_of_int k))) [0; 1; 2] in
  let np = List.length c.cplanes in
  let faces = ref [] in
  for pi = np - 1 downto 0 do
    let pin = nat_of_int pi in
    if plane_has_tet ts pin then begin
      let a = face_area2n c.cplanes g ts pin in
      let cs = join (fun k -> rats (face_centroid_sum c.cplanes g ts pin (nat_of_int k))) [0; 1; 2] in
      faces := Printf.sprintf "[%d,%s,[%s]]" pi (rats a) cs :: !faces
    end
  done;
  let extra = Buffer.create 64 in
  if flags land 2 <> 0 then begin
    let idx = [(0,0);(0,1);(0,2);(1,1);(1,2);(2,2)] in
    Buffer.add_string extra (Printf.sprintf ",\"m2\":[%s]"
      (join (fun (i, j) -> rats (moment2 g ts (nat_of_int i) (nat_of_int j))) idx))
  end;
  if flags land 4 <> 0 then begin
    let fs = faces_of c in
    let ok = List.for_all (fun (_, o) -> o <> None) fs in
    let tf = decompose_faces c in
    Buffer.add_string extra (Printf.sprintf ",\"wf_ok\":%b,\"wf_vol6\":%s,\"wf_csum\":[%s],\"wf_faces\":[%s]" ok
      (rats (vol6_of g tf))
      (join (fun k -> rats (centroid_sum g tf (nat_of_int k))) [0; 1; 2])
      (join (fun (p, o) -> Printf.sprintf "[%d,[%s]]" (int_of_nat p)
                (match o with Some l -> join (fun i -> string_of_int (int_of_nat i)) l | None -> "") ) fs));
    if flags land 2 <> 0 then begin
      let idx = [(0,0);(0,1);(0,2);(1,1);(1,2);(2,2)] in
      Buffer.add_string extra (Printf.sprintf ",\"wf_m2\":[%s]"
        (join (fun (i, j) -> rats (moment2 g tf (nat_of_int i) (nat_of_int j))) idx))
    end
  end;
  Printf.sprintf "\"planes\":[%s],\"verts\":[%s],\"r2\":%s,\"vol6\":%s,\"csum\":[%s],\"faces\":[%s]%s"
    planes verts (rats r2) (rats vol6) csum (String.concat "," !faces) (Buffer.contents extra)

let run_line lineno line =
  match split line with
  | "insphere" :: rest ->
    let a, rest = p3 rest in
    let b, rest = p3 rest in
    let c, rest = p3 rest in
    let d, rest = p3 rest in
    let v, _ = p3 rest in
    let r = Model.insphere_model a b c d v in
    let g = List.for_all Model.in_gridb [a; b; c; d; v] in
    Printf.printf "%d %s %d\n" lineno (zs r) (if g then 1 else 0)
  | "cell" :: dim :: flags :: rest ->
    (* cell dim flags lo(3) hi(3) g(3) nsites (id sh x y z)*  -- all integers *)
    let dim = z dim and flags = int_of_string flags in
    let lo, rest = v3 rest in
    let hi, rest = v3 rest in
    let g, rest = v3 rest in
    (match rest with
     | n :: rest ->
       let sites, _ = take_sites (int_of_string n) rest [] in
       let body = match Model.build dim lo hi g sites with
         | None -> "\"ok\":false"
         | Some c ->
           let chk = if flags land 8 <> 0 then
               Printf.sprintf "\"feasible\":%b,\"oriented\":%b,\"regular\":%b," (Model.vertices_feasible g sites c) (Model.duals_oriented c)
                 (Model.build_regularb dim g sites Big_int_Z.zero_big_int (Model.cell_init lo hi))
             else "" in
           "\"ok\":true," ^ chk ^ cell_json dim g flags c in
       let body_all =
         if flags land 1 <> 0 then
           (match Model.build_all lo hi g sites with
            | None -> ",\"all\":null"
            | Some c -> ",\"all\":{" ^ cell_json dim g 0 c ^ "}")
         else "" in
       Printf.printf "%d {%s%s}\n" lineno body body_all
     | _ -> failwith "cell")
  | "assemble" :: n :: hasmask :: rest ->
    (* assemble n hasmask [mask:n] then per cell: constructed np (right|-1 shift|-1 valid hastet)*  *)
    let n = int_of_string n in
    let ios = int_of_string in
    let rec take k l acc = if k = 0 then (List.rev acc, l) else
        (match l with x :: r -> take (k - 1) r (x :: acc) | [] -> failwith "take") in
    let mask, rest =
      if hasmask = "1" then let (m, r) = take n rest [] in (Some (List.map (fun x -> x = "1") m), r)
      else (None, rest) in
    let rec cells i rest acc =
      if i = n then List.rev acc else
        (match rest with
         | c :: np :: rest ->
           let np = ios np in
           let (toks, rest) = take (4 * np) rest [] in
           let rec planes l = match l with
             | r :: sh :: v :: h :: tl ->
               { Model.sright = (if ios r < 0 then None else Some (nat_of_int (ios r)));
                 Model.sshift = (if ios sh < 0 then None else Some (nat_of_int (ios sh)));
                 Model.svalid = (v = "1"); Model.shastet = (h = "1") } :: planes tl
             | _ -> [] in
           let cell = if c = "1" then Some { Model.sidx = nat_of_int i; Model.splanes = planes toks } else None in
           cells (i + 1) rest (cell :: acc)
         | _ -> failwith "cells") in
    let cs = cells 0 rest [] in
    let t = Model.assemble mask cs in
    let ni x = string_of_int (int_of_nat x) in
    let on = function None -> "null" | Some x -> ni x in
    let face f = Printf.sprintf "[%s,%s,%s,%s]" (ni f.Model.fleft) (on f.Model.fright) (on f.Model.fshift) (ni f.Model.fplane) in
    let k = t.Model.tconn in
    let active = Model.cell_is_active (nat_of_int n) mask in
    let nb = List.init n (fun c -> "[" ^ join ni (Model.tess_neighbour_ids t (nat_of_int c)) ^ "]") in
    let fidx = List.init n (fun c -> "[" ^ join ni (Model.face_indices k (nat_of_int c)) ^ "]") in
    Printf.printf "%d {\"faces\":[%s],\"offsets\":[%s],\"counts\":[%s],\"conn\":[%s],\"stored\":[%s],\"nbrs\":[%s],\"fidx\":[%s],\"fi\":[%s],\"fis\":[%s],\"ci\":[%s]}\n" lineno
      (join face t.Model.tfaces) (join ni k.Model.offsets) (join ni k.Model.counts) (join ni k.Model.connections)
      (join ni t.Model.tstored) (String.concat "," nb) (String.concat "," fidx)
      (join face (Model.face_integrals cs)) (join face (Model.face_integrals_sym active cs)) (join ni (Model.cell_integrals cs))
  | "faces" :: np :: nv :: rest ->
    (* faces nplanes nv (d0 d1 d2)* : with_faces / sort_face_vertices of the model on the given duals *)
    let ios = int_of_string in
    let np = ios np and nv = ios nv in
    let rec verts k l acc = if k = 0 then List.rev acc else
        (match l with a :: b :: c :: tl ->
           verts (k - 1) tl ({ Model.vd = ((nat_of_int (ios a), nat_of_int (ios b)), nat_of_int (ios c)); Model.vloc = Model.hdefault } :: acc)
                    | _ -> failwith "verts") in
    let vs = verts nv rest [] in
    let planes = List.init np (fun _ -> Model.plane_default) in
    let c = { Model.cplanes = planes; Model.cverts = vs; Model.ccycle = Model.cyc_new (nat_of_int np) } in
    let fs = Model.faces_of c in
    (* hypothesis of C15_face_walk_closes_up on these duals *)
    let surf = Model.surfaceb (List.map (fun v -> v.Model.vd) vs) in
    Printf.printf "%d {\"surface\":%b,\"faces\":[%s]}\n" lineno surf
      (join (fun (p, o) -> Printf.sprintf "[%d,%s]" (int_of_nat p)
                (match o with Some l -> "[" ^ join (fun i -> string_of_int (int_of_nat i)) l ^ "]" | None -> "null")) fs)
  | "clipcomb" :: np :: pidx :: nv :: rest ->
    (* clipcomb nplanes p_idx nv (d0 d1 d2 removed)*  -> combinatorial clip on the given array *)
    let ios = int_of_string in
    let np = ios np and pidx = ios pidx and nv = ios nv in
    let rec verts k l acc = if k = 0 then List.rev acc else
        (match l with a :: b :: c :: r :: tl -> verts (k - 1) tl ((((nat_of_int (ios a), nat_of_int (ios b)), nat_of_int (ios c)), r = "1") :: acc)
                    | _ -> failwith "verts") in
    let vs = verts nv rest [] in
    let dflt = (((Model.O, Model.O), Model.O), false) in
    let res = Model.clip_comb fst dflt (Model.cyc_new (nat_of_int np)) snd vs (nat_of_int pidx) in
    (match res with
     | None -> Printf.printf "%d null\n" lineno
     | Some ((cyc, kept), nd) ->
       let tri ((a, b), c) = Printf.sprintf "[%d,%d,%d]" (int_of_nat a) (int_of_nat b) (int_of_nat c) in
       Printf.printf "%d {\"kept\":[%s],\"new\":[%s],\"len\":%d}\n" lineno
         (join (fun (d, _) -> tri d) kept) (join tri nd) (int_of_nat cyc.Model.clen))
  | "nn" :: rest ->
    (* nn q(3) nshifts (sx sy sz code)* <tree in prefix form: L id x y z | N lox loy loz hix hiy hiz nchildren ...> *)
    let q, rest = v3 rest in
    (match rest with
     | ns :: rest ->
       let ns = int_of_string ns in
       let rec shifts k l acc = if k = 0 then (List.rev acc, l) else
           (let s, l = v3 l in match l with c :: l -> shifts (k - 1) l ((s, z c) :: acc) | [] -> failwith "shifts") in
       let sh, rest = shifts ns rest [] in
       let rec tree l = match l with
         | "L" :: id :: l -> let p, l = v3 l in (Model.RLeaf (z id, p), l)
         | "N" :: l ->
           let lo, l = v3 l in let hi, l = v3 l in
           (match l with
            | nc :: l ->
              let rec kids k l acc = if k = 0 then (List.rev acc, l) else (let (t, l) = tree l in kids (k - 1) l (t :: acc)) in
              let cs, l = kids (int_of_string nc) l [] in
              (Model.RNode (lo, hi, cs), l)
            | [] -> failwith "node")
         | _ -> failwith "tree" in
       let rec forest l acc = match l with [] -> List.rev acc | _ -> let (t, l) = tree l in forest l (t :: acc) in
       let cs = forest rest [] in
       let out = Model.visits q sh cs in
       Printf.printf "%d [%s]\n" lineno (join (fun (k, (id, code)) -> Printf.sprintf "[%s,%s,%s]" (zs k) (zs id) (zs code)) out)
     | [] -> failwith "nn")
  | "knn" :: k :: nr :: rest ->
    (* knn k nrings (rb ngroups (lb nmembers (key id)* )* )* : Model.knn_search on the rings of one query *)
    let rec members m l acc = if m = 0 then (List.rev acc, l) else
        (match l with ky :: id :: l -> members (m - 1) l ((z ky, nat_of_int (int_of_string id)) :: acc) | _ -> failwith "knn members") in
    let rec groups g l acc = if g = 0 then (List.rev acc, l) else
        (match l with lb :: nm :: l ->
           let ms, l = members (int_of_string nm) l [] in
           groups (g - 1) l ({ Model.glb = z lb; Model.gmembers = ms } :: acc)
         | _ -> failwith "knn group") in
    let rec rings r l acc = if r = 0 then List.rev acc else
        (match l with rb :: ng :: l ->
           let gs, l = groups (int_of_string ng) l [] in
           rings (r - 1) l ((z rb, gs) :: acc)
         | _ -> failwith "knn ring") in
    let rs = rings (int_of_string nr) rest [] in
    let out = Model.knn_search (nat_of_int (int_of_string k)) rs in
    Printf.printf "%d [%s]\n" lineno (join (fun (ky, id) -> Printf.sprintf "[\"%s\",%d]" (zs ky) (int_of_nat id)) out)
  | "insphere_sweep" :: k :: off :: ai :: _ ->
    let k = int_of_string k and off = z off and ai = int_of_string ai in
    let pt i =
      let c j = add_big_int off (big_int_of_int j) in
      ((c (i / (k * k)), c ((i / k) mod k)), c (i mod k)) in
    let n = k * k * k in
    let a = pt ai in
    let buf = Buffer.create (n * n * n * n + 16) in
    for bi = 0 to n - 1 do for ci = 0 to n - 1 do for di = 0 to n - 1 do for vi = 0 to n - 1 do
      let r = sign_big_int (Model.insphere_model a (pt bi) (pt ci) (pt di) (pt vi)) in
      Buffer.add_char buf (if r < 0 then '-' else if r > 0 then '+' else '0')
    done done done done;
    Printf.printf "%d %s\n" lineno (Buffer.contents buf)
  | _ -> ()

let () =
  let ic = open_in Sys.argv.(1) in
  let n = ref 0 in
  (try
     while true do
       let line = input_line ic in
       let line = String.trim line in
       if line <> "" && line.[0] <> '#' then run_line !n line;
       incr n
     done
   with End_of_file -> ());
  close_in ic
