"""One shared geometric run per (repo tree, seed, tier): inputs -> implementation (debug build,
trace on) and exact model for every constructed cell.  Cached on disk, keyed by the contents of
/repo's working tree, so that an edited tree is always re-run."""
import hashlib
import json
import os
import pickle
import time

import common as C
import tess as T


def corpus_inputs():
    """regression corpus, run first: witnesses of the recorded known findings and of the fixed defects"""
    d = os.path.join(C.VERIF, "corpus")
    out = []
    for fn in sorted(os.listdir(d)) if os.path.isdir(d) else []:
        if fn.endswith(".json"):
            try:
                inp = json.load(open(os.path.join(d, fn)))["replay"]["input"]
            except Exception:
                continue
            inp = dict(inp)
            inp.setdefault("mask", None)
            inp["family"] = "corpus:" + fn[:-5]
            out.append(inp)
    return out


def suite(tier, seed):
    return corpus_inputs() + random_suite(tier, seed)


def random_suite(tier, seed):
    rng = C.Rng(seed * 7919 + 13)
    if tier == "quick":
        inputs = T.gen_suite(rng, 48, nmax=24)
    else:
        inputs = T.gen_suite(rng, 480, nmax=60)
    # boxes far from the origin (own random stream, so that the inputs above do not depend on it)
    rng2 = C.Rng(seed * 6007 + 101)
    far = T.gen_suite(rng2, 6 if tier == "quick" else 60, families=["faroffset"], nmax=20 if tier == "quick" else 50, dims=(3, 2, 3, 1))
    for inp in far:
        inp["id"] = len(inputs)
        inputs.append(inp)
    # periodic boxes with equal widths whose neighbouring images differ by shifts with two non-zero components of opposite sign
    rng3 = C.Rng(seed * 4561 + 7)
    for inp in T.gen_suite(rng3, 4 if tier == "quick" else 40, families=["diagshift"], nmax=4, dims=(3, 3, 2), periodics=(True,)):
        inp["id"] = len(inputs)
        inputs.append(inp)
    # one-sided clumps in sparse boxes (own stream)
    rng4 = C.Rng(seed * 3881 + 19)
    for inp in T.gen_suite(rng4, 6 if tier == "quick" else 60, families=["clump"], nmax=4, dims=(3, 2, 3, 1), periodics=(True, False)):
        inp["id"] = len(inputs)
        inputs.append(inp)
    # a few partial constructions
    extra = []
    for inp in inputs[::4]:
        m = T.with_mask(rng, inp, "random")
        m["id"] = len(inputs) + len(extra)
        extra.append(m)
    return inputs + extra


def verif_hash():
    h = hashlib.sha256()
    for d in ("tools", "ocaml", "harness/src", "coq/theories/Model"):
        for root, _, files in os.walk(os.path.join(C.VERIF, d)):
            for f in sorted(files):
                if f.endswith((".py", ".ml", ".rs", ".v")):
                    h.update(open(os.path.join(root, f), "rb").read())
    return h.hexdigest()[:12]


def geo_data(tier, seed, inputs=None, name="geo", opts=1 | 2 | 8, flags=8, profile="debug", use_cache=True, extra_env=None):
    cdir = os.path.join(C.CACHE, "run", name)
    os.makedirs(cdir, exist_ok=True)
    wd = C.rundir(name)
    key = f"{C.repo_hash()}_{verif_hash()}_{seed}_{tier}_{opts}_{flags}_{profile}"
    cache = os.path.join(cdir, f"{name}_{key}.pkl")
    if use_cache and inputs is None and os.path.exists(cache):
        try:
            return _register_missing(pickle.load(open(cache, "rb")))
        except Exception:
            pass
    custom = inputs is not None
    inputs = inputs if custom else suite(tier, seed)
    exe = C.build_harness(profile)
    cf = os.path.join(wd, f"{name}.cases")
    with open(cf, "w") as f:
        for inp in inputs:
            o = opts | (4 if (inp["dim"] == 3 and (opts & 2)) else 0)
            if (opts & 8) and "K2-cluster" in T.known_class(inp):
                o |= 16       # full decision list: the class K2 is decided from the construction history (see k2_history)
            f.write(T.case_line(inp, o) + "\n")
    t0 = time.time()
    rc, impl, out = C.run_impl(exe, cf, os.path.join(wd, f"{name}.out"), env=extra_env)
    t_impl = time.time() - t0
    jobs = []
    metas = {}
    for k, inp in enumerate(inputs):
        n = len(inp["gens"])
        cells = [i for i in range(n) if inp.get("mask") is None or inp["mask"][i]]
        fl = flags | (1 if (n <= 12 and (flags & 16)) else 0)
        lines, meta = T.model_lines(inp, cells, flags=fl)
        metas[k] = meta
        for gi, line in zip(cells, lines):
            jobs.append(((k, gi), line))
    t0 = time.time()
    model_raw = T.run_model_cells(jobs, wd, name)
    t_model = time.time() - t0
    recs = []
    for k, inp in enumerate(inputs):
        o = impl.get(k)
        if o is not None and o.get("decisions") is not None and "K2-cluster" in T.known_class(inp):
            import decisions
            st, badd = decisions.check(inp, o["decisions"], max_exact=20000)
            o["k2_checked"] = True
            o["k2_history"] = len(badd) > 0 or st["skipped_budget"] > 0
            if not (opts & 16):
                del o["decisions"]
        rec = {"inp": inp, "impl_raw": o, "model": {}, "model_raw": {}, "e": metas[k]["e"], "ms": metas[k]["ms"]}
        for (kk, gi), m in model_raw.items():
            if kk == k:
                rec["model_raw"][gi] = m
                rec["model"][gi] = T.decode_model_cell(m, metas[k]["e"]) if m.get("ok") else None
                if m.get("all"):
                    rec.setdefault("model_all", {})[gi] = T.decode_model_cell(m["all"], metas[k]["e"])
        rec["model_missing"] = [gi for (kk, gi), _ in jobs if kk == k and gi not in rec["model_raw"]]
        recs.append(rec)
    data = {"recs": recs, "t_impl": t_impl, "t_model": t_model, "n_jobs": len(jobs)}
    if not custom and use_cache:
        for fn in os.listdir(cdir):
            if fn.startswith(name + "_") and fn.endswith(".pkl") and tier in fn:
                try:
                    os.remove(os.path.join(cdir, fn))
                except OSError:
                    pass
        tmp = cache + ".%d.tmp" % os.getpid()
        pickle.dump(data, open(tmp, "wb"))
        os.replace(tmp, cache)
    return _register_missing(data)


def _register_missing(data):
    """a requested model cell without a (parsable) result is never skipped silently"""
    miss = [(rec["inp"].get("family"), rec.get("model_missing")) for rec in data["recs"] if rec.get("model_missing")]
    if miss:
        C.PENDING.append(("corr:model-output-missing", f"the exact model produced no result for {sum(len(m) for _, m in miss)} requested cells "
                          f"(families {sorted({str(f) for f, _ in miss})[:5]}): driver / parsing problem, these cells were not compared", {"cells": str(miss)[:500]}))
    return data


# ----------------------------------------------------------------------------- views

def dim_valid(dim, n):
    if dim == 1:
        return n[1] == 0 and n[2] == 0
    if dim == 2:
        return n[2] == 0
    return True


def shift_tuple(shift, w):
    if shift is None:
        return (0, 0, 0)
    return tuple(int(round(shift[k] / w[k])) for k in range(3))


def impl_cell_view(rec, gi):
    """What the implementation reports for cell gi: from the integrator cell (planes, vertices),
    the non-symmetric face integrals (mapped back to plane indices) and the Voronoi cell."""
    o = rec["impl_raw"]
    inp = rec["inp"]
    dim = inp["dim"]
    w = rec["ms"]["w"]
    ic = o["icells"][gi]
    if ic is None:
        return None
    planes = []
    for k, p in enumerate(ic["planes"]):
        n = T.dv(p["n"])
        sh = T.dv(p["shift"]) if p["shift"] is not None else None
        key = ("wall", k) if p["right"] is None else ("ngb", p["right"], shift_tuple(sh, w))
        planes.append({"n": n, "p": T.dv(p["p"]), "right": p["right"], "shift": sh, "key": key, "has_shift": p["shift"] is not None})
    verts = [{"loc": T.dv(v["loc"]), "dual": tuple(v["dual"])} for v in ic["verts"]]
    used = sorted({d for v in verts for d in v["dual"]})
    face_planes = [p for p in used if dim_valid(dim, planes[p]["n"])]
    mine = [f for f in o["face_integrals"] if f["left"] == gi]
    faces = {}
    ok_map = len(mine) == len(face_planes)
    if ok_map:
        for p, f in zip(face_planes, mine):
            faces[planes[p]["key"]] = {"plane": p, "area": C.b2f(f["area"]), "centroid": T.dv(f["centroid"]),
                                       "right": f["right"], "shift": f["shift"]}
    vor = o.get("vor")
    vc = None
    if isinstance(vor, dict):
        c = vor["cells"][gi]
        vc = {"volume": C.b2f(c["volume"]), "centroid": T.dv(c["centroid"]), "safety_radius": C.b2f(c["safety_radius"]), "loc": T.dv(c["loc"])}
    return {"planes": planes, "verts": verts, "faces": faces, "faces_mapped": ok_map, "n_face_integrals": len(mine),
            "face_planes": face_planes, "vor": vc, "loc": T.dv(ic["loc"])}


def model_cell_view(rec, gi):
    m = rec["model"].get(gi)
    if m is None:
        return None
    dim = rec["inp"]["dim"]
    faces = {}
    for pi, f in m["faces"].items():
        pl = m["planes"][pi]
        if not dim_valid(dim, pl["n"]):
            continue
        key = ("wall", pi) if pl["right"] is None else ("ngb", pl["right"], pl["shift"])
        faces[key] = f
    return {"m": m, "faces": faces}


def panic_class(rec):
    """class of a panic for the signature: message head + the recorded known-finding class it falls in
    (K1 generator on a reflective wall, K2 cluster, K4 degenerate configuration = the exact predicate
    was consulted during this construction); empty class = not a recorded finding"""
    o = rec["impl_raw"] or {}
    return panic_signature(o, rec["inp"])


def panic_signature(o, inp):
    msg = ((o or {}).get("panic") or "vor-panic")
    if msg.startswith("No suitable vertex found"):
        head = "no-suitable-vertex"
    elif msg.startswith("Degenerate 3-plane"):
        head = "degenerate-3-plane"
    else:
        return msg[:40].replace(" ", "_")
    cls = T.known_class(inp)
    if "K1-wall" in cls:
        return head + ":K1-wall"
    if "K2-cluster" in cls and k2_applies(o):
        return head + ":K2-cluster"
    tr = (o or {}).get("trace") or {}
    if tr.get("exact", 0) > 0:
        return head + ":K4-degenerate"
    return head


def mismatch_class(rec):
    """suffix for geometric mismatch signatures on inputs of a recorded class where wrong geometry (not only
    panics) is part of the finding: clusters (K2) and ill-scaled 1D/2D boxes (K3)"""
    cls = T.known_class(rec["inp"])
    if "K2-cluster" in cls and k2_applies(rec.get("impl_raw")):
        return ":K2-cluster"
    if "K3-illscaled" in cls:
        return ":K3-illscaled"
    if k5_history(rec.get("impl_raw")):
        return ":K5-dependent-planes"
    return ""


def k2_applies(o):
    """recorded finding K2 (clusters), decided from the construction history when it is available: some decision was taken by the
    floating-point filter alone and contradicts the exact sign on the ideal geometry (tools/decisions.py).  A cluster input whose
    construction shows no such decision is held to the normal standard.  Without a decision list (hook-driven runs) the input class decides"""
    if o is None or not o.get("k2_checked"):
        return True
    return bool(o.get("k2_history"))


def k5_history(o):
    """recorded finding K5, decided from the construction history (trace hook): a vertex whose three planes have linearly
    dependent normals (|triple product of the unit normals| < 1e-9) took part in a clip decision.  Its location is
    meaningless, and so is everything derived from it afterwards"""
    md = ((o or {}).get("trace") or {}).get("min_det")
    return md is not None and md < 1e-9


def walls_of_generator(rec, gi):
    """indices (0..5) of the reflective walls the generator lies exactly on"""
    inp = rec["inp"]
    if inp["periodic"]:
        return set()
    ms = rec["ms"]
    g = ms["gens"][gi]
    out = set()
    for k in range(inp["dim"]):
        if g[k] == ms["lo"][k]:
            out.add(2 * k)
        if g[k] == ms["hi"][k]:
            out.add(2 * k + 1)
    return out
