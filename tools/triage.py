#!/usr/bin/env python3
"""print implementation vs exact model for one cell of a replay input (triage helper)"""
import sys, json, math
sys.path.insert(0, '/verif/tools')
import common as C, geo, tess as T
rp = json.load(open(sys.argv[1]))['replay']
gi = int(sys.argv[2]) if len(sys.argv) > 2 else rp.get('cell', 0)
d = geo.geo_data('quick', 1, inputs=[rp['input']], name='geo_replay')
rec = d['recs'][0]
o = rec['impl_raw']
print('trace', {k: v for k, v in (o.get('trace') or {}).items() if k != 'exact_list'}, 'class', T.known_class(rec['inp']))
if 'panic' in o:
    print('PANIC', o['panic']); sys.exit()
iv = geo.impl_cell_view(rec, gi); mv = geo.model_cell_view(rec, gi)
g = rec['ms']['gens'][gi]
print('g', g, 'vol impl', iv['vor']['volume'], 'exact', float(mv['m']['volume']), 'centroid', iv['vor']['centroid'], [float(x) for x in mv['m']['centroid']])
dm = di = 0
for key in sorted(set(mv['faces']) | set(iv['faces']), key=str):
    f = mv['faces'].get(key); fi = iv['faces'].get(key)
    print(key, 'area', f and f['area'], fi and fi['area'], 'cen', f and f['centroid'], fi and fi['centroid'])
print('verts impl', len(iv['verts']), 'model', len(mv['m']['verts']))
