"""Decision-level correspondence (C05): every clip decision the construction took (trace hook) is re-derived in exact
rational arithmetic on the ideal geometry - vertex = intersection of its three planes (walls / bisectors of the generator
with the neighbour image the code used), sign of the new bisector there (Model/CellExact.v: bisector, intersect, side;
theorem C01 bisector_side: sign >= 0 iff at least as close to the generator).  A decision taken by the floating-point
filter alone (filter value +-1) must agree with that sign: 'ties are resolved by exact arithmetic' means the filter may
only be conclusive when the true sign is what it says."""
from fractions import Fraction

import tess as T


def fr(x):
    return Fraction(*float(x).as_integer_ratio())


def cross(a, b):
    return (a[1] * b[2] - a[2] * b[1], a[2] * b[0] - a[0] * b[2], a[0] * b[1] - a[1] * b[0])


def dot(a, b):
    return a[0] * b[0] + a[1] * b[1] + a[2] * b[2]


def sgn(x):
    return (x > 0) - (x < 0)


def walls(ms):
    lo, hi = [fr(x) for x in ms["lo"]], [fr(x) for x in ms["hi"]]
    one, zero = Fraction(1), Fraction(0)
    return [((one, zero, zero), lo[0]), ((-one, zero, zero), -hi[0]), ((zero, one, zero), lo[1]), ((zero, -one, zero), -hi[1]),
            ((zero, zero, one), lo[2]), ((zero, zero, -one), -hi[2])]


def fwalls(ms):
    lo, hi = ms["lo"], ms["hi"]
    return [((1.0, 0.0, 0.0), lo[0]), ((-1.0, 0.0, 0.0), -hi[0]), ((0.0, 1.0, 0.0), lo[1]), ((0.0, -1.0, 0.0), -hi[1]),
            ((0.0, 0.0, 1.0), lo[2]), ((0.0, 0.0, -1.0), -hi[2])]


def check(inp, decisions, max_exact=4000):
    """decisions: [cell, d0, d1, d2, right, shift|null, filter, clip] in chronological order per cell.
    Returns (stats, bad) with bad = list of dicts describing filter-conclusive decisions that contradict the exact sign."""
    ms = T.model_setup(inp)
    gens = ms["gens"]
    stats = {"decisions": 0, "filter_conclusive": 0, "checked_exactly": 0, "dependent_planes": 0, "unknown_plane": 0, "skipped_budget": 0}
    bad = []
    by_cell = {}
    for d in decisions:
        by_cell.setdefault(d[0], []).append(d)
    W, FW = walls(ms), fwalls(ms)
    for cell, ds in by_cell.items():
        g = gens[cell]
        G = [fr(x) for x in g]
        planes, fplanes = list(W), list(FW)
        cur_key, cur_removed, cur_plane, cur_fplane = None, False, None, None
        for d in ds:
            _, d0, d1, d2, right, shift, filt, clip = d
            key = (right, tuple(shift) if shift is not None else None)
            if key != cur_key:
                if cur_key is not None and cur_removed:
                    planes.append(cur_plane)
                    fplanes.append(cur_fplane)
                cur_key, cur_removed = key, False
                if right < 0:
                    cur_plane = None
                else:
                    h = gens[right]
                    sh = T.dv(shift) if shift is not None else [0.0, 0.0, 0.0]
                    pos = [h[k] + sh[k] for k in range(3)] if shift is not None else list(h)
                    S = [fr(x) for x in pos]
                    cur_plane = (tuple(2 * (G[k] - S[k]) for k in range(3)), dot(G, G) - dot(S, S))
                    cur_fplane = (tuple(2.0 * (g[k] - pos[k]) for k in range(3)), sum(x * x for x in g) - sum(x * x for x in pos))
            if clip < 0:
                cur_removed = True
            stats["decisions"] += 1
            if filt == 0:
                continue
            stats["filter_conclusive"] += 1
            if cur_plane is None or max(d0, d1, d2) >= len(planes):
                stats["unknown_plane"] += 1
                continue
            # float estimate first
            (n0, e0), (n1, e1), (n2, e2) = fplanes[d0], fplanes[d1], fplanes[d2]
            c12, c20, c01 = cross(n1, n2), cross(n2, n0), cross(n0, n1)
            det = dot(n0, c12)
            qn, qd = cur_fplane
            need_exact = True
            nn = [sum(x * x for x in v) ** 0.5 for v in (n0, n1, n2)]
            if abs(det) > 1e-6 * nn[0] * nn[1] * nn[2] and det == det:
                x = [(e0 * c12[k] + e1 * c20[k] + e2 * c01[k]) / det for k in range(3)]
                est = dot(qn, x) - qd
                mag = sum(abs(qn[k] * x[k]) for k in range(3)) + abs(qd)
                if abs(est) > 1e-6 * mag and sgn(est) == filt:
                    need_exact = False
            if not need_exact:
                continue
            if stats["checked_exactly"] >= max_exact:
                stats["skipped_budget"] += 1
                continue
            (N0, E0), (N1, E1), (N2, E2) = planes[d0], planes[d1], planes[d2]
            C12, C20, C01 = cross(N1, N2), cross(N2, N0), cross(N0, N1)
            DET = dot(N0, C12)
            if DET == 0:
                stats["dependent_planes"] += 1
                continue
            stats["checked_exactly"] += 1
            QN, QD = cur_plane
            X = [E0 * C12[k] + E1 * C20[k] + E2 * C01[k] for k in range(3)]     # DET * vertex
            s = sgn(dot(QN, X) - QD * DET) * sgn(DET)
            if s != filt:
                # conditioning of the vertex: |det| / (|n0||n1||n2|), 1 = orthogonal planes
                cond = abs(det) / (nn[0] * nn[1] * nn[2]) if nn[0] * nn[1] * nn[2] > 0 else 0.0
                bad.append({"cell": cell, "dual": [d0, d1, d2], "right": right, "shift": shift, "filter": filt, "exact_sign": s, "vertex_conditioning": cond})
        # last group needs no push
    return stats, bad
