#!/usr/bin/env python3
"""Check driver.

  vp.py setup                      build everything the checks need (offline)
  vp.py check Cxx [--tier quick|thorough] [--replay file]
"""
import argparse
import importlib
import os
import sys

sys.path.insert(0, os.path.dirname(os.path.abspath(__file__)))
import common  # noqa: E402


def main():
    ap = argparse.ArgumentParser()
    sub = ap.add_subparsers(dest="cmd")
    sub.add_parser("setup")
    c = sub.add_parser("check")
    c.add_argument("pid")
    c.add_argument("--tier", default=os.environ.get("VERIF_TIER", "quick"))
    c.add_argument("--replay", default=None)
    args = ap.parse_args()
    if args.cmd == "setup":
        ok, out, dt = common.build_coq()
        if not ok:
            print(out[-3000:])
            sys.exit(1)
        common.build_runner()
        common.build_harness("debug")
        common.build_harness("release")
        # variants used by C09 (no rayon feature), C11 (other backends), C14 (downstream crates)
        try:
            common.build_harness("release", rayon=False)
            for b in ("dashu", "malachite", "num_bigint"):
                common.build_harness("release", backend=b)
            import props.c14 as c14
            c14.build_downstream("downstream")
        except Exception as e:     # a failure here is reported by the check that needs the variant
            print("setup: optional build failed:", e)
        print("setup ok")
        return
    if args.cmd == "check":
        seed = int(os.environ.get("VERIF_SEED", "1") or "1")
        tier = args.tier if args.tier in ("quick", "thorough") else "quick"
        os.environ["VERIF_TIER"] = tier
        mod = importlib.import_module("props." + args.pid.lower())
        res = common.Result(args.pid, tier, seed)
        try:
            res.gate = common.properties_gate(args.pid)
            if tier == "thorough" and not args.replay:
                ok, det = common.coqchk_gate(args.pid)
                res.notes["coqchk"] = det
                if not ok:
                    res.violation("proof:coqchk", "independent re-check with coqchk failed: " + "; ".join(det["problems"]), det, no_input=True)
            mod.run(res, replay=args.replay)
        except common.BuildError as e:
            res.violation("build:" + str(e)[:60], "cannot build: %s\n%s" % (e, e.out[-1500:]), {"build": str(e)}, no_input=True)
        except Exception as e:      # malformed implementation output the check did not anticipate: report, do not crash
            import traceback
            tb = traceback.format_exc()
            res.violation("check-error:" + type(e).__name__, "the check could not interpret the implementation's output (or has a defect): " + tb[-1200:],
                          {"traceback": tb[-3000:]}, no_input=True)
        sys.exit(common.finish(res))
    ap.print_help()
    sys.exit(2)


if __name__ == "__main__":
    main()
