#!/usr/bin/env python3
"""Regenerate the 'Theorems per property' table rows of DESIGN.md from coq/theories/Properties/Cxx.v."""
import os
import re
import sys

sys.path.insert(0, os.path.dirname(__file__))
import common as C

rows = []
for i in range(1, 21):
    pid = "C%02d" % i
    src = C.strip_comments(open(os.path.join(C.COQ, "theories", "Properties", pid + ".v")).read())
    names = re.findall(r"^\s*(?:Theorem|Example)\s+(\w+)", src, re.M)
    rows.append("| %s | %s |" % (pid, ", ".join("`%s`" % n for n in names)))
p = os.path.join(C.VERIF, "DESIGN.md")
s = open(p).read()
m = re.search(r"(\| property \| pinned theorems[^\n]*\n\|---\|---\|\n)((?:\| C\d\d \|[^\n]*\n)+)", s)
s = s[:m.start(2)] + "\n".join(rows) + "\n" + s[m.end(2):]
open(p, "w").write(s)
print("rows:", len(rows))
