"""Tessellation runs shared by the geometric and structural properties: input families,
case files for the harness, exact model inputs (integer scaling, periodic images), decoding."""
import json
import math
import os
from fractions import Fraction

import common as C

F = Fraction


# ----------------------------------------------------------------------------- inputs

def norm_box(dim, anchor, width):
    a, w = list(anchor), list(width)
    if dim == 1:
        a[1], w[1] = -0.5, 1.0
    if dim <= 2:
        a[2], w[2] = -0.5, 1.0
    return a, w


def proj(dim, g):
    g = list(g)
    if dim == 1:
        g[1] = 0.0
    if dim <= 2:
        g[2] = 0.0
    return g


def dedupe(inp):
    """make the generator set valid: pairwise distinct after projection (and modulo the period)"""
    dim, per = inp["dim"], inp["periodic"]
    a, w = inp["anchor"], inp["width"]
    seen = set()
    out = []
    for g in inp["gens"]:
        p = proj(dim, g)
        key = []
        for k in range(dim):
            x = p[k]
            if per and x == a[k] + w[k]:
                x = a[k]          # same point modulo the period
            key.append(x)
        key = tuple(key)
        if key in seen:
            continue
        seen.add(key)
        out.append(tuple(g))
    inp["gens"] = out
    return inp


def clampbox(x, a, w):
    return min(max(x, a), a + w)


def gen_input(rng, family, dim, periodic, nmax=40):
    mag = rng.choice([1.0, 1.0, 1.0, 1e-3, 1e3, 2.5, 1e-5, 1e-9, 1e7])   # absolute scale of the box: results must not depend on it
    width = [mag * rng.choice([1.0, 1.0, rng.uniform(0.5, 2.0)]) for _ in range(3)]
    anchor = [rng.choice([0.0, 0.0, -0.5 * width[k], rng.uniform(-3, 3) * width[k]]) for k in range(3)]
    inp = {"family": family, "dim": dim, "periodic": periodic, "anchor": anchor, "width": width, "mask": None}

    def rnd_pt():
        return [inp["anchor"][k] + inp["width"][k] * rng.unit() for k in range(3)]

    n = rng.range(2, max(2, nmax))
    gens = []
    if family == "uniform":
        gens = [rnd_pt() for _ in range(n)]
    elif family == "tiny":
        gens = [rnd_pt() for _ in range(rng.range(1, 3))]
    elif family == "lattice":
        k = rng.range(2, 4 if dim == 3 else 6)
        eps = rng.choice([0.0, 0.0, 1e-12, 1e-9, 1e-6])
        cnt = [k if a < dim else 1 for a in range(3)]
        for i in range(cnt[0]):
            for j in range(cnt[1]):
                for l in range(cnt[2]):
                    idx = (i, j, l)
                    p = [anchor[a] + width[a] * ((idx[a] + 0.5) / cnt[a] + eps * (rng.unit() - 0.5)) for a in range(3)]
                    gens.append(p)
    elif family == "onwalls":
        for _ in range(n):
            p = rnd_pt()
            for a in range(dim):
                c = rng.below(4)
                if c == 0:
                    p[a] = anchor[a]
                elif c == 1:
                    p[a] = anchor[a] + width[a]      # periodic: the same point as the lower wall, given with the other representative
            gens.append(p)
    elif family == "cospherical":
        # scaled integer points on a common sphere / circle around the box centre
        ctr = [anchor[a] + 0.5 * width[a] for a in range(3)]
        r = 0.3 * min(width[:dim])
        base = [(3, 4, 0), (4, 3, 0), (5, 0, 0), (0, 5, 0), (-3, 4, 0), (-4, 3, 0), (-5, 0, 0), (0, -5, 0), (3, -4, 0),
                (4, -3, 0), (-3, -4, 0), (-4, -3, 0), (0, 0, 5), (0, 0, -5), (3, 0, 4), (0, 3, 4), (0, 4, -3), (4, 0, -3)]
        if dim == 2:
            base = [b for b in base if b[2] == 0]
        if dim == 1:
            base = [(5, 0, 0), (-5, 0, 0), (3, 0, 0)]
        rng.shuffle(base)
        for b in base[:rng.range(3, len(base))]:
            gens.append([ctr[a] + r * b[a] / 5.0 for a in range(3)])
        if rng.chance(0.5):
            gens.append(ctr)
        gens += [rnd_pt() for _ in range(rng.range(0, 5))]
    elif family == "coplanar":
        # all on a line (2D/3D) or plane (3D)
        p0, d1, d2 = rnd_pt(), [rng.unit() - 0.5 for _ in range(3)], [rng.unit() - 0.5 for _ in range(3)]
        for _ in range(n):
            s, t = rng.unit() - 0.5, (rng.unit() - 0.5 if (dim == 3 and rng.chance(0.5)) else 0.0)
            gens.append([clampbox(p0[a] + s * d1[a] * width[a] + t * d2[a] * width[a], anchor[a], width[a]) for a in range(3)])
    elif family == "cluster":
        c = rnd_pt()
        diam = rng.choice([1e-3, 1e-6, 1e-9, 1e-12])
        for _ in range(n):
            gens.append([clampbox(c[a] + diam * width[a] * (rng.unit() - 0.5), anchor[a], width[a]) for a in range(3)])
        gens += [rnd_pt() for _ in range(rng.range(0, 6))]
    elif family == "manyfaces":
        # one generator surrounded by many generators at nearly equal distance: a cell with > 64 planes
        m = rng.range(70, 130) if dim == 3 else rng.range(40, 90)
        ctr = [inp["anchor"][k] + 0.5 * inp["width"][k] for k in range(3)]
        rad = 0.3 * min(inp["width"][:dim])
        dirs = []
        for i in range(m):
            if dim == 3:
                z = 1.0 - 2.0 * (i + 0.5) / m
                phi = i * 2.399963229728653
                r = math.sqrt(max(0.0, 1 - z * z))
                dirs.append((r * math.cos(phi), r * math.sin(phi), z))
            elif dim == 2:
                phi = 2 * math.pi * (i + 0.37 * rng.unit()) / m
                dirs.append((math.cos(phi), math.sin(phi), 0.0))
            else:
                dirs.append((1.0 if i % 2 else -1.0, 0.0, 0.0))
        rng.shuffle(dirs)
        gens = [ctr] + [[ctr[c] + rad * (1.0 + 1e-6 * rank + (0.5 * rank / m if dim == 1 else 0.0)) * d[c] for c in range(3)] for rank, d in enumerate(dirs)]
    elif family == "diagshift":
        # periodic boxes with equal widths along (at least) two axes and two generators near opposite corners of that face of the box: their
        # nearest images differ by a shift with two non-zero components of opposite sign, (0, +w, -w) and the like
        ax = rng.choice([(1, 2), (0, 1), (0, 2)] if dim == 3 else [(0, 1)])
        inp["width"][ax[1]] = inp["width"][ax[0]]
        if rng.chance(0.5):
            inp["width"] = [inp["width"][ax[0]]] * 3
        width = inp["width"]
        g0, g1 = rnd_pt(), rnd_pt()
        s0 = rng.choice([0, 1])
        for a, hi in ((ax[0], s0), (ax[1], 1 - s0)):
            g0[a] = anchor[a] + width[a] * ((0.7 + 0.25 * rng.unit()) if hi else (0.05 + 0.25 * rng.unit()))
            g1[a] = anchor[a] + width[a] * ((0.05 + 0.25 * rng.unit()) if hi else (0.7 + 0.25 * rng.unit()))
        gens = [g0, g1] + [rnd_pt() for _ in range(rng.range(0, 2))]
        rng.shuffle(gens)
    elif family == "clump":
        # a generator with a few very close neighbours on one side only and a few distant generators: after the close neighbours are clipped
        # the cell is still open towards the walls (or the padded walls of a periodic box), and the next candidates are much farther away
        g = [anchor[a] + width[a] * (0.3 + 0.4 * rng.unit()) for a in range(3)]
        gens = [g]
        axes = list(range(dim))
        rng.shuffle(axes)
        d = rng.choice([0.01, 0.003, 0.03])
        for a in axes[:rng.choice([dim, dim, rng.range(1, dim)])]:
            q = list(g)
            q[a] += d * width[a] * rng.choice([1.0, -1.0])
            gens.append(q)
        for _ in range(rng.range(0, 3)):
            for _ in range(50):
                x = rnd_pt()
                if max(abs(x[a] - g[a]) / width[a] for a in range(dim)) > 0.25:
                    gens.append(x)
                    break
        rng.shuffle(gens)
    elif family == "offlattice":
        # exact lattices (simple cubic / body centred) in boxes far from the origin, offsets of mixed sign: every decision is a tie whose
        # plane equation has large cancelling terms (n.p small, |n|.|p| large)
        mag = rng.choice([1.0, 1.0, 2.0, 0.5, 1e-3])
        width = [mag, mag, mag] if rng.chance(0.7) else [mag, 2 * mag, 0.5 * mag]
        m0 = rng.choice([10.0, 100.0, 1000.0, 500.0])
        anchor = [width[k] * (m0 if rng.chance(0.6) else rng.choice([10.0, 100.0, 1000.0, 37.0])) * rng.choice([1.0, -1.0]) for k in range(3)]
        inp["anchor"], inp["width"] = anchor, width
        k = rng.choice([2, 4]) if dim == 3 else rng.choice([2, 4, 8])
        bcc = rng.chance(0.6)
        cnt = [k if a < dim else 1 for a in range(3)]
        for i in range(cnt[0]):
            for j in range(cnt[1]):
                for l in range(cnt[2]):
                    idx = (i, j, l)
                    gens.append([anchor[a] + width[a] * ((idx[a] + 0.25) / cnt[a]) for a in range(3)])
                    if bcc:
                        gens.append([anchor[a] + width[a] * ((idx[a] + (0.75 if a < dim else 0.25)) / cnt[a]) for a in range(3)])
    elif family == "nearcoplanar":
        # a generator with two neighbours in almost the same direction (angle theta) at almost the same distance (difference ~ theta):
        # two large, almost coplanar adjacent faces; edges whose two planes are nearly parallel
        c = [anchor[k] + width[k] * (0.35 + 0.3 * rng.unit()) for k in range(3)]
        theta = rng.choice([1e-5, 1e-6, 1e-7, 1e-8, 3e-7])
        d = 0.25 * min(width[:dim])
        phi = 2 * math.pi * rng.unit()
        u = [math.cos(phi), math.sin(phi) if dim >= 2 else 0.0, 0.0]
        if dim == 1:
            u = [1.0, 0.0, 0.0]
        up = [math.cos(phi + theta), math.sin(phi + theta) if dim >= 2 else 0.0, 0.0]
        if dim == 3:
            # tilt out of the xy plane as well
            t2 = 0.3
            u = [u[0] * math.cos(t2), u[1] * math.cos(t2), math.sin(t2)]
            up = [up[0] * math.cos(t2), up[1] * math.cos(t2), math.sin(t2)]
        d2 = d * (1.0 + rng.uniform(-1, 1) * theta)
        gens = [c, [c[k] + d * u[k] for k in range(3)], [c[k] + d2 * up[k] for k in range(3)]]
        gens += [rnd_pt() for _ in range(rng.range(2, 6))]
    elif family == "faroffset":
        # box far from the origin: offset 1e4 .. 3e6 widths, mixed signs (sums over absolute coordinates lose everything here;
        # differences first is what keeps the results "up to rounding" = u * offset / width)
        mag = rng.choice([1.0, 1.0, 0.5, 3.0])
        width = [mag * rng.choice([1.0, 2.0, 0.5]) for _ in range(3)]
        anchor = [width[k] * rng.choice([1e4, 1e5, 3e5, 1e6, 3e6]) * rng.choice([1.0, -1.0]) for k in range(3)]
        inp["anchor"], inp["width"] = anchor, width
        gens = [rnd_pt() for _ in range(n)]
    elif family == "aniso":
        # strongly anisotropic and/or offset boxes.  Conditioning is kept within what "up to rounding" can
        # quantify (DESIGN 3.4): aspect <= 1e3; offset <= 1e3 widths; in 1D/2D |coordinates| <= 1e9 because
        # the unused axes have unit thickness (known finding K3 beyond that)
        asp = rng.choice([1e1, 1e2, 1e3])
        ax = rng.below(3)
        width[ax] *= asp
        off = rng.choice([0.0, 1e1, 1e3])
        anchor = [off * width[k] for k in range(3)]
        if dim < 3:
            m = max(abs(anchor[k]) + width[k] for k in range(dim))
            if m > 1e9:
                sc = 1e9 / m
                anchor = [x * sc for x in anchor]
                width = [x * sc for x in width]
        inp["anchor"], inp["width"] = anchor, width
        gens = [rnd_pt() for _ in range(n)]
    else:
        raise ValueError(family)
    inp["gens"] = [[clampbox(g[a], inp["anchor"][a], inp["width"][a]) for a in range(3)] for g in gens]
    if dim < 3 and rng.chance(0.5):
        # garbage in the unused coordinates (C08)
        for g in inp["gens"]:
            for a in range(dim, 3):
                g[a] = rng.choice([0.0, 1e30, -7.25, rng.uniform(-1e6, 1e6)])
        for a in range(dim, 3):
            inp["anchor"][a] = rng.choice([0.0, -1e5, 3.5])
            inp["width"][a] = rng.choice([1.0, 1e-7, 42.0])
    return dedupe(inp)


FAMILIES = ["uniform", "tiny", "lattice", "onwalls", "cospherical", "coplanar", "cluster", "aniso", "manyfaces"]


def gen_suite(rng, count, families=None, nmax=40, dims=(1, 2, 3), periodics=(False, True)):
    fams = families or FAMILIES
    out = []
    i = 0
    while len(out) < count:
        fam = fams[i % len(fams)]
        dim = dims[(i // len(fams)) % len(dims)]
        per = periodics[(i // (len(fams) * len(dims))) % len(periodics)]
        i += 1
        inp = gen_input(rng, fam, dim, per, nmax=nmax)
        if len(inp["gens"]) >= 1:
            inp["id"] = len(out)
            out.append(inp)
    return out


def with_mask(rng, inp, kind=None):
    n = len(inp["gens"])
    kind = kind or rng.choice(["random", "single", "none", "all", "random"])
    if kind == "random":
        m = [rng.chance(0.5) for _ in range(n)]
    elif kind == "single":
        m = [False] * n
        m[rng.below(n)] = True
    elif kind == "none":
        m = [False] * n
    else:
        m = [True] * n
    o = dict(inp)
    o["mask"] = m
    return o


def case_line(inp, opts):
    a, w = inp["anchor"], inp["width"]
    toks = ["tess", str(opts), str(inp["dim"]), "1" if inp["periodic"] else "0"]
    toks += [str(C.f2b(x)) for x in a] + [str(C.f2b(x)) for x in w]
    n = len(inp["gens"])
    toks.append(str(n))
    if inp.get("mask") is not None:
        toks.append("1")
        toks += ["1" if m else "0" for m in inp["mask"]]
    else:
        toks.append("0")
    for g in inp["gens"]:
        toks += [str(C.f2b(x)) for x in g]
    return " ".join(toks)


def inp_json(inp):
    return {k: inp[k] for k in ("family", "dim", "periodic", "anchor", "width", "gens", "mask") if k in inp}


# ----------------------------------------------------------------------------- decoding impl output

def dv(bits):
    return [C.b2f(b) for b in bits]


def decode_vor(v):
    if not isinstance(v, dict):
        return v
    out = {"cells": [], "faces": [], "conn": v["conn"], "anchor": dv(v["anchor"]), "width": dv(v["width"]),
           "dim": v["dim"], "periodic": v["periodic"], "raw": v}
    for c in v["cells"]:
        out["cells"].append({"loc": dv(c["loc"]), "centroid": dv(c["centroid"]), "volume": C.b2f(c["volume"]),
                             "safety_radius": C.b2f(c["safety_radius"]), "offset": c["offset"], "count": c["count"],
                             "face_indices": c["face_indices"], "neighbour_ids": c["neighbour_ids"],
                             "bits": (tuple(c["loc"]), tuple(c["centroid"]), c["volume"], c["safety_radius"])})
    for f in v["faces"]:
        out["faces"].append({"left": f["left"], "right": f["right"], "shift": dv(f["shift"]) if f["shift"] is not None else None,
                             "area": C.b2f(f["area"]), "centroid": dv(f["centroid"]), "normal": dv(f["normal"]),
                             "is_periodic": f["is_periodic"], "is_boundary": f["is_boundary"],
                             "bits": (f["left"], f["right"], tuple(f["shift"]) if f["shift"] is not None else None,
                                      f["area"], tuple(f["centroid"]), tuple(f["normal"]))})
    return out


# ----------------------------------------------------------------------------- exact model inputs

def frac(x):
    return Fraction(*float(x).as_integer_ratio())


def model_setup(inp):
    """Everything the exact model needs, as Fractions: normalised box, walls as the code computes
    them (in floats), generator positions (unused coordinates zeroed), sites with shift codes."""
    dim, per = inp["dim"], inp["periodic"]
    a, w = norm_box(dim, inp["anchor"], inp["width"])
    lo, hi = [], []
    for k in range(3):
        ak, wk = a[k], w[k]
        if per and k < dim:
            ak = ak - wk
            wk = wk * 3.0
        lo.append(ak)
        hi.append(ak + wk)
    gens = [proj(dim, g) for g in inp["gens"]]
    shifts = [(0, 0, 0)]
    if per:
        shifts = [(i, j, k) for i in (-1, 0, 1) for j in ((-1, 0, 1) if dim >= 2 else (0,)) for k in ((-1, 0, 1) if dim >= 3 else (0,))]
    return {"dim": dim, "periodic": per, "a": a, "w": w, "lo": lo, "hi": hi, "gens": gens, "shifts": shifts}


def shift_code(s):
    if s == (0, 0, 0):
        return 0
    return 1 + (s[0] + 1) * 9 + (s[1] + 1) * 3 + (s[2] + 1)


def shift_of_code(c):
    if c == 0:
        return (0, 0, 0)
    c -= 1
    return (c // 9 - 1, (c // 3) % 3 - 1, c % 3 - 1)


def sites_for(ms, gi):
    """(id, shift tuple, position as floats the way the code computes it: g + (-(i*w)))"""
    w = ms["w"]
    g = ms["gens"][gi]
    out = []
    for j, h in enumerate(ms["gens"]):
        for s in ms["shifts"]:
            if j == gi and s == (0, 0, 0):
                continue
            if s == (0, 0, 0):
                pos = list(h)
            else:
                # the iterator reports Some(-shift) with shift = (i*w, j*w, k*w) applied to the QUERY point;
                # the neighbour image is generator + (-(shift)): s is the image offset in units of w
                pos = [h[k] + (-(float(-s[k]) * w[k])) for k in range(3)]
            out.append((j, s, pos))
    return out


def scale_exp(values):
    e = 0
    for x in values:
        if x == 0:
            continue
        den = float(x).as_integer_ratio()[1]
        e = max(e, den.bit_length() - 1)
    return e


def to_int(x, e):
    n, d = float(x).as_integer_ratio()
    return n * ((1 << e) // d)


def model_lines(inp, cells, flags=0, max_sites=None):
    """lines for the OCaml runner: one per requested cell; returns (lines, meta)"""
    ms = model_setup(inp)
    allv = [x for g in ms["gens"] for x in g] + ms["lo"] + ms["hi"]
    per_cell = {}
    for gi in cells:
        st = sites_for(ms, gi)
        per_cell[gi] = st
        allv += [x for (_, _, p) in st for x in p]
    e = scale_exp(allv)
    lines = []
    for gi in cells:
        g = [to_int(x, e) for x in ms["gens"][gi]]
        st = []
        for (j, s, p) in per_cell[gi]:
            ip = [to_int(x, e) for x in p]
            d2 = sum((g[k] - ip[k]) ** 2 for k in range(3))
            st.append((d2, j, shift_code(s), ip))
        st.sort(key=lambda t: (t[0], t[1], t[2]))
        if max_sites:
            st = st[:max_sites]
        toks = ["cell", str(ms["dim"]), str(flags)] + [str(to_int(x, e)) for x in ms["lo"]] + [str(to_int(x, e)) for x in ms["hi"]]
        toks += [str(x) for x in g] + [str(len(st))]
        for (_, j, sc, ip) in st:
            toks += [str(j), str(sc)] + [str(x) for x in ip]
        lines.append(" ".join(toks))
    return lines, {"e": e, "ms": ms}


def run_model_cells(jobs, wd, name):
    """jobs: list of (key, line). Runs the extracted model sharded over the cores. Returns {key: dict}"""
    exe = C.build_runner()
    shards = C.shard(jobs, C.NPROC)
    import concurrent.futures as cf

    def work(k):
        p = os.path.join(wd, f"{name}.model.{k}.cases")
        with open(p, "w") as f:
            for _, line in shards[k]:
                f.write(line + "\n")
        rc, out, _ = C.sh([exe, p], timeout=3000)
        res = {}
        for ln in out.splitlines():
            sp = ln.split(" ", 1)
            if len(sp) == 2 and sp[0].isdigit():
                try:
                    res[shards[k][int(sp[0])][0]] = json.loads(sp[1])
                except Exception:
                    pass
        return res

    out = {}
    with cf.ThreadPoolExecutor(max_workers=C.NPROC) as ex:
        for r in ex.map(work, range(len(shards))):
            out.update(r)
    return out


def rat(p):
    return Fraction(p[0], p[1])


def decode_model_cell(m, e, with_extra=True):
    """model cell (integer-scaled) -> real units (Fractions and floats)"""
    if not m.get("ok", True) and "planes" not in m:
        return None
    s = Fraction(1, 1 << e)
    out = {"planes": [], "verts": []}
    for (n, d, right, sh) in m["planes"]:
        out["planes"].append({"n": n, "d": d, "right": right, "shift": shift_of_code(sh), "norm2": sum(x * x for x in n)})
    for (d0, d1, d2, x, w) in m["verts"]:
        out["verts"].append({"dual": (d0, d1, d2), "loc": [Fraction(c, w) * s for c in x]})
    out["r2"] = rat(m["r2"]) * s * s
    vol6 = rat(m["vol6"])
    out["volume"] = vol6 / 6 * s ** 3
    out["centroid"] = [(rat(c) / (4 * vol6)) * s if vol6 != 0 else None for c in m["csum"]]
    out["faces"] = {}
    for (pi, a2n, cs) in m["faces"]:
        pl = out["planes"][pi]
        a2n = rat(a2n)
        # area = a2n / (2 |n|) in scaled units
        area = float(a2n) / (2.0 * math.sqrt(pl["norm2"])) * float(s) ** 2 if pl["norm2"] else 0.0
        cen = [float(rat(c) / (3 * a2n) * s) if a2n != 0 else None for c in cs]
        out["faces"][pi] = {"area": area, "centroid": cen, "right": pl["right"], "shift": pl["shift"], "a2n": a2n}
    if "m2" in m:
        out["m2"] = [rat(x) / 120 * s ** 5 for x in m["m2"]]
    if "wf_vol6" in m:
        out["wf_ok"] = m["wf_ok"]
        out["wf_volume"] = rat(m["wf_vol6"]) / 6 * s ** 3
        out["wf_faces"] = m["wf_faces"]
        if "wf_m2" in m:
            out["wf_m2"] = [rat(x) / 120 * s ** 5 for x in m["wf_m2"]]
        wv = rat(m["wf_vol6"])
        out["wf_centroid"] = [(rat(c) / (4 * wv)) * s if wv != 0 else None for c in m["wf_csum"]]
    return out


def min_separation(inp):
    dim = inp["dim"]
    gs = [proj(dim, g) for g in inp["gens"]]
    if len(gs) < 2:
        return None
    best = None
    # sort by x, sweep
    gs.sort()
    for i in range(len(gs)):
        for j in range(i + 1, len(gs)):
            dx = gs[j][0] - gs[i][0]
            if best is not None and dx > best:
                break
            d = math.sqrt(sum((gs[i][k] - gs[j][k]) ** 2 for k in range(3)))
            if best is None or d < best:
                best = d
    return best


def known_class(inp):
    """Input classes of the recorded known findings (see known_findings.json / DESIGN.md):
    K1 a generator lies exactly on a wall of a reflective box; K2 two generators closer than
    1e-4 of the smallest active box width (clusters)."""
    dim = inp["dim"]
    a, w = norm_box(dim, inp["anchor"], inp["width"])
    cls = []
    sep = min_separation(inp)
    if sep is not None and sep < 1e-4 * min(w[:dim]):
        cls.append("K2-cluster")
    if not inp["periodic"]:
        for g in inp["gens"]:
            if any(g[k] == a[k] or g[k] == a[k] + w[k] for k in range(dim)):
                cls.append("K1-wall")
                break
    if dim < 3 and max(max(abs(a[k]), abs(a[k] + w[k])) for k in range(dim)) >= 4e10:
        cls.append("K3-illscaled")
    return cls


# ----------------------------------------------------------------------------- tolerances (DESIGN 3.4)

def tolerances(inp):
    dim = inp["dim"]
    a, w = norm_box(dim, inp["anchor"], inp["width"])
    L = [w[k] for k in range(3)]
    M = [max(abs(a[k]), abs(a[k] + w[k])) for k in range(3)]
    u = 2.0 ** -53
    eps = [max(1e-9 * L[k], 4096 * u * M[k]) for k in range(3)]
    vol = L[0] * L[1] * L[2]
    # scale of the faces that are actually reported: in 2D edges of unit thickness, in 1D unit squares
    if dim == 3:
        face_scale = max(L[0] * L[1], L[1] * L[2], L[0] * L[2])
    elif dim == 2:
        face_scale = max(L[0], L[1])
    else:
        face_scale = 1.0
    rel = max(1e-9, max(eps[k] / L[k] for k in range(3)) * 10)
    relc = max(4096 * u * M[k] / L[k] for k in range(3)) * 10      # the same without the 1e-9 floor: pure rounding / conditioning
    # conditioning: a bisector between generators at distance delta is known only up to a relative
    # direction error u*M/delta; close pairs (clusters) make every derived quantity that ill-conditioned
    sep = min_separation(inp)
    if sep is not None and sep > 0:
        mm = max(max(M[k] for k in range(dim)), max(L[k] for k in range(dim)))
        rel = max(rel, 4096 * u * mm / sep * 10)
        relc = max(relc, 4096 * u * mm / sep * 10)
    return {"relc": relc, "eps": eps, "vol": vol, "vol_tol": vol * rel, "face_scale": face_scale, "area_tol": face_scale * rel,
            "area_min": 1e-9 * face_scale, "rel": rel, "L": L}
