#!/bin/bash
# independent re-check of the whole development with coqchk (kernel re-implementation) and listing of the axioms it relies on.
# usage: tools/coqchk_all.sh   (after `make` in coq/); takes a few minutes.
cd "$(dirname "$0")/../coq" || exit 2
mods=$(ls theories/Properties/*.v | sed 's#theories/Properties/\(.*\)\.v#MV.Properties.\1#')
timeout 7200 coqchk -silent -o -Q theories MV $mods MV.Extract.Extract 2>&1 | grep -v "^$" | tee ../.cache/coqchk.log | tail -20
grep -q "Constants/Inductives relying on type-in-type: <none>" ../.cache/coqchk.log || exit 1
