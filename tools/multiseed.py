#!/usr/bin/env python3
"""run checks over several seeds and summarise the violations (triage helper, not a registered check)"""
import json, glob, subprocess, sys, os
pids = sys.argv[1].split(",")
seeds = [int(x) for x in sys.argv[2].split(",")]
for pid in pids:
    for sd in seeds:
        env = dict(os.environ, VERIF_SEED=str(sd))
        p = subprocess.run(["python3", "/verif/tools/vp.py", "check", pid], capture_output=True, text=True, cwd="/verif", env=env)
        nv = sum(1 for l in p.stdout.splitlines() if l.startswith("VIOLATION"))
        print(f"{pid} seed {sd}: exit {p.returncode}, {nv} violations")
        for f in sorted(glob.glob(f"/verif/replays/{pid}_*.json")):
            r = json.load(open(f))
            i = r["replay"].get("input") or {}
            print("    ", r["signature"], "|", r["what"][:140].replace("\n", " "))
            if i:
                print("        ", {k: i.get(k) for k in ("family", "dim", "periodic")}, "anchor", [float("%.3g" % x) for x in i.get("anchor", [])],
                      "width", [float("%.3g" % x) for x in i.get("width", [])], "n", len(i.get("gens", [])), "mask" if i.get("mask") else "")
            os.makedirs("/verif/.cache/triage", exist_ok=True)
            os.replace(f, f"/verif/.cache/triage/{pid}_s{sd}_{os.path.basename(f)}")
