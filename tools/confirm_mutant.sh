#!/bin/bash
# confirm a seeded change in its scratch worktree: compiles, test suite unchanged, demo fails with / passes without.
# usage: confirm_mutant.sh <worktree> <k> <seed-id> <property> "<needs>"
set -u
WT=$1; K=$2; ID=$3; PROP=$4; NEEDS=$5; EXTRA=${6:-}
if [ "$EXTRA" = "cfg" ]; then export RUSTFLAGS="--cfg meshless_voro_verif"; EXTRA=""; fi
cd $WT || exit 2
export CARGO_TARGET_DIR=$WT/target CARGO_NET_OFFLINE=true
git checkout -q -- src 2>/dev/null
mkdir -p examples; cp out/demo_$K.rs examples/demo_$K.rs
cargo run -q --offline $EXTRA --example demo_$K >/dev/null 2>&1; PRISTINE=$?
git apply out/patch_$K.diff || { echo "patch does not apply"; exit 2; }
cargo build -q --offline 2>/dev/null; BUILD=$?
T=$(cargo test --offline --no-fail-fast 2>&1 | grep -E "^test result" | tr '\n' ' ')
FAILED=$(cargo test --offline --no-fail-fast 2>&1 | grep -E "^test .* FAILED" | tr '\n' ' ')
cargo run -q --offline $EXTRA --example demo_$K >/dev/null 2>&1; PATCHED=$?
git checkout -q -- src
echo "$ID: build=$BUILD demo pristine=$PRISTINE patched=$PATCHED"
echo "   tests: $T"
echo "   failed: $FAILED"
if [ $BUILD -eq 0 ] && [ $PRISTINE -eq 0 ] && [ $PATCHED -ne 0 ]; then
  D=/verif/seeded/$ID; mkdir -p $D
  cp out/patch_$K.diff $D/patch.diff; cp out/demo_$K.rs $D/demo.rs
  python3 - "$D" "$ID" "$PROP" "$NEEDS" "$T" "$FAILED" "$PRISTINE" "$PATCHED" <<'PY'
import json,sys
d,i,prop,needs,t,failed,pr,pa=sys.argv[1:9]
json.dump({"id":i,"breaks_property":prop,"needs_to_manifest":needs,
 "confirmed":{"worktree_commit":"HEAD of /repo at confirmation time (hooks + fixes)","cargo_build":"ok","cargo_test_no_fail_fast":t.strip(),"failing_tests_with_patch":failed.strip(),
              "demo_exit_pristine":int(pr),"demo_exit_patched":int(pa)},
 "how":"git apply patch.diff in a scratch worktree; cargo build --offline; cargo test --offline --no-fail-fast; cargo run --example demo (copied to examples/)"},
 open(d+"/meta.json","w"),indent=1)
PY
  echo "   stored in $D"
fi
