"""Shared run for the bookkeeping properties (C07, C12, C13): inputs x masks through both
construction routes; the structural Coq model (Assemble.v, extracted) evaluated on the
implementation's own plane metadata."""
import json
import os
import pickle

import common as C
import geo
import tess as T


def suite(tier, seed):
    rng = C.Rng(seed * 104729 + 7)
    cases = []
    small = 10 if tier == "quick" else 60
    large = 16 if tier == "quick" else 120
    fams = ["uniform", "lattice", "tiny", "cospherical", "coplanar", "onwalls"]
    k = 0
    while len([c for c in cases if c["group"] == "small"]) < small * 8 and k < small * 4:
        fam = fams[k % len(fams)]
        dim = (k // len(fams)) % 3 + 1
        per = (k // 2) % 2 == 1
        k += 1
        inp = T.gen_input(rng, fam, dim, per, nmax=5)
        n = len(inp["gens"])
        if n < 1 or n > 5:
            continue
        base = len(cases)
        full = dict(inp, mask=None, group="small", base=base)
        cases.append(full)
        for m in range(2 ** n):
            mk = [(m >> i) & 1 == 1 for i in range(n)]
            cases.append(dict(inp, mask=mk, group="small", base=base))
    for j in range(large):
        fam = T.FAMILIES[j % len(T.FAMILIES)]
        if fam in ("onwalls", "cluster"):
            fam = "uniform"
        dim = (j // 3) % 3 + 1
        per = j % 2 == 1
        inp = T.gen_input(rng, fam, dim, per, nmax=30)
        base = len(cases)
        cases.append(dict(inp, mask=None, group="large", base=base))
        for kind in ("random", "single", "none", "all", "random"):
            m = T.with_mask(rng, inp, kind)
            cases.append(dict(m, group="large", base=base))
    # periodic boxes with generator coordinates exactly on anchor + width (the other representative of the lower wall)
    for j in range(4 if tier == "quick" else 24):
        dim = (j % 3) + 1
        inp = T.gen_input(rng, "uniform", dim, True, nmax=12)
        gens = [list(g) for g in inp["gens"]]
        for t in range(min(2, len(gens))):
            a = rng.below(dim)
            gens[t][a] = inp["anchor"][a] + inp["width"][a]
        inp = T.dedupe(dict(inp, gens=gens, family="upperwall"))
        base = len(cases)
        cases.append(dict(inp, mask=None, group="large", base=base))
        m = T.with_mask(rng, inp, "random")
        cases.append(dict(m, group="large", base=base))
    # density contrast: a dense cluster in a corner of the box and a few distant generators; the selected cells are the cluster's extreme
    # points, whose cells border the void and have the distant generators as neighbours (any pruning of "far" generators in a partial
    # build shows here and nowhere else)
    for j in range(2 if tier == "quick" else 8):
        dim = 3 if j % 2 == 0 else 2
        n = rng.range(300, 500) if dim == 3 else rng.range(150, 300)
        width = [1.0, 1.0, 1.0]
        anchor = [0.0, 0.0, 0.0]
        gens = [[0.01 + 0.05 * rng.unit() if a < dim else 0.0 for a in range(3)] for _ in range(n)]
        for a in range(dim):
            far = [0.02 + 0.03 * rng.unit() if b < dim else 0.0 for b in range(3)]
            far[a] = 0.8 + 0.15 * rng.unit()
            gens.append(far)
        gens.append([0.9 if a < dim else 0.0 for a in range(3)])
        inp = T.dedupe({"family": "contrast", "dim": dim, "periodic": False, "anchor": anchor, "width": width, "gens": gens, "mask": None})
        base = len(cases)
        cases.append(dict(inp, mask=None, group="contrast", base=base))
        g = inp["gens"]
        ncl = len(g) - dim - 1
        for a in range(dim):
            i = max(range(ncl), key=lambda t: g[t][a])
            mk = [False] * len(g)
            mk[i] = True
            cases.append(dict(inp, mask=mk, group="contrast", base=base))
        mk = [False] * len(g)
        for a in range(dim):
            mk[max(range(ncl), key=lambda t: g[t][a])] = True
            mk[min(range(ncl), key=lambda t: g[t][a])] = True
        cases.append(dict(inp, mask=mk, group="contrast", base=base))
    return cases


def shift_codes(inp, planes_by_cell, w):
    return None


def model_line(rec_inp, impl):
    """assemble line from the implementation's integrator cells"""
    dim = rec_inp["dim"]
    a, w = T.norm_box(dim, rec_inp["anchor"], rec_inp["width"])
    n = len(rec_inp["gens"])
    toks = ["assemble", str(n)]
    if rec_inp.get("mask") is not None:
        toks.append("1")
        toks += ["1" if m else "0" for m in rec_inp["mask"]]
    else:
        toks.append("0")
    for i in range(n):
        ic = impl["icells"][i]
        if ic is None:
            toks += ["0", "0"]
            continue
        used = {d for v in ic["verts"] for d in v["dual"]}
        toks += ["1", str(len(ic["planes"]))]
        for pi, p in enumerate(ic["planes"]):
            nvec = T.dv(p["n"])
            sh = -1
            if p["shift"] is not None:
                sh = T.shift_code(geo.shift_tuple(T.dv(p["shift"]), w))
                if sh == 0:
                    sh = 99   # a Some(zero) shift would still be "periodic" for the code
            toks += [str(p["right"] if p["right"] is not None else -1), str(sh),
                     "1" if geo.dim_valid(dim, nvec) else "0", "1" if pi in used else "0"]
    return " ".join(toks)


def struct_data(tier, seed, inputs=None):
    cdir = os.path.join(C.CACHE, "run", "struct")
    os.makedirs(cdir, exist_ok=True)
    wd = C.rundir("struct")
    key = f"{C.repo_hash()}_{geo.verif_hash()}_{seed}_{tier}"
    cache = os.path.join(cdir, f"struct_{key}.pkl")
    if inputs is None and os.path.exists(cache):
        try:
            return pickle.load(open(cache, "rb"))
        except Exception:
            pass
    custom = inputs is not None
    cases = inputs if custom else suite(tier, seed)
    exe = C.build_harness("debug")
    cf = os.path.join(wd, "struct.cases")
    with open(cf, "w") as f:
        for c in cases:
            o = 1 | 2 | 8 | (4 if c["dim"] == 3 else 0)
            f.write(T.case_line(c, o) + "\n")
    rc, impl, out = C.run_impl(exe, cf, os.path.join(wd, "struct.out"))
    mf = os.path.join(wd, "struct.model.cases")
    idx = []
    with open(mf, "w") as f:
        for k, c in enumerate(cases):
            o = impl.get(k)
            if o is None or "panic" in o or "icells" not in o:
                continue
            f.write(model_line(c, o) + "\n")
            idx.append(k)
    rcm, outm, _ = C.sh([C.build_runner(), mf], timeout=3000)
    model = {}
    for ln in outm.splitlines():
        sp = ln.split(" ", 1)
        if len(sp) == 2 and sp[0].isdigit():
            try:
                model[idx[int(sp[0])]] = json.loads(sp[1])
            except Exception:
                pass
    data = {"cases": cases, "impl": impl, "model": model}
    if not custom:
        for fn in os.listdir(cdir):
            if fn.startswith("struct_") and fn.endswith(".pkl") and tier in fn:
                try:
                    os.remove(os.path.join(cdir, fn))
                except OSError:
                    pass
        tmp = cache + ".%d.tmp" % os.getpid()
        pickle.dump(data, open(tmp, "wb"))
        os.replace(tmp, cache)
    return data


def face_key(f, w):
    """(left, right, shift tuple or None) of an implementation face"""
    sh = None
    if f["shift"] is not None:
        sh = geo.shift_tuple(T.dv(f["shift"]), w)
    return (f["left"], f["right"], sh)


def model_face_key(mf):
    left, right, sh, plane = mf
    if sh is None:
        return (left, right, None)
    return (left, right, (0, 0, 0) if sh == 99 else T.shift_of_code(sh))
