#!/usr/bin/env python3
"""Regenerates MANIFEST.json from the table below (kept in one place so that it stays valid)."""
import json
import os

VERIF = os.path.dirname(os.path.dirname(os.path.abspath(__file__)))

CHECKS = {
    "C10": dict(
        technique="Coq proof (ring/nia over Z; Flocq model of iloc) + differential correspondence hook-vs-extracted-model",
        text="Kernel-checked theorems about the transcription of in_sphere_test_exact: no i64 wrap on the grid, equality with the sign of the "
             "textbook 5x5 lifted determinant (independent Laplace definition) for ALL grid points, geometric meaning (inside/on/outside the "
             "circumsphere for positive orientation), alternation. iloc: monotonicity of the composed correctly-rounded operations (real level). "
             "Tie to the code: the hooked predicate against the extracted model on exhaustive small grids, random 52-bit and adversarial tuples "
             "(debug+release), and the bit-exact Flocq model of cuboid/iloc evaluated inside Coq on every position the algorithm can query.",
        note="Trusted: Coq kernel, extraction (ExtrOcamlBasic/ExtrOcamlZBigInt), zarith, harness/comparator. The universal in-range theorem for iloc "
             "over all boxes (a Flocq error analysis) is not proved: range and monotonicity of the real map are checked per box on the implementation's "
             "own values. Orientation of the duals handed to the predicate is validated per created vertex in the C01/C05 runs, proved only for the initial box.",
        design="5 C10"),
}

NOT_YET = {}

ALL = ["C%02d" % i for i in range(1, 21)]


def main():
    checks = []
    for pid in ALL:
        if pid not in CHECKS:
            continue
        c = CHECKS[pid]
        checks.append({
            "property_id": pid,
            "quick_cmd": f"python3 tools/vp.py check {pid} --tier quick",
            "thorough_cmd": f"python3 tools/vp.py check {pid} --tier thorough",
            "evidence_file": f"/verif/evidence/{pid}.json",
            "replay_cmd_template": f"python3 tools/vp.py check {pid} --replay {{path}}",
            "engine": "coq-proof+correspondence",
            "level_claimed": {"category": "proof", "text": c["text"], "design_ref": c["design"]},
            "level_note": c["note"],
            "technique": c["technique"],
        })
    na = [{"property_id": pid, "reason": NOT_YET.get(pid, "check not built yet in this revision of /verif (planned, see DESIGN.md section 5)")}
          for pid in ALL if pid not in CHECKS]
    m = {
        "version": 1,
        "setup_cmd": "python3 tools/vp.py setup",
        "hooks": {
            "guard": "meshless_voro_verif",
            "enable": "RUSTFLAGS='--cfg meshless_voro_verif' cargo build (the harness crate in /verif/harness depends on /repo by path)",
            "baseline_off_cmd": "cd /repo && cargo test --workspace --no-fail-fast --offline",
            "source_commits": ["2ec7ecd"],
            "add_only": True,
        },
        "engines": [{
            "name": "coq-proof+correspondence",
            "path": "/verif/coq, /verif/harness, /verif/ocaml, /verif/tools",
            "serves_properties": sorted(CHECKS),
            "kind_free_text": "Coq 8.16.1 development (theories/Model executable models, theories/Proofs lemmas, theories/Properties pinned theorems with "
                              "Print Assumptions), tied to /repo on every run by a differential correspondence check: Python generates cases, the Rust harness "
                              "(hooks on) runs the implementation, the extracted model (OCaml/zarith) or coqc vm_compute runs the model, Python compares and "
                              "evaluates the property's decidable form on the implementation's own output.",
        }],
        "checks": checks,
        "not_applicable": na,
        "notes": "Extraction directives: exactly those of Coq's ExtrOcamlBasic.v and ExtrOcamlZBigInt.v (no others). Known/fixed findings: known_findings.json.",
    }
    with open(os.path.join(VERIF, "MANIFEST.json"), "w") as f:
        json.dump(m, f, indent=1)
    print("MANIFEST.json written:", len(checks), "checks,", len(na), "not yet")


if __name__ == "__main__":
    main()
