#!/usr/bin/env python3
"""Regenerates MANIFEST.json from the table below (kept in one place so that it stays valid)."""
import json
import os

VERIF = os.path.dirname(os.path.dirname(os.path.abspath(__file__)))

CHECKS = {
    "C10": dict(
        technique="Coq proof (ring/nia over Z; Flocq binary64 model of cuboid/iloc with rounding-error analysis) + the predicate's Gallina model regenerated from "
                  "src/geometry.rs by a translator on every run + differential correspondence hook-vs-extracted-model",
        text="Kernel-checked theorems: no i64 wrap on the grid, equality with the sign of the textbook 5x5 lifted determinant (independent Laplace definition) for ALL grid "
             "points, geometric meaning (inside/on/outside the circumsphere for positive orientation), alternation, similarity invariance. Grid map on IEEE binary64 "
             "(Flocq): for every box with 2^-900 <= width <= scale <= 2^900 and |anchor| <= 2^40 widths and every position in [anchor - w, anchor + 2w]: no overflow, "
             "1 <= t <= 31/16, the 52 mantissa bits are (t-1)*2^52 in [0, 2^52), monotone in the position. Tie to the code: (a) tools/translate_insphere.py executes "
             "in_sphere_test_exact and its macros symbolically into a Gallina definition, Coq proves it equal to insphere_model on every run (C10_gen.v); (b) the hooked "
             "predicate against the extracted model on exhaustive small grids, random 52-bit and adversarial tuples (debug+release); (c) the bit-exact Flocq model of "
             "cuboid/iloc evaluated inside Coq on every position the algorithm can query.",
        note="Trusted: Coq kernel, the translator (its parser of the Rust subset used by the predicate; anything it does not understand is an error), extraction, zarith, "
             "harness/comparator. Boxes outside the sane-magnitude hypotheses (offsets beyond 2^40 widths, widths near the under/overflow thresholds) are covered by the per-box "
             "differential run only. Orientation of the duals handed to the predicate is validated per created vertex in the C01/C05 runs, proved only for the initial box.",
        design="5 C10"),
}

CHECKS["C01"] = dict(
    technique="Coq exact-arithmetic model of the clipping algorithm (extracted) as oracle + soundness theorems in both directions; differential correspondence per cell",
    text="Theorems about the model (all inputs): every plane of a built cell is a wall or the bisector of a given site, hence the cell (as intersection of its half-spaces) "
         "contains the nearest-generator region; conversely, for every regular construction (1D/2D/3D) with the sites in order of distance, every vertex - and every convex "
         "combination of vertices - is at least as close to the generator as to EVERY site, including those skipped by the safety radius (regularity is a decidable "
         "predicate, evaluated by the extracted model for each compared cell and counted in the evidence); 1D closed form. Tie: every constructed cell of every generated "
         "input (families incl. lattices, co-spherical, walls, clusters, far offsets, density contrast; 1D/2D/3D; periodic or not; masks) is compared with the cell the "
         "extracted model computes (volume, centroid, per-(neighbour, shift) face area and centroid, vertices inside all exact half-spaces).",
    note="Partial: hull(vertices) <= region <= polytope(planes) is proved; that the polytope is the hull of the maintained vertices (VerticesSpan) is not. The converse "
         "holds in every dimensionality (unused coordinates zero). Rounding handled by tolerances (DESIGN 3.4). "
         "Known findings K1/K2/K4/K5 suppress only their signatures.",
    design="5 C01")
CHECKS["C07"] = dict(
    technique="Coq proofs on the structural model (face rule, masks) + exhaustive-mask differential run against the full build",
    text="Theorems for all masks and all cell families: no face has an unselected left cell, the face list of well-formed cells joins no pair of generators twice without "
         "shift and has no unshifted self face. Correspondence: all 2^n masks of small inputs and sampled masks of larger ones, 1D/2D/3D, periodic or not: selected cells "
         "bitwise equal to the full build (volume, centroid, position, safety radius), same face sets (areas to rounding), zero unselected cells, mixed faces once with the "
         "selected cell on the left.",
    note="'A selected cell does not depend on the mask' is a statement about the implementation's per-cell function: it is tested bitwise, not proved.",
    design="5 C07")
CHECKS["C12"] = dict(
    technique="Coq proofs (induction over the face list) on the structural model of finalize/neighbour_ids + differential run on the implementation's own metadata",
    text="Kernel-checked for every face list, cell count and mask: offsets are prefix sums of counts, total = array length, array = concatenation of per-cell lists, "
         "face_indices is the cell's slice, face i is listed exactly by its left cell and (iff unshifted with a right generator) its right cell, neighbour_ids yields the other "
         "sides without duplicates and never the cell itself - for constructed and unconstructed cells. Tie: both routes (and the with-faces route) on all masks of small "
         "inputs and sampled masks of larger ones; the arrays equal the extracted model evaluated on the implementation's plane metadata, and satisfy the property directly.",
    note="The structural model takes the per-cell plane metadata (right, shift, validity, has-tetrahedron) from the implementation; well-formedness of that metadata "
         "(distinct (neighbour, shift) keys per cell) is the theorem's hypothesis and is what C17 provides.",
    design="5 C12")
CHECKS["C13"] = dict(
    technique="Coq proofs on the structural model (routes, integral lists) + bitwise differential run of both routes",
    text="Theorems for any cell geometry and any integral: the integrator route equals the direct route; symmetric face integrals = non-symmetric ones filtered by the "
         "'constructed lower-index unshifted neighbour' rule, order preserved; without unshifted self planes they coincide with the stored face list; per-cell data reaches "
         "the cell with the same generator index under every mask. Tie: bitwise comparison of Voronoi::build* with Voronoi::from(&integrator), of VolumeCentroid/AreaCentroid "
         "integrals with stored values in order, sym vs non-sym lists, with-faces variants to rounding, orders vs the extracted model.",
    note="Bitwise equality of values is a property of the implementation's arithmetic and is tested, not proved; the proofs cover order, filtering and metadata.",
    design="5 C13")

CHECKS["C02"] = dict(
    technique="Coq proofs of the chain-level identities (five-point, apex independence over closed surfaces, 1D telescoping) + exact-model differential run",
    text="Theorems over Z^3: five-point identity, apex independence of the signed cone sum for every closed oriented triangle surface, sum of per-cell cone sums = cone sum "
         "of the union, opposite triangles cancel, 1D lengths telescope to the width. Tie: every cell measure > 0, sum of measures = box measure, every cell measure = the "
         "exact model's, over the geometric suite (all dimensionalities, periodic or not, anisotropic/offset boxes).",
    note="Partial: that the union of all cell surfaces minus cancelling interior triangles is the box surface (reciprocity of the computed polygons) is geometric and is "
         "checked per run (C03), not proved.", design="5 C02")
CHECKS["C03"] = dict(
    technique="Coq proofs (reciprocity lemma; structural model: stored once, listed by both) + all-pairs differential run",
    text="Theorems: a point of cell i on the bisector towards j belongs to cell j (any site set); the compact face list of well-formed cells stores no pair twice and no "
         "self face; an unshifted interior face is listed exactly by its two cells. Tie: all ordered neighbour pairs of every input (incl. masks): areas, shifted centroids, "
         "opposite normals above the 1e-9 threshold; storage once / reciprocal periodic pairs / flux cancellation on the stored tessellation.",
    note="Reciprocity of the computed polygons depends on C01 (geometry) and is therefore partial at proof level.", design="5 C03")
CHECKS["C04"] = dict(
    technique="Coq proofs over Z^3 (normal direction of the model bisector, centroid-on-plane, closed-surface area sum, per-triangle divergence identity) + per-face/per-cell differential run",
    text="Theorems: the outward normal of the model's bisector points to the right site; area-weighted centroids of coplanar triangles stay in the plane; vector areas of a closed "
         "surface sum to zero; area vector . (3 centroid - 3 g) = 3 x cone volume per triangle; apex independence. Tie: every stored face (unit normal, direction, centroid on "
         "plane/wall) and every constructed cell (area-normal sum = 0, divergence sum = volume) of the geometric suite.",
    note="Unit length of the floating-point normal and rounding are tested with tolerances, not proved (no sqrt theorem in Z).", design="5 C04")
CHECKS["C06"] = dict(
    technique="Coq proofs of the per-axis block lemma / half-period bound / translation invariance + differential run periodic vs replicated vs translated",
    text="Theorems: images further than one period away on any axis cannot share a face with a generator of the box (so 3^d images suffice, any box shape); a cell stays "
         "within half a period of its generator; distances are translation invariant. Tie: periodic build vs central block of the non-periodic build of the 3^d-replicated "
         "generators (volume, centroid, faces by (neighbour, lattice offset)), translation metamorphic test, shift lattice / absent-iff-zero / no boundary faces.",
    note="Partial: equality of the model's periodic cell with the infinite replication uses C01 (VerticesSpan residue).", design="5 C06")
CHECKS["C08"] = dict(
    technique="Coq proofs (slab/line product, 1D midpoint) + metamorphic (garbage in unused coordinates, bitwise) and closed-form differential run",
    text="Theorems: for sites in z=0 (resp. on the x axis) the nearest-site comparison ignores z (resp. y,z); between sorted 1D neighbours the cell boundary is the midpoint. "
         "Tie: bitwise identical output under garbage (huge/tiny/negative) in unused coordinates of generators, anchor, width; 1D = closed form with two unit faces; "
         "2D = 3D unit slab; normals unit and inside the active subspace.",
    note="Non-finite garbage (NaN/inf) is outside 'valid input' (finite coordinates) and is not generated.", design="5 C08")
CHECKS["C16"] = dict(
    technique="Coq proof of the safety-radius lemma (Cauchy-Schwarz, nia) and segment convexity + exact-model and metamorphic differential run",
    text="Theorems: a point within R/2 of g is strictly closer to g than to any site beyond R (all positions); Cauchy-Schwarz; on a segment the squared distance to g is "
         "bounded by the end points' (the step behind 'farthest point is a vertex'). Tie: reported radius vs exact 2 sqrt(max vertex distance^2) of the model cell, >= twice the "
         "distance to every implementation vertex; generators appended beyond the safety ball (all periodic images outside) leave the cell unchanged.",
    note="Also proved: every point of the hull of the vertices of a cell is within the largest vertex distance (half the reported radius) of the generator "
         "(C16_hull_in_ball, C16_hull_within_max_radius), and no site beyond the safety radius cuts that hull (used in C01's converse). Partial: that the maintained "
         "polytope IS the hull of the maintained vertices (VerticesSpan) is not proved for d = 2, 3.", design="5 C16")

CHECKS["C17"] = dict(
    technique="Coq proof by induction on the heap fuel (best-first search over any well-formed tree, any admissible pop) + differential run on the hooked neighbour stream and the dumped R-tree",
    text="Kernel-checked for every R-tree whose envelopes contain their children, every query, every shift list and every heap discipline that pops a minimal element: "
         "the stream is a permutation of all (leaf, shift) pairs and is sorted by exact squared distance; the clamp envelope bound is admissible and nested. Tie: the hooked "
         "untruncated stream for several queries per input (n up to 300 quick / 1e4 thorough, lattices with many ties, clusters, all scales, 1D/2D/3D, periodic or not): "
         "self first, each (generator, image) once, lattice shifts absent iff zero, order up to the rounding band; the dumped tree satisfies wf_tree; streams equal the "
         "extracted model's on the dumped tree up to equal-key groups.",
    note="Outside the model: rounding of the floating-point keys (sub-ulp reorderings are inside the tested band); rstar's own nearest_neighbor_iter (non-periodic path) and "
         "bulk loading are external code, tested through the same spec but not modelled.", design="5 C17")

CHECKS["C14"] = dict(
    technique="Coq proofs of the chain-level identities + a separate downstream crate implementing the public integral traits, compared with the exact model's moments",
    text="Theorems: apex independence / five-point identity (signed tetrahedra with the generator as apex decompose the enclosed region), vector areas of a closed surface "
         "sum to zero, per-cell data alignment under every mask (structural model). Tie: a downstream crate (public API only) must compile; its ten monomial integrals of "
         "degree <= 2 per cell and signed area / plane residual per face are compared with the exact model's integrals over the exact cell (both decompositions, with and "
         "without face data), all dimensionalities, periodic or not, masks.",
    note="'Equals the integral over the cell' is stated at chain level (no measure theory). Known finding F12: the WithData traits cannot be implemented with real data "
         "by any downstream type (blanket impl conflict), so data delivery is proved on the model only.", design="5 C14")
CHECKS["C15"] = dict(
    technique="Coq proof (Cramer: vertex on its three planes) + exact transcription of with_faces/sort_face_vertices compared on the implementation's duals + polytope spec run",
    text="Theorem: a vertex built from three planes lies on all three (exact). Tie: every 3D cell with face data: vertices on their planes and inside all half-spaces, each in "
         "exactly three faces; polygons simple, convex, counter-clockwise, area = area integral; V-E+F=2; accessors = face integrals; discard/re-derive identity; face vertex "
         "lists equal the extracted model's on the same duals; 1D/2D requests rejected on both conversion paths (debug build, so an unchecked None would trap).",
    note="Proved in addition (C15_built_cells_are_well_formed): every cell the exact model builds, for every input, has vertices with three distinct in-range planes and "
         "dual triangles forming a closed oriented surface (each directed edge matched by its reverse); the walk of sort_face_vertices only permutes the face's vertex list and "
         "every placed vertex shares the searched plane with its predecessor (consecutive vertices are joined by an edge). The walk closes up (C15_face_walk_closes_up): whenever "
         "the duals form a closed oriented surface in which every directed edge occurs exactly once - a decidable predicate, evaluated by the extracted model on the duals of "
         "every compared cell and counted in the evidence - every vertex of a sorted face list and its cyclic successor (incl. the pair placed by elimination and last-first) share "
         "the face's plane and one more. Partial: that every built cell has no repeated directed edge is checked per cell, not proved (it is false for abstract removed sets whose "
         "boundary is a 2-cycle); Euler's relation is checked per cell; the type-state invariant relies on Rust privacy.", design="5 C15")
CHECKS["C20"] = dict(
    technique="Coq proof of the ring-by-ring kNN search (bounded heap as sorted list, cell skipping, ring termination) and of both pruning bounds + extracted model and exact brute force run against the hooked code",
    text="Theorems: for every list of rings of cells whose bounds are admissible, every k: the search returns the k nearest candidates in increasing distance (= first k of the "
         "sorted distances, i.e. brute force), whatever was skipped; the per-axis clamp bound and the ring bound dist_to_face + r*min width are admissible for any cell widths. "
         "Tie: hooked Space::knn against exact rational brute force for cubic and non-cubic boxes, sparse grids, adversarial ring-gap configurations, all k; the grid replicated "
         "with the same IEEE operations and the extracted search model run on sampled queries (distance sequences must agree); Welzl/EPOS-6 (points and spheres) containment "
         "and Welzl minimality against the best sphere through <= 4 input points.",
    note="Welzl's recursion is not proved (brute-force oracle per run); the kNN theorems are about an ideal grid (cell corners i*w exactly) - rounding of the cell corners is "
         "outside the model, the admissibility hypothesis rings_wf is decided exactly for every compared query. Known finding F5: zero-size configurations (single point, "
         "coincident points, zero-radius spheres).", design="5 C20")

CHECKS["C05"] = dict(
    technique="Coq proofs of the exact parts (predicate alternation and similarity invariance, model soundness) and of the floating-point filter on IEEE binary64 (Flocq) + degenerate-family differential run in debug and release with the decision trace hook + bit-level correspondence of HalfSpace::clip with its Flocq model",
    text="Theorems: the exact predicate is alternating (cells deciding about the same five grid points agree), invariant under similarities of the grid, and the exact model "
         "never cuts the nearest-generator region whatever the degeneracy. Tie: degenerate families only (on walls/edges/corners, n = 1..3, collinear/coplanar, exact and near "
         "lattices, co-spherical sets, clusters, > 64 planes), debug and release under catch_unwind: no panic, finite values, debug == release, every cell = exact model cell "
         "(C01 comparison), every recorded exact decision consistent with the grid map and the Coq predicate; runs that reached the exact path are counted (must be > 0). "
         "Filter (kernel-checked, Flocq binary64, ALL finite inputs with components up to 2^300 - nothing overflows there - and more generally all inputs on which the computed value and bounds are finite): a conclusive answer of HalfSpace::clip has the sign of the exact n.(v-p) of the floating-point "
         "data it was given - the accumulated rounding error 11 u |n|_1 max(|p|,|v|) + 18 eta is strictly below the bound of the code; HalfSpace::new/clip (public API) are compared "
         "bit for bit with the Flocq model evaluated inside Coq on planes x vertices of constructed cells and on adversarial near-plane data, and with the exact rational sign.",
    note="Absence of panics and finiteness of the floating-point pipeline are explored, not proved. The filter theorem covers the rounding of clip itself, not the error of the vertex "
         "position it is applied to (computed from three planes): that error is unbounded for ill-conditioned vertices, which is the recorded finding K2/K5. The recorded "
         "known findings K1, K2, K4, K5 are violations of this property on the current tree (witnesses in corpus/).", design="5 C05")
CHECKS["C09"] = dict(
    technique="Coq proof over a pipeline DSL (any split tree) + pipelines re-extracted from src/voronoi.rs into a Coq term every run + byte-level run over thread counts",
    text="Theorem: for every pipeline of order-preserving stages (enumerate/zip before any length-changing stage), every binary split of the index range and every offset, "
         "chunk-wise evaluation concatenated by position equals the sequential evaluation; insertion by position is order insensitive. Tie (a): every #[cfg(feature=rayon)] "
         "statement of voronoi.rs is re-extracted, must equal its sequential twin up to the par_ spellings, is emitted as a DSL term (C09_gen.v) that must satisfy wf_pipeline; "
         "shared-state constructs (Mutex, Atomic*, OnceLock, ...) in src/ are flagged. Tie (b): complete outputs byte-identical for RAYON_NUM_THREADS in {1,2,3,4,8,16,64}, "
         "repeats, and the build without the rayon feature, incl. exact lattices (ties) and n up to 2000 (20000 thorough).",
    note="Rayon's scheduler and indexed collect are trusted to implement the split/place-by-position semantics; the model cannot exhibit a real interleaving.", design="5 C09")
CHECKS["C11"] = dict(
    technique="Coq proof parametric in the big-integer structure (homomorphism argument) + byte-level comparison of four backend builds",
    text="Theorem: for every integer implementation whose from/add/sub/mul denote the integer operations and each of the three sign glues used by the code, the predicate "
         "equals the model's, so all backends agree on every input. Tie: the harness is built with ibig, dashu, malachite and num_bigint; predicate tuples (incl. full-precision "
         "co-spherical sets) and degenerate tessellations that reach the exact path are compared byte for byte; ibig against the extracted model.",
    note="The crates' arithmetic is assumed (hypotheses of the theorem). rug cannot be built here (GMP/m4).", design="5 C11")
CHECKS["C19"] = dict(
    technique="Coq proofs of the defining equations as polynomial identities (ring) and extend's minimality over R (lra/field); the plane helpers, signed measures and the two-point sphere are translated from src/geometry.rs into Gallina on every run (tools/translate_geom.py) and the equations proved about the translation (field) + residual checks on the public functions",
    text="Theorems: three-plane intersection lies on all three planes; projection lands on the plane, along the normal, idempotent; projection onto the intersection line is on "
         "both planes and perpendicular; signed volume/area antisymmetry and sign convention; two/three-point spheres pass through the points (centre in plane); extend yields "
         "the smallest sphere containing both. Tie: the public functions on random/structured/scaled/offset arguments of bounded conditioning: residuals of the equations on "
         "the outputs and comparison with exact rational formulas.",
    note="Reals axioms (allow-listed) enter only C19_extend_minimal. The four-point sphere identity is proved in Cramer form (sphere_four_points_equidistant), the determinant form of the code is tested.", design="5 C19")

CHECKS["C18"] = dict(
    technique="Coq proof on the SimpleCycle model (1-chain algebra of oriented dual triangles, structural invariant of the cycle arrays) + differential run of the hooked clip on permuted/rotated vertex arrays against the extracted model",
    text="Theorems (every array length, every vertex order): try_extend adds exactly the triangle's boundary to the cycle's chain; when compute_boundary succeeds the cycle's chain "
         "is the sum of the removed triangles' boundaries, which is invariant under permutation of the removed vertices and rotation of each dual, hence two successful clips of "
         "permuted/rotated copies end with the same chain, and equal chains determine the same directed edges; the cycle arrays stay a proper cyclic list (Inv) through new/grow/"
         "init/try_extend/compute_boundary/clip, and a proper cycle has no stale entries. Tie: the hooked clip on cells reached by the builder (all families incl. > 64 planes), "
         "each clip repeated on random permutations + rotations and all orders of <= 6 removed vertices: no panic, same set of cyclic triples, equal volume, closed surface; the "
         "output array equals the extracted Coq clip_comb on the same array.",
    note="Also proved: the fan of new triangles has the boundary cycle as its boundary (telescoping over the closed walk), so every clip maps a closed oriented surface "
         "of dual triangles to a closed oriented surface, with three distinct in-range planes per new triangle. "
         "Partial: that compute_boundary SUCCEEDS for every order of a connected removed set (the delayed-stack argument) is not proved; it is exercised exhaustively per case. "
         "Floating-point classification of vertices is input to the model (the removed set), not modelled.", design="5 C18")

NOT_YET = {}

ALL = ["C%02d" % i for i in range(1, 21)]


def main():
    checks = []
    for pid in ALL:
        if pid not in CHECKS:
            continue
        c = CHECKS[pid]
        checks.append({
            "property_id": pid,
            "quick_cmd": f"python3 tools/vp.py check {pid} --tier quick",
            "thorough_cmd": f"python3 tools/vp.py check {pid} --tier thorough",
            "evidence_file": f"/verif/evidence/{pid}.json",
            "replay_cmd_template": f"python3 tools/vp.py check {pid} --replay {{path}}",
            "engine": "coq-proof+correspondence",
            "level_claimed": {"category": "proof", "text": c["text"], "design_ref": c["design"]},
            "level_note": c["note"],
            "technique": c["technique"],
        })
    na = [{"property_id": pid, "reason": NOT_YET.get(pid, "check not built yet in this revision of /verif (planned, see DESIGN.md section 5)")}
          for pid in ALL if pid not in CHECKS]
    m = {
        "version": 1,
        "setup_cmd": "python3 tools/vp.py setup",
        "hooks": {
            "guard": "meshless_voro_verif",
            "enable": "RUSTFLAGS='--cfg meshless_voro_verif' cargo build (the harness crate in /verif/harness depends on /repo by path)",
            "baseline_off_cmd": "cd /repo && cargo test --workspace --no-fail-fast --offline",
            "source_commits": ["2ec7ecd", "2f872ce", "439f283"],
            "fix_commits": ["09dfeb6", "acc62b6", "e7978d5", "ab48a7b", "26b237e", "cd67cc4", "43a72c0"],
            "add_only": True,
        },
        "engines": [{
            "name": "coq-proof+correspondence",
            "path": "/verif/coq, /verif/harness, /verif/ocaml, /verif/tools",
            "serves_properties": sorted(CHECKS),
            "kind_free_text": "Coq 8.16.1 development (theories/Model executable models, theories/Proofs lemmas, theories/Properties pinned theorems with "
                              "Print Assumptions), tied to /repo on every run by a differential correspondence check: Python generates cases, the Rust harness "
                              "(hooks on) runs the implementation, the extracted model (OCaml/zarith) or coqc vm_compute runs the model, Python compares and "
                              "evaluates the property's decidable form on the implementation's own output.",
        }],
        "checks": checks,
        "not_applicable": na,
        "notes": "Extraction directives: those of Coq's ExtrOcamlBasic.v and ExtrOcamlZBigInt.v plus one of ours: Extract Constant Z.gcd => Big_int_Z.gcd_big_int. Known/fixed findings: known_findings.json.",
    }
    with open(os.path.join(VERIF, "MANIFEST.json"), "w") as f:
        json.dump(m, f, indent=1)
    print("MANIFEST.json written:", len(checks), "checks,", len(na), "not yet")


if __name__ == "__main__":
    main()
