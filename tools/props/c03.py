"""C03 - faces are reciprocal: both sides see the same face, stored once."""
import json
import math

import common as C
import geo
import tess as T


def run(res, replay=None):
    tier, seed = res.tier, res.seed
    res.rule = ("geometric suite incl. masks: all-pairs comparison of the non-symmetric face integrals i->j(s) vs j->i(-s) (area, shifted centroid, opposite "
                "plane normals) above the 1e-9 threshold; compact face list: unshifted faces between constructed cells once and listed by both, periodic faces "
                "in reciprocal pairs, antisymmetric flux cancels. non-trivial = distinct (input, unordered neighbour pair)")
    if replay:
        rp = json.load(open(replay))["replay"]
        data = geo.geo_data(tier, seed, inputs=[rp["input"]], name="geo_replay")
    else:
        data = geo.geo_data(tier, seed)
    for k_in, rec in enumerate(data["recs"]):
        inp = rec["inp"]
        o = rec["impl_raw"]
        dim = inp["dim"]
        res.count(f"{inp['family']}:{dim}D:{'periodic' if inp['periodic'] else 'reflective'}{':masked' if inp.get('mask') else ''}")
        ctx = {"input": T.inp_json(inp)}
        if o is None or "panic" in o or o.get("vor") == "panic":
            res.violation("panic:" + geo.panic_class(rec), f"construction panicked: {(o or {}).get('panic')}", ctx)
            continue
        tol = T.tolerances(inp)
        w = rec["ms"]["w"]
        thr = tol["area_min"] + tol["area_tol"]
        n = len(inp["gens"])
        active = [inp.get("mask") is None or inp["mask"][i] for i in range(n)]
        views = {i: geo.impl_cell_view(rec, i) for i in range(n) if active[i]}
        lmax = max(tol["L"][:dim])
        ptol = max(100 * max(tol["eps"][:dim]), 10 * tol["rel"] * lmax)
        for i, vi in views.items():
            if vi is not None and not vi["faces_mapped"]:
                res.violation("C03:face-list-shape" + geo.mismatch_class(rec), f"cell {i}: {vi['n_face_integrals']} face integrals but {len(vi['face_planes'])} planes of valid dimensionality carry vertices", dict(ctx, cell=i))
            if vi is None or not vi["faces_mapped"]:
                continue
            for key, f in vi["faces"].items():
                if key[0] != "ngb":
                    continue
                _, j, s = key
                if not active[j]:
                    continue
                res.nontriv((k_in, min(i, j), max(i, j), s if i <= j else tuple(-x for x in s)))
                if f["area"] <= thr:
                    continue
                vj = views.get(j)
                back = ("ngb", i, tuple(-x for x in s))
                g = vj["faces"].get(back) if vj and vj["faces_mapped"] else None
                pctx = dict(ctx, i=i, j=j, shift=s)
                if g is None:
                    res.violation("C03:not-reciprocal-missing" + geo.mismatch_class(rec), f"cell {i} has a face of area {f['area']:.6g} towards {j} with shift {s}, cell {j} has none towards {i} with shift {back[2]}", pctx)
                    continue
                if abs(f["area"] - g["area"]) > tol["area_tol"]:
                    res.violation("C03:not-reciprocal-area" + geo.mismatch_class(rec), f"face {i}->{j} shift {s}: area {f['area']} vs {g['area']} seen from {j}", pctx)
                    continue
                if f["area"] > 1e3 * thr:
                    for k in range(dim):
                        if abs(f["centroid"][k] - (g["centroid"][k] + s[k] * w[k])) > ptol * max(1.0, 1e-3 * tol["face_scale"] / f["area"]):
                            res.violation("C03:not-reciprocal-centroid" + geo.mismatch_class(rec), f"face {i}->{j} shift {s}: centroid {f['centroid']} vs {g['centroid']} (+shift) seen from {j}", pctx)
                            break
                ni = vi["planes"][f["plane"]]["n"]
                nj = vj["planes"][g["plane"]]["n"]
                if any(abs(ni[k] + nj[k]) > 1e-9 + 10 * tol["rel"] for k in range(3)):
                    res.violation("C03:not-reciprocal-normal" + geo.mismatch_class(rec), f"face {i}->{j} shift {s}: normals {ni} and {nj} are not opposite", pctx)
        # compact storage
        vor = T.decode_vor(o["vor"])
        seen = {}
        for idx, f in enumerate(vor["faces"]):
            if f["right"] is None:
                continue
            s = geo.shift_tuple(f["shift"], w) if f["shift"] is not None else None
            seen.setdefault((f["left"], f["right"], s), []).append(idx)
        for (l, r, s), idxs in seen.items():
            if len(idxs) != 1:
                res.violation("C03:stored-twice" + geo.mismatch_class(rec), f"face ({l}, {r}, shift {s}) is stored {len(idxs)} times", dict(ctx, face=[l, r, s]))
            f = vor["faces"][idxs[0]]
            if s is None and active[l] and active[r]:
                if (r, l, None) in seen:
                    res.violation("C03:stored-twice" + geo.mismatch_class(rec), f"unshifted face between constructed cells {l} and {r} is stored from both sides", dict(ctx, face=[l, r]))
                for c in (l, r):
                    if idxs[0] not in vor["cells"][c]["face_indices"]:
                        res.violation("C03:not-listed-by-both" + geo.mismatch_class(rec), f"unshifted face {idxs[0]} between {l} and {r} is not listed by cell {c}", dict(ctx, face=idxs[0]))
            if s is not None and active[r] and f["area"] > thr:
                if (r, l, tuple(-x for x in s)) not in seen:
                    res.violation("C03:periodic-pair-missing" + geo.mismatch_class(rec), f"periodic face ({l}, {r}, {s}) of area {f['area']:.6g} has no reciprocal partner ({r}, {l}, {tuple(-x for x in s)})", dict(ctx, face=[l, r, s]))
        # unshifted faces of non-negligible area between constructed cells must be stored
        for i, vi in views.items():
            if vi is None or not vi["faces_mapped"]:
                continue
            for key, f in vi["faces"].items():
                if key[0] == "ngb" and key[2] == (0, 0, 0) and vi["planes"][f["plane"]]["shift"] is None and f["area"] > thr and active[key[1]]:
                    j = key[1]
                    if (i, j, None) not in seen and (j, i, None) not in seen:
                        res.violation("C03:not-stored" + geo.mismatch_class(rec), f"face between constructed cells {i} and {j} (area {f['area']:.6g}) is absent from the face list", dict(ctx, i=i, j=j))
        # antisymmetric flux over all cells
        if all(active):
            u = (0.2672612419124244, 0.5345224838248488, 0.8017837257372732)
            tot = 0.0
            scale = 0.0
            for c, cell in enumerate(vor["cells"]):
                for idx in cell["face_indices"]:
                    f = vor["faces"][idx]
                    if f["right"] is None:
                        continue
                    sgn = 1.0 if f["left"] == c else -1.0
                    phi = sgn * f["area"] * sum(f["normal"][k] * u[k] for k in range(3))
                    tot += phi
                    scale += abs(phi)
            if abs(tot) > 100 * tol["area_tol"] + 1e-11 * scale:
                res.violation("C03:flux-not-cancelling" + geo.mismatch_class(rec), f"antisymmetric flux summed over all cells = {tot} (sum of magnitudes {scale})", ctx)
        if k_in < 1:
            res.sample({"input": T.inp_json(inp), "stored_faces": len(vor["faces"])})
