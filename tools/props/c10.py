"""C10 - exact in-sphere predicate and grid map.
Correspondence: hook in_sphere_exact vs extracted Coq model (all cases) vs Coq vm_compute
(subsample); hook iloc / iloc_raw vs the Flocq model (vm_compute, bit for bit).
Spec on the implementation's own output: sign of the lifted determinant (independent Python
big-integer evaluation); grid values in range and monotone on every queried position."""
import json
import os

import common as C


def det3(m):
    return (m[0][0] * (m[1][1] * m[2][2] - m[1][2] * m[2][1])
            - m[0][1] * (m[1][0] * m[2][2] - m[1][2] * m[2][0])
            + m[0][2] * (m[1][0] * m[2][1] - m[1][1] * m[2][0]))


def insphere_spec(a, b, c, d, v):
    """sign of the 4x4 determinant with rows (p - a, |p - a|^2), expanded along the first row"""
    rows = []
    for p in (b, c, d, v):
        x, y, z = p[0] - a[0], p[1] - a[1], p[2] - a[2]
        rows.append((x, y, z, x * x + y * y + z * z))
    det = 0
    for j in range(4):
        minor = [[rows[i][k] for k in range(4) if k != j] for i in range(1, 4)]
        det += (-1) ** j * rows[0][j] * det3(minor)
    # rows b,c,d,v of the relative lifted matrix; the code's matrix has them as columns: same determinant
    return (det > 0) - (det < 0)


TOP = (1 << 52)


def sphere_points(p, q, r):
    pts = set()
    import itertools
    for perm in set(itertools.permutations((p, q, r))):
        for sx in (1, -1):
            for sy in (1, -1):
                for sz in (1, -1):
                    pts.add((sx * perm[0], sy * perm[1], sz * perm[2]))
    return sorted(pts)


def gen_insphere(rng, tier):
    cases = []  # (family, a,b,c,d,v)
    n_rand = 20000 if tier == "quick" else 200000
    for _ in range(n_rand):
        pts = [tuple(rng.below(TOP) for _ in range(3)) for _ in range(5)]
        cases.append(("random52", pts))
    # co-spherical sets with full-precision coordinates: small lattice points on a sphere, rotated and
    # scaled by an integer matrix M with M^T M = k I (from a random integer quaternion), translated into
    # the grid; exactly on the sphere, and one coordinate moved by +-1 (nearly co-spherical, 52 bits)
    n_q = 30000 if tier == "quick" else 300000
    made = 0
    while made < n_q:
        qa, qb, qc, qd = (rng.range(-(1 << 22), 1 << 22) for _ in range(4))
        M = [[qa * qa + qb * qb - qc * qc - qd * qd, 2 * (qb * qc - qa * qd), 2 * (qb * qd + qa * qc)],
             [2 * (qb * qc + qa * qd), qa * qa - qb * qb + qc * qc - qd * qd, 2 * (qc * qd - qa * qb)],
             [2 * (qb * qd - qa * qc), 2 * (qc * qd + qa * qb), qa * qa - qb * qb - qc * qc + qd * qd]]
        p, q, r = rng.range(0, 5), rng.range(0, 5), rng.range(1, 5)
        sp = sphere_points(p, q, r)
        if len(sp) < 5:
            continue
        rot = [tuple(sum(M[i][k] * u[k] for k in range(3)) for i in range(3)) for u in sp]
        ext = max(abs(x) for v in rot for x in v)
        if ext == 0 or 2 * ext + 2 >= TOP:
            continue
        ctr = tuple(rng.range(ext + 1, TOP - 2 - ext) for _ in range(3))
        idx = list(range(len(rot)))
        rng.shuffle(idx)
        pts = [tuple(ctr[k] + rot[i][k] for k in range(3)) for i in idx[:5]]
        fam = "cospherical-rotated"
        if rng.chance(0.8):
            j = rng.below(5)
            k = rng.below(3)
            pl = list(pts[j])
            pl[k] += rng.choice([-1, 1])
            pts[j] = tuple(pl)
            fam = "cospherical-rotated+-1"
        cases.append((fam, pts))
        made += 1
    # co-spherical clusters: five of the 48 signed permutations of (p, q, r) with full-mantissa p, q, r below 2^8..2^24 around a random centre of the
    # 52-bit grid - all five points within 2^25 grid units of each other, so every difference and every squared norm is an exact double while the
    # products of the determinant expansion are not (a floating-point "fast path" for nearby points returns rounding noise instead of 0)
    import itertools as _it
    for _ in range(4000 if tier == "quick" else 40000):
        bits = rng.range(8, 24)
        pq = [rng.range(1, (1 << bits) - 1) for _ in range(3)]
        if len(set(pq)) < 3:
            continue
        cand = []
        for _k in range(12):
            perm = list(pq)
            rng.shuffle(perm)
            cand.append(tuple(x * rng.choice([-1, 1]) for x in perm))
        cand = list(dict.fromkeys(cand))
        if len(cand) < 5:
            continue
        ext = 1 << bits
        ctr = tuple(rng.range(ext + 1, TOP - 2 - ext) for _ in range(3))
        pts = [tuple(ctr[k] + u[k] for k in range(3)) for u in cand[:5]]
        fam = "cospherical-cluster"
        if rng.chance(0.5):
            j, k = rng.below(5), rng.below(3)
            pl = list(pts[j])
            pl[k] += rng.choice([-1, 1])
            pts[j] = tuple(pl)
            fam = "cospherical-cluster+-1"
        cases.append((fam, pts))
    n_adv = 3000 if tier == "quick" else 30000
    for _ in range(n_adv):
        kind = rng.below(6)
        if kind <= 2:
            # co-spherical integer points, scaled and translated into the grid, optionally +-1
            p, q, r = rng.range(0, 7), rng.range(0, 7), rng.range(1, 7)
            sp = sphere_points(p, q, r)
            if len(sp) < 5:
                continue
            maxc = max(p, q, r)
            s = 1 << rng.range(0, 47)
            s = max(1, s // (maxc + 1)) if s * maxc >= TOP // 2 else s
            lo = s * maxc
            if TOP - 1 - lo <= lo:
                continue
            ctr = tuple(rng.range(lo, TOP - 1 - lo) for _ in range(3))
            idx = list(range(len(sp)))
            rng.shuffle(idx)
            pts = [tuple(ctr[k] + s * sp[i][k] for k in range(3)) for i in idx[:5]]
            fam = "cospherical"
            if kind >= 1:
                j = rng.below(5)
                k = rng.below(3)
                dlt = rng.choice([-1, 1])
                pl = list(pts[j])
                pl[k] = min(TOP - 1, max(0, pl[k] + dlt))
                pts[j] = tuple(pl)
                fam = "cospherical+-1"
            cases.append((fam, pts))
        elif kind == 3:
            # coplanar quadruple a,b,c,d (orientation 0) and arbitrary v
            a = tuple(rng.below(1 << 40) + (1 << 50) for _ in range(3))
            u = tuple(rng.range(-(1 << 30), 1 << 30) for _ in range(3))
            w = tuple(rng.range(-(1 << 30), 1 << 30) for _ in range(3))
            def comb(i, j):
                return tuple(a[k] + i * u[k] + j * w[k] for k in range(3))
            pts = [a, comb(1, 0), comb(0, 1), comb(rng.range(-3, 3), rng.range(-3, 3)),
                   tuple(rng.below(TOP) for _ in range(3))]
            cases.append(("coplanar", pts))
        elif kind == 4:
            pts = [tuple(rng.below(TOP) for _ in range(3)) for _ in range(5)]
            i, j = rng.below(5), rng.below(5)
            pts[i] = pts[j]
            cases.append(("repeated", pts))
        else:
            pts = [tuple(rng.choice([0, TOP - 1, rng.below(TOP)]) for _ in range(3)) for _ in range(5)]
            cases.append(("extremes", pts))
    return cases


def gen_boxes(rng, tier):
    """(periodic, dim, anchor, width, generator) with generators in the closed box, many on walls."""
    out = []
    n = 150 if tier == "quick" else 1500
    # the always-failing baseline test's box (z axis): generators on z = anchor.z
    fixed = [
        (False, 3, (0.0, 0.0, 0.0), (1.0, 1.0, 1.0), (0.0, 0.0, 0.0)),
        (False, 3, (0.0, 0.0, 0.0), (1.0, 1.0, 1.0), (1.0, 1.0, 1.0)),
        (False, 3, (0.0, 0.0, 0.0), (1.0, 1.0, 1.0), (0.5, 0.0, 1.0)),
        (False, 3, (-14.17150624593099, 16.202089309692383, 26.540990829467773),
         (32.670213063557945, 4.626067479451496, 0.2923425038655587),
         (15.915996233622232, 18.376726786295574, 26.540990829467773)),
        (True, 3, (0.0, 0.0, 0.0), (1.0, 1.0, 1.0), (0.0, 1.0, 0.5)),
        (True, 2, (2.0, 2.0, 2.0), (2.0, 2.0, 1.0), (2.0, 4.0, 7.0)),
        (True, 1, (-3.0, 0.0, 0.0), (0.7, 5.0, 5.0), (-3.0, 9.0, 9.0)),
    ]
    for f in fixed:
        out.append(("fixed",) + f)
    for _ in range(n):
        periodic = rng.chance(0.5)
        dim = rng.range(1, 3)
        mag = rng.choice([1e-3, 1.0, 1.0, 1e3, 1e6, 1e15])
        width = tuple(mag * rng.choice([1.0, rng.uniform(0.01, 1.0), rng.uniform(0.5, 2.0)]) for _ in range(3))
        offs = rng.choice([0.0, 0.0, 1.0, -1.0, rng.uniform(-10, 10), rng.uniform(-1000, 1000)])
        anchor = tuple(offs * w * rng.choice([0.0, 1.0, rng.uniform(0, 1)]) for w in width)
        g = []
        for k in range(3):
            a, w = anchor[k], width[k]
            hi = a + w
            c = rng.below(6)
            if c == 0:
                x = a
            elif c == 1:
                x = hi
            elif c == 2:
                x = C.next_up(a, rng.range(1, 3))
            elif c == 3:
                x = C.next_up(hi, -rng.range(1, 3))
            else:
                x = a + w * rng.unit()
            x = min(max(x, a), hi)
            g.append(x)
        fam = "box:%s:%dD" % ("periodic" if periodic else "reflective", dim)
        out.append((fam, periodic, dim, anchor, width, tuple(g)))
    return out


def norm_box(dim, anchor, width):
    """the API's normalisation of unused axes (Voronoi::build_internal)"""
    a, w = list(anchor), list(width)
    if dim == 1:
        a[1], w[1] = -0.5, 1.0
    if dim <= 2:
        a[2], w[2] = -0.5, 1.0
    return tuple(a), tuple(w)


def run(res, replay=None):
    tier, seed = res.tier, res.seed
    rng = C.Rng(seed)
    wd = C.rundir("C10")
    os.makedirs(wd, exist_ok=True)
    res.rule = ("in-sphere: exhaustive 5-tuples over {0,1}^3 (and translated to the top of the 52-bit range; "
                "{0,1,2}^3 in thorough), random 52-bit tuples, adversarial families (co-spherical integer sets "
                "exact and +-1, coplanar, repeated points, extremes); non-trivial = distinct tuple whose result "
                "is nonzero or that is exactly co-spherical. grid: boxes x generators (many on walls/corners) -> "
                "every position iloc can be asked for (generator, six mirror images, periodic images); "
                "non-trivial = distinct (box, position).")
    debug = C.build_harness("debug")
    release = C.build_harness("release")

    # ---------------- in-sphere predicate: listed cases
    cases = []
    if replay:
        rp = json.load(open(replay))["replay"]
        if "points" in rp:
            cases.append(("replay", [tuple(p) for p in rp["points"]]))
    cases += gen_insphere(rng, tier)
    cf = os.path.join(wd, "insphere.cases")
    with open(cf, "w") as f:
        for fam, pts in cases:
            f.write("insphere " + " ".join(str(x) for p in pts for x in p) + "\n")
        # exhaustive sweeps
        sweeps = [(2, 0), (2, TOP - 2)]
        if tier == "thorough":
            sweeps += [(3, 0), (3, TOP - 3)]
        sweep_lines = {}
        ln = len(cases)
        for k, off in sweeps:
            for ai in range(k ** 3):
                f.write(f"insphere_sweep {k} {off} {ai}\n")
                sweep_lines[ln] = (k, off, ai)
                ln += 1
    rc_m, model, mout = C.run_model(cf)
    for exe, tag in ((debug, "debug"), (release, "release")):
        rc, impl, out = C.run_impl(exe, cf, os.path.join(wd, f"insphere.{tag}.out"))
        for i, (fam, pts) in enumerate(cases):
            o = impl.get(i)
            if tag == "debug":
                res.count("insphere:" + fam)
            spec = insphere_spec(*pts)
            if o is None or "panic" in o:
                res.violation("insphere:panic", f"in_sphere_test_exact panicked/absent ({tag}) on {pts}: {o}",
                              {"points": pts, "build": tag})
                continue
            r = C.b2f(o["r"])
            m = model.get(i)
            if m is None or int(m[0]) != r:
                res.disagreements += 1
                if r != spec:
                    res.violation("insphere:wrong-sign", f"in_sphere_test_exact={r} but sign of the lifted determinant is {spec} ({tag}) on {pts}",
                                  {"points": pts, "impl": r, "spec": spec, "model": m, "build": tag})
                else:
                    res.violation("corr:insphere", f"model/implementation disagree on {pts}: impl {r} model {m} (spec {spec}); theorem C10_insphere_is_det vs extraction",
                                  {"points": pts, "impl": r, "model": m, "correspondence": "insphere_model vs in_sphere_test_exact"}, no_input=True)
            elif r != spec:
                res.violation("insphere:wrong-sign", f"in_sphere_test_exact={r} but sign of the lifted determinant is {spec} on {pts}",
                              {"points": pts, "impl": r, "spec": spec, "build": tag})
            if tag == "debug" and (r != 0 or fam.startswith("cospherical")):
                res.nontriv(hash(tuple(pts)))
        for ln, (k, off, ai) in sweep_lines.items():
            o = impl.get(ln)
            m = model.get(ln)
            if o is None or "s" not in o or m is None:
                res.violation("insphere:sweep-missing", f"sweep {k} {off} {ai} failed ({tag}): {str(o)[:200]}", {"sweep": [k, off, ai]})
                continue
            s_i, s_m = o["s"], m[0]
            if tag == "debug":
                res.count("insphere:exhaustive-k%d" % k, len(s_i))
                res.nontriv(("sweep", k, off, ai))
            if s_i != s_m:
                res.disagreements += 1
                n = k ** 3
                j = next(j for j in range(min(len(s_i), len(s_m))) if s_i[j] != s_m[j])
                vi, di, ci, bi = j % n, (j // n) % n, (j // (n * n)) % n, j // (n ** 3)
                pt = lambda i: (off + i // (k * k), off + (i // k) % k, off + i % k)
                pts = [pt(ai), pt(bi), pt(ci), pt(di), pt(vi)]
                spec = insphere_spec(*pts)
                r = {"-": -1, "0": 0, "+": 1}[s_i[j]]
                if r != spec:
                    res.violation("insphere:wrong-sign", f"in_sphere_test_exact={r}, lifted determinant sign {spec} on {pts}",
                                  {"points": pts, "impl": r, "spec": spec, "build": tag})
                else:
                    res.violation("corr:insphere", f"model differs from implementation on {pts}", {"points": pts}, no_input=True)
    for fam, pts in cases[:2]:
        res.sample({"family": fam, "points": pts, "sign": insphere_spec(*pts)})

    # cross-check of the extraction: a subsample through vm_compute inside Coq
    sub = [c for i, c in enumerate(cases) if i % max(1, len(cases) // 300) == 0][:300]
    body = "From Coq Require Import ZArith List. Import ListNotations. Open Scope Z_scope.\nFrom MV Require Import Model.Insphere.\n"
    body += "Definition cs : list (P3*P3*P3*P3*P3) := [\n" + ";\n".join(
        "(" + ",".join("(%d,%d,%d)" % p for p in pts) + ")" for _, pts in sub) + "].\n"
    body += "Eval vm_compute in map (fun '(a,b,c,d,v) => insphere_model a b c d v) cs.\n"
    rc, out = C.coq_eval(body, "c10_insphere")
    import re
    vals = [int(x) for x in re.findall(r"-?\d+", out.split("=", 1)[1].split(":")[0])] if "=" in out else []
    if rc != 0 or len(vals) != len(sub):
        res.violation("corr:coq-eval", "vm_compute cross-check of insphere_model failed to run: " + out[-300:], {"coq": out[-300:]}, no_input=True)
    else:
        for (fam, pts), v in zip(sub, vals):
            if v != insphere_spec(*pts):
                res.violation("corr:extraction", f"Coq vm_compute insphere_model={v} differs from spec on {pts}", {"points": pts}, no_input=True)
        res.notes["coq_vm_compute_crosscheck_cases"] = len(sub)

    # ---------------- the model regenerated from the source: src/geometry.rs -> Gallina (tools/translate_insphere.py), proved equal to
    # insphere_model by Coq on every run, so that the theorems of Properties/C10.v speak about what the source says now
    import translate_insphere as TI
    try:
        gen, info = TI.gallina(os.path.join(C.REPO, "src", "geometry.rs"))
        rc_g, out_g = C.coq_eval(gen, "C10_gen")
        gen_ok = rc_g == 0 and "Closed under the global context" in out_g
        detail = out_g[-300:].replace("\n", " ")
        res.notes["source_translation"] = {"lets": info["lets"], "macros": info["macros"], "sign_glue": [f"{c}: {k}" for c, k in info["glue"]], "proved_equal_to_model": gen_ok}
    except TI.TranslationError as e:
        gen_ok, detail = False, "translator: " + str(e)
        res.notes["source_translation"] = {"error": str(e)}
    if not gen_ok:
        found = any(not v["no_input"] for v in res.violations)
        res.violation("proof:C10-source-translation", "the Gallina translation of in_sphere_test_exact (src/geometry.rs) is no longer proved equal to insphere_model "
                      "(theorem insphere_src_is_model of the generated C10_gen.v): " + detail, {"obligation": "C10_gen.v insphere_src_is_model", "detail": detail}, no_input=True)
    # ---------------- grid map
    boxes = gen_boxes(rng, tier)
    if replay:
        rp = json.load(open(replay))["replay"]
        if "box" in rp:
            b = rp["box"]
            boxes.insert(0, ("replay", b["periodic"], b["dim"], tuple(b["anchor"]), tuple(b["width"]), tuple(b["gen"])))
    cf = os.path.join(wd, "iloc.cases")
    with open(cf, "w") as f:
        for fam, periodic, dim, anchor, width, g in boxes:
            a, w = norm_box(dim, anchor, width)
            f.write("ilocq %d %d %s %s %s\n" % (periodic, dim, " ".join(str(C.f2b(x)) for x in a),
                                                 " ".join(str(C.f2b(x)) for x in w), " ".join(str(C.f2b(x)) for x in g)))
    rc, impl_d, _ = C.run_impl(debug, cf, os.path.join(wd, "iloc.debug.out"))
    rc, impl_r, _ = C.run_impl(release, cf, os.path.join(wd, "iloc.release.out"))
    # model evaluation inside Coq on exactly the positions the implementation produced
    items = []
    for i, (fam, periodic, dim, anchor, width, g) in enumerate(boxes):
        o = impl_r.get(i)
        if o is None or "panic" in o:
            res.violation("iloc:panic", f"grid construction panicked on box {boxes[i]}: {o}", {"box": box_json(boxes[i])})
            continue
        a, w = norm_box(dim, anchor, width)
        for pj, pos in enumerate(o["pos"]):
            items.append((i, pj, periodic, dim, [C.f2b(x) for x in a], [C.f2b(x) for x in w], pos["x"]))
    body = ("From Coq Require Import ZArith List. Import ListNotations. Open Scope Z_scope.\n"
            "From MV Require Import Model.Grid.\n"
            "Definition cs : list (bool*Z*list Z*list Z*list Z) := [\n" +
            ";\n".join("(%s,%d,[%s],[%s],[%s])" % ("true" if p else "false", d, ";".join(map(str, a)), ";".join(map(str, w)), ";".join(map(str, x)))
                       for (_, _, p, d, a, w, x) in items) + "].\n"
            "Eval vm_compute in map (fun '(p,d,a,w,x) => map (fun '(t,g,ok) => (t,g,if ok:bool then 1 else 0)) (iloc_case p d a w x)) cs.\n")
    shards = C.shard(items, C.NPROC)
    model_vals = []
    import concurrent.futures as cf_
    def eval_shard(k):
        sh_items = shards[k]
        b = ("From Coq Require Import ZArith List. Import ListNotations. Open Scope Z_scope.\n"
             "From MV Require Import Model.Grid.\n"
             "Definition cs : list (bool*Z*list Z*list Z*list Z) := [\n" +
             ";\n".join("(%s,%d,[%s],[%s],[%s])" % ("true" if p else "false", d, ";".join(map(str, a)), ";".join(map(str, w)), ";".join(map(str, x)))
                        for (_, _, p, d, a, w, x) in sh_items) + "].\n"
             "Eval vm_compute in map (fun '(p,d,a,w,x) => map (fun '(t,g,ok) => (t,g,if ok:bool then 1 else 0)) (iloc_case p d a w x)) cs.\n")
        rc, out = C.coq_eval(b, "c10_iloc_%d" % k)
        if rc != 0 or "=" not in out:
            return None
        nums = [int(x) for x in re.findall(r"-?\d+", out.split("=", 1)[1].rsplit(":", 1)[0])]
        return nums
    with cf_.ThreadPoolExecutor(max_workers=C.NPROC) as ex:
        outs = list(ex.map(eval_shard, range(len(shards))))
    ok_model = all(o is not None for o in outs)
    flat = []
    if ok_model:
        for o, shd in zip(outs, shards):
            if len(o) != 9 * len(shd):
                ok_model = False
                break
            for j in range(len(shd)):
                flat.append([tuple(o[9 * j + 3 * k: 9 * j + 3 * k + 3]) for k in range(3)])
    if not ok_model:
        res.violation("corr:coq-eval-iloc", "vm_compute evaluation of iloc_case failed", {"coq": str(outs)[:300]}, no_input=True)
    # compare + spec
    per_box = {}
    for idx, it in enumerate(items):
        i, pj, periodic, dim, a, w, x = it
        o_r = impl_r[i]["pos"][pj]
        o_d = impl_d.get(i, {}).get("pos", [None] * (pj + 1))[pj] if i in impl_d and "pos" in impl_d[i] else None
        res.count("iloc:" + boxes[i][0])
        res.nontriv(("iloc", tuple(a), tuple(w), periodic, dim, tuple(x)))
        raw = o_r["raw"]
        in_range = all(0x3FF0000000000000 <= t <= 0x3FFFFFFFFFFFFFFF for t in raw)
        box = box_json(boxes[i])
        sig_pos = "iloc:out-of-range:%s:%s" % ("periodic" if periodic else "reflective", re.sub(r"[-\d]", "", o_r["what"]))
        if not in_range:
            res.violation(sig_pos, f"position {o_r['what']} of generator {boxes[i][5]} in box anchor={boxes[i][3]} width={boxes[i][4]} "
                          f"periodic={periodic} dim={dim} maps to t={[C.b2f(t) for t in raw]} outside [1,2) "
                          f"(release grid value {o_r['iloc']}, debug build: {'panic' if (o_d is None or o_d['iloc'] is None) else o_d['iloc']})",
                          {"box": box, "position": o_r["what"], "x": x, "t_bits": raw})
        elif o_d is None or o_d["iloc"] is None:
            res.violation("iloc:debug-panic", f"iloc panics in the debug build on in-range position {o_r['what']} box {box}", {"box": box, "position": o_r["what"]})
        elif o_d["iloc"] != o_r["iloc"]:
            res.violation("iloc:debug-release-differ", f"debug/release grid values differ on {box}", {"box": box})
        if in_range and o_r["iloc"] is not None:
            if any(not (0 <= v < (1 << 52)) for v in o_r["iloc"]):
                res.violation("iloc:value-range", f"grid value outside [0,2^52): {o_r['iloc']} box {box}", {"box": box})
        if ok_model:
            mv = flat[idx]
            if [m[0] for m in mv] != raw or (in_range and o_r["iloc"] is not None and [m[1] for m in mv] != o_r["iloc"]):
                res.disagreements += 1
                res.violation("corr:iloc", f"Flocq model and implementation differ on box {box} position {o_r['what']}: model {mv} impl raw {raw} iloc {o_r['iloc']}",
                              {"box": box, "position": o_r["what"], "x": x, "model": mv, "impl_raw": raw, "correspondence": "Model.Grid.iloc_case vs SimulationBoundary::iloc"}, no_input=True)
        per_box.setdefault(i, []).append((x, o_r["iloc"], raw, o_r["what"]))
    # monotonicity on the implementation's own values, per axis
    for i, lst in per_box.items():
        for k in range(3):
            pts = sorted(((C.b2f(x[k]), (il[k] if il is not None else None), C.b2f(raw[k]), what) for x, il, raw, what in lst), key=lambda t: t[0])
            for (x0, g0, t0, w0), (x1, g1, t1, w1) in zip(pts, pts[1:]):
                if t0 > t1 or (g0 is not None and g1 is not None and 1 <= t0 < 2 and 1 <= t1 < 2 and g0 > g1):
                    res.violation("iloc:not-monotone", f"grid map not monotone on axis {k}: x {x0} <= {x1} but t {t0} > {t1} / grid {g0} > {g1}; box {box_json(boxes[i])}",
                                  {"box": box_json(boxes[i]), "axis": k, "x": [x0, x1]})
    res.sample({"family": "iloc", "box": box_json(boxes[0]), "positions": [p["what"] for p in impl_r.get(0, {}).get("pos", [])]})
    res.notes["iloc_positions"] = len(items)


def box_json(b):
    fam, periodic, dim, anchor, width, g = b
    return {"periodic": bool(periodic), "dim": dim, "anchor": list(anchor), "width": list(width), "gen": list(g)}
