"""C14 - custom integrals receive an exact signed decomposition of the cell.
A separate downstream crate (public API only, no verification cfg) implements its own CellIntegral /
FaceIntegral: monomials up to degree 2 over cells, {area about the normal, first moments, plane residual}
over faces.  Its results are compared with the exact model's moments of the exact cell."""
import json
import math
import os

import common as C
import geo
import tess as T


def build_downstream(name):
    d = os.path.join(C.VERIF, "harness", name)
    rc, out, _ = C.sh(["cargo", "build", "--offline"], cwd=d, env={"CARGO_TARGET_DIR": os.path.join(C.CACHE, "target-downstream")}, timeout=1800)
    exe = os.path.join(C.CACHE, "target-downstream", "debug", "mvh_" + name)
    return rc, out, exe


def run(res, replay=None):
    tier, seed = res.tier, res.seed
    res.rule = ("a downstream crate implementing the public integral traits must compile; inputs (uniform, lattice, tiny, coplanar, co-spherical, anisotropic; 1D/2D/3D; "
                "periodic or not; masks): per constructed cell the ten monomial integrals of degree <= 2 vs the exact model (both decompositions), per face the signed area "
                "about the normal, first moments and plane residual of the base triangles vs the exact face, cells with face data vs without. non-trivial = distinct (input, cell)")
    rc, out, exe = build_downstream("downstream")
    if rc != 0:
        errs = [l for l in out.splitlines() if l.startswith("error")]
        res.violation("C14:downstream-cannot-implement", "a downstream crate cannot implement CellIntegral/FaceIntegral with the public API: " + "; ".join(errs[:3]),
                      {"crate": "harness/downstream", "errors": errs[:5]})
        return
    rc2, out2, exe2 = build_downstream("downstream_data")
    if rc2 != 0:
        errs = [l for l in out2.splitlines() if l.startswith("error")]
        sig = "C14:with-data-unimplementable" if any("E0119" in e for e in errs) else "C14:with-data-crate-does-not-compile"
        res.violation(sig, "a downstream crate cannot implement CellIntegralWithData with Data = u64: " + "; ".join(errs[:2]), {"crate": "harness/downstream_data", "errors": errs[:5]})
    else:
        rcx, outx, _ = C.sh([exe2], timeout=300)
        if rcx != 0:
            res.violation("C14:data-misdelivered", "per-cell data was not delivered to the cell with the same generator index: " + outx[-300:], {"crate": "harness/downstream_data"})
    rng = C.Rng(seed * 2741 + 41)
    inputs = []
    if replay:
        inputs = [json.load(open(replay))["replay"]["input"]]
    else:
        cnt = 36 if tier == "quick" else 360
        fams = ["uniform", "lattice", "tiny", "coplanar", "cospherical", "aniso"]
        k = 0
        while len(inputs) < cnt:
            # every family in every dimensionality, periodic and not (the indices are decoupled: k % 6, (k // 6) % 3, (k // 18 + k) % 2)
            inp = T.gen_input(rng, fams[k % len(fams)], (k // len(fams)) % 3 + 1, (k // (3 * len(fams)) + k) % 2 == 1, nmax=16)
            k += 1
            if T.known_class(inp):
                continue
            if k % 4 == 0 and len(inp["gens"]) >= 2:
                inp = T.with_mask(rng, inp, "random")
            inputs.append(inp)
        # almost coplanar adjacent faces (2D/3D): the decompositions must use the same foot point on both sides of an edge even when its two
        # planes are nearly parallel.  These inputs are in the input class of K2 (two generators closer than 1e-4 widths); the class is then
        # decided from the construction history (geo.k2_applies), so a construction without a wrong filter decision is held to the normal standard
        for j in range(6 if tier == "quick" else 60):
            inp = T.gen_input(rng, "nearcoplanar", 3 if j % 3 else 2, j % 2 == 1, nmax=8)
            if "K1-wall" in T.known_class(inp):
                continue
            inputs.append(inp)
    data = geo.geo_data(tier, seed, inputs=inputs, name="c14", opts=1 | 2 | 8, flags=2 | 4 | 8)
    wd = C.rundir("c14")
    cf = os.path.join(wd, "down.cases")
    with open(cf, "w") as f:
        for inp in inputs:
            f.write(T.case_line(inp, 0) + "\n")
    rc, dout, _ = C.run_impl(exe, cf, os.path.join(wd, "down.out"))
    for k, rec in enumerate(data["recs"]):
        inp = rec["inp"]
        o = dout.get(k)
        dim = inp["dim"]
        ctx = {"input": T.inp_json(inp)}
        res.count(f"{inp['family']}:{dim}D:{'periodic' if inp['periodic'] else 'reflective'}{':masked' if inp.get('mask') else ''}")
        if o is None or "panic" in o or (rec["impl_raw"] or {}).get("panic"):
            res.violation("panic:" + geo.panic_signature(rec["impl_raw"], inp), "construction panicked in the downstream crate", ctx)
            continue
        tol = T.tolerances(inp)
        a, w = T.norm_box(dim, inp["anchor"], inp["width"])
        mmax = max(max(abs(a[c]), abs(a[c] + w[c])) for c in range(3))
        n = len(inp["gens"])
        active = [i for i in range(n) if inp.get("mask") is None or inp["mask"][i]]
        if [m["idx"] for m in o["moments"]] != active:
            res.violation("C14:cell-order", f"cell integrals come for cells {[m['idx'] for m in o['moments']]}, constructed cells are {active}", ctx)
            continue
        g = rec["ms"]["gens"]
        for mo in o["moments"]:
            gi = mo["idx"]
            m = rec["model"].get(gi)
            if m is None:
                continue
            res.nontriv((k, gi))
            got = [C.b2f(x) for x in mo["m"]]
            vol = float(m["volume"])
            exp = [vol] + [float(m["centroid"][c]) * vol if m["centroid"][c] is not None else 0.0 for c in range(3)] + [float(x) for x in m["m2"]]
            degs = [0, 1, 1, 1, 2, 2, 2, 2, 2, 2]
            names = ["1", "x", "y", "z", "xx", "xy", "xz", "yy", "yz", "zz"]
            for j in range(10):
                t = 10 * tol["vol_tol"] * max(1.0, mmax) ** degs[j]
                if not (abs(got[j] - exp[j]) <= t):
                    res.violation("C14:cell-moment" + geo.mismatch_class(rec), f"cell {gi}: signed sum of the tetrahedron integrals of {names[j]} = {got[j]} but the integral over the exact cell is {exp[j]} "
                                  f"(family {inp['family']} dim {dim} periodic {inp['periodic']})", dict(ctx, cell=gi, monomial=names[j]))
                    break
            # the model's two decompositions agree exactly (validation of with_faces_eq_without_faces in exact arithmetic)
            if dim == 3 and "wf_m2" in m:
                if m["wf_volume"] != m["volume"] or any(x != y for x, y in zip(m["wf_m2"], m["m2"])):
                    res.violation("corr:model-decompositions-differ", f"exact model: per-vertex and per-face decompositions of cell {gi} have different second moments", dict(ctx, cell=gi), no_input=True)
        # with faces vs without (3D)
        if dim == 3 and "wf_moments" in o:
            for m1, m2 in zip(o["moments"], o["wf_moments"]):
                for j in range(10):
                    degs = [0, 1, 1, 1, 2, 2, 2, 2, 2, 2]
                    # two floating-point evaluations of the same integral: they may differ by rounding only (measured: < 1e-4 of this bound
                    # on every family), not by the 1e-9 of the box volume allowed against the exact model
                    t = max(1e-11, tol["relc"]) * max(abs(C.b2f(m1["m"][0])), 1e-3 * tol["vol"]) * max(1.0, mmax) ** degs[j]
                    _r = abs(C.b2f(m1["m"][j]) - C.b2f(m2["m"][j])) / (max(abs(C.b2f(m1["m"][0])), 1e-3 * tol["vol"]) * max(1.0, mmax) ** degs[j]) / max(1e-11, tol.get("relc", 0.0))
                    _k = "wf_ratio:" + inp["family"].split(":")[0]
                    res.notes[_k] = max(res.notes.get(_k, 0.0), _r)
                    if abs(C.b2f(m1["m"][j]) - C.b2f(m2["m"][j])) > t:
                        res.violation("C14:with-faces-differs" + geo.mismatch_class(rec), f"cell {m1['idx']}: moment #{j} differs between cells with and without face data: {C.b2f(m1['m'][j])} vs {C.b2f(m2['m'][j])}", dict(ctx, cell=m1["idx"]))
                        break
        # faces
        lmax = max(tol["L"][:dim])
        ptol = max(100 * max(tol["eps"][:dim]), 10 * tol["rel"] * lmax)
        by_cell = {}
        for fc in o["faces"]:
            by_cell.setdefault(fc["left"], []).append(fc)
        for gi in active:
            mv = geo.model_cell_view(rec, gi)
            iv = geo.impl_cell_view(rec, gi)
            if mv is None or iv is None:
                continue
            mine = by_cell.get(gi, [])
            if len(mine) != len(iv["face_planes"]):
                res.violation("C14:face-count", f"cell {gi}: {len(mine)} custom face integrals, {len(iv['face_planes'])} faces", dict(ctx, cell=gi))
                continue
            on_wall = geo.walls_of_generator(rec, gi)
            for p, fc in zip(iv["face_planes"], mine):
                key = iv["planes"][p]["key"]
                if C.b2f(fc["resid"]) > ptol:
                    res.violation("C14:triangle-off-plane" + geo.mismatch_class(rec), f"cell {gi} face {key}: a base triangle fed to the face integral is {C.b2f(fc['resid'])} off the face's plane", dict(ctx, cell=gi, face=str(key)))
                    break
                f = mv["faces"].get(key)
                area = C.b2f(fc["area"])
                if f is None:
                    if abs(area) > tol["area_min"] + tol["area_tol"]:
                        res.violation("C14:face-area" + geo.mismatch_class(rec), f"cell {gi}: face {key} has signed area {area} but is not a face of the exact cell", dict(ctx, cell=gi, face=str(key)))
                    continue
                if key[0] == "wall" and key[1] in on_wall:
                    continue
                if abs(area - f["area"]) > tol["area_tol"]:
                    res.violation("C14:face-area" + geo.mismatch_class(rec), f"cell {gi} face {key}: signed areas of the base triangles sum to {area}, the face area is {f['area']}", dict(ctx, cell=gi, face=str(key)))
                    break
        # symmetric face integrals = the face list of the tessellation = the non-symmetric list filtered by the rule of the structural model
        # (C14_sym_is_filtered theorem): keep a face iff it is a wall or periodic face, or left < right, or the right generator is not selected
        mask = inp.get("mask")

        def fkey(fc):
            return (fc["left"], fc["right"], tuple(fc["shift"]) if fc["shift"] is not None else None)

        def keep(fc):
            return fc["right"] is None or fc["shift"] is not None or fc["left"] < fc["right"] or (mask is not None and not mask[fc["right"]])
        for name, full, sym in (("", o["faces"], o["faces_sym"]),) + ((("with face data: ", o["wf_faces"], o["wf_faces_sym"]),) if "wf_faces_sym" in o else ()):
            exp = [fkey(fc) for fc in full if keep(fc)]
            got = [fkey(fc) for fc in sym]
            if exp != got:
                miss = [x for x in exp if x not in got][:3]
                extra = [x for x in got if x not in exp][:3]
                res.violation("C14:sym-face-list", f"{name}symmetric face integrals are not the rule-filtered per-cell face integrals (mask {mask}): {len(got)} faces, expected {len(exp)}; "
                              f"missing (left, right, shift) {miss}, unexpected {extra}", ctx)
                break
            if any(a["area"] != b["area"] or a["first"] != b["first"] for a, b in zip([fc for fc in full if keep(fc)], sym)):
                res.violation("C14:sym-face-values", f"{name}a symmetric face integral differs from the same face's per-cell integral", ctx)
                break
        if "wf_faces" in o and [fkey(fc) for fc in o["wf_faces"]] != [fkey(fc) for fc in o["faces"]]:
            res.violation("C14:with-faces-face-list", "face integrals of the cells with face data cover a different list of faces than those without", ctx)
        if k < 1:
            res.sample({"input": T.inp_json(inp), "moments_cell0": [C.b2f(x) for x in o["moments"][0]["m"]] if o["moments"] else None})
    res.notes["moment_tolerance"] = "10 vol_tol max(1, max|coordinate|)^degree"
