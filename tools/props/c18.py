"""C18 - clipping a cell is independent of vertex storage order.
Hook: cells reached by the builder (box clipped by the k-1 nearest bisectors), the k-th bisector applied to
permuted copies (random permutations of the array + rotations of the duals; all orders of the removed
vertices when <= 6 are removed).  Model: the combinatorial clip of Model/Cycle.v on the same arrays."""
import json
import os

import common as C
import geo
import tess as T


def canon(d):
    m = min(range(3), key=lambda i: d[i])
    return (d[m], d[(m + 1) % 3], d[(m + 2) % 3])


def closed_surface(duals):
    """every directed edge of the dual triangulation is matched by its reverse, once"""
    edges = {}
    for a, b, c in duals:
        for e in ((a, b), (b, c), (c, a)):
            edges[e] = edges.get(e, 0) + 1
    return all(v == 1 and edges.get((e[1], e[0]), 0) == 1 for e, v in edges.items())


def run(res, replay=None):
    tier, seed = res.tier, res.seed
    res.rule = ("3D reflective inputs (uniform, lattice, co-spherical, coplanar, anisotropic): for sampled cells and every prefix length k of their sorted neighbour list, "
                "the k-th clip is repeated on permuted/rotated copies (random permutations; exhaustive orders of the removed vertices up to 6): no panic, identical set of "
                "cyclic triples, equal volume, closed surface with three planes per vertex; output array equals the Coq combinatorial clip on the same array. "
                "non-trivial = distinct (input, cell, k) with >= 2 removed vertices")
    rng = C.Rng(seed * 4099 + 29)
    cases = []
    if replay:
        rp = json.load(open(replay))["replay"]
        cases = [(rp["input"], rp["cell"], rp["sites"], rp.get("perm_seed", 1))]
    else:
        cnt = 14 if tier == "quick" else 140
        fams = ["uniform", "lattice", "cospherical", "coplanar", "aniso", "uniform", "uniform"]
        for k in range(cnt):
            inp = T.gen_input(rng, fams[k % len(fams)], 3, False, nmax=40)
            if T.known_class(inp):
                continue
            n = len(inp["gens"])
            if n < 3:
                continue
            for _ in range(2):
                ci = rng.below(n)
                g = inp["gens"][ci]
                order = sorted((i for i in range(n) if i != ci), key=lambda i: sum((inp["gens"][i][c] - g[c]) ** 2 for c in range(3)))
                kmax = min(len(order), 14)
                for kk in range(1, kmax + 1):
                    cases.append((inp, ci, order[:kk], rng.below(1 << 30)))
    if not replay:
        # cells with many faces (> 64 planes): a generator surrounded by generators on a sphere
        import math
        for rep in range(2 if tier == "quick" else 8):
            m = rng.range(100, 170)
            ctr = [0.5, 0.5, 0.5]
            dirs = []
            for i in range(m):
                z = 1.0 - 2.0 * (i + 0.5) / m
                phi = i * 2.399963229728653
                r = math.sqrt(max(0.0, 1 - z * z))
                dirs.append((r * math.cos(phi), r * math.sin(phi), z))
            rng.shuffle(dirs)
            # nearly equal radii, increasing with the (spatially random) rank: every generator cuts the cell
            gens = [ctr] + [[ctr[c] + 0.25 * (1.0 + 1e-6 * rank) * d[c] for c in range(3)] for rank, d in enumerate(dirs)]
            inp = {"family": "manyfaces", "dim": 3, "periodic": False, "anchor": [0.0, 0.0, 0.0], "width": [1.0, 1.0, 1.0], "gens": gens, "mask": None}
            order = list(range(1, len(gens)))
            for kk in list(range(60, len(order) + 1, 1)):
                cases.append((inp, 0, order[:kk], rng.below(1 << 30)))
    if not replay:
        # one clip that removes many vertices at once (boundary cycle with tens of planes): a generator above a ring of m neighbours
        # (clipped first: an m-gonal cone), then the generator below it, whose bisector cuts all the lower vertices off in one clip
        import math
        for m in ([24, 40] if tier == "quick" else [17, 18, 24, 33, 40, 64, 65, 100]):
            ctr, rad, h = [0.5, 0.5, 0.5], 0.2, 0.3
            # apex of the cone (where the m ring bisectors nearly meet) on the axis; the lower generator's bisector passes just above it
            z_apex = ctr[2] + (h * h - rad * rad) / (2 * h)
            z_low = 2 * (z_apex + 0.02) - (ctr[2] + h)
            gens = [[ctr[0], ctr[1], ctr[2] + h], [ctr[0], ctr[1], z_low]]
            for i in range(m):
                a = 2 * math.pi * (i + 0.05 * rng.unit()) / m
                r = rad * (1.0 + 1e-5 * rng.unit())
                gens.append([ctr[0] + r * math.cos(a), ctr[1] + r * math.sin(a), ctr[2] + 1e-5 * (rng.unit() - 0.5)])
            inp = {"family": "bigclip", "dim": 3, "periodic": False, "anchor": [0.0, 0.0, 0.0], "width": [1.0, 1.0, 1.0], "gens": gens, "mask": None}
            g = gens[0]
            order = sorted(range(1, len(gens)), key=lambda i: sum((gens[i][c] - g[c]) ** 2 for c in range(3)))
            for kk in (len(order) - 1, len(order)):
                cases.append((inp, 0, order[:kk], rng.below(1 << 30)))
    wd = C.rundir("c18")
    os.makedirs(wd, exist_ok=True)
    cf = os.path.join(wd, "clip.cases")
    nperm = 12 if tier == "quick" else 40
    with open(cf, "w") as f:
        for inp, ci, sites, ps in cases:
            toks = ["clip", str(ps), str(nperm), "0"] + [str(C.f2b(x)) for x in inp["anchor"]] + [str(C.f2b(x)) for x in inp["width"]]
            toks += [str(len(inp["gens"]))] + [str(C.f2b(x)) for g in inp["gens"] for x in g]
            toks += [str(ci), str(len(sites))] + [str(s) for s in sites]
            f.write(" ".join(toks) + "\n")
    rc, impl, _ = C.run_impl(C.build_harness("debug"), cf, os.path.join(wd, "clip.out"))
    model_lines = []
    model_idx = []
    for k, (inp, ci, sites, ps) in enumerate(cases):
        o = impl.get(k)
        ctx = {"input": T.inp_json(inp), "cell": ci, "sites": sites, "perm_seed": ps}
        res.count(f"{inp['family']}:k={min(len(sites), 9)}{'+' if len(sites) > 9 else ''}")
        if o is None or "panic" in o:
            # the construction up to the clip under test failed: that is not about storage order; it is reported with the panic signature of the
            # tessellation checks (classes K1/K2/K4 of the recorded findings, decided from the input and the decision trace)
            res.violation("panic:" + geo.panic_signature(o, inp), f"clipping cell {ci} by its {len(sites)} nearest bisectors panicked before the clip under test: {(o or {}).get('panic')}", ctx)
            continue
        runs = o["runs"]
        if o["n_removed"] >= 2:
            res.nontriv((k,))
        ref = runs[0]
        if "panic" in ref:
            res.violation("C18:panic-reference", "the unpermuted clip panicked", ctx)
            continue
        ref_set = sorted(canon(d) for d in ref["out"])
        tol = T.tolerances(inp)
        vref = C.b2f(ref["volume"])
        if not closed_surface(ref["out"]) or len(set(ref_set)) != len(ref_set):
            res.violation("C18:not-closed", f"after the clip the dual triangulation of cell {ci} is not a closed surface with three planes per vertex", ctx)
        for pi, r in enumerate(runs):
            if "panic" in r:
                res.violation("C18:panic-under-permutation", f"clip of cell {ci} (k={len(sites)}, {o['n_removed']} removed vertices) panics for vertex order {r['in']}", dict(ctx, order=r["in"]))
                break
            if sorted(canon(d) for d in r["out"]) != ref_set:
                res.violation("C18:result-depends-on-order", f"clip of cell {ci} (k={len(sites)}): vertex order {r['in']} gives a different set of cyclic plane triples", dict(ctx, order=r["in"]))
                break
            if abs(C.b2f(r["volume"]) - vref) > tol["vol_tol"]:
                res.violation("C18:volume-depends-on-order", f"clip of cell {ci}: volume {C.b2f(r['volume'])} vs {vref} for another vertex order", dict(ctx, order=r["in"]))
                break
            if pi < 6 or pi % 7 == 0:
                toks = ["clipcomb", str(o["nplanes"]), str(o["nplanes"]), str(len(r["in"]))]
                for d, fl in zip(r["in"], r["removed"]):
                    toks += [str(x) for x in d] + [str(fl)]
                model_lines.append(" ".join(toks))
                model_idx.append((k, pi))
    mf = os.path.join(wd, "clip.model.cases")
    with open(mf, "w") as f:
        f.write("\n".join(model_lines) + "\n")
    rcm, outm, _ = C.sh([C.build_runner(), mf], timeout=3000)
    got = {}
    for ln in outm.splitlines():
        sp = ln.split(" ", 1)
        if len(sp) == 2 and sp[0].isdigit():
            got[int(sp[0])] = json.loads(sp[1])
    for j, (k, pi) in enumerate(model_idx):
        inp, ci, sites, ps = cases[k]
        r = impl[k]["runs"][pi]
        m = got.get(j, "missing")
        ctx = {"input": T.inp_json(inp), "cell": ci, "sites": sites, "perm_seed": ps, "order": r["in"]}
        if m == "missing":
            res.violation("corr:clip-model-missing", "the Coq combinatorial clip produced no output", ctx, no_input=True)
            continue
        exp = None if m is None else [tuple(d) for d in m["kept"]] + [tuple(d) for d in m["new"]]
        n_rem = sum(r["removed"])
        if n_rem == 0:
            exp = [tuple(d) for d in r["in"]]
        if exp is None or exp != [tuple(d) for d in r["out"]]:
            res.disagreements += 1
            res.violation("corr:clip-comb", f"implementation's vertex array after the clip differs from Model.Cycle.clip_comb on the same array (cell {ci}, k={len(sites)}): "
                          f"impl {r['out'][:6]}... model {None if exp is None else exp[:6]}...", dict(ctx, correspondence="Model.Cycle.clip_comb"), no_input=True)
    res.notes["arrays_compared_with_model"] = len(model_idx)
    res.notes["permutations_per_case"] = f"{nperm} random + all orders of the removed vertices (<= 6)"
    if cases:
        res.sample({"cell": cases[0][1], "sites": cases[0][2], "n": len(cases[0][0]["gens"]), "family": cases[0][0]["family"]})
