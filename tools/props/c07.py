"""C07 - partial construction equals the full tessellation restricted to the mask."""
import json
import os

import common as C
import geo
import structural as S
import tess as T


def cell_face_set(vor, c, w):
    """{(other side, shift seen from c): area} of the faces listed by cell c"""
    out = {}
    for i in vor["cells"][c]["face_indices"]:
        f = vor["faces"][i]
        sh = geo.shift_tuple(T.dv(f["shift"]), w) if f["shift"] is not None else None
        if f["left"] == c:
            key = (f["right"], sh, "L" if f["right"] is None else "")
            if f["right"] is None:
                key = ("wall", tuple(round(x) for x in T.dv(f["normal"])), None)
        else:
            key = (f["left"], sh, "")
        out.setdefault(key, []).append(C.b2f(f["area"]))
    return out


def run(res, replay=None):
    tier, seed = res.tier, res.seed
    res.rule = ("all 2^n masks of small inputs (n<=5) and sampled masks (random, single, none, all) of larger ones, 1D/2D/3D, periodic or not; each partial "
                "build compared with the full build of the same generators. non-trivial = distinct (input, mask) with a selected and an unselected cell")
    inputs = None
    if replay:
        rp = json.load(open(replay))["replay"]["input"]
        full = dict(rp, mask=None, group="replay", base=0)
        inputs = [full, dict(rp, group="replay", base=0)]
    data = S.struct_data(tier, seed, inputs)
    cases, impl = data["cases"], data["impl"]
    for k, case in enumerate(cases):
        if case.get("mask") is None:
            continue
        o, of = impl.get(k), impl.get(case["base"])
        ctx = {"input": T.inp_json(case)}
        res.count(f"{case['group']}:{case['dim']}D:{'periodic' if case['periodic'] else 'reflective'}")
        if o is None or "panic" in o or of is None or "panic" in of:
            bad = o if (o is None or "panic" in o) else of
            res.violation("panic:" + geo.panic_signature(bad, case), f"construction panicked: {(bad or {}).get('panic')}", ctx)
            continue
        mask = case["mask"]
        n = len(mask)
        a, w = T.norm_box(case["dim"], case["anchor"], case["width"])
        tol = T.tolerances(case)
        if any(mask) and not all(mask):
            res.nontriv((k,))
        vp, vf = o["vor"], of["vor"]
        if len(vp["cells"]) != n or len(vf["cells"]) != n:
            res.violation("C07:cell-count", f"the partial tessellation reports {len(vp['cells'])} cells (full: {len(vf['cells'])}) for {n} generators (mask {mask}): "
                          "every generator must have a cell, unselected ones with zero volume", ctx)
            continue
        for i in range(n):
            cp, cfull = vp["cells"][i], vf["cells"][i]
            if mask[i]:
                for fld in ("volume", "centroid", "loc", "safety_radius"):
                    if cp[fld] != cfull[fld]:
                        res.violation("C07:selected-cell-differs", f"selected cell {i}: {fld} differs bitwise from the full construction (mask {mask})", dict(ctx, cell=i, field=fld))
                        break
                sp, sf = cell_face_set(vp, i, w), cell_face_set(vf, i, w)
                # faces of negligible area may legitimately be seen from one side only (C03): compare the others
                thr = tol["area_min"] + tol["area_tol"]
                big_p = {k_ for k_, v in sp.items() if max(v) > thr}
                big_f = {k_ for k_, v in sf.items() if max(v) > thr}
                if not (big_p <= set(sf) and big_f <= set(sp)) or any(len(v) != 1 for v in sp.values()):
                    res.violation("C07:face-set-differs", f"selected cell {i}: faces {sorted(map(str, sp))} vs full construction {sorted(map(str, sf))} (mask {mask})", dict(ctx, cell=i))
                else:
                    for key in sp:
                        if key in sf and abs(sp[key][0] - sf[key][0]) > tol["area_tol"]:
                            res.violation("C07:face-area-differs", f"selected cell {i}: face {key} area {sp[key][0]} vs full {sf[key][0]}", dict(ctx, cell=i))
                            break
            else:
                if C.b2f(cp["volume"]) != 0.0 or any(C.b2f(x) != 0.0 for x in cp["centroid"]):
                    res.violation("C07:unselected-not-zero", f"unselected cell {i} reports volume {C.b2f(cp['volume'])} / centroid {T.dv(cp['centroid'])}", dict(ctx, cell=i))
        seen = {}
        for j, f in enumerate(vp["faces"]):
            if not mask[f["left"]]:
                res.violation("C07:unselected-left", f"face {j} has unselected left cell {f['left']} (mask {mask})", dict(ctx, face=j))
            if f["right"] is not None and f["shift"] is None and not mask[f["right"]]:
                key = (f["left"], f["right"])
                seen[key] = seen.get(key, 0) + 1
        for key, cnt in seen.items():
            if cnt != 1:
                res.violation("C07:mixed-face-multiplicity", f"face between selected {key[0]} and unselected {key[1]} present {cnt} times", ctx)
        # a mixed face of the full build must be present in the partial build (selected side on the left)
        for f in vf["faces"]:
            if f["right"] is None or f["shift"] is not None:
                continue
            l, r = f["left"], f["right"]
            if C.b2f(f["area"]) <= tol["area_min"] + tol["area_tol"]:
                continue
            if mask[l] != mask[r]:
                sel, uns = (l, r) if mask[l] else (r, l)
                if seen.get((sel, uns), 0) != 1:
                    res.violation("C07:mixed-face-missing", f"face between selected {sel} and unselected {uns} (area {C.b2f(f['area'])}) missing from the partial build", ctx)
        if len(res.samples) < 2:
            res.sample({"input": T.inp_json(case), "faces_partial": len(vp["faces"]), "faces_full": len(vf["faces"])})
    # ---- independence of the call history: the same generator array is used for a (partial) construction, modified in place and used
    # again; the second result must be bitwise what a fresh array with the current positions gives (no state kept between calls)
    rp_seq = None
    if replay:
        rpj = json.load(open(replay))["replay"]
        if "second_positions" in rpj:
            rp_seq = (rpj["input"], rpj["second_positions"], rpj["input"].get("mask"))
    if not replay or rp_seq:
        rng = C.Rng(res.seed * 7151 + 3)
        seqs = [rp_seq] if rp_seq else []
        for j in range(0 if rp_seq else (8 if res.tier == "quick" else 80)):
            inp = T.gen_input(rng, "uniform", (j % 3) + 1, j % 2 == 1, nmax=300 if j % 4 == 0 else 40)
            n = len(inp["gens"])
            if n < 3:
                continue
            a, w = inp["anchor"], inp["width"]
            sel = rng.below(n)
            gb = [list(g) for g in inp["gens"]]
            # move the generator farthest from the selected one right next to it (and a random one somewhere else)
            far = max(range(n), key=lambda i: sum((gb[i][t] - gb[sel][t]) ** 2 for t in range(inp["dim"])))
            if far != sel:
                gb[far] = [min(max(gb[sel][t] + 0.03 * w[t] * (rng.unit() - 0.5), a[t]), a[t] + w[t] * 0.999) for t in range(3)]
            k2 = rng.below(n)
            if k2 not in (sel, far):
                gb[k2] = [a[t] + w[t] * rng.unit() * 0.999 for t in range(3)]
            mask = [i == sel for i in range(n)] if j % 3 != 2 else ([rng.chance(0.5) for _ in range(n)] if j % 3 == 2 and j % 2 else None)
            seqs.append((inp, gb, mask))
        wd = C.rundir("c07")
        os.makedirs(wd, exist_ok=True)
        cf = os.path.join(wd, "seq.cases")
        with open(cf, "w") as f:
            for inp, gb, mask in seqs:
                toks = ["seq", str(inp["dim"]), "1" if inp["periodic"] else "0"] + [str(C.f2b(x)) for x in inp["anchor"]] + [str(C.f2b(x)) for x in inp["width"]]
                toks += [str(len(gb)), "1" if mask is not None else "0"] + (["1" if m else "0" for m in mask] if mask is not None else [])
                toks += [str(C.f2b(x)) for g in inp["gens"] for x in g] + [str(C.f2b(x)) for g in gb for x in g]
                f.write(" ".join(toks) + "\n")
        rc, so, _ = C.run_impl(C.build_harness("debug"), cf, os.path.join(wd, "seq.out"))
        for k, (inp, gb, mask) in enumerate(seqs):
            o = so.get(k)
            res.count("sequence:" + ("masked" if mask is not None else "full"))
            ctx = {"input": T.inp_json(dict(inp, mask=mask)), "second_positions": gb}
            if o is None or "panic" in o:
                cls = T.known_class(dict(inp, gens=gb))
                res.violation("panic:" + geo.panic_signature(o, dict(inp, gens=gb)), f"sequence of two constructions on one array panicked: {(o or {}).get('panic')} {cls}", ctx)
                continue
            res.nontriv(("seq", k))
            if not o["same"] or not o["same_integrator"] or not o["back_same"]:
                which = "direct route" if not o["same"] else ("integrator route" if not o["same_integrator"] else "after moving the generators back")
                res.violation("C07:history-dependent", f"a construction on an array that was used before and modified in place differs from the construction of the same "
                              f"positions in a fresh array ({which}; n = {len(gb)}, dim {inp['dim']}, periodic {inp['periodic']}, mask {'yes' if mask is not None else 'no'})", ctx)

