"""C05, filter clause: HalfSpace::new / HalfSpace::clip (public API) against the bit-exact Flocq model Model/Filter.v evaluated inside
Coq (vm_compute), and against the exact sign of n . (v - p) in rational arithmetic.  The theorem
C05_filter_conclusive_is_exact_sign_binary64 is about the model; this clause is what ties the model to the code."""
import math
import os
import re
from fractions import Fraction

import common as C
import tess as T


def _vec_bits(v):
    return [C.f2b(float(x)) for x in v]


def gen_cases(rng, tier, recs):
    """(label, n, p, v) with n, p, v lists of three f64 bit patterns"""
    cases = []
    # (a) planes and vertices of constructed cells: every vertex against every plane of its cell (most are conclusive, the vertex's own
    #     three planes are inconclusive)
    want = 1500 if tier == "quick" else 15000
    pool = []
    for rec in recs:
        o = rec.get("impl_raw") or {}
        for ic in (o.get("icells") or []):
            if not ic:
                continue
            for pl in ic["planes"]:
                for vt in ic["verts"]:
                    pool.append(("cell:" + str(rec["inp"].get("family")).split(":")[0], list(pl["n"]), list(pl["p"]), list(vt["loc"])))
    rng.shuffle(pool)
    cases += pool[:want]
    # (b) synthetic: planes whose n.p cancels while |n|.|p| is large (the situation of the fixed finding F14), vertices within a few rounding
    #     errors of the plane; scales from 1e-300 to 1e150
    cnt = 600 if tier == "quick" else 6000
    for k in range(cnt):
        mag = rng.choice([1.0, 1.0, 1e3, 1e6, 1e9, 1e-6, 1e-12, 1e100, 1e150, 1e-150, 1e-300])
        kind = k % 4
        if kind == 0:
            n = [1.0, -1.0, 0.0]
            L = mag * (1.0 + rng.unit())
            p = [L, L, mag * (rng.unit() - 0.5)]
        elif kind == 1:
            n = [rng.unit() - 0.5, rng.unit() - 0.5, rng.unit() - 0.5]
            p = [mag * (rng.unit() - 0.5) for _ in range(3)]
        elif kind == 2:
            n = [0.0, 0.0, 0.0]
            n[rng.below(3)] = rng.choice([1.0, -1.0])
            p = [mag * rng.choice([0.0, 1.0, -1.0, rng.unit()]) for _ in range(3)]
        else:
            s = rng.choice([1.0, 1e-8, 1e8, mag])
            n = [s * (rng.unit() - 0.5), s * (rng.unit() - 0.5), s * (rng.unit() - 0.5)]
            p = [mag * (rng.unit() - 0.5) + mag * 1e3 for _ in range(3)]
        # a point of the plane: p + t1 e1 + t2 e2 with e1, e2 orthogonal to n (in floating point: approximately), then moved by a few ulps
        a = max(range(3), key=lambda i: abs(n[i]))
        b, c = (a + 1) % 3, (a + 2) % 3
        t1, t2 = mag * (rng.unit() - 0.5), mag * (rng.unit() - 0.5)
        v = list(p)
        if n[a] != 0.0:
            v[b] += t1
            v[c] += t2
            v[a] -= (n[b] * t1 + n[c] * t2) / n[a]
        for i in range(3):
            ulps = rng.choice([0, 0, 1, -1, 2, -3, 16, -64, 1000, -100000])
            for _ in range(abs(ulps) if abs(ulps) <= 64 else 0):
                v[i] = math.nextafter(v[i], math.inf if ulps > 0 else -math.inf)
            if abs(ulps) > 64:
                v[i] += ulps * math.ulp(v[i])
        lab = "synthetic:%d" % kind
        if (k // 4) % 2 == 1 and n[a] != 0.0 and all(math.isfinite(x) for x in v):
            # refine: move the coordinate along the largest normal component so that the exact n . (v - p) is within half an ulp of zero; the
            # computed value is then pure rounding noise, whose sign is unrelated to the exact sign (any bound below the noise level shows)
            for _ in range(2):
                e = sum(Fraction(n[i]) * (Fraction(v[i]) - Fraction(p[i])) for i in range(3))
                v[a] = float(Fraction(v[a]) - e / Fraction(n[a]))
            if rng.chance(0.5):
                v[a] = math.nextafter(v[a], math.inf if rng.chance(0.5) else -math.inf)
            lab += ":refined"
        cases.append((lab, _vec_bits(n), _vec_bits(p), _vec_bits(v)))
    return cases


def exact_sign(n, p, v):
    fn, fp, fv = ([Fraction(C.b2f(x)) for x in w] for w in (n, p, v))
    e = sum(fn[i] * (fv[i] - fp[i]) for i in range(3))
    return (e > 0) - (e < 0)


# the expressions Model/Filter.v transcribes, whitespace- and comment-free; if the text of half_space.rs no longer contains them the model
# may describe different code: reported as an unproved obligation (the bit-level comparison below then decides whether behaviour changed)
TRANSCRIBED = [
    "constEPSILON:f64=1e-13;",
    "leterrb=Self::EPSILON*(1.+n.abs().dot(p.abs()));",
    "d:n.dot(p),",
    "letclip=self.plane.n.dot(vertex)-self.d;",
    "letscale=self.plane.p.abs().max_element().max(vertex.abs().max_element());",
    "leterrb=self.errb.max(Self::EPSILON*self.plane.n.abs().element_sum()*scale);",
    "ifclip.abs()<errb{0.}else{clip.signum()}",
]


def source_obligation(res):
    path = os.path.join(C.REPO, "src", "voronoi", "half_space.rs")
    try:
        txt = open(path).read()
    except OSError:
        res.violation("proof:C05-filter-source", "src/voronoi/half_space.rs not found: Model/Filter.v has no source to be a transcription of", {"file": path}, no_input=True)
        return
    txt = re.sub(r"//[^\n]*", "", txt)
    txt = re.sub(r"\s+", "", txt)
    missing = [t for t in TRANSCRIBED if t not in txt]
    res.count("filter:source-expressions", len(TRANSCRIBED))
    if missing:
        res.violation("proof:C05-filter-source", "half_space.rs no longer contains the expressions transcribed in Model/Filter.v (" + "; ".join(missing[:3]) +
                      "): the theorem C05_filter_conclusive_is_exact_sign_binary64 is not known to speak about this code", {"missing": missing, "file": "src/voronoi/half_space.rs"}, no_input=True)


def run_clause(res, rng, tier, recs, replay_case=None):
    if not replay_case:
        source_obligation(res)
    cases = [replay_case] if replay_case else gen_cases(rng, tier, recs)
    cases = [c for c in cases if all(math.isfinite(C.b2f(x)) for w in c[1:] for x in w)]
    wd = C.rundir("c05")
    os.makedirs(wd, exist_ok=True)
    cf = os.path.join(wd, "hsclip.cases")
    with open(cf, "w") as f:
        for lab, n, p, v in cases:
            f.write("hsclip " + " ".join(str(x) for x in n + p + v) + "\n")
    rc, impl, _ = C.run_impl(C.build_harness("release"), cf, os.path.join(wd, "hsclip.out"))
    rc_d, impl_d, _ = C.run_impl(C.build_harness("debug"), cf, os.path.join(wd, "hsclip.debug.out"))
    ndiff = [i for i in range(len(cases)) if (impl.get(i) or {}).get("r") != (impl_d.get(i) or {}).get("r")]
    if ndiff:
        i = ndiff[0]
        res.violation("C05:filter-debug-release-differ", f"HalfSpace::clip answers differently in the debug and the release build on {len(ndiff)} of {len(cases)} cases "
                      f"(first: release {(impl.get(i) or {}).get('r')} debug {(impl_d.get(i) or {}).get('r') if impl_d.get(i) else impl_d.get(i)})",
                      {"n": cases[i][1], "p": cases[i][2], "v": cases[i][3], "case": "hsclip"})
    # model inside Coq
    idx = list(range(len(cases)))
    shards = C.shard(idx, C.NPROC)

    def eval_shard(k):
        sh = shards[k]
        if not sh:
            return []
        body = ("From Coq Require Import ZArith List. Import ListNotations. Open Scope Z_scope.\n"
                "From MV Require Import Model.Grid Model.Filter.\n"
                "Definition cs : list (list Z * list Z * list Z) := [\n" +
                ";\n".join("([%s],[%s],[%s])" % (";".join(map(str, cases[i][1])), ";".join(map(str, cases[i][2])), ";".join(map(str, cases[i][3]))) for i in sh) + "].\n"
                "Eval vm_compute in map (fun '(n,p,v) => clip_case n p v) cs.\n")
        rc_, out = C.coq_eval(body, "c05_hsclip_%d" % k)
        if rc_ != 0 or "=" not in out:
            return None
        nums = [int(x) for x in re.findall(r"-?\d+", out.split("=", 1)[1].rsplit(":", 1)[0])]
        if len(nums) != 3 * len(sh):
            return None
        return [tuple(nums[3 * j: 3 * j + 3]) for j in range(len(sh))]
    import concurrent.futures as cf_
    with cf_.ThreadPoolExecutor(max_workers=C.NPROC) as ex:
        outs = list(ex.map(eval_shard, range(len(shards))))
    model = {}
    if any(o is None for o in outs):
        res.violation("corr:coq-eval-clip-filter", "vm_compute evaluation of Model.Filter.clip_case failed", {"coq": str(outs)[:300]}, no_input=True)
    else:
        for sh, o in zip(shards, outs):
            for i, m in zip(sh, o):
                model[i] = m
    stats = {"cases": len(cases), "conclusive": 0, "inconclusive": 0, "model_compared": 0}
    wrong_sign = None
    mismatch = None
    for i, (lab, n, p, v) in enumerate(cases):
        o = impl.get(i)
        res.count("filter:" + lab)
        ctx = {"n": n, "p": p, "v": v, "n_f": [C.b2f(x) for x in n], "p_f": [C.b2f(x) for x in p], "v_f": [C.b2f(x) for x in v], "case": "hsclip"}
        if o is None or "panic" in o:
            res.violation("C05:filter-panic", f"HalfSpace::new/clip panicked on finite data: {(o or {}).get('panic')}", ctx)
            continue
        r = C.b2f(o["r"])
        ri = 2 if r != r else int(r)
        if ri == 0:
            stats["inconclusive"] += 1
        else:
            stats["conclusive"] += 1
            res.nontriv(("hsclip", tuple(n), tuple(p), tuple(v)))
            if ri in (1, -1) and exact_sign(n, p, v) != ri and wrong_sign is None:
                wrong_sign = (ri, ctx)
        m = model.get(i)
        if m is not None:
            stats["model_compared"] += 1
            if m[0] != ri and mismatch is None:
                mismatch = (ri, m, ctx)
    if wrong_sign is not None:
        ri, ctx = wrong_sign
        res.violation("C05:filter-conclusive-wrong-sign", f"HalfSpace::clip answers {ri} although the exact n . (v - p) of the same floating-point data has sign "
                      f"{exact_sign(ctx['n'], ctx['p'], ctx['v'])} (n {ctx['n_f']}, p {ctx['p_f']}, v {ctx['v_f']})", ctx)
    if mismatch is not None:
        ri, m, ctx = mismatch
        res.disagreements += 1
        res.violation("corr:clip-filter", f"HalfSpace::clip = {ri} but the Flocq model Model.Filter.clip_filter = {m[0]} (value bits {m[1]}, bound bits {m[2]}) on n {ctx['n_f']}, p {ctx['p_f']}, v {ctx['v_f']}: "
                      "the theorem C05_filter_conclusive_is_exact_sign_binary64 no longer speaks about this code",
                      dict(ctx, correspondence="Model.Filter.clip_case vs HalfSpace::clip", theorem="C05_filter_conclusive_is_exact_sign_binary64"),
                      no_input=wrong_sign is None)
    res.notes["filter_clause"] = stats
