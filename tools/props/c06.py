"""C06 - periodic tessellation equals that of the infinitely replicated point set."""
import json
import math
import os

import common as C
import geo
import tess as T


def cell_faces_by_key(o, gi, w, dim):
    """{(right, shift tuple): (area, centroid)} from the non-symmetric face integrals of cell gi"""
    rec = {"impl_raw": o}
    out = {}
    ic = o["icells"][gi]
    used = sorted({d for v in ic["verts"] for d in v["dual"]})
    planes = ic["planes"]
    fps = [p for p in used if geo.dim_valid(dim, T.dv(planes[p]["n"]))]
    mine = [f for f in o["face_integrals"] if f["left"] == gi]
    if len(mine) != len(fps):
        return None
    for p, f in zip(fps, mine):
        pl = planes[p]
        key = ("wall", p) if pl["right"] is None else (pl["right"], geo.shift_tuple(T.dv(pl["shift"]) if pl["shift"] is not None else None, w))
        out[key] = (C.b2f(f["area"]), T.dv(f["centroid"]))
    return out


def run(res, replay=None):
    tier, seed = res.tier, res.seed
    res.rule = ("periodic inputs (n = 1..14; uniform, lattice, tiny, on-walls, coplanar, anisotropic; 1D/2D/3D): (i) periodic build vs the central block of the "
                "non-periodic build of the 3^d-fold replicated generators (volume, centroid, faces by (neighbour, lattice offset)); (ii) translation by a random "
                "vector (wrapped) leaves the multisets of measures and face areas unchanged; (iii) no boundary faces on periodic axes, shifts are lattice vectors, "
                "absent iff zero. non-trivial = distinct (input, cell)")
    rng = C.Rng(seed * 977 + 3)
    inputs = []
    if replay:
        inputs = [json.load(open(replay))["replay"]["input"]]
    else:
        cnt = 30 if tier == "quick" else 300
        fams = ["uniform", "tiny", "lattice", "onwalls", "coplanar", "aniso", "uniform", "tiny"]
        k = 0
        while len(inputs) < cnt:
            inp = T.gen_input(rng, fams[k % len(fams)], (k // 2) % 3 + 1, True, nmax=14)
            k += 1
            if "K2-cluster" in T.known_class(inp):
                continue
            inputs.append(inp)
    wd = C.rundir("c06")
    os.makedirs(wd, exist_ok=True)
    cases = []
    for inp in inputs:
        dim = inp["dim"]
        a, w = T.norm_box(dim, inp["anchor"], inp["width"])
        n = len(inp["gens"])
        # replicated, non periodic
        offs = [(0, 0, 0)] + [(i, j, k) for i in (-1, 0, 1) for j in ((-1, 0, 1) if dim >= 2 else (0,)) for k in ((-1, 0, 1) if dim >= 3 else (0,)) if (i, j, k) != (0, 0, 0)]
        rg = []
        for off in offs:
            for g in inp["gens"]:
                p = T.proj(dim, g)
                rg.append([p[k] + off[k] * w[k] for k in range(3)])
        ra = [a[k] - (w[k] if k < dim else 0.0) for k in range(3)]
        rw = [w[k] * (3.0 if k < dim else 1.0) for k in range(3)]
        rep = {"family": inp["family"], "dim": dim, "periodic": False, "anchor": ra, "width": rw, "gens": rg, "mask": [i < n for i in range(len(rg))]}
        # translated
        t = [rng.uniform(-2, 2) * w[k] if k < dim else 0.0 for k in range(3)]
        tg = []
        for g in inp["gens"]:
            p = list(g)
            for k in range(dim):
                x = p[k] + t[k]
                x = a[k] + math.fmod(x - a[k], w[k])
                if x < a[k]:
                    x += w[k]
                if x >= a[k] + w[k]:
                    x = a[k]
                p[k] = x
            tg.append(p)
        tr = T.dedupe(dict(inp, gens=tg))
        cases.append((inp, rep, tr, offs))
    cf = os.path.join(wd, "c06.cases")
    with open(cf, "w") as f:
        for inp, rep, tr, offs in cases:
            f.write(T.case_line(inp, 1 | 2 | 8) + "\n")
            f.write(T.case_line(rep, 1 | 2 | 8) + "\n")
            f.write(T.case_line(tr, 1 | 8) + "\n")
    rc, impl, _ = C.run_impl(C.build_harness("debug"), cf, os.path.join(wd, "c06.out"))
    for ci, (inp, rep, tr, offs) in enumerate(cases):
        op, orr, ot = impl.get(3 * ci), impl.get(3 * ci + 1), impl.get(3 * ci + 2)
        dim = inp["dim"]
        ctx = {"input": T.inp_json(inp)}
        res.count(f"{inp['family']}:{dim}D")
        bad = next((x for x in (op, orr, ot) if x is None or "panic" in x), "ok")
        if bad != "ok":
            msg = str((bad or {}).get("panic"))
            res.violation("panic:" + geo.panic_signature(bad, inp),
                          f"construction panicked: {msg} (periodic / replicated / translated build of family {inp['family']} dim {dim})", ctx)
            continue
        a, w = T.norm_box(dim, inp["anchor"], inp["width"])
        tol = T.tolerances(inp)
        n = len(inp["gens"])
        vp, vr = T.decode_vor(op["vor"]), T.decode_vor(orr["vor"])
        thr = tol["area_min"] + tol["area_tol"]
        lmax = max(tol["L"][:dim])
        ptol = max(100 * max(tol["eps"][:dim]), 10 * tol["rel"] * lmax)
        # (iii) face bookkeeping of the periodic build
        for j, f in enumerate(vp["faces"]):
            if f["right"] is None and geo.dim_valid(dim, f["normal"]) and f["area"] > thr:
                res.violation("C06:boundary-face-in-periodic", f"periodic build reports a boundary face (left {f['left']}, area {f['area']:.6g}, normal {f['normal']})", dict(ctx, face=j))
                break
            if f["shift"] is not None:
                s = f["shift"]
                comps = [s[k] / w[k] for k in range(3)]
                if any(c not in (-1.0, 0.0, 1.0) for c in comps) or any(comps[k] != 0 for k in range(dim, 3)) or all(c == 0 for c in comps):
                    res.violation("C06:shift-not-lattice", f"face {j} has shift {s}, not a lattice vector with components in {{-w,0,+w}} (or it is a zero shift reported as present)", dict(ctx, face=j))
                    break
            if f["is_periodic"] != (f["shift"] is not None):
                res.violation("C06:is-periodic-flag", f"face {j}: is_periodic = {f['is_periodic']} but shift = {f['shift']}", dict(ctx, face=j))
        # (i) central block of the replicated build
        for i in range(n):
            res.nontriv((ci, i))
            cp, cr = vp["cells"][i], vr["cells"][i]
            cctx = dict(ctx, cell=i)
            if abs(cp["volume"] - cr["volume"]) > 10 * tol["vol_tol"]:
                res.violation("C06:volume-vs-replicated", f"cell {i}: periodic measure {cp['volume']} vs {cr['volume']} in the replicated non-periodic tessellation", cctx)
                continue
            if cp["volume"] > 100 * tol["vol_tol"] and any(abs(cp["centroid"][k] - cr["centroid"][k]) > ptol * max(1.0, 1e-3 * tol["vol"] / cp["volume"]) for k in range(dim)):
                res.violation("C06:centroid-vs-replicated", f"cell {i}: centroid {cp['centroid']} vs replicated {cr['centroid']}", cctx)
                continue
            fp = cell_faces_by_key(op, i, w, dim)
            fr_raw = cell_faces_by_key(orr, i, w, dim)
            if fp is None or fr_raw is None:
                continue
            fr = {}
            for key, val in fr_raw.items():
                if key[0] == "wall":
                    fr[key] = val
                else:
                    idx = key[0]
                    fr[(idx % n, offs[idx // n])] = val
            for key, (ar, cen) in fr.items():
                if ar > thr and key[0] != "wall":
                    if key not in fp:
                        res.violation("C06:face-missing-vs-replicated", f"cell {i}: the replicated tessellation has a face of area {ar:.6g} towards generator {key[0]} image {key[1]}, the periodic one has none", cctx)
                        break
                    if abs(fp[key][0] - ar) > 10 * tol["area_tol"]:
                        res.violation("C06:face-area-vs-replicated", f"cell {i}: face towards {key}: area {fp[key][0]} vs replicated {ar}", cctx)
                        break
            for key, (ar, cen) in fp.items():
                if ar > thr and key not in fr:
                    res.violation("C06:face-spurious-vs-replicated", f"cell {i}: periodic face towards {key} of area {ar:.6g} does not exist in the replicated tessellation", cctx)
                    break
        # (ii) translation invariance (multisets)
        vt = T.decode_vor(ot["vor"])
        if len(vt["cells"]) == n:
            v1 = sorted(c["volume"] for c in vp["cells"])
            v2 = sorted(c["volume"] for c in vt["cells"])
            if any(abs(x - y) > 10 * tol["vol_tol"] for x, y in zip(v1, v2)):
                res.violation("C06:translation-changes-measures", f"translating all generators changes the cell measures: {v1[:4]}... vs {v2[:4]}...", dict(ctx, translated=T.inp_json(tr)))
            # every geometric face once: periodic faces are stored from both sides
            def total(v):
                return sum(f["area"] * (0.5 if f["shift"] is not None else 1.0) for f in v["faces"] if f["right"] is not None)
            t1, t2 = total(vp), total(vt)
            if abs(t1 - t2) > 10 * tol["area_tol"] * max(1, len(vp["faces"])):
                res.violation("C06:translation-changes-areas", f"translating all generators changes the total face area {t1} -> {t2}", dict(ctx, translated=T.inp_json(tr)))
        if ci < 1:
            res.sample({"input": T.inp_json(inp), "replicated_generators": len(rep["gens"])})
