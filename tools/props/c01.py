"""C01 - every cell is the nearest-generator region.
Implementation (integrator cells, face integrals, Voronoi cells) against the exact model's cell
(built by the same clipping algorithm in exact arithmetic, proved to be cut only by bisectors and
to contain the Voronoi cell) on every constructed cell of every input; per cell the model's
vertices are checked in exact arithmetic against ALL sites (no early stop was unsound)."""
import math

import common as C
import geo
import tess as T


def compare_cell(res, rec, gi, tol, k_in):
    inp = rec["inp"]
    iv = geo.impl_cell_view(rec, gi)
    mv = geo.model_cell_view(rec, gi)
    ctx = {"input": T.inp_json(inp), "cell": gi}
    fam = inp["family"]
    if mv is None:
        res.violation("corr:model-failed", f"exact model returned no cell for input {inp['family']} cell {gi}", ctx, no_input=True)
        return
    m = mv["m"]
    raw = rec["model_raw"][gi]
    # the hypothesis of C01_vertices_feasible_3d / C01_hull_in_region_3d, evaluated by the extracted model for this cell
    if "regular" in raw:
        res.count("theorem-hypothesis:regular" if raw["regular"] else "theorem-hypothesis:not-regular")
        if raw["regular"] and not raw.get("feasible", True):
            res.violation("corr:theorem-contradicted", f"cell {gi}: the model is regular but a vertex violates a bisector: contradicts C01_vertices_feasible_any_dim "
                          "(extraction or driver defect)", ctx, no_input=True)
    if not raw.get("feasible", True):
        res.violation("corr:model-early-stop", f"exact model: a vertex of cell {gi} violates the bisector of some site (early termination unsound?)", ctx, no_input=True)
    if iv is None or iv["vor"] is None:
        res.violation("C01:missing-cell" + geo.mismatch_class(rec), f"constructed cell {gi} missing in the implementation's output", ctx)
        return
    vol_i, vol_m = iv["vor"]["volume"], float(m["volume"])
    if not (abs(vol_i - vol_m) <= tol["vol_tol"]):
        res.violation("C01:volume" + geo.mismatch_class(rec), f"cell {gi} volume {vol_i} differs from the exact nearest-generator region's {vol_m} "
                      f"(tolerance {tol['vol_tol']:.3g}); input family {fam} dim {inp['dim']} periodic {inp['periodic']}",
                      dict(ctx, impl=vol_i, exact=vol_m))
    if m["centroid"][0] is not None and vol_m > 10 * tol["vol_tol"]:
        for k in range(inp["dim"]):
            ce = float(m["centroid"][k])
            if not (abs(iv["vor"]["centroid"][k] - ce) <= max(100 * tol["eps"][k], 10 * tol["rel"] * tol["L"][k]) * max(1.0, tol["vol"] / vol_m * 1e-3)):
                res.violation("C01:centroid" + geo.mismatch_class(rec), f"cell {gi} centroid[{k}] {iv['vor']['centroid'][k]} vs exact {ce}", dict(ctx, impl=iv["vor"]["centroid"], exact=[float(x) for x in m["centroid"]]))
                break
    if not iv["faces_mapped"]:
        res.violation("C01:face-list-shape" + geo.mismatch_class(rec), f"cell {gi}: {iv['n_face_integrals']} face integrals but {len(iv['face_planes'])} planes carry vertices", ctx)
        return
    # faces: none missing, none spurious (above the property's threshold), same area / centroid
    on_wall = geo.walls_of_generator(rec, gi)
    for key, f in mv["faces"].items():
        if key[0] == "wall" and key[1] in on_wall:
            # known finding K1: the area sign of a wall face is taken from a degenerate (zero height) tetrahedron
            g = iv["faces"].get(key)
            if g is None or not (abs(g["area"] - f["area"]) <= tol["area_tol"]):
                res.violation("wall-face-of-on-wall-generator", f"cell {gi} lies on wall {key[1]}; that boundary face has area {g and g['area']} vs exact {f['area']}", dict(ctx, face=str(key)))
            continue
        if f["area"] > tol["area_min"] + tol["area_tol"]:
            g = iv["faces"].get(key)
            if g is None:
                res.violation("C01:missing-neighbour" + geo.mismatch_class(rec), f"cell {gi}: face towards {key} of area {f['area']:.6g} is missing "
                              f"(family {fam} dim {inp['dim']} periodic {inp['periodic']})", dict(ctx, face=str(key), exact_area=f["area"]))
            elif not (abs(g["area"] - f["area"]) <= tol["area_tol"]):
                res.violation("C01:face-area" + geo.mismatch_class(rec), f"cell {gi}: face {key} area {g['area']} vs exact {f['area']}", dict(ctx, face=str(key), impl=g["area"], exact=f["area"]))
            elif f["area"] > 1e3 * tol["area_min"]:
                for k in range(inp["dim"]):
                    ctol = max(100 * tol["eps"][k], 10 * tol["rel"] * tol["L"][k]) * max(1.0, 1e-3 * tol["face_scale"] / f["area"])
                    if f["centroid"][k] is not None and not (abs(g["centroid"][k] - f["centroid"][k]) <= ctol):
                        res.violation("C01:face-centroid" + geo.mismatch_class(rec), f"cell {gi}: face {key} centroid {g['centroid']} vs exact {f['centroid']}", dict(ctx, face=str(key)))
                        break
    for key, g in iv["faces"].items():
        if g["area"] > tol["area_min"] + tol["area_tol"] and key not in mv["faces"]:
            res.violation("C01:spurious-neighbour" + geo.mismatch_class(rec), f"cell {gi}: reports a face towards {key} of area {g['area']:.6g} that the exact cell does not have",
                          dict(ctx, face=str(key), impl_area=g["area"]))
    # vertices: every implementation vertex inside the exact cell (all exact planes) up to eps
    s = 2.0 ** (-rec["e"])
    lmax = max(tol["L"])
    for v in iv["verts"]:
        for pl in m["planes"]:
            n = pl["n"]
            nn = math.sqrt(pl["norm2"])
            val = (n[0] * v["loc"][0] + n[1] * v["loc"][1] + n[2] * v["loc"][2]) / s - pl["d"]
            # value in scaled units; distance = val / |n| * s
            dist = val / nn * s
            if dist < -1e-6 * lmax:
                # a vertex whose three planes have (nearly) linearly dependent normals has no well defined location:
                # recorded finding K5 (exactly degenerate configurations)
                ns = [iv["planes"][i]["n"] for i in v["dual"]]
                nl = [math.sqrt(sum(x * x for x in n_)) or 1.0 for n_ in ns]
                det = (ns[0][0] * (ns[1][1] * ns[2][2] - ns[1][2] * ns[2][1]) - ns[0][1] * (ns[1][0] * ns[2][2] - ns[1][2] * ns[2][0])
                       + ns[0][2] * (ns[1][0] * ns[2][1] - ns[1][1] * ns[2][0])) / (nl[0] * nl[1] * nl[2])
                if abs(det) < 1e-9:
                    res.violation("vertex-with-dependent-planes:K5", f"cell {gi}: vertex with dual {v['dual']} has linearly dependent plane normals (det {det:.3g}); its location {v['loc']} is meaningless", dict(ctx, vertex=v["loc"]))
                else:
                    res.violation("C01:vertex-outside" + geo.mismatch_class(rec), f"cell {gi}: vertex {v['loc']} lies {-dist:.3g} outside the exact cell (plane towards {pl['right']})", dict(ctx, vertex=v["loc"]))
                break
    res.nontriv((k_in, gi))


def run(res, replay=None):
    tier, seed = res.tier, res.seed
    res.rule = ("inputs from 8 families (uniform, tiny n, exact/near lattices, on-walls, co-spherical, collinear/coplanar, clusters, anisotropic/"
                "offset boxes) x 1D/2D/3D x reflective/periodic (+ masks); every constructed cell compared with the exact model cell: volume, centroid, "
                "per-neighbour (id, shift) face area and centroid, vertices inside all exact half-spaces; exact model vertices checked against all sites. "
                "non-trivial = distinct (input, cell) with at least one neighbour face")
    if replay:
        import json
        rp = json.load(open(replay))["replay"]
        data = geo.geo_data(tier, seed, inputs=[rp["input"]], name="geo_replay")
    else:
        data = geo.geo_data(tier, seed)
        # strong density contrast: a cell with thousands of neighbour candidates nearer than one of its true neighbours (a dense block of
        # generators next to two isolated ones); only the two isolated cells are constructed
        rng = C.Rng(seed * 3571 + 23)
        big = []
        for per in ([True] if tier == "quick" else [True, False]):
            m = 17 if tier == "quick" else 19
            a_pos = [0.5, 0.5, 0.5]
            b_pos = [0.5 + 0.25, 0.5 + 0.01 * rng.unit(), 0.5 + 0.01 * rng.unit()]
            sp = 0.002
            c0 = [0.5 - 0.2, 0.5, 0.5]
            gens = [a_pos, b_pos]
            for i in range(m):
                for j in range(m):
                    for l in range(m):
                        gens.append([c0[0] + sp * (i - m / 2 + 0.2 * (rng.unit() - 0.5)), c0[1] + sp * (j - m / 2 + 0.2 * (rng.unit() - 0.5)),
                                     c0[2] + sp * (l - m / 2 + 0.2 * (rng.unit() - 0.5))])
            big.append({"family": "contrast", "dim": 3, "periodic": per, "anchor": [0.0, 0.0, 0.0], "width": [1.0, 1.0, 1.0],
                        "gens": gens, "mask": [True, True] + [False] * (len(gens) - 2)})
        extra = geo.geo_data(tier, seed, inputs=big, name="c01big")
        data = {"recs": data["recs"] + extra["recs"], "n_jobs": data["n_jobs"] + extra["n_jobs"]}
    n_exact = 0
    for k_in, rec in enumerate(data["recs"]):
        inp = rec["inp"]
        o = rec["impl_raw"]
        res.count(f"{inp['family']}:{inp['dim']}D:{'periodic' if inp['periodic'] else 'reflective'}{':masked' if inp.get('mask') else ''}")
        if o is None or "panic" in o or o.get("vor") == "panic":
            res.violation("panic:" + geo.panic_class(rec), f"construction panicked: {(o or {}).get('panic')} on family {inp['family']} dim {inp['dim']} periodic {inp['periodic']}",
                          {"input": T.inp_json(inp)})
            continue
        if rec.get("model_missing"):
            res.violation("corr:model-output-missing", f"the exact model produced no result for cells {rec['model_missing'][:5]} of a {inp['family']} input "
                          "(driver / parsing problem): these cells were not compared", {"input": T.inp_json(inp)}, no_input=True)
        n_exact += o.get("trace", {}).get("exact", 0)
        tol = T.tolerances(inp)
        for gi in rec["model"]:
            compare_cell(res, rec, gi, tol, k_in)
    rec0 = data["recs"][0]
    res.sample({"input": T.inp_json(rec0["inp"]), "cells_compared": len(rec0["model"])})
    res.notes["exact_predicate_calls_in_run"] = n_exact
    res.notes["tolerances"] = "position eps_a = max(1e-9 L_a, 2^12 u M_a); volume/area relative to box measure/face scale with rel = max(1e-9, 10 max eps_a/L_a); area threshold 1e-9 face scale"
    res.notes["cells_compared"] = data["n_jobs"]
