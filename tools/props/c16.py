"""C16 - the safety radius bounds the cell and its region of influence."""
import json
import math
import os

import common as C
import geo
import tess as T


def run(res, replay=None):
    tier, seed = res.tier, res.seed
    res.rule = ("geometric suite: reported safety radius vs exact 2*sqrt(max vertex distance^2) of the model cell and >= 2 x distance to every implementation "
                "vertex (active subspace); metamorphic: generators appended outside the safety ball of a cell (just outside, far, corner directions) leave that "
                "cell bitwise unchanged. non-trivial = distinct (input, cell) with an added outside generator that lies inside the box")
    if replay:
        rp = json.load(open(replay))["replay"]
        data = geo.geo_data(tier, seed, inputs=[rp["input"]], name="geo_replay")
    else:
        data = geo.geo_data(tier, seed)
    rng = C.Rng(seed * 31 + 5)
    meta_inputs = []
    meta_info = []
    for k_in, rec in enumerate(data["recs"]):
        inp = rec["inp"]
        o = rec["impl_raw"]
        dim = inp["dim"]
        res.count(f"{inp['family']}:{dim}D:{'periodic' if inp['periodic'] else 'reflective'}")
        ctx = {"input": T.inp_json(inp)}
        if o is None or "panic" in o or o.get("vor") == "panic":
            res.violation("panic:" + geo.panic_class(rec), f"construction panicked: {(o or {}).get('panic')}", ctx)
            continue
        vor = T.decode_vor(o["vor"])
        tol = T.tolerances(inp)
        lmax = max(tol["L"][:dim])
        for gi, m in rec["model"].items():
            if m is None:
                continue
            sr = vor["cells"][gi]["safety_radius"]
            ex = 2.0 * math.sqrt(float(m["r2"]))
            iv = geo.impl_cell_view(rec, gi)
            g = rec["ms"]["gens"][gi]
            far = 0.0
            for v in iv["verts"]:
                far = max(far, math.sqrt(sum((v["loc"][k] - g[k]) ** 2 for k in range(dim))))
            ptol = max(100 * max(tol["eps"][:dim]), 10 * tol["rel"] * lmax)
            # the property is a lower bound (a larger radius is merely conservative)
            if not (sr >= ex - 2 * ptol):
                res.violation("C16:safety-radius-value" + geo.mismatch_class(rec), f"cell {gi}: safety radius {sr} is smaller than twice the distance {ex} to the farthest point of the exact cell",
                              dict(ctx, cell=gi, impl=sr, exact=ex))
            elif not (sr >= 2 * far * (1 - 1e-12) - 1e-300):
                res.violation("C16:safety-radius-small" + geo.mismatch_class(rec), f"cell {gi}: safety radius {sr} < 2 x distance {far} to its farthest vertex", dict(ctx, cell=gi))
        # the same lower bound on the route through cells with face data (3D): Voronoi::from(&integrator.with_faces())
        wf = o.get("wf")
        if isinstance(wf, dict) and isinstance(wf.get("vor"), dict):
            vwf = T.decode_vor(wf["vor"])
            for gi, m in rec["model"].items():
                if m is None or gi >= len(vwf["cells"]):
                    continue
                sr = vwf["cells"][gi]["safety_radius"]
                ex = 2.0 * math.sqrt(float(m["r2"]))
                ptol = max(100 * max(tol["eps"][:dim]), 10 * tol["rel"] * lmax)
                if not (sr >= ex - 2 * ptol):
                    res.violation("C16:safety-radius-value-with-faces" + geo.mismatch_class(rec), f"cell {gi}: the safety radius {sr} reported through the cells with face data is smaller than twice the distance {ex} "
                                  "to the farthest point of the exact cell", dict(ctx, cell=gi, impl=sr, exact=ex))
                    break
        # metamorphic inputs: a few per record (non-periodic and periodic alike)
        n = len(inp["gens"])
        if inp.get("mask") is None and n >= 2 and len(meta_inputs) < (40 if tier == "quick" else 400):
            a, w = T.norm_box(dim, inp["anchor"], inp["width"])
            gi = rng.below(n)
            sr = vor["cells"][gi]["safety_radius"]
            g = T.proj(dim, inp["gens"][gi])
            added = []
            for t in range(6):
                d = [rng.unit() - 0.5 if k < dim else 0.0 for k in range(3)]
                nn = math.sqrt(sum(x * x for x in d)) or 1.0
                fac = rng.choice([1.0 + 1e-9, 1.001, 1.5, 3.0])
                p = [g[k] + d[k] / nn * sr * fac for k in range(3)]
                if all(a[k] <= p[k] <= a[k] + w[k] for k in range(dim)):
                    pp = list(inp["gens"][0])
                    for k in range(dim):
                        pp[k] = p[k]
                    # really outside (in the active subspace, as the code measures it)?
                    # (with periodic boundaries every image of the added generator must be outside too)
                    rng_im = (-1, 0, 1) if inp["periodic"] else (0,)
                    dmin = min(math.sqrt(sum((pp[k] + im[k] * w[k] - g[k]) ** 2 for k in range(dim)))
                               for im in [(i, j, l) for i in rng_im for j in rng_im for l in rng_im])
                    if dmin > sr * (1 + 1e-12):
                        added.append(pp)
            if added:
                new = dict(inp, gens=list(inp["gens"]) + added)
                new = T.dedupe(new)
                if len(new["gens"]) == n + len(added) and "K2-cluster" not in T.known_class(new):
                    meta_inputs.append(new)
                    meta_info.append((k_in, gi, len(added)))
    if meta_inputs:
        wd = C.rundir("c16")
        os.makedirs(wd, exist_ok=True)
        cf = os.path.join(wd, "meta.cases")
        with open(cf, "w") as f:
            for inp in meta_inputs:
                f.write(T.case_line(inp, 1 | 2 | 8) + "\n")
        rc, impl, _ = C.run_impl(C.build_harness("debug"), cf, os.path.join(wd, "meta.out"))
        for j, (k_in, gi, nadd) in enumerate(meta_info):
            o2 = impl.get(j)
            base = data["recs"][k_in]["impl_raw"]
            ctx = {"input": T.inp_json(meta_inputs[j]), "cell": gi, "added": nadd}
            res.count("metamorphic-add-outside")
            if o2 is None or "panic" in o2:
                res.violation("panic:" + geo.panic_signature(o2, meta_inputs[j]), f"panicked after adding far generators: {(o2 or {}).get('panic')}", ctx)
                continue
            c1, c2 = base["vor"]["cells"][gi], o2["vor"]["cells"][gi]
            res.nontriv(("meta", k_in, gi))
            same = all(c1[f] == c2[f] for f in ("volume", "centroid", "safety_radius"))
            # the neighbours across faces of non-negligible area must be the same (in exactly degenerate configurations which
            # zero-area faces exist depends on the order in which equidistant neighbours are visited; that order legitimately
            # changes with the search tree, and a zero-area face does not change the cell)
            tol = T.tolerances(meta_inputs[j])
            thr = tol["area_min"] + tol["area_tol"]

            def faces_of(o, gi_):
                out = {}
                for fc in o["face_integrals"]:
                    if fc["left"] == gi_ and fc["right"] is not None:
                        k_ = (fc["right"], tuple(fc["shift"] or ()))
                        out[k_] = max(out.get(k_, 0.0), abs(C.b2f(fc["area"])))
                return out
            f1, f2 = faces_of(base, gi), faces_of(o2, gi)
            lost = sorted(k_ for k_, a in f1.items() if a > 2 * thr and f2.get(k_, 0.0) <= thr)
            gained = sorted(k_ for k_, a in f2.items() if a > 2 * thr and f1.get(k_, 0.0) <= thr)
            if lost or gained:
                res.violation("C16:far-generator-changes-neighbours", f"cell {gi}: adding {nadd} generators beyond its safety radius changed its neighbour set "
                              f"(faces of non-negligible area lost: {lost[:3]}, gained: {gained[:3]})", ctx)
            elif not same:
                if abs(C.b2f(c1["volume"]) - C.b2f(c2["volume"])) > tol["vol_tol"]:
                    res.violation("C16:far-generator-changes-cell", f"cell {gi}: adding {nadd} generators beyond its safety radius changed its volume "
                                  f"{C.b2f(c1['volume'])} -> {C.b2f(c2['volume'])}", ctx)
    res.sample({"metamorphic_inputs": len(meta_inputs), "example": T.inp_json(meta_inputs[0]) if meta_inputs else None})
