"""C09 - results are a pure function of the input, independent of the thread schedule.
(a) source-derived: every rayon pipeline of src/voronoi.rs is re-extracted, compared with its sequential
    twin, and emitted as a term of the Coq pipeline DSL that must satisfy wf_pipeline (C09_par_eq_seq then
    gives schedule independence for every split tree);
(b) dynamic: same inputs under many thread counts, repeated, and the build without the rayon feature."""
import json
import os
import re

import common as C
import tess as T

STAGE = {"enumerate": "Enumerate pr", "zip": "Zip other z", "map": "Map f", "filter_map": "FilterMap g", "flatten": "Flatten h"}
SOURCES = {"par_iter", "par_iter_mut", "into_par_iter", "iter", "iter_mut", "into_iter"}


def statements_after(src, marker):
    """[(position, statement text)] for every occurrence of the cfg marker: text up to the ';' or ')' that
    closes the statement at bracket depth 0"""
    out = []
    for m in re.finditer(re.escape(marker), src):
        i = m.end()
        depth = 0
        j = i
        while j < len(src):
            ch = src[j]
            if ch in "([{":
                depth += 1
            elif ch in ")]}":
                if depth == 0:
                    break
                depth -= 1
            elif ch == ";" and depth == 0:
                break
            j += 1
        out.append((m.start(), src[i:j].strip()))
    return out


def normalise(stmt):
    s = re.sub(r"\s+", "", stmt)
    s = re.sub(r"^return", "", s)
    s = re.sub(r"^let\w+(:[^=]+)?=", "let=", s)
    for a, b in (("into_par_iter", "into_iter"), ("par_iter_mut", "iter_mut"), ("par_iter", "iter"),
                 ("cells_map_flatten_par!", "cells_map_flatten!"), ("cells_map_par!", "cells_map!")):
        s = s.replace(a, b)
    s = s.replace("::<(),I>(())", "(())")   # turbofish only needed on one of the twins
    return s


def chain_of(stmt, macros):
    """list of stage names of the iterator chain in a statement (macros expanded); raises on unknown methods"""
    s = re.sub(r"\s+", "", stmt)
    m = re.search(r"(cells_map_flatten_par|cells_map_par|cells_map_flatten|cells_map)!\(", s)
    stages = []
    if m:
        s = macros[m.group(1)]
    # walk the top-level method calls
    depth = 0
    i = 0
    calls = []
    while i < len(s):
        ch = s[i]
        if ch in "([{":
            depth += 1
        elif ch in ")]}":
            depth -= 1
        elif ch == "." and depth == 0:
            mm = re.match(r"\.(\w+)", s[i:])
            if mm:
                calls.append(mm.group(1))
        i += 1
    seen_source = False
    for c in calls:
        if c in SOURCES:
            seen_source = True
            continue
        if not seen_source:
            continue          # field accesses before the iterator source (self.cells)
        if c in ("collect",):
            break
        if c in ("as_ref", "cells"):
            continue
        if c not in STAGE:
            raise ValueError(f"combinator .{c}() has no constructor in the pipeline DSL")
        stages.append(c)
    if not seen_source:
        raise ValueError("no iterator source found in: " + stmt[:80])
    return stages


def extract(src):
    macros = {}
    for m in re.finditer(r"macro_rules!\s*(\w+)\s*\{\s*\(\$cells:expr,\s*\$mappable:expr\)\s*=>\s*\{(.*?)\};\s*\}", src, re.S):
        macros[m.group(1)] = re.sub(r"\s+", "", m.group(2))
    par = [(p, s) for p, s in statements_after(src, '#[cfg(feature = "rayon")]') if not s.startswith("use ")]
    seq = statements_after(src, '#[cfg(not(feature = "rayon"))]')
    problems = []
    pipelines = []
    if len(par) != len(seq):
        problems.append(f"{len(par)} rayon statements but {len(seq)} sequential twins")
    for (pp, ps), (sp, ss) in zip(par, seq):
        if normalise(ps) != normalise(ss):
            problems.append(f"parallel statement differs from its sequential twin beyond the par_ spellings: `{ps[:70]}...` vs `{ss[:70]}...`")
        try:
            pipelines.append((ps, chain_of(ps, macros)))
        except ValueError as e:
            problems.append(str(e))
    return pipelines, problems


def run(res, replay=None):
    tier, seed = res.tier, res.seed
    res.rule = ("(a) all rayon pipelines of src/voronoi.rs (re-extracted every run) as Coq DSL terms; (b) inputs (n from 1 to 2000 quick / 20000 thorough, masks, "
                "1D/2D/3D, periodic or not) under RAYON_NUM_THREADS in {1,2,3,4,8,16,64} x repeats and the build without the rayon feature: complete output "
                "(cells, faces in order, connectivity, integral vectors, integrator route) byte-identical. non-trivial = distinct (input, thread count) with >= 2 cells")
    # ---------- (a) source-derived
    src = open(os.path.join(C.REPO, "src", "voronoi.rs")).read()
    pipelines, problems = extract(src)
    for fn in os.listdir(os.path.join(C.REPO, "src")):
        pass
    shared = []
    for root, _, files in os.walk(os.path.join(C.REPO, "src")):
        for fn in files:
            if fn.endswith(".rs") and not fn.startswith("verif_"):
                txt = open(os.path.join(root, fn)).read()
                txt = re.sub(r"#\[cfg\(meshless_voro_verif\)\][^\n]*\n(?:[^\n]*\n)?", "", txt)
                txt = re.sub(r"//[^\n]*", "", txt)      # comments
                for pat in (r"\bMutex\b", r"\bRwLock\b", r"\bAtomic\w+", r"\bRefCell\b", r"static\s+mut\b", r"\bUnsafeCell\b", r"thread_local!", r"\bpar_bridge\b", r"\bOnceCell\b", r"\bOnceLock\b", r"\bLazyLock\b", r"lazy_static"):
                    if re.search(pat, txt):
                        shared.append(f"{fn}: {pat}")
    gen = ("From Coq Require Import List Arith. Import ListNotations.\nFrom MV Require Import Model.Par Proofs.ParProofs.\n"
           "Section Gen.\nVariable U : Type.\nVariables (f : U -> U) (g : U -> option U) (h : U -> list U) (pr : nat -> U -> U) (z : U -> U -> U) (other : list U).\n"
           "Definition pipelines : list (list (stage U)) := [\n" +
           ";\n".join("  [" + "; ".join(STAGE[s] for s in st) + "]" for _, st in pipelines) + "].\n"
           "Theorem generated_pipelines_wf : forallb (wf_pipeline U true) pipelines = true.\nProof. reflexivity. Qed.\n"
           "Theorem generated_pipelines_schedule_independent : forall p, In p pipelines -> forall t o l, zips_fit U p o (length l) -> par_sem U p o l t = sem U p o l.\n"
           "Proof. intros p Hp. apply par_eq_seq. pose proof generated_pipelines_wf as H. rewrite forallb_forall in H. exact (H p Hp). Qed.\n"
           "End Gen.\nPrint Assumptions generated_pipelines_schedule_independent.\n")
    rc, out = C.coq_eval(gen, "C09_gen")
    res.count("source:pipeline", max(1, len(pipelines)))
    for ps, st in pipelines:
        res.nontriv(("pipe", ps[:60]))
    gen_ok = rc == 0 and "Closed under the global context" in out
    src_problems = list(problems) + [f"shared mutable state construct in {x}" for x in shared]
    if not gen_ok:
        src_problems.append("C09_gen.v (pipelines extracted from src/voronoi.rs) does not satisfy wf_pipeline / does not compile: " + out[-300:].replace("\n", " "))
    res.notes["pipelines"] = [st for _, st in pipelines]
    # ---------- (b) dynamic
    rng = C.Rng(seed * 3163 + 1)
    inputs = []
    if replay and "input" in json.load(open(replay))["replay"]:
        inputs = [json.load(open(replay))["replay"]["input"]]
    else:
        sizes = [2, 3, 7, 40, 300, 2000] if tier == "quick" else [2, 3, 7, 40, 300, 2000, 8000, 20000]
        for i, nmax in enumerate(sizes):
            for rep in range(2 if nmax <= 300 else 1):
                fam = ("tiny" if nmax <= 3 else ["uniform", "lattice", "uniform", "cospherical"][(i + rep) % 4]) if nmax <= 300 else "uniform"
                inp = T.gen_input(rng, fam, (i + rep) % 3 + 1 if nmax <= 300 else 3, (i + rep) % 2 == 1, nmax=nmax)
                if nmax > 300:
                    # make it really large: uniform points
                    a, w = inp["anchor"], inp["width"]
                    inp["gens"] = [[a[k] + w[k] * rng.unit() for k in range(3)] for _ in range(nmax)]
                    inp = T.dedupe(inp)
                if T.known_class(inp):
                    continue
                inputs.append(inp)
                if len(inp["gens"]) >= 2:
                    inputs.append(T.with_mask(rng, inp, "random"))
    if not replay:
        # exact lattices (many equidistant neighbours: any dependence on tie order shows up), cell counts
        # around multiples of the usual thread counts
        for dim, ks in ((3, (2, 3, 4, 5, 6, 8)), (2, (3, 4, 5, 8, 11, 16)), (1, (7, 16, 33))):
            for k in ks:
                per = (k + dim) % 2 == 0
                cnt = [k if a < dim else 1 for a in range(3)]
                gens = [[(i + 0.5) / cnt[0], (j + 0.5) / cnt[1] if dim >= 2 else 0.3, (l + 0.5) / cnt[2] if dim >= 3 else 0.7]
                        for i in range(cnt[0]) for j in range(cnt[1]) for l in range(cnt[2])]
                inputs.append({"family": "exact-lattice", "dim": dim, "periodic": per, "anchor": [0.0, 0.0, 0.0], "width": [1.0, 1.0, 1.0], "gens": gens, "mask": None})
    if not replay:
        # cells with many (> 64) planes and faces, 3D and 2D: any size-dependent change of container (e.g. a hash map with a random seed)
        # must not change the order of the faces
        for j in range(4 if tier == "quick" else 16):
            inp = T.gen_input(rng, "manyfaces", 3 if j % 2 == 0 else 2, j % 4 >= 2, nmax=40)
            if not T.known_class(inp):
                inputs.append(inp)
    wd = C.rundir("c09")
    os.makedirs(wd, exist_ok=True)
    cf = os.path.join(wd, "c09.cases")
    with open(cf, "w") as f:
        for inp in inputs:
            f.write(T.case_line(inp, 1 | 2 | (4 if inp["dim"] == 3 and len(inp["gens"]) <= 2000 else 0)) + "\n")
    exe = C.build_harness("release")
    exe_seq = C.build_harness("release", rayon=False)
    runs = []
    threads = [1, 2, 3, 4, 8, 16, 64]
    for t in threads:
        for rep in range(2 if t in (3, 16) else 1):
            runs.append((f"threads={t}#{rep}", exe, {"RAYON_NUM_THREADS": str(t)}))
    runs.append(("no-rayon-feature", exe_seq, {}))
    ref = None
    ref_name = None
    found = False
    for name, ex, env in runs:
        of = os.path.join(wd, f"c09.{name.replace('=', '').replace('#', '_')}.out")
        rc, impl, _ = C.run_impl(ex, cf, of, env=env)
        lines = {k: json.dumps(v, sort_keys=True) for k, v in impl.items()}
        for k, inp in enumerate(inputs):
            res.count(name)
            if len(inp["gens"]) >= 2:
                res.nontriv((k, name))
        if ref is None:
            ref, ref_name = lines, name
            for k, inp in enumerate(inputs):
                o = impl.get(k)
                if o is None or "panic" in o:
                    res.violation("panic:c09", f"construction panicked under {name}: {(o or {}).get('panic')}", {"input": T.inp_json(inp)})
            continue
        for k, inp in enumerate(inputs):
            if lines.get(k) != ref.get(k):
                a, b = json.loads(ref.get(k, "{}")), json.loads(lines.get(k, "{}"))
                diff = [key for key in set(a) | set(b) if a.get(key) != b.get(key)]
                res.violation("C09:schedule-dependent", f"output differs between {ref_name} and {name} (n = {len(inp['gens'])}, dim {inp['dim']}, periodic {inp['periodic']}, "
                              f"mask {'yes' if inp.get('mask') else 'no'}) in: {sorted(diff)[:6]}", {"input": T.inp_json(inp), "runs": [ref_name, name], "fields": sorted(diff)})
                found = True
                break
    if src_problems:
        for pr in src_problems:
            res.violation("C09:source:" + pr[:50], "source-derived obligation: " + pr + ("" if found else " (no run with a different result was observed among the explored schedules)"),
                          {"obligation": "C09_gen.v / twin comparison", "detail": pr}, no_input=not found)
    res.notes["thread_counts"] = threads
    res.sample({"pipelines": [st for _, st in pipelines][:4], "inputs": len(inputs), "largest_n": max(len(i["gens"]) for i in inputs)})
