"""C11 - all arbitrary-precision backends give identical results.
The harness is built once per backend feature (ibig, dashu, malachite, num_bigint; rug needs GMP/m4 and cannot
be built in this sandbox) and run on the same cases; outputs are compared byte for byte."""
import json
import os

import common as C
import tess as T

BACKENDS = ["ibig", "dashu", "malachite", "num_bigint"]


def run(res, replay=None):
    tier, seed = res.tier, res.seed
    res.rule = ("predicate tuples (random 52-bit, co-spherical exact and +-1 incl. rotated full-precision sets, coplanar, repeated, extremes, exhaustive {0,1}^3) and "
                "degenerate tessellations that reach the exact path (exact/near lattices, co-spherical, coplanar, tiny boxes; 1D/2D/3D; periodic or not; masks), run "
                "under every buildable backend; outputs compared byte for byte with the ibig build and the predicate with the Coq model. non-trivial = distinct case "
                "whose run consulted the exact predicate (or a predicate tuple)")
    import props.c10 as c10
    rng = C.Rng(seed * 6007 + 9)
    wd = C.rundir("C11")
    os.makedirs(wd, exist_ok=True)
    allc = c10.gen_insphere(rng, "quick")
    # a balanced share of every family (co-spherical exact / +-1 / rotated, coplanar, repeated, extremes, random)
    cap = 6000 if tier == "quick" else 40000
    byfam = {}
    for cs in allc:
        byfam.setdefault(cs[0], []).append(cs)
    quota = cap // len(byfam)
    cases = [cs for fam in sorted(byfam) for cs in byfam[fam][:quota]]
    rest = [cs for fam in sorted(byfam) for cs in byfam[fam][quota:]]
    cases += rest[: cap - len(cases)]
    lines = ["insphere " + " ".join(str(x) for p in pts for x in p) for _, pts in cases]
    for ai in range(8):
        lines.append(f"insphere_sweep 2 0 {ai}")
    tess_inputs = []
    fams = ["lattice", "cospherical", "coplanar", "lattice", "tiny", "uniform", "manyfaces"]
    k = 0
    cnt = 40 if tier == "quick" else 300
    while len(tess_inputs) < cnt:
        inp = T.gen_input(rng, fams[k % len(fams)], (k // 2) % 3 + 1, k % 3 == 0, nmax=30)
        k += 1
        if "K2-cluster" in T.known_class(inp):
            continue
        if k % 5 == 0 and len(inp["gens"]) >= 2:
            inp = T.with_mask(rng, inp, "random")
        tess_inputs.append(inp)
    n_pred = len(lines)
    for inp in tess_inputs:
        lines.append(T.case_line(inp, 1 | 2 | 8))
    cf = os.path.join(wd, "c11.cases")
    with open(cf, "w") as f:
        f.write("\n".join(lines) + "\n")
    outs = {}
    for b in BACKENDS:
        exe = C.build_harness("release", backend=b)
        of = os.path.join(wd, f"c11.{b}.out")
        rc, impl, _ = C.run_impl(exe, cf, of)
        outs[b] = {ln: json.dumps(o, sort_keys=True) for ln, o in impl.items()}
        res.notes[f"lines_{b}"] = len(impl)
    rcm, model, _ = C.run_model(cf)
    ref = outs["ibig"]
    for i in range(len(lines)):
        is_pred = i < n_pred
        fam = "predicate" if is_pred else "tessellation:" + tess_inputs[i - n_pred]["family"]
        res.count(fam)
        r = ref.get(i)
        if r is None:
            res.violation("C11:missing-output", f"no output for case {i} under ibig", {"case": lines[i][:300]})
            continue
        ro = json.loads(r)
        if is_pred or (ro.get("trace") or {}).get("exact", 0) > 0:
            res.nontriv((i,))
        for b in BACKENDS[1:]:
            x = outs[b].get(i)
            if x != r:
                ctx = {"case_line": lines[i][:2000], "backend": b}
                if not is_pred:
                    ctx["input"] = T.inp_json(tess_inputs[i - n_pred])
                what = f"backend {b} differs from ibig on {'predicate tuple' if is_pred else 'tessellation'} case {i}"
                if is_pred and x is not None and "r" in ro:
                    what += f": {C.b2f(json.loads(x).get('r', 0))} vs {C.b2f(ro['r'])} on points {lines[i]}"
                res.violation("C11:backends-differ:" + b, what, ctx)
                break
        if is_pred and "r" in ro:
            m = model.get(i)
            if m is not None and int(m[0]) != C.b2f(ro["r"]):
                res.disagreements += 1
                res.violation("corr:backend-model", f"ibig predicate {C.b2f(ro['r'])} differs from the Coq model {m[0]} on {lines[i]}", {"case_line": lines[i]}, no_input=True)
    res.sample({"predicate_cases": n_pred, "tessellations": len(tess_inputs), "backends": BACKENDS})
    res.notes["backends"] = BACKENDS
    res.notes["not_buildable"] = "rug (needs GMP/m4)"
