"""C05 - construction is total and robust on boundary and degenerate inputs.
Degenerate families only (generators on faces/edges/corners, single generator, collinear/coplanar, exact and
near lattices (perturbation 0..1e-6), co-spherical sets, clusters 1e-3..1e-12), debug and release builds under
catch_unwind: no panic, finite output, debug == release, every cell equals the exact model's (C01's
comparison), every exact-predicate decision recorded by the trace hook is consistent with the grid map and
with the Coq predicate."""
import json
import math
import os

import common as C
import decisions
import geo
import tess as T
from props import c01, c10, c05_filter


def iloc_replica(ms, x):
    """bit-exact replica of SimulationBoundary::iloc in Python floats (tied to the Flocq model by C10)"""
    dim, per = ms["dim"], ms["periodic"]
    a, w = ms["a"], ms["w"]
    a1, w1 = [], []
    for k in range(3):
        if per and k < dim:
            a1.append(a[k] - w[k])
            w1.append(w[k] * 3.0)
        else:
            a1.append(a[k])
            w1.append(w[k])
    if dim == 1:
        sw = [w1[0], w1[1], w1[2]]
    elif dim == 2:
        m = max(w1[0], w1[1])
        sw = [m, m, w1[2]]
    else:
        m = max(w1[0], max(w1[1], w1[2]))
        sw = [m, m, m]
    out = []
    for k in range(3):
        ga = a1[k] - 1.5 * w1[k]
        gi = 1.0 / (4.0 * sw[k])
        t = 1.0 + (x[k] - ga) * gi
        out.append(C.f2b(t) & 0xFFFFFFFFFFFFF)
    return out


def degenerate_suite(rng, tier):
    cnt = 72 if tier == "quick" else 720
    fams = ["lattice", "onwalls", "cospherical", "coplanar", "cluster", "tiny", "lattice", "cospherical", "manyfaces", "offlattice", "offlattice"]
    out = []
    k = 0
    while len(out) < cnt:
        inp = T.gen_input(rng, fams[k % len(fams)], (k // 3) % 3 + 1 if fams[k % len(fams)] != "offlattice" else rng.choice([3, 3, 2]), (k // 2) % 2 == 1, nmax=28)
        k += 1
        if len(inp["gens"]) >= 1:
            out.append(inp)
    return out


def run(res, replay=None):
    tier, seed = res.tier, res.seed
    res.rule = ("degenerate families only: exact/near lattices (eps 0, 1e-12, 1e-9, 1e-6), generators on walls/edges/corners, co-spherical/circular sets, "
                "collinear/coplanar sets, clusters (1e-3..1e-12), n = 1..3, cells with > 64 planes; 1D/2D/3D; periodic or not; box scales 1e-9..1e7; debug and release. "
                "Filter clause: HalfSpace::clip (public API) on planes x vertices of the constructed cells and on synthetic near-plane data (scales 1e-300..1e150, cancelling n.p) "
                "vs the Flocq binary64 model evaluated inside Coq and vs the exact rational sign. "
                "non-trivial = distinct input whose construction consulted the exact predicate, and distinct conclusive filter cases")
    rng = C.Rng(seed * 15485863 + 5)
    if replay and json.load(open(replay))["replay"].get("case") == "hsclip":
        rp = json.load(open(replay))["replay"]
        c05_filter.run_clause(res, rng, tier, [], replay_case=("replay", rp["n"], rp["p"], rp["v"]))
        return
    if replay:
        inputs = [json.load(open(replay))["replay"]["input"]]
    else:
        inputs = geo.corpus_inputs() + degenerate_suite(rng, tier)
    dbg = geo.geo_data(tier, seed, inputs=inputs, name="c05", opts=1 | 2 | 8 | 16, flags=8, profile="debug")
    rel = geo.geo_data(tier, seed, inputs=inputs, name="c05r", opts=1 | 2 | 8, flags=0, profile="release")
    n_exact_runs = 0
    n_exact_calls = 0
    dstats = {}
    pred_cases = []
    for k_in, rec in enumerate(dbg["recs"]):
        inp = rec["inp"]
        o = rec["impl_raw"]
        orl = rel["recs"][k_in]["impl_raw"]
        dim = inp["dim"]
        ctx = {"input": T.inp_json(inp)}
        res.count(f"{inp['family'].split(':')[0]}:{dim}D:{'periodic' if inp['periodic'] else 'reflective'}")
        for tag, oo in (("debug", o), ("release", orl)):
            if oo is None or "panic" in oo:
                res.violation("panic:" + geo.panic_signature(oo, inp), f"construction panicked in the {tag} build: {(oo or {}).get('panic')} "
                              f"(family {inp['family']} dim {dim} periodic {inp['periodic']}, n = {len(inp['gens'])})", ctx)
        # decision-level correspondence with the exact model: a decision taken by the filter alone must be the exact sign
        if o is not None and o.get("decisions"):
            st, badd = decisions.check(inp, o["decisions"], max_exact=3000 if tier == "quick" else 30000)
            for kk, vv in st.items():
                dstats[kk] = dstats.get(kk, 0) + vv
            if badd:
                b = badd[0]
                kind = "tie" if b["exact_sign"] == 0 else "wrong-side"
                illc = ":ill-conditioned-vertex" if b["vertex_conditioning"] < 1e-3 else ""
                res.violation("C05:filter-decides-" + kind + illc + (":K5-dependent-planes" if b["vertex_conditioning"] < 1e-9 else geo.mismatch_class(rec)),
                              f"cell {b['cell']}: the floating-point filter alone decided {b['filter']:+d} for vertex {b['dual']} against the bisector with generator {b['right']} "
                              f"(shift {b['shift']}), the exact sign on the ideal geometry is {b['exact_sign']:+d} ({len(badd)} such decisions in this construction; "
                              f"vertex conditioning {b['vertex_conditioning']:.2e}; family {inp['family']} dim {dim} periodic {inp['periodic']})", dict(ctx, decision=b))
        if o is None or "panic" in o or orl is None or "panic" in orl:
            continue
        tr = o.get("trace") or {}
        if tr.get("exact", 0) > 0:
            n_exact_runs += 1
            n_exact_calls += tr["exact"]
            res.nontriv((k_in,))
        # finite values
        vor = T.decode_vor(o["vor"])
        bad = None
        for i, c in enumerate(vor["cells"]):
            vals = [c["volume"], c["safety_radius"]] + c["centroid"] + c["loc"]
            if any((x != x) or x in (float("inf"), float("-inf")) for x in vals):
                bad = f"cell {i}: {vals}"
                break
        for j, f in enumerate(vor["faces"]):
            vals = [f["area"]] + f["centroid"] + f["normal"]
            if any((x != x) or x in (float("inf"), float("-inf")) for x in vals):
                bad = f"face {j}: {vals}"
                break
        if bad:
            res.violation("C05:non-finite" + geo.mismatch_class(rec), "non-finite value in the tessellation: " + bad, ctx)
        # debug == release
        for key in ("vor", "vor2", "cell_integrals", "face_integrals", "face_integrals_sym"):
            if json.dumps(o.get(key), sort_keys=True) != json.dumps(orl.get(key), sort_keys=True):
                res.violation("C05:debug-release-differ", f"debug and release builds give different results ({key}) on family {inp['family']} dim {dim}", ctx)
                break
        # the cells themselves (C01's comparison with the exact model)
        tol = T.tolerances(inp)
        for gi in rec["model"]:
            c01.compare_cell(res, rec, gi, tol, k_in)
        # exact-predicate decisions: grid points and predicate value
        ms = rec["ms"]
        for e in tr.get("exact_list", [])[:200]:
            A = [tuple(p) for p in e["args"]]
            g = ms["gens"][e["cell"]]
            if list(A[0]) != iloc_replica(ms, g):
                res.violation("C05:grid-point-of-generator", f"cell {e['cell']}: the exact predicate was given grid point {A[0]} for the generator, iloc gives {iloc_replica(ms, g)}", ctx)
                break
            # the other four arguments are the grid points of the generators behind the planes themselves (their stored positions plus the
            # periodic shift), not of anything recomputed from the planes: all cells must hand the predicate the same integer image of a generator
            def expected(right, shift_bits):
                h = ms["gens"][right]
                if shift_bits is None:
                    return iloc_replica(ms, h)
                sh = T.dv(shift_bits)
                return iloc_replica(ms, [h[k] + sh[k] for k in range(3)])
            wrong = None
            ic = (o.get("icells") or [None] * (e["cell"] + 1))[e["cell"]]
            if ic is not None:
                for t in range(3):
                    pl = ic["planes"][e["dual"][t]] if e["dual"][t] < len(ic["planes"]) else None
                    if pl is not None and pl["right"] is not None and list(A[1 + t]) != expected(pl["right"], pl["shift"]):
                        wrong = (1 + t, pl["right"], expected(pl["right"], pl["shift"]))
                        break
            if wrong is None and e.get("right", -1) is not None and e.get("right", -1) >= 0 and list(A[4]) != expected(e["right"], e.get("shift")):
                wrong = (4, e["right"], expected(e["right"], e.get("shift")))
            if wrong is not None:
                res.violation("C05:grid-point-of-neighbour", f"cell {e['cell']}: argument #{wrong[0]} of the exact predicate is {A[wrong[0]]}, but generator {wrong[1]} (plus shift) "
                              f"has grid point {wrong[2]}: the predicate was not evaluated on the generators' own grid points", dict(ctx, points=A))
                break
            if any(not (0 <= x < (1 << 52)) for p in A for x in p):
                res.violation("C05:grid-point-out-of-range", f"cell {e['cell']}: exact predicate argument outside [0, 2^52): {A}", ctx)
                break
            spec = c10.insphere_spec(*A)
            if C.b2f(e["clip"]) != spec:
                res.violation("C05:exact-decision-wrong", f"cell {e['cell']}: exact decision {C.b2f(e['clip'])} on {A}, sign of the lifted determinant {spec}", dict(ctx, points=A))
                break
            if len(pred_cases) < 3000:
                pred_cases.append(A)
    # the same decisions through the Coq model (extracted)
    if pred_cases:
        wd = C.rundir("c05")
        os.makedirs(wd, exist_ok=True)
        cf = os.path.join(wd, "pred.cases")
        with open(cf, "w") as f:
            for A in pred_cases:
                f.write("insphere " + " ".join(str(x) for p in A for x in p) + "\n")
        rcm, model, _ = C.run_model(cf)
        for i, A in enumerate(pred_cases):
            m = model.get(i)
            if m is None or int(m[0]) != c10.insphere_spec(*A):
                res.disagreements += 1
                res.violation("corr:c05-predicate-model", f"Coq insphere_model differs from the independent evaluation on {A}", {"points": A}, no_input=True)
                break
    res.notes["decision_level_correspondence"] = dstats
    res.notes["runs_that_reached_the_exact_predicate"] = n_exact_runs
    res.notes["exact_predicate_calls"] = n_exact_calls
    res.notes["decisions_checked_against_model"] = len(pred_cases)
    if n_exact_runs == 0 and not replay:
        res.violation("corr:c05-exact-path-not-reached", "no generated input reached the exact predicate: the run does not count", {"note": "generator problem"}, no_input=True)
    # the floating-point filter itself: HalfSpace::clip vs its binary64 model (the object of C05_filter_conclusive_is_exact_sign_binary64)
    if not replay:
        c05_filter.run_clause(res, C.Rng(seed * 8191 + 77), tier, rel["recs"])
    res.sample({"input": T.inp_json(inputs[-1]), "exact_runs": n_exact_runs})
