"""C17 - neighbour candidates are enumerated completely and in order of distance.
Hook: the full (untruncated) neighbour stream a cell would consume, and a dump of the R-tree."""
import json
import math
import os
from fractions import Fraction

import common as C
import tess as T


def tree_tokens(node, e):
    if isinstance(node, list):
        return ["L", str(node[0])] + [str(T.to_int(C.b2f(b), e)) for b in node[1:4]]
    toks = ["N"] + [str(T.to_int(C.b2f(b), e)) for b in node["lo"]] + [str(T.to_int(C.b2f(b), e)) for b in node["hi"]] + [str(len(node["c"]))]
    for c in node["c"]:
        toks += tree_tokens(c, e)
    return toks


def tree_values(node, out):
    if isinstance(node, list):
        out += [C.b2f(b) for b in node[1:4]]
    else:
        out += [C.b2f(b) for b in node["lo"]] + [C.b2f(b) for b in node["hi"]]
        for c in node["c"]:
            tree_values(c, out)


def wf_tree(node, lo=None, hi=None):
    """every child inside its parent's envelope (the theorem's hypothesis, on the real tree)"""
    if isinstance(node, list):
        p = [C.b2f(b) for b in node[1:4]]
        return lo is None or all(lo[k] <= p[k] <= hi[k] for k in range(3))
    l = [C.b2f(b) for b in node["lo"]]
    h = [C.b2f(b) for b in node["hi"]]
    if lo is not None and not all(lo[k] <= l[k] <= h[k] <= hi[k] for k in range(3)):
        return False
    return all(wf_tree(c, l, h) for c in node["c"])


def run(res, replay=None):
    tier, seed = res.tier, res.seed
    res.rule = ("generator sets (uniform, clustered, lattices with many equidistant points, tiny n; n up to 300 quick / 10^4 thorough; all box scales) x 1D/2D/3D x "
                "periodic/reflective x several query generators: first item is the query itself without shift; every (generator, image) exactly once; shifts are "
                "lattice vectors, absent iff zero; exact squared distances non-decreasing up to the rounding band of the keys; R-tree dump well formed; for n <= 400 "
                "the stream equals the Coq best-first model run on the dumped tree up to the order inside equal-key groups. non-trivial = distinct (input, query)")
    rng = C.Rng(seed * 8191 + 17)
    inputs = []
    if replay:
        rp = json.load(open(replay))["replay"]
        inputs = [(rp["input"], rp.get("queries", [0]))]
    else:
        cnt = 24 if tier == "quick" else 120
        fams = ["uniform", "lattice", "tiny", "cluster", "uniform", "lattice", "onwalls", "aniso"]
        for k in range(cnt):
            nmax = rng.choice([6, 40, 300]) if tier == "quick" else rng.choice([6, 40, 300, 2000, 10000])
            inp = T.gen_input(rng, fams[k % len(fams)], k % 3 + 1, (k // 3) % 2 == 1, nmax=nmax)
            n = len(inp["gens"])
            qs = sorted({rng.below(n) for _ in range(3)})
            inputs.append((inp, qs))
    wd = C.rundir("c17")
    os.makedirs(wd, exist_ok=True)
    cf = os.path.join(wd, "nn.cases")
    with open(cf, "w") as f:
        for inp, qs in inputs:
            dim = inp["dim"]
            a, w = T.norm_box(dim, inp["anchor"], inp["width"])
            toks = ["nn", str(dim), "1" if inp["periodic"] else "0"] + [str(C.f2b(x)) for x in w] + [str(len(inp["gens"]))]
            for g in inp["gens"]:
                toks += [str(C.f2b(x)) for x in g]
            toks += [str(len(qs))] + [str(q) for q in qs]
            f.write(" ".join(toks) + "\n")
    rc, impl, _ = C.run_impl(C.build_harness("release"), cf, os.path.join(wd, "nn.out"))
    model_jobs = []
    for k, (inp, qs) in enumerate(inputs):
        o = impl.get(k)
        dim, per = inp["dim"], inp["periodic"]
        n = len(inp["gens"])
        ctx = {"input": T.inp_json(inp), "queries": qs}
        res.count(f"{inp['family']}:{dim}D:{'periodic' if per else 'reflective'}:n<={10 ** max(1, math.ceil(math.log10(max(n, 2))))}")
        if o is None or "panic" in o:
            res.violation("C17:panic", f"neighbour search panicked: {(o or {}).get('panic')}", ctx)
            continue
        a, w = T.norm_box(dim, inp["anchor"], inp["width"])
        gens = [T.proj(dim, g) for g in inp["gens"]]
        shifts = [(0, 0, 0)]
        if per:
            shifts = [(i, j, l) for i in (-1, 0, 1) for j in ((-1, 0, 1) if dim >= 2 else (0,)) for l in ((-1, 0, 1) if dim >= 3 else (0,))]
        if not all(wf_tree(t) for t in o["tree"]):
            res.violation("corr:rtree-not-wellformed", "the dumped R-tree violates the envelope nesting the theorems assume (wf_tree)", ctx, no_input=True)
        M = max(max(abs(x) for g in gens for x in g), max(w))
        for qi, q in enumerate(qs):
            vis = o["visits"][qi]
            res.nontriv((k, q))
            qctx = dict(ctx, query=q)
            if not vis or vis[0] != [q]:
                res.violation("C17:first-not-self", f"query {q}: the first visited item is {vis[:1]}, not the generator itself without shift", qctx)
                continue
            seen = {}
            keys = []
            ok = True
            for it in vis:
                if len(it) == 1:
                    s = (0, 0, 0)
                    sv = (0.0, 0.0, 0.0)
                else:
                    sv = tuple(C.b2f(b) for b in it[1:4])
                    comps = [sv[c] / w[c] for c in range(3)]
                    if any(x not in (-1.0, 0.0, 1.0) for x in comps) or all(x == 0 for x in comps) or any(comps[c] != 0 for c in range(dim, 3)):
                        res.violation("C17:shift-not-lattice", f"query {q}: item {it[0]} reported with shift {sv} (width {w}): not a non-zero lattice vector of the active axes", qctx)
                        ok = False
                        break
                    s = tuple(int(x) for x in comps)
                seen[(it[0], s)] = seen.get((it[0], s), 0) + 1
                pos = [gens[it[0]][c] + sv[c] for c in range(3)]   # the position the cell builder will use
                d2 = sum((Fraction(gens[q][c]) - Fraction(pos[c])) ** 2 for c in range(3))
                keys.append(d2)
            if not ok:
                continue
            expect = {(i, s) for i in range(n) for s in shifts}
            if set(seen) != expect or any(v != 1 for v in seen.values()):
                missing = sorted(expect - set(seen))[:3]
                extra = sorted(set(seen) - expect)[:3]
                dup = [kk for kk, v in seen.items() if v != 1][:3]
                res.violation("C17:not-each-once", f"query {q}: visited set differs from generators x images: missing {missing}, unexpected {extra}, repeated {dup}", qctx)
                continue
            # order up to the rounding band of the keys
            fk = [float(x) for x in keys]
            run_max = 0.0
            run_i = 0
            for j, kj in enumerate(fk):
                if kj < run_max:
                    band = 64 * 2.0 ** -53 * (M + max(w)) * (math.sqrt(run_max) + math.sqrt(kj)) + 1e-300
                    if run_max - kj > band:
                        res.violation("C17:not-in-order", f"query {q}: item #{j} (generator {vis[j][0]}, distance^2 {kj}) is visited after item #{run_i} (distance^2 {run_max})", qctx)
                        break
                else:
                    run_max, run_i = kj, j
            if n <= 400 and len(model_jobs) < (60 if tier == "quick" else 300):
                model_jobs.append((k, qi))
    # Coq model on the dumped tree, exact keys
    if model_jobs:
        mf = os.path.join(wd, "nn.model.cases")
        with open(mf, "w") as f:
            for (k, qi) in model_jobs:
                inp, qs = inputs[k]
                o = impl[k]
                dim, per = inp["dim"], inp["periodic"]
                a, w = T.norm_box(dim, inp["anchor"], inp["width"])
                gens = [T.proj(dim, g) for g in inp["gens"]]
                vals = []
                for t in o["tree"]:
                    tree_values(t, vals)
                shifts = [(0, 0, 0)]
                if per:
                    shifts = [(i, j, l) for i in (-1, 0, 1) for j in ((-1, 0, 1) if dim >= 2 else (0,)) for l in ((-1, 0, 1) if dim >= 3 else (0,))]
                svals = [[float(s[c]) * w[c] for c in range(3)] for s in shifts]
                e = T.scale_exp(vals + [x for g in gens for x in g] + [x for s in svals for x in s])
                q = gens[qs[qi]]
                toks = ["nn"] + [str(T.to_int(x, e)) for x in q] + [str(len(shifts))]
                for s, sv in zip(shifts, svals):
                    # heap shift is applied to the query point: query + shift_q ; reported shift = - shift_q
                    toks += [str(T.to_int(-x, e)) for x in sv] + [str(T.shift_code(s))]
                for t in o["tree"]:
                    toks += tree_tokens(t, e)
                f.write(" ".join(toks) + "\n")
        rcm, outm, _ = C.sh([C.build_runner(), mf], timeout=3000)
        got = {}
        for ln in outm.splitlines():
            sp = ln.split(" ", 1)
            if len(sp) == 2 and sp[0].isdigit():
                got[int(sp[0])] = json.loads(sp[1])
        for idx, (k, qi) in enumerate(model_jobs):
            inp, qs = inputs[k]
            ctx = {"input": T.inp_json(inp), "queries": qs, "query": qs[qi]}
            m = got.get(idx)
            if m is None:
                res.violation("corr:bestfirst-model-missing", "the Coq best-first model produced no stream", ctx, no_input=True)
                continue
            a, w = T.norm_box(inp["dim"], inp["anchor"], inp["width"])
            vis = impl[k]["visits"][qi]
            iv = []
            for it in vis:
                s = (0, 0, 0) if len(it) == 1 else tuple(int(round(C.b2f(it[1 + c]) / w[c])) for c in range(3))
                iv.append((it[0], T.shift_code(s)))
            # group the model stream by key; the implementation must visit group by group up to rounding ties
            mv = [(key, gid, code) for key, gid, code in m]
            if sorted((g, c) for _, g, c in mv) != sorted(iv):
                res.disagreements += 1
                res.violation("corr:bestfirst-set", "the Coq model's visit set on the dumped tree differs from the implementation's", ctx, no_input=True)
                continue
            keyof = {(g, c): key for key, g, c in mv}
            prev = None
            bad = None
            for j, it in enumerate(iv):
                kx = keyof[it]
                if prev is not None and kx < prev:
                    # allowed only inside the rounding band (keys are exact integers scaled by 2^2e)
                    rel = float(prev - kx) / max(float(prev), 1e-300)
                    if rel > 1e-9:
                        bad = (j, it)
                        break
                prev = max(prev, kx) if prev is not None else kx
            if bad:
                res.disagreements += 1
                res.violation("corr:bestfirst-order", f"implementation visits {bad[1]} at position {bad[0]} out of the exact-key order of the Coq model (C17_visits_sorted)", ctx, no_input=True)
    res.notes["model_streams_compared"] = len(model_jobs)
    if inputs:
        res.sample({"input": {kk: vv for kk, vv in T.inp_json(inputs[0][0]).items() if kk != "gens"}, "n": len(inputs[0][0]["gens"]), "queries": inputs[0][1]})
