"""C12 - connectivity is a consistent index structure.
Spec evaluated directly on the implementation's arrays (both routes); correspondence with the
Coq model `assemble` evaluated on the implementation's plane metadata."""
import json

import common as C
import geo
import structural as S
import tess as T


def check_connectivity(res, case, vor, route, ctx, stored_own):
    """the property itself, on one tessellation"""
    cells, faces, conn = vor["cells"], vor["faces"], vor["conn"]
    n = len(cells)
    off = 0
    for c, cell in enumerate(cells):
        if cell["offset"] != off:
            res.violation("C12:offset-not-prefix-sum", f"{route}: cell {c} offset {cell['offset']} but prefix sum of counts is {off}", ctx)
            return
        sl = conn[cell["offset"]:cell["offset"] + cell["count"]]
        if sl != cell["face_indices"]:
            res.violation("C12:face-indices-slice", f"{route}: cell {c} face_indices differ from its slice of the connectivity array", ctx)
        off += cell["count"]
    if off != len(conn):
        res.violation("C12:total-length", f"{route}: sum of counts {off} != array length {len(conn)}", ctx)
    # who lists each face
    listed = {}
    for c, cell in enumerate(cells):
        for i in cell["face_indices"]:
            if not (0 <= i < len(faces)):
                res.violation("C12:face-index-range", f"{route}: cell {c} lists face {i} out of {len(faces)}", ctx)
                return
            listed.setdefault(i, []).append(c)
    for i, f in enumerate(faces):
        exp = [f["left"]]
        if f["right"] is not None and f["shift"] is None:
            exp.append(f["right"])
        if sorted(listed.get(i, [])) != sorted(exp):
            res.violation("C12:listed-by", f"{route}: face {i} (left {f['left']}, right {f['right']}, shift {f['shift']}) is listed by cells {sorted(listed.get(i, []))}, expected {sorted(exp)}",
                          dict(ctx, face=i))
            break
    # neighbour iterator
    for c, cell in enumerate(cells):
        exp = []
        for i in cell["face_indices"]:
            f = faces[i]
            if f["right"] is None or f["shift"] is not None:
                continue
            exp.append(f["right"] if f["left"] == c else f["left"])
        got = cell["neighbour_ids"]
        constructed = case.get("mask") is None or case["mask"][c]
        sig = "C12:neighbour-ids" + ("" if constructed else ":unconstructed")
        if sorted(got) != sorted(exp) or len(set(got)) != len(got) or c in got:
            res.violation(sig, f"{route}: neighbour_ids of {'constructed' if constructed else 'unconstructed'} cell {c} = {got}; other sides of its listed interior faces = {exp}",
                          dict(ctx, cell=c))
            break


def run(res, replay=None):
    tier, seed = res.tier, res.seed
    res.rule = ("inputs (n<=5: all 2^n masks; larger: random/single/none/all masks) x 1D/2D/3D x periodic/reflective, both construction routes "
                "(Voronoi::build*, Voronoi::from(&integrator), with and without face data). non-trivial = distinct (input, mask) with >= 1 face")
    inputs = None
    if replay:
        inputs = [json.load(open(replay))["replay"]["input"]]
        inputs[0].setdefault("group", "replay")
    data = S.struct_data(tier, seed, inputs)
    for k, case in enumerate(data["cases"]):
        o = data["impl"].get(k)
        a, w = T.norm_box(case["dim"], case["anchor"], case["width"])
        ctx = {"input": T.inp_json(case)}
        res.count(f"{case['group']}:{case['dim']}D:{'periodic' if case['periodic'] else 'reflective'}:{'mask' if case.get('mask') is not None else 'full'}")
        if o is None or "panic" in o:
            res.violation("panic:" + geo.panic_signature(o, case),
                          f"construction panicked: {(o or {}).get('panic')}", ctx)
            continue
        routes = [("direct", o["vor"]), ("via-integrator", o["vor2"])]
        if isinstance(o.get("wf"), dict):
            routes.append(("via-integrator-with-faces", o["wf"]["vor"]))
        m = data["model"].get(k)
        for route, vor in routes:
            check_connectivity(res, case, vor, route, ctx, False)
            if m is None:
                res.violation("corr:assemble-model-missing", "structural model produced no output", ctx, no_input=True)
                continue
            # correspondence with the Coq model on the implementation's own metadata
            fk_i = [S.face_key(f, w) for f in vor["faces"]]
            fk_m = [S.model_face_key(f) for f in m["faces"]]
            diffs = []
            if fk_i != fk_m:
                diffs.append("face list")
            if vor["conn"] != m["conn"]:
                diffs.append("connectivity array")
            if [c["offset"] for c in vor["cells"]] != m["offsets"] or [c["count"] for c in vor["cells"]] != m["counts"]:
                diffs.append("offsets/counts")
            if [c["neighbour_ids"] for c in vor["cells"]] != m["nbrs"]:
                diffs.append("neighbour_ids")
            if diffs:
                res.disagreements += 1
                res.violation("corr:assemble:" + route, f"{route}: implementation differs from Model.Assemble.assemble on its own plane metadata in: {', '.join(diffs)} "
                              f"(theorems C12_* are about that model)", dict(ctx, differs=diffs, correspondence="Model.Assemble.assemble"), no_input=True)
        if len(o["vor"]["faces"]) > 0:
            res.nontriv((k,))
        if k < 2:
            res.sample({"input": T.inp_json(case), "faces": len(o["vor"]["faces"]), "conn": o["vor"]["conn"][:12]})
