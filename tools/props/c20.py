"""C20 - auxiliary structures: uniform-grid kNN and bounding spheres (reference code, reached through hooks)."""
import json
import math
import os
from fractions import Fraction

import common as C


def fr(x):
    return Fraction(*float(x).as_integer_ratio())


def run(res, replay=None):
    tier, seed = res.tier, res.seed
    res.rule = ("kNN: particle sets in the half-open box (uniform, clustered, lattice with ties avoided, sparse grids) x cubic and non-cubic boxes x maximal cell "
                "widths x k from 0 to n-1, against exact brute force (squared distances as rationals; results must be the k nearest others in increasing distance). "
                "spheres: Welzl / EPOS-6 on point sets (n = 1, duplicates, co-spherical, random) and spheres of spheres: containment; Welzl: minimality certificate "
                "(no smaller sphere through <= 4 support points contains all points). non-trivial = distinct case")
    rng = C.Rng(seed * 1217 + 7)
    wd = C.rundir("c20")
    os.makedirs(wd, exist_ok=True)
    cases = []
    if replay:
        rp = json.load(open(replay))["replay"]
        cases = [rp["case"]]
    else:
        nk = 60 if tier == "quick" else 600
        for i in range(nk):
            cubic = i % 2 == 0
            w0 = rng.choice([1.0, 2.0, 0.37])
            width = [w0, w0, w0] if cubic else [w0 * rng.choice([1.0, 0.5, 2.3]), w0 * rng.choice([1.0, 1.7, 0.31]), w0 * rng.choice([1.0, 3.1, 0.45])]
            anchor = [rng.choice([0.0, 1.0, -2.5]) for _ in range(3)]
            mcw = max(width) * rng.choice([0.26, 0.34, 0.51, 1.0, 0.12])
            if i % 6 == 3:
                # tipping shape (see the ringgap family below): the longest side has the narrowest cells
                m = rng.choice([1, 2, 3, 4])
                width = [w0, w0, w0]
                width[rng.below(3)] = w0 * (1.0 + rng.choice([0.01, 0.003, 0.1]))
                mcw = w0 / m * 1.0000001
            n = rng.range(2, 60)
            fam = rng.choice(["uniform", "uniform", "cluster", "sparse"])
            pts = []
            for _ in range(n):
                if fam == "cluster" and rng.chance(0.7):
                    c = [anchor[a] + width[a] * 0.3 for a in range(3)]
                    p = [c[a] + width[a] * 0.05 * rng.unit() for a in range(3)]
                elif fam == "sparse":
                    p = [anchor[a] + width[a] * (rng.choice([0.05, 0.5, 0.95]) + 0.04 * rng.unit()) for a in range(3)]
                else:
                    p = [anchor[a] + width[a] * rng.unit() * 0.999 for a in range(3)]
                p = [min(max(p[a], anchor[a]), C.next_up(anchor[a] + width[a], -2)) for a in range(3)]
                pts.append(p)
            if i % 5 == 4 and n >= 3:
                # coincident particles (bit-identical positions): the other particle at distance 0 is the nearest neighbour
                for _ in range(rng.range(1, 3)):
                    pts[rng.below(n)] = list(pts[rng.below(n)])
            k = min(n - 1, rng.choice([0, 1, 2, min(5, n - 1), n - 1, rng.below(n)]))
            cases.append({"kind": "knn", "cubic": cubic, "anchor": anchor, "width": width, "mcw": mcw, "k": k, "pts": pts})
        # adversarial family for the ring-termination bound: anisotropic grid cells; P just below a face on a thin axis t, Q two cells away along t,
        # A one (fat) cell away along f with |PQ| < |PA| < dist_to_face + cell width on f: the search may only stop after ring 2
        ng, tries = (24 if tier == "quick" else 240), 0
        while ng > 0 and tries < 20000:
            tries += 1
            w0 = rng.choice([1.0, 2.0, 0.37])
            width = [w0 * rng.choice([1.0, 0.6, 2.3, 0.77]), w0 * rng.choice([1.0, 1.7, 0.6, 0.31]), w0 * rng.choice([1.0, 3.1, 0.45, 0.8])]
            anchor = [rng.choice([0.0, 1.0, -2.5]) for _ in range(3)]
            mcw = max(width) * rng.choice([0.26, 0.34, 0.21, 0.12])
            t, f_ = rng.below(3), rng.below(3)
            if ng % 2 == 0:
                # "tipping" shapes: almost cubic box, one side slightly longer so that it gets one cell more than the others and its cells are the
                # narrowest although it is the longest side (the narrowest cell need not lie along the shortest side nor along the fewest cells)
                m = rng.choice([2, 3, 4, 5])
                width = [w0, w0, w0]
                width[t] = w0 * (1.0 + rng.choice([0.01, 0.003, 0.1]))
                mcw = w0 / m * 1.0000001
            cdim = [math.ceil(width[a] / mcw) for a in range(3)]
            cw = [width[a] / cdim[a] for a in range(3)]
            if t == f_ or cdim[t] < 3 or cdim[f_] < 2 or cw[f_] < 1.1 * cw[t]:
                continue
            st, sf = rng.choice([1, -1]), rng.choice([1, -1])
            dtf = cw[t] * rng.choice([0.01, 0.05, 0.002])
            pq = dtf + cw[t] * 1.02
            hi = min(dtf + cw[f_], 1.45 * cw[f_])
            lo = max(pq, 0.55 * cw[f_])
            if lo * 1.01 >= hi:
                continue
            pa = lo + (hi - lo) * rng.choice([0.5, 0.1, 0.9])
            P = [anchor[a] + cw[a] * 0.5 for a in range(3)]                  # cell 0, centred
            for a, sgn in ((t, st), (f_, sf)):
                if sgn < 0:
                    P[a] = anchor[a] + width[a] - cw[a] * 0.5              # last cell
            P[t] = (anchor[t] + cw[t] - dtf) if st > 0 else (anchor[t] + width[t] - cw[t] + dtf)
            Q = list(P)
            Q[t] = P[t] + st * pq
            A = list(P)
            A[f_] = P[f_] + sf * pa
            pts = [P, A, Q]
            for _ in range(rng.range(1, 6)):
                for _ in range(50):
                    x = [anchor[a] + width[a] * rng.unit() * 0.999 for a in range(3)]
                    if math.sqrt(sum((x[a] - P[a]) ** 2 for a in range(3))) > 2.5 * pa:
                        pts.append(x)
                        break
            if len(pts) < 4 or any(not (anchor[a] <= p[a] < anchor[a] + width[a]) for p in pts for a in range(3)):
                continue
            ng -= 1
            cases.append({"kind": "knn", "cubic": False, "family": "ringgap", "anchor": anchor, "width": width, "mcw": mcw, "k": rng.choice([1, 1, 2]), "pts": pts})
        # near ties: neighbours of one particle at distances r (1 + j delta), delta down to 1e-10 (squared distances equal in single precision,
        # distinct in double), in shuffled order and spread over several grid cells: the ranking must still be exact
        for i in range(12 if tier == "quick" else 120):
            w0 = rng.choice([1.0, 2.0, 0.37])
            width = [w0, w0, w0] if i % 2 == 0 else [w0 * 1.3, w0, w0 * 0.8]
            anchor = [rng.choice([0.0, 1.0, -2.5]) for _ in range(3)]
            mcw = max(width) * rng.choice([0.2, 0.07, 0.5, 1.0])
            P = [anchor[a] + width[a] * (0.4 + 0.2 * rng.unit()) for a in range(3)]
            r = 0.1 * min(width) * (0.5 + rng.unit())
            delta = rng.choice([1e-9, 1e-10, 3e-8, 1e-12])
            dirs = [(1, 0, 0), (-1, 0, 0), (0, 1, 0), (0, -1, 0), (0, 0, 1), (0, 0, -1), (0.6, 0.8, 0), (0, -0.6, 0.8), (0.8, 0, -0.6)]
            rng.shuffle(dirs)
            m = rng.range(3, len(dirs))
            ring = [[P[a] + r * (1 + j * delta) * d[a] for a in range(3)] for j, d in enumerate(dirs[:m])]
            rng.shuffle(ring)
            pts = [P] + ring
            for _ in range(rng.range(0, 20)):
                x = [anchor[a] + width[a] * rng.unit() * 0.999 for a in range(3)]
                if math.sqrt(sum((x[a] - P[a]) ** 2 for a in range(3))) > 1.5 * r:
                    pts.append(x)
            if any(not (anchor[a] <= q[a] < anchor[a] + width[a]) for q in pts for a in range(3)):
                continue
            cases.append({"kind": "knn", "cubic": i % 2 == 0, "family": "neartie", "anchor": anchor, "width": width, "mcw": mcw, "k": rng.choice([1, 2, m - 1, m, min(m + 1, len(pts) - 1)]), "pts": pts})
        ns = 160 if tier == "quick" else 1600
        for i in range(ns):
            op = ["welzl", "epos6", "epos6s"][i % 3]
            fam = rng.choice(["random", "single", "duplicates", "cospherical", "collinear", "random", "origin", "origin"])
            n = 1 if fam == "single" else rng.range(2, 30)
            ctr = [rng.uniform(-3, 3) for _ in range(3)]
            pts = []
            for j in range(n):
                if fam == "duplicates":
                    p = list(ctr) if j % 2 == 0 else [ctr[0] + 1.0, ctr[1], ctr[2]]
                elif fam == "cospherical":
                    v = [rng.unit() - 0.5 for _ in range(3)]
                    nv = math.sqrt(sum(x * x for x in v)) or 1.0
                    p = [ctr[a] + v[a] / nv for a in range(3)]
                elif fam == "collinear":
                    t = rng.unit()
                    p = [ctr[0] + t, ctr[1] + 2 * t, ctr[2] - t]
                else:
                    p = [ctr[a] + rng.uniform(-1, 1) for a in range(3)]
                pts.append(p)
            if fam == "origin":
                # a point exactly at the origin (= centre of Sphere::EMPTY), all points distinct; half the time the origin is an extreme point of the set
                n = rng.choice([2, 2, 3, 3, 4, 5, 8])
                if rng.chance(0.5):
                    op = "welzl"
                octant = rng.chance(0.5)
                pts = [[(rng.unit() * 2 + 0.01) if octant else rng.uniform(-1, 1) for _ in range(3)] for _ in range(n)]
                pts[rng.below(n)] = [0.0, 0.0, 0.0]
            if fam == "duplicates" and n >= 2 and rng.chance(0.5):
                pts = [list(pts[0]) for _ in range(n)]      # all coincident
            radii = [rng.choice([0.0, 0.1, rng.unit()]) for _ in range(n)]
            cases.append({"kind": "sphere", "op": op, "family": fam, "pts": pts, "radii": radii})
    cf = os.path.join(wd, "c20.cases")
    with open(cf, "w") as f:
        for c in cases:
            if c["kind"] == "knn":
                toks = ["knn"] + [str(C.f2b(x)) for x in c["anchor"]] + [str(C.f2b(x)) for x in c["width"]] + [str(C.f2b(c["mcw"])), str(c["k"]), str(len(c["pts"]))]
                toks += [str(C.f2b(x)) for p in c["pts"] for x in p]
            else:
                toks = ["sphere", c["op"], str(len(c["pts"]))]
                for p, r in zip(c["pts"], c["radii"]):
                    toks += [str(C.f2b(x)) for x in p]
                    if c["op"] == "epos6s":
                        toks.append(str(C.f2b(r)))
            f.write(" ".join(toks) + "\n")
    rc, impl, _ = C.run_impl(C.build_harness("debug"), cf, os.path.join(wd, "c20.out"), stall=45)
    for i, c in enumerate(cases):
        o = impl.get(i)
        ctx = {"case": c}
        if c["kind"] == "knn":
            n, k = len(c["pts"]), c["k"]
            res.count(f"knn:{'cubic' if c['cubic'] else 'non-cubic'}")
            res.nontriv(("knn", i))
            if o is None or "panic" in o:
                res.violation("C20:knn-panic", f"kNN panicked: {(o or {}).get('panic')} (n={n}, k={k}, width {c['width']}, max cell width {c['mcw']})", ctx)
                continue
            P = [[fr(x) for x in p] for p in c["pts"]]
            for a in range(n):
                d = sorted((sum((P[a][t] - P[b][t]) ** 2 for t in range(3)), b) for b in range(n) if b != a)
                got = o["nn"][a]
                gd = [sum((P[a][t] - P[b][t]) ** 2 for t in range(3)) for b in got]
                exp = [x[0] for x in d[:k]]
                if len(got) != k or a in got or len(set(got)) != len(got) or gd != exp:
                    sig = "C20:knn-wrong" + ("" if c["cubic"] else ":non-cubic")
                    res.violation(sig, f"kNN of particle {a} (k={k}, n={n}, box width {c['width']}, max cell width {c['mcw']}): returned {got} with squared distances "
                                  f"{[float(x) for x in gd][:4]}..., the k nearest others have {[float(x) for x in exp][:4]}...", ctx)
                    break
        else:
            res.count(f"sphere:{c['op']}:{c['family']}")
            res.nontriv(("sphere", i))
            if o is None or "panic" in o:
                res.violation("C20:sphere-panic:" + c["op"] + (":coincident-points" if (len(c["pts"]) == 1 or len({tuple(p) for p in c["pts"]}) < len(c["pts"])) else ""), f"{c['op']} panicked on family {c['family']}: {(o or {}).get('panic')}", ctx)
                continue
            ctr = [C.b2f(b) for b in o["center"]]
            r = C.b2f(o["radius"])
            # recorded finding F5: a single point / coincident points (zero-size spheres) are mishandled
            keyset = {tuple(p) for p in c["pts"]}
            zero_size = c["op"] == "epos6s" and any(rr == 0.0 for rr in c["radii"])   # points given as spheres of radius 0
            coincident = ":coincident-points" if (len(c["pts"]) == 1 or len(keyset) < len(c["pts"]) or zero_size) else ""
            if any(x != x for x in ctr) or r != r:
                res.violation("C20:sphere-nan:" + c["op"] + coincident, f"{c['op']} returns NaN for family {c['family']} n={len(c['pts'])}", ctx)
                continue
            scale = 1.0 + max(abs(x) for p in c["pts"] for x in p)
            bad = None
            for p, rr in zip(c["pts"], c["radii"]):
                extra = rr if c["op"] == "epos6s" else 0.0
                dist = math.sqrt(sum((p[t] - ctr[t]) ** 2 for t in range(3)))
                if dist + extra > r * (1 + 1e-9) + 1e-9 * scale:
                    bad = (p, dist + extra)
                    break
            if bad:
                n = len(c["pts"])
                sig = "C20:sphere-not-containing:" + c["op"] + coincident
                res.violation(sig, f"{c['op']} ({c['family']}, n={n}): sphere centre {ctr} radius {r} does not contain {bad[0]} (distance {bad[1]})", ctx)
                continue
            if c["op"] == "welzl" and len(c["pts"]) >= 2:
                # minimality: no strictly smaller enclosing sphere: compare with the best sphere through 2, 3 or 4 of the points (brute force, small n)
                pts = c["pts"]
                if len(pts) <= 12:
                    best = None
                    import itertools
                    for m in (2, 3, 4):
                        for comb in itertools.combinations(range(len(pts)), m):
                            s = sphere_through([pts[j] for j in comb])
                            if s is None:
                                continue
                            cc, rr = s
                            if all(math.sqrt(sum((p[t] - cc[t]) ** 2 for t in range(3))) <= rr * (1 + 1e-9) + 1e-12 for p in pts):
                                if best is None or rr < best:
                                    best = rr
                    if best is not None and r > best * (1 + 1e-7) + 1e-9:
                        res.violation("C20:welzl-not-minimal", f"Welzl returns radius {r} but a sphere of radius {best} through <= 4 of the points contains all {len(pts)} points", ctx)
    # ---- correspondence with the Coq search model (Model/Knn.v, extracted): the grid is replicated with the same IEEE operations,
    # the rings/cells/bounds of sampled query particles are handed to knn_search; its distance sequence must equal the implementation's.
    # The theorem's hypothesis rings_wf is decided exactly per query (it can fail by rounding of cell corners: such queries are counted, not compared).
    mf = os.path.join(wd, "c20.model.cases")
    qs = []
    with open(mf, "w") as f:
        for i, c in enumerate(cases):
            o = impl.get(i)
            if c["kind"] != "knn" or o is None or "panic" in o or c["k"] == 0:
                continue
            n = len(c["pts"])
            for a in sorted({0, n // 2, n - 1, (7 * i) % n}):
                rings = knn_rings(c, a)
                if not rings_wf(rings):
                    res.count("knn-model:bounds-not-admissible-by-rounding")
                    continue
                toks = ["knn", str(c["k"]), str(len(rings))]
                for rb, groups in rings:
                    toks += [str(rb), str(len(groups))]
                    for lb, members in groups:
                        toks += [str(lb), str(len(members))]
                        for key, j in members:
                            toks += [str(key), str(j)]
                f.write(" ".join(toks) + "\n")
                qs.append((i, a, rings))
    if qs:
        rcm, outm, _ = C.sh([C.build_runner(), mf], timeout=3000)
        model = {}
        for ln in outm.splitlines():
            sp = ln.split(" ", 1)
            if len(sp) == 2 and sp[0].isdigit():
                model[int(sp[0])] = json.loads(sp[1])
        for qi, (i, a, rings) in enumerate(qs):
            c = cases[i]
            res.count("knn-model:query")
            mo = model.get(qi)
            if mo is None:
                res.violation("corr:knn-model-no-output", f"the extracted search model produced no output for case {i} particle {a}", {"case": c}, no_input=True)
                continue
            keyof = {j: key for _, groups in rings for _, members in groups for key, j in members}
            got = impl[i]["nn"][a]
            gk = [keyof.get(j) for j in got]
            mk = [int(ky) for ky, _ in mo]
            if gk != mk:
                res.violation("corr:knn-model-differs", f"case {i} particle {a} (k={c['k']}): distance sequence of the implementation differs from the Coq search model's "
                              f"(first difference at rank {next((t for t in range(min(len(gk), len(mk))) if gk[t] != mk[t]), min(len(gk), len(mk)))})", {"case": c}, no_input=True)
                break
            allk = sorted(keyof.values())
            if mk != allk[:c["k"]]:
                res.violation("corr:knn-model-not-brute-force", "the extracted model contradicts its own theorem (k smallest keys): extraction or driver defect", {"case": c}, no_input=True)
                break
    if cases:
        res.sample({k_: v for k_, v in cases[0].items() if k_ != "pts"})


def knn_rings(c, a):
    """the grid of Space::new / add_parts replicated with the same IEEE operations (Python floats), and for query particle a the
    rings of cells in get_r_ring's order, each cell with the exact lower bound of closest_loc and its particles; all squared
    distances exact, scaled to integers by a common power of two.  Returns (rings, keys) with rings = [(rb_int, [(lb_int, [(key, id)])])]"""
    anchor, width, mcw, pts = c["anchor"], c["width"], c["mcw"], c["pts"]
    cdim = [int(math.ceil(width[t] / mcw)) for t in range(3)]
    cw = [width[t] / float(cdim[t]) for t in range(3)]

    def cell_of(p):
        return tuple(int(math.floor((p[t] - anchor[t]) / width[t] * float(cdim[t]))) for t in range(3))
    cells = {}
    for j, p in enumerate(pts):
        cells.setdefault(cell_of(p), []).append(j)
    x = pts[a]
    ci = cell_of(x)
    loc = [anchor[t] + float(ci[t]) * cw[t] for t in range(3)]
    dtf = min(min(x[t] - loc[t], loc[t] + cw[t] - x[t]) for t in range(3))
    wmin = min(cw)
    floats = [v for p in pts for v in p]
    rings_f = []
    r = 0
    while True:
        ring = []
        any_cell = False
        rng_ = range(-r, r + 1)
        for di in rng_:
            for dj in rng_:
                for dk in rng_:
                    if max(abs(di), abs(dj), abs(dk)) < r:
                        continue
                    cj = (ci[0] + di, ci[1] + dj, ci[2] + dk)
                    if any(cj[t] < 0 or cj[t] >= cdim[t] for t in range(3)):
                        continue
                    any_cell = True
                    cl = [anchor[t] + float(cj[t]) * cw[t] for t in range(3)]
                    close = [min(x[t], cl[t] + cw[t]) if x[t] > cl[t] else cl[t] for t in range(3)]
                    floats += close
                    ring.append((close, [j for j in cells.get(cj, []) if j != a]))
        if not any_cell:
            break
        rb = dtf + float(r) * wmin
        floats.append(rb)
        rings_f.append((rb, ring))
        r += 1
    D = max(fr(v).denominator for v in floats)
    X = [fr(v) * D for v in x]

    def k2(q):
        return int(sum((fr(q[t]) * D - X[t]) ** 2 for t in range(3)))
    rings = [(int(fr(rb) * D), [(k2(close), [(k2(pts[j]), j) for j in members]) for close, members in ring]) for rb, ring in rings_f]
    return rings


def rings_wf(rings):
    """the hypothesis of C20_knn_search_is_k_nearest, decided exactly on the concrete data"""
    later = []
    ok = True
    for rb, groups in reversed(rings):
        if any(key < rb * rb for key in later):
            ok = False
        for lb, members in groups:
            if any(key < lb for key, _ in members):
                ok = False
            later += [key for key, _ in members]
    return ok


def sphere_through(ps):
    """smallest sphere through 2, 3 or 4 points (floating point; None if degenerate)"""
    def sub(a, b):
        return [a[0] - b[0], a[1] - b[1], a[2] - b[2]]

    def dot(a, b):
        return a[0] * b[0] + a[1] * b[1] + a[2] * b[2]

    def cross(a, b):
        return [a[1] * b[2] - a[2] * b[1], a[2] * b[0] - a[0] * b[2], a[0] * b[1] - a[1] * b[0]]

    def det(m):
        return dot(m[0], cross(m[1], m[2]))
    p0 = ps[0]
    if len(ps) == 2:
        c = [(p0[t] + ps[1][t]) / 2 for t in range(3)]
        return c, math.sqrt(dot(sub(p0, c), sub(p0, c)))
    rows = [[2 * x for x in sub(p, p0)] for p in ps[1:]]
    rhs = [dot(p, p) - dot(p0, p0) for p in ps[1:]]
    if len(ps) == 3:
        nrm = cross(sub(ps[1], p0), sub(ps[2], p0))
        if math.sqrt(dot(nrm, nrm)) < 1e-12:
            return None
        rows.append(nrm)
        rhs.append(dot(nrm, p0))
    d = det(rows)
    if abs(d) < 1e-12:
        return None
    c = []
    for k in range(3):
        m = [list(r) for r in rows]
        for i in range(3):
            m[i][k] = rhs[i]
        c.append(det(m) / d)
    return c, math.sqrt(dot(sub(p0, c), sub(p0, c)))
