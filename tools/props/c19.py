"""C19 - public geometry helpers satisfy their defining equations."""
import json
import math
import os
from fractions import Fraction

import common as C


def fr(v):
    return [Fraction(*float(x).as_integer_ratio()) for x in v]


def dot(a, b):
    return a[0] * b[0] + a[1] * b[1] + a[2] * b[2]


def cross(a, b):
    return [a[1] * b[2] - a[2] * b[1], a[2] * b[0] - a[0] * b[2], a[0] * b[1] - a[1] * b[0]]


def sub(a, b):
    return [a[0] - b[0], a[1] - b[1], a[2] - b[2]]


def nrm(a):
    return math.sqrt(float(dot(a, a)))


def run(res, replay=None):
    tier, seed = res.tier, res.seed
    res.rule = ("random and structured (dyadic, axis-aligned, scaled 1e-6..1e6, offset) arguments with bounded conditioning (|det| >= 1e-3 prod|n_i|, affinely "
                "independent points): the defining equations evaluated on the implementation's outputs (residuals relative 1e-9) and the outputs against the exact "
                "rational formulas. non-trivial = distinct call")
    rng = C.Rng(seed * 911 + 3)
    n = 400 if tier == "quick" else 4000
    cases = []

    def vec(scale=1.0, off=0.0):
        kind = rng.below(4)
        if kind == 0:
            return [off + scale * rng.range(-8, 8) / 4.0 for _ in range(3)]
        return [off + scale * rng.uniform(-1, 1) for _ in range(3)]

    def almost_unit(v):
        # normals of length 1 + delta, |delta| from 0 (normalised in floating point) to 1e-4: "is it a unit vector?" tests with a tolerance
        # (glam's is_normalized accepts | |n|^2 - 1 | <= 2e-4) must not switch a helper to a formula that is only right for exact unit normals
        if not rng.chance(0.35):
            return v
        L = nrm(fr(v))
        if L == 0:
            return v
        d = rng.choice([0.0, 1e-5, -3e-5, 6e-5, -9e-5, 1e-7])
        return [x / L * (1.0 + d) for x in v]

    ops = ["intersect", "project", "project_line", "volume", "area", "sphere2", "sphere3", "sphere4", "extend"]
    if replay:
        cases = [json.load(open(replay))["replay"]["case"]]
    while len(cases) < n and not replay:
        op = ops[len(cases) % len(ops)]
        scale = rng.choice([1.0, 1.0, 1e-6, 1e6, 37.5])
        off = rng.choice([0.0, 0.0, 10.0, -1000.0]) * scale
        if op == "intersect":
            ns = [almost_unit(vec()) for _ in range(3)]
            ps = [vec(scale, off) for _ in range(3)]
            d = abs(float(dot(fr(ns[0]), cross(fr(ns[1]), fr(ns[2])))))
            if d < 1e-3 * nrm(fr(ns[0])) * nrm(fr(ns[1])) * nrm(fr(ns[2])) or any(nrm(fr(x)) == 0 for x in ns):
                continue
            cases.append({"op": op, "args": [ns[0], ps[0], ns[1], ps[1], ns[2], ps[2]], "scale": scale, "off": off})
        elif op == "project":
            nn = almost_unit(vec())
            if nrm(fr(nn)) < 1e-3:
                continue
            cases.append({"op": op, "args": [nn, vec(scale, off), vec(scale, off)], "scale": scale, "off": off})
        elif op == "project_line":
            n0, n1 = almost_unit(vec()), almost_unit(vec())
            c = cross(fr(n0), fr(n1))
            if nrm(c) < 1e-2 * nrm(fr(n0)) * nrm(fr(n1)) or nrm(fr(n0)) < 1e-3 or nrm(fr(n1)) < 1e-3:
                continue
            cases.append({"op": op, "args": [n0, vec(scale, off), n1, vec(scale, off), vec(scale, off)], "scale": scale, "off": off})
        elif op in ("volume", "area"):
            vs = [vec(scale, off) for _ in range(4)]
            if op == "area":
                c = cross(sub(fr(vs[1]), fr(vs[0])), sub(fr(vs[2]), fr(vs[0])))
                if nrm(c) < 1e-3 * scale * scale or abs(float(dot(sub(fr(vs[3]), fr(vs[0])), c))) < 1e-3 * scale ** 3:
                    continue
            cases.append({"op": op, "args": vs, "scale": scale, "off": off})
        elif op.startswith("sphere"):
            m = int(op[6:])
            vs = [vec(scale, off) for _ in range(m)]
            F = [fr(v) for v in vs]
            if m == 2 and nrm(sub(F[0], F[1])) < 1e-3 * scale:
                continue
            if m == 3 and nrm(cross(sub(F[0], F[2]), sub(F[1], F[2]))) < 1e-2 * scale * scale:
                continue
            if m == 4 and abs(float(dot(sub(F[0], F[3]), cross(sub(F[1], F[3]), sub(F[2], F[3]))))) < 1e-2 * scale ** 3:
                continue
            cases.append({"op": op, "args": vs, "scale": scale, "off": off})
        else:
            c = vec(scale, off)
            r = scale * rng.choice([0.5, 1.0, rng.unit() + 0.01, 0.0])   # 0: the zero-size spheres the API hands out (Sphere::EMPTY, one boundary point)
            if rng.chance(0.5) and r > 0:
                # structured: just outside / just inside the sphere along axes, face diagonals, body diagonals and random directions
                d = rng.choice([(1, 0, 0), (0, 1, 0), (0, 0, 1), (1, 1, 0), (1, 0, 1), (0, 1, 1), (1, 1, 1), (1, 1, 1), (1, 1, 1), None])
                if d is None:
                    d = [rng.uniform(-1, 1) for _ in range(3)]
                d = [d[k] * rng.choice([1.0, -1.0]) for k in range(3)]
                nd = math.sqrt(sum(v * v for v in d)) or 1.0
                t_ = rng.choice([0.999, 1.0001, 1.01, 1.05, 1.1, 1.2, 1.22, 1.3, 1.7])
                x = [c[k] + t_ * r * d[k] / nd for k in range(3)]
            else:
                x = [c[k] + scale * rng.uniform(-2, 2) for k in range(3)]
            cases.append({"op": op, "args": [c, x], "radius": r, "scale": scale, "off": off})
    if not replay:
        # thin (but far from degenerate in floating point) triangles for the three-point sphere: small angle theta at each of the three
        # arguments in turn; the unchanged code is accurate to ~1e2 u R there (measured), so anything that cancels like 1/theta^2 shows
        for j in range(30 if tier == "quick" else 300):
            th = rng.choice([1e-2, 1e-3, 1e-4, 1e-5])
            scale = rng.choice([1.0, 1e-6, 1e6])
            apex = [scale * rng.uniform(-1, 1) for _ in range(3)]
            d = [rng.uniform(-1, 1) for _ in range(3)]
            nd = math.sqrt(sum(x * x for x in d)) or 1.0
            d = [x / nd for x in d]
            e = [rng.uniform(-1, 1) for _ in range(3)]
            dp = sum(a * b for a, b in zip(d, e))
            e = [a - dp * b for a, b in zip(e, d)]
            ne = math.sqrt(sum(x * x for x in e))
            if ne < 1e-3:
                continue
            e = [x / ne for x in e]
            l0, l1 = scale * (0.5 + rng.unit()), scale * (0.5 + rng.unit())
            pts = [[apex[k] + l0 * d[k] for k in range(3)], [apex[k] + l1 * (math.cos(th) * d[k] + math.sin(th) * e[k]) for k in range(3)], apex]
            rot = j % 3
            cases.append({"op": "sphere3", "args": pts[rot:] + pts[:rot], "scale": scale, "off": 0.0, "thin": th})
    wd = C.rundir("c19")
    os.makedirs(wd, exist_ok=True)
    cf = os.path.join(wd, "geom.cases")
    with open(cf, "w") as f:
        for c in cases:
            toks = ["geom", c["op"]]
            if c["op"] == "extend":
                toks += [str(C.f2b(x)) for x in c["args"][0]] + [str(C.f2b(c["radius"]))] + [str(C.f2b(x)) for x in c["args"][1]]
            else:
                toks += [str(C.f2b(x)) for v in c["args"] for x in v]
            f.write(" ".join(toks) + "\n")
    rc, impl, _ = C.run_impl(C.build_harness("debug"), cf, os.path.join(wd, "geom.out"))
    REL = 1e-9
    for i, c in enumerate(cases):
        o = impl.get(i)
        op = c["op"]
        ctx = {"case": c}
        res.count(op)
        res.nontriv((i,))
        if o is None or "panic" in o:
            res.violation("C19:panic:" + op, f"{op} panicked on non-degenerate arguments: {(o or {}).get('panic')}", ctx)
            continue
        sc = c["scale"]
        mag = abs(c["off"]) + sc + 1e-300

        def bad(what):
            res.violation("C19:" + op, f"{op}: {what}", ctx)
        if op == "intersect":
            x = fr([C.b2f(b) for b in o["x"]])
            A = [fr(v) for v in c["args"]]
            for k in range(3):
                nn, pp = A[2 * k], A[2 * k + 1]
                r = abs(float(dot(nn, sub(x, pp)))) / nrm(nn)
                if r > 1e-6 * mag:
                    bad(f"the intersection point is {r} off plane {k}")
                    break
        elif op == "project":
            nn, pp, xx = [fr(v) for v in c["args"]]
            y = fr([C.b2f(b) for b in o["y"]])
            yy = fr([C.b2f(b) for b in o["yy"]])
            if abs(float(dot(nn, sub(y, pp)))) / nrm(nn) > REL * 100 * mag:
                bad("the projection is not on the plane")
            elif nrm(cross(sub(y, xx), nn)) > REL * 100 * mag * nrm(nn):
                bad("the displacement is not along the normal")
            elif nrm(sub(yy, y)) > REL * 100 * mag:
                bad("projecting twice moves the point")
        elif op == "project_line":
            n0, p0, n1, p1, xx = [fr(v) for v in c["args"]]
            y = fr([C.b2f(b) for b in o["y"]])
            cond = nrm(n0) * nrm(n1) / nrm(cross(n0, n1))
            t = 1e-7 * mag * cond
            if abs(float(dot(n0, sub(y, p0)))) / nrm(n0) > t or abs(float(dot(n1, sub(y, p1)))) / nrm(n1) > t:
                bad("the projection is not on both planes")
            elif abs(float(dot(cross(n0, n1), sub(y, xx)))) > t * nrm(cross(n0, n1)):
                bad("the displacement is not perpendicular to the intersection line")
        elif op == "volume":
            v = [fr(x) for x in c["args"]]
            exact = float(dot(sub(v[1], v[0]), cross(sub(v[2], v[0]), sub(v[3], v[0]))) / 6)
            got, sw = C.b2f(o["v"]), C.b2f(o["v_swapped"])
            t = 1e-9 * (sc ** 3) * (1 + (abs(c["off"]) / sc) ** 1) * 10 + 1e-300
            if abs(got - exact) > t or abs(sw + got) > t:
                bad(f"signed volume {got} (swapped {sw}), exact {exact}")
        elif op == "area":
            v = [fr(x) for x in c["args"]]
            cr = cross(sub(v[1], v[0]), sub(v[2], v[0]))
            s = 1.0 if dot(sub(v[3], v[0]), cr) > 0 else -1.0
            exact = 0.5 * nrm(cr) * s
            got, sw = C.b2f(o["a"]), C.b2f(o["a_swapped"])
            t = 1e-9 * sc * sc * (1 + abs(c["off"]) / sc) * 10
            if abs(got - exact) > t or abs(sw + got) > t:
                bad(f"signed area {got} (swapped {sw}), exact {exact}")
        elif op.startswith("sphere"):
            ctr = fr([C.b2f(b) for b in o["center"]])
            r = C.b2f(o["radius"])
            P = [fr(x) for x in c["args"]]
            ds = [nrm(sub(p, ctr)) for p in P]
            cond = 1.0
            if len(P) == 3:
                cond = sc * sc / nrm(cross(sub(P[0], P[2]), sub(P[1], P[2])))
            if len(P) == 4:
                cond = sc ** 3 / abs(float(dot(sub(P[0], P[3]), cross(sub(P[1], P[3]), sub(P[2], P[3])))))
            t = 1e-8 * mag * max(1.0, cond) ** 2 * (1 + abs(c["off"]) / sc)
            if c.get("thin"):
                t = 1e4 * 2.0 ** -53 * max(r, mag)      # relative to the (large) circumradius
            if any(abs(d - r) > t for d in ds):
                bad(f"the sphere (centre {[float(x) for x in ctr]}, radius {r}) does not pass through the points (distances {ds})")
            elif len(P) == 3 and abs(float(dot(sub(ctr, P[2]), cross(sub(P[0], P[2]), sub(P[1], P[2]))))) > (t / c["thin"] if c.get("thin") else t) * nrm(cross(sub(P[0], P[2]), sub(P[1], P[2]))):
                # (thin triangles: the plane itself is only determined up to an angle u / theta by the rounded points, the centre is R away)
                bad("three-point centre is not in the plane of the points")
            elif not o["same_via_boundary_points"]:
                bad("from_boundary_points differs from the direct constructor")
        else:
            cc, xx = fr(c["args"][0]), fr(c["args"][1])
            r0 = c["radius"]
            d = nrm(sub(xx, cc))
            ctr = fr([C.b2f(b) for b in o["center"]])
            r = C.b2f(o["radius"])
            t = 1e-9 * mag * 100
            if d <= r0:
                if nrm(sub(ctr, cc)) > t or abs(r - r0) > t:
                    bad("a sphere already containing the point was changed")
            else:
                if abs(nrm(sub(xx, ctr)) - r) > t:
                    bad("the extended sphere does not pass through the point")
                elif abs(nrm(sub(ctr, cc)) + r0 - r) > t:
                    bad("the extended sphere is not internally tangent to the old one (not minimal / not containing)")
                elif abs(r - 0.5 * (d + r0)) > t:
                    bad(f"radius {r}, the smallest sphere containing both has radius {0.5 * (d + r0)}")
    # ---------------- the helpers regenerated from the source: src/geometry.rs -> Gallina over R (tools/translate_geom.py); the defining
    # equations are proved by Coq about the translated definitions on every run
    if not replay:
        import re as _re
        import translate_geom as TG
        try:
            gen, info = TG.gallina(os.path.join(C.REPO, "src", "geometry.rs"))
            rc_g, out_g = C.coq_eval(gen, "C19_gen", timeout=300)
            axs = set(_re.findall(r"^([A-Za-z_][\w.]*)\s*$|^([A-Za-z_][\w.]*) :", out_g, flags=_re.M))
            names = {a or b for a, b in axs} - {"Axioms"}
            foreign = sorted(n for n in names if n not in C.ALLOWED_AXIOMS)
            gen_ok = rc_g == 0 and out_g.count("Axioms:") + out_g.count("Closed under the global context") == len(TG.THEOREMS) and not foreign
            detail = (("axioms outside the allow-list: " + ", ".join(foreign) + "; ") if foreign else "") + out_g[-300:].replace("\n", " ")
            res.notes["source_translation"] = {"functions_and_lets": info["functions"], "asserted_side_conditions": info["asserts"],
                                               "theorems_proved_about_the_translation": TG.THEOREMS if gen_ok else [], "proved": gen_ok}
        except TG.TranslationError as e:
            gen_ok, detail = False, "translator: " + str(e)
            res.notes["source_translation"] = {"error": str(e)}
        if not gen_ok:
            res.violation("proof:C19-source-translation", "the defining equations are no longer proved about the Gallina translation of the geometry helpers "
                          "(src/geometry.rs -> generated C19_gen.v): " + detail, {"obligation": "C19_gen.v " + ", ".join(TG.THEOREMS), "detail": detail}, no_input=True)
    if cases:
        res.sample(cases[0])
