"""C04 - face normals point away from the left generator; cells are closed surfaces."""
import json
import math

import common as C
import geo
import tess as T


def dot(a, b):
    return a[0] * b[0] + a[1] * b[1] + a[2] * b[2]


def run(res, replay=None):
    tier, seed = res.tier, res.seed
    res.rule = ("geometric suite (8 families x 1D/2D/3D x periodic/reflective, + masks): every stored face: unit normal, direction w.r.t. the left generator "
                "(right generator + shift, or outward through the wall), centroid on the bisector/wall; every constructed cell: sum of area*outward normal = 0 and "
                "divergence sum = volume. non-trivial = distinct (input, constructed cell)")
    if replay:
        rp = json.load(open(replay))["replay"]
        data = geo.geo_data(tier, seed, inputs=[rp["input"]], name="geo_replay")
    else:
        data = geo.geo_data(tier, seed)
    for k_in, rec in enumerate(data["recs"]):
        inp = rec["inp"]
        o = rec["impl_raw"]
        dim = inp["dim"]
        res.count(f"{inp['family']}:{dim}D:{'periodic' if inp['periodic'] else 'reflective'}")
        ctx = {"input": T.inp_json(inp)}
        if o is None or "panic" in o or o.get("vor") == "panic":
            res.violation("panic:" + geo.panic_class(rec), f"construction panicked: {(o or {}).get('panic')}", ctx)
            continue
        vor = T.decode_vor(o["vor"])
        tol = T.tolerances(inp)
        ms = rec["ms"]
        gens, w = ms["gens"], ms["w"]
        lmax = max(tol["L"][:dim])
        klass = T.known_class(inp)
        for j, f in enumerate(vor["faces"]):
            if not (f["area"] >= -tol["area_tol"]) or any(x != x for x in f["centroid"]):
                # the wall face of a generator lying exactly on that wall: recorded finding K1 (orientation sign of zero-height tetrahedra)
                k1 = (f["right"] is None and not inp["periodic"] and bool(geo.walls_of_generator(rec, f["left"])))
                res.violation("wall-face-of-on-wall-generator" if k1 else "C04:negative-area" + geo.mismatch_class(rec), f"face {j} (left {f['left']}, right {f['right']}) has area {f['area']} / centroid {f['centroid']}", dict(ctx, face=j))
                break
            n = f["normal"]
            g = gens[f["left"]]
            fctx = dict(ctx, face=j, left=f["left"], right=f["right"], shift=f["shift"])
            if abs(math.sqrt(dot(n, n)) - 1.0) > 1e-12:
                res.violation("C04:normal-not-unit" + geo.mismatch_class(rec), f"face {j}: |normal| = {math.sqrt(dot(n, n))}", fctx)
                break
            if not geo.dim_valid(dim, n):
                res.violation("C04:normal-outside-subspace" + geo.mismatch_class(rec), f"face {j}: normal {n} leaves the active subspace", fctx)
                break
            if f["right"] is not None:
                r = [gens[f["right"]][k] + (f["shift"][k] if f["shift"] is not None else 0.0) for k in range(3)]
                d = [r[k] - g[k] for k in range(3)]
                dn = math.sqrt(dot(d, d))
                # the normal is the normalised difference of the two positions: it may deviate from the exact direction by the rounding of
                # that difference (u M / |d| per component) and of the normalisation, nothing more
                mco = max(max(abs(x) for x in r), max(abs(x) for x in g))
                dev = max(abs(n[k] - d[k] / dn) for k in range(3)) if dn > 0 else 1.0
                res.notes["max_normal_deviation_over_bound"] = max(res.notes.get("max_normal_deviation_over_bound", 0.0), dev / (1e-12 + 100 * 2.0 ** -53 * mco / dn) if dn > 0 else 0.0)
                if not (dot(n, d) > 0.999 * dn) or dev > 1e-12 + 100 * 2.0 ** -53 * mco / dn:
                    res.violation("C04:normal-direction" + geo.mismatch_class(rec), f"face {j} (left {f['left']}, right {f['right']}, shift {f['shift']}): normal {n} does not point from the left "
                                  f"generator {g} towards the right generator {r} (cos = {dot(n, d) / dn:.6f})", fctx)
                    break
                mid = [0.5 * (g[k] + r[k]) for k in range(3)]
                if f["area"] > tol["area_min"] + tol["area_tol"] and abs(dot(n, [f["centroid"][k] - mid[k] for k in range(3)])) > max(100 * max(tol["eps"][:dim]), 10 * tol["rel"] * lmax):
                    res.violation("C04:centroid-off-plane" + geo.mismatch_class(rec), f"face {j}: centroid {f['centroid']} is off the bisector plane by {dot(n, [f['centroid'][k] - mid[k] for k in range(3)])}", fctx)
                    break
            else:
                # boundary face: outward axis direction, centroid on the wall
                ax = max(range(3), key=lambda k: abs(n[k]))
                wall = ms["lo"][ax] if n[ax] < 0 else ms["hi"][ax]
                outward_ok = abs(abs(n[ax]) - 1.0) < 1e-12 and ((n[ax] < 0 and g[ax] >= ms["lo"][ax]) or (n[ax] > 0 and g[ax] <= ms["hi"][ax]))
                # outward through the lower wall is -axis, through the upper wall +axis
                cen_side = f["centroid"][ax] - g[ax]
                if not outward_ok or (f["area"] > tol["area_min"] + tol["area_tol"] and cen_side * n[ax] < -100 * tol["eps"][ax]):
                    res.violation("C04:normal-direction" + geo.mismatch_class(rec), f"boundary face {j} of cell {f['left']}: normal {n} does not point outward through the wall (centroid {f['centroid']}, generator {g})", fctx)
                    break
                if f["area"] > tol["area_min"] + tol["area_tol"] and abs(f["centroid"][ax] - wall) > 100 * tol["eps"][ax]:
                    res.violation("C04:centroid-off-plane" + geo.mismatch_class(rec), f"boundary face {j}: centroid {f['centroid']} not on the wall {wall} of axis {ax}", fctx)
                    break
        # closed surfaces / divergence theorem per constructed cell, on the cell's own face integrals
        # (area, centroid as AreaCentroidIntegral reports them for this cell; outward normal = - plane normal).
        # The compact face list mixes faces computed from either side; that they agree is C03.
        n_cells = len(vor["cells"])
        for c in range(n_cells):
            if inp.get("mask") is not None and not inp["mask"][c]:
                continue
            cell = vor["cells"][c]
            g = gens[c]
            on_wall = geo.walls_of_generator(rec, c)
            iv = geo.impl_cell_view(rec, c)
            if iv is None:
                continue
            if not iv["faces_mapped"]:
                res.violation("C04:face-list-shape" + geo.mismatch_class(rec), f"cell {c}: {iv['n_face_integrals']} face integrals but {len(iv['face_planes'])} planes of valid dimensionality carry vertices", dict(ctx, cell=c))
                continue
            tot = [0.0, 0.0, 0.0]
            div = 0.0
            asum = 0.0
            for key, f in iv["faces"].items():
                npl = iv["planes"][f["plane"]]["n"]
                nl = math.sqrt(dot(npl, npl))
                nn = [-x / nl for x in npl]
                for k in range(3):
                    tot[k] += f["area"] * nn[k]
                div += f["area"] * dot(nn, [f["centroid"][k] - g[k] for k in range(3)])
                asum += f["area"]
            res.nontriv((k_in, c))
            cctx = dict(ctx, cell=c)
            if max(abs(tot[k]) for k in range(dim)) > 10 * tol["area_tol"] + 1e-12 * asum:
                res.violation("wall-face-of-on-wall-generator" if on_wall else "C04:not-closed" + geo.mismatch_class(rec),
                              f"cell {c}: sum of area * outward normal = {tot[:dim]} (total area {asum})", cctx)
                continue
            if abs(div / dim - cell["volume"]) > 10 * tol["vol_tol"] + 1e-12 * cell["volume"]:
                res.violation("wall-face-of-on-wall-generator" if on_wall else "C04:divergence" + geo.mismatch_class(rec),
                              f"cell {c}: (1/{dim}) sum area * n . (centroid - generator) = {div / dim} but volume = {cell['volume']}", cctx)
        if k_in < 1:
            res.sample({"input": T.inp_json(inp), "faces": len(vor["faces"])})
    res.notes["tolerances"] = "unit normal 1e-12; direction cos > 0.999; plane offsets 100 eps_a or 10 rel L; closure 10 area_tol; divergence 10 vol_tol"
