"""C02 - cells tile the domain: positive measures that sum to the box measure."""
import json

import common as C
import geo
import tess as T


def run(res, replay=None):
    tier, seed = res.tier, res.seed
    res.rule = ("full constructions of the geometric suite (8 families x 1D/2D/3D x periodic/reflective, anisotropic/offset boxes): every cell measure > 0, "
                "sum = box measure (unused axes unit thickness), and every cell measure = exact model measure. non-trivial = distinct input with >= 2 cells")
    if replay:
        rp = json.load(open(replay))["replay"]
        data = geo.geo_data(tier, seed, inputs=[rp["input"]], name="geo_replay")
    else:
        data = geo.geo_data(tier, seed)
    worst = 0.0
    for k_in, rec in enumerate(data["recs"]):
        inp = rec["inp"]
        if inp.get("mask") is not None:
            continue
        o = rec["impl_raw"]
        dim = inp["dim"]
        res.count(f"{inp['family']}:{dim}D:{'periodic' if inp['periodic'] else 'reflective'}")
        ctx = {"input": T.inp_json(inp)}
        if o is None or "panic" in o or o.get("vor") == "panic":
            res.violation("panic:" + geo.panic_class(rec), f"construction panicked: {(o or {}).get('panic')}", ctx)
            continue
        vor = T.decode_vor(o["vor"])
        tol = T.tolerances(inp)
        a, w = T.norm_box(dim, inp["anchor"], inp["width"])
        box = w[0] * w[1] * w[2]
        vols = [c["volume"] for c in vor["cells"]]
        if len(vols) >= 2:
            res.nontriv((k_in,))
        for i, v in enumerate(vols):
            if not (v > 0.0) or v != v or v == float("inf"):
                res.violation("C02:non-positive-measure" + geo.mismatch_class(rec), f"cell {i} has measure {v} (family {inp['family']} dim {dim} periodic {inp['periodic']})", dict(ctx, cell=i))
                break
        tot = sum(vols)
        n = len(vols)
        worst = max(worst, abs(tot - box) / box)
        if not (abs(tot - box) <= max(n, 10) * tol["vol_tol"]):
            res.violation("C02:sum-not-box" + geo.mismatch_class(rec), f"cell measures sum to {tot} but the box measure is {box} (family {inp['family']} dim {dim} periodic {inp['periodic']}, n = {n})",
                          dict(ctx, total=tot, box=box))
        for gi, m in rec["model"].items():
            if m is None:
                continue
            if not (abs(vols[gi] - float(m["volume"])) <= tol["vol_tol"]):
                res.violation("C02:cell-measure" + geo.mismatch_class(rec), f"cell {gi} measure {vols[gi]} vs exact {float(m['volume'])}", dict(ctx, cell=gi))
                break
        if k_in < 1:
            res.sample({"input": T.inp_json(inp), "sum": tot, "box": box})
    res.notes["worst_relative_sum_error"] = worst
