"""C15 - extracted vertices and face polygons form a valid convex polytope (3D, cells with face data)."""
import json
import math
import os

import common as C
import geo
import tess as T


def sub(a, b):
    return [a[0] - b[0], a[1] - b[1], a[2] - b[2]]


def cross(a, b):
    return [a[1] * b[2] - a[2] * b[1], a[2] * b[0] - a[0] * b[2], a[0] * b[1] - a[1] * b[0]]


def dot(a, b):
    return a[0] * b[0] + a[1] * b[1] + a[2] * b[2]


def norm(a):
    return math.sqrt(dot(a, a))


def det3(a, b, c):
    return dot(a, cross(b, c))


def run(res, replay=None):
    tier, seed = res.tier, res.seed
    res.rule = ("3D inputs of the geometric suite (periodic or not, full or partial) with face data on every cell: vertices on their three planes and inside all "
                "half-spaces, each in exactly three faces; polygons simple, convex, counter-clockwise about the inward normal, area = area integral; V-E+F=2; "
                "accessors = face integrals; discard/re-derive identity; face lists = the Coq model's sort_face_vertices on the same duals; 1D/2D requests rejected on "
                "both conversion paths. non-trivial = distinct (input, cell)")
    if replay:
        rp = json.load(open(replay))["replay"]
        data = geo.geo_data(tier, seed, inputs=[rp["input"]], name="geo_replay")
    else:
        data = geo.geo_data(tier, seed)
        # a face with several hundred vertices: two generators on an axis inside a ring of n others (radii perturbed, so that the
        # configuration is not degenerate); only the two axis cells are constructed.  Table entries that count vertices per face must not be narrow
        rng = C.Rng(seed * 2609 + 17)
        big = []
        for nring in ([300] if tier == "quick" else [300, 257, 520]):
            ctr, rad, h = [0.5, 0.5, 0.5], 0.35, 0.05
            gens = [[ctr[0], ctr[1], ctr[2] + h], [ctr[0], ctr[1], ctr[2] - h]]
            for i in range(nring):
                a = 2 * math.pi * (i + 0.05 * rng.unit()) / nring
                r = rad * (1.0 + 1e-5 * rng.unit())
                gens.append([ctr[0] + r * math.cos(a), ctr[1] + r * math.sin(a), ctr[2] + 1e-5 * (rng.unit() - 0.5)])
            big.append({"family": "bigface", "dim": 3, "periodic": False, "anchor": [0.0, 0.0, 0.0], "width": [1.0, 1.0, 1.0],
                        "gens": gens, "mask": [True, True] + [False] * nring})
        # one clip that removes tens of vertices at once (see C18's bigclip cases): only the upper axis cell is constructed
        for m in ([40] if tier == "quick" else [18, 40, 100]):
            ctr, rad, h = [0.5, 0.5, 0.5], 0.2, 0.3
            z_low = 2 * (ctr[2] + (h * h - rad * rad) / (2 * h) + 0.02) - (ctr[2] + h)
            gens = [[ctr[0], ctr[1], ctr[2] + h], [ctr[0], ctr[1], z_low]]
            for i in range(m):
                a = 2 * math.pi * (i + 0.05 * rng.unit()) / m
                r = rad * (1.0 + 1e-5 * rng.unit())
                gens.append([ctr[0] + r * math.cos(a), ctr[1] + r * math.sin(a), ctr[2] + 1e-5 * (rng.unit() - 0.5)])
            big.append({"family": "bigclip", "dim": 3, "periodic": False, "anchor": [0.0, 0.0, 0.0], "width": [1.0, 1.0, 1.0],
                        "gens": gens, "mask": [True] + [False] * (m + 1)})
        extra = geo.geo_data(tier, seed, inputs=big, name="c15big")
        data = {"recs": data["recs"] + extra["recs"]}
    model_lines, model_idx, model_duals = [], [], []
    for k_in, rec in enumerate(data["recs"]):
        inp = rec["inp"]
        o = rec["impl_raw"]
        dim = inp["dim"]
        ctx = {"input": T.inp_json(inp)}
        if o is None or "panic" in o:
            res.count(f"{inp['family']}:{dim}D:panic")
            res.violation("panic:" + geo.panic_class(rec), f"construction panicked: {(o or {}).get('panic')}", ctx)
            continue
        if dim < 3:
            continue
        res.count(f"{inp['family']}:3D:{'periodic' if inp['periodic'] else 'reflective'}{':masked' if inp.get('mask') else ''}")
        wf = o.get("wf")
        if not isinstance(wf, dict):
            res.violation("C15:with-faces-panic", "with_faces() panicked on a 3D tessellation", ctx)
            continue
        tol = T.tolerances(inp)
        lmax = max(tol["L"])
        ptol = max(100 * max(tol["eps"]), 10 * tol["rel"] * lmax)
        n = len(inp["gens"])
        fi_by_cell = {}
        for f in wf["face_integrals"]:
            fi_by_cell.setdefault(f["left"], []).append(f)
        for gi in range(n):
            cell = wf["cells"][gi]
            if cell is None:
                continue
            res.nontriv((k_in, gi))
            cctx = dict(ctx, cell=gi)
            verts = [{"loc": T.dv(v["loc"]), "dual": v["dual"]} for v in cell["verts"]]
            faces = cell["faces"]
            ic = o["icells"][gi]
            planes = [{"n": T.dv(p["n"]), "p": T.dv(p["p"])} for p in ic["planes"]]
            used = sorted({d for v in verts for d in v["dual"]})
            if len(faces) != len(used):
                res.violation("C15:face-count", f"cell {gi}: {len(faces)} faces but {len(used)} planes carry vertices", cctx)
                continue
            if not cell.get("clone", True):
                res.violation("C15:clone-loses-faces", f"cell {gi}: a clone of the cell with faces reports different face data", cctx)
            if not cell["roundtrip"]:
                res.violation("C15:discard-rederive", f"cell {gi}: with_faces(discard_faces(.)) changes the face vertex lists", cctx)
            # accessors vs face integrals
            mine = fi_by_cell.get(gi, [])
            acc = [(f["neighbour"], f["shift"]) for f in faces]
            if acc != [(f["right"], f["shift"]) for f in mine]:
                res.violation("C15:accessors-disagree", f"cell {gi}: neighbour()/shift() per face = {acc[:4]}... but the face integrals report {[(f['right'], f['shift']) for f in mine][:4]}...", cctx)
            # vertices
            in_faces = [0] * len(verts)
            degenerate = False
            for vi, v in enumerate(verts):
                ns = [planes[d]["n"] for d in v["dual"]]
                dt = det3(*ns) / (norm(ns[0]) * norm(ns[1]) * norm(ns[2]))
                if abs(dt) < 1e-9:
                    degenerate = True
                    res.violation("vertex-with-dependent-planes:K5", f"cell {gi}: vertex {vi} (dual {v['dual']}) has linearly dependent plane normals (det {dt:.3g})", cctx)
                    continue
                for d in v["dual"]:
                    r = dot(planes[d]["n"], sub(v["loc"], planes[d]["p"])) / norm(planes[d]["n"])
                    if abs(r) > ptol / max(abs(dt), 1e-6):
                        res.violation("C15:vertex-off-plane" + geo.mismatch_class(rec), f"cell {gi}: vertex {vi} is {r} off its plane {d}", cctx)
                        break
                for pi, pl in enumerate(planes):
                    r = dot(pl["n"], sub(v["loc"], pl["p"])) / norm(pl["n"])
                    if r < -ptol / max(abs(dt), 1e-6):
                        res.violation("C15:vertex-outside" + geo.mismatch_class(rec), f"cell {gi}: vertex {vi} {v['loc']} violates half space {pi} by {-r}", cctx)
                        break
            if degenerate:
                continue
            nedges2 = 0
            ok = True
            for fi, f in enumerate(faces):
                p = used[fi]
                vl = f["verts"]
                nedges2 += len(vl)
                if f["count"] != len(vl) or len(set(vl)) != len(vl):
                    res.violation("C15:polygon-not-simple", f"cell {gi} face {fi}: vertex list {vl} (count {f['count']})", cctx)
                    ok = False
                    break
                for vi in vl:
                    in_faces[vi] += 1
                    if p not in verts[vi]["dual"]:
                        res.violation("C15:face-vertex-not-on-plane", f"cell {gi} face {fi} (plane {p}) lists vertex {vi} whose planes are {verts[vi]['dual']}", cctx)
                        ok = False
                        break
                if not ok:
                    break
                nrm = planes[p]["n"]
                nl = norm(nrm)
                if len(vl) >= 3:
                    area2 = 0.0
                    p0 = verts[vl[0]]["loc"]
                    scale = max(norm(sub(verts[x]["loc"], p0)) for x in vl) or 1.0
                    for j in range(len(vl)):
                        a, b, c = verts[vl[j]]["loc"], verts[vl[(j + 1) % len(vl)]]["loc"], verts[vl[(j + 2) % len(vl)]]["loc"]
                        turn = dot(cross(sub(b, a), sub(c, b)), nrm) / nl
                        if turn < -1e-9 * scale * scale - 10 * ptol * scale:
                            res.violation("C15:polygon-not-convex-ccw" + geo.mismatch_class(rec), f"cell {gi} face {fi}: polygon {vl} turns clockwise about the inward normal at vertex {vl[(j + 1) % len(vl)]} ({turn})", cctx)
                            ok = False
                            break
                    if not ok:
                        break
                    for j in range(1, len(vl) - 1):
                        area2 += dot(cross(sub(verts[vl[j]]["loc"], p0), sub(verts[vl[j + 1]]["loc"], p0)), nrm) / nl
                    area = 0.5 * area2
                    if fi < len(mine) and abs(area - C.b2f(mine[fi]["area"])) > tol["area_tol"]:
                        if p < 6 and p in geo.walls_of_generator(rec, gi):
                            res.violation("wall-face-of-on-wall-generator", f"cell {gi} lies on wall {p}: polygon area {area} but the area integral of that boundary face is {C.b2f(mine[fi]['area'])}", cctx)
                            ok = False
                            break
                        res.violation("C15:polygon-area" + geo.mismatch_class(rec), f"cell {gi} face {fi}: polygon area {area} but the area integral is {C.b2f(mine[fi]['area'])}", cctx)
                        ok = False
                        break
            if not ok:
                continue
            if any(c != 3 for c in in_faces):
                res.violation("C15:vertex-not-in-three-faces", f"cell {gi}: vertices belong to {sorted(set(in_faces))} faces", cctx)
                continue
            V, E, F = len(verts), nedges2 // 2, len(faces)
            if V - E + F != 2 or nedges2 % 2:
                res.violation("C15:euler", f"cell {gi}: V - E + F = {V} - {E} + {F} = {V - E + F}", cctx)
            if len(model_lines) < (400 if tier == "quick" else 4000):
                toks = ["faces", str(len(planes)), str(len(verts))] + [str(x) for v in verts for x in v["dual"]]
                model_lines.append(" ".join(toks))
                model_idx.append((k_in, gi, [(used[fi], f["verts"]) for fi, f in enumerate(faces)]))
                model_duals.append([tuple(v["dual"]) for v in verts])
    # the Coq model of with_faces / sort_face_vertices on the same duals
    wd = C.rundir("c15")
    os.makedirs(wd, exist_ok=True)
    mf = os.path.join(wd, "faces.model.cases")
    with open(mf, "w") as f:
        f.write("\n".join(model_lines) + "\n")
    rcm, outm, _ = C.sh([C.build_runner(), mf], timeout=3000)
    got = {}
    for ln in outm.splitlines():
        sp = ln.split(" ", 1)
        if len(sp) == 2 and sp[0].isdigit():
            got[int(sp[0])] = json.loads(sp[1])
    for j, (k_in, gi, impl_faces) in enumerate(model_idx):
        mo = got.get(j)
        m = mo.get("faces") if isinstance(mo, dict) else None
        ctx = {"input": T.inp_json(data["recs"][k_in]["inp"]), "cell": gi}
        if isinstance(mo, dict):
            # hypothesis of C15_face_walk_closes_up, decided by the extracted model on the implementation's duals
            res.count("theorem-hypothesis:closed-simple-surface" if mo.get("surface") else "theorem-hypothesis:not-a-closed-simple-surface")
            if mo.get("surface") and m is not None:
                # the theorem's conclusion, re-checked on the implementation's own lists (they equal the model's, see below)
                verts_d = model_duals[j]
                for pl, vl in impl_faces:
                    n_ = len(vl)
                    for t in range(n_):
                        da, db = verts_d[vl[t]], verts_d[vl[(t + 1) % n_]]
                        if len((set(da) & set(db)) - {pl}) < 1:
                            res.violation("corr:theorem-contradicted", f"cell {gi} face {pl}: consecutive vertices {vl[t]}, {vl[(t + 1) % n_]} of the sorted list share no second plane although the duals form a closed simple surface: contradicts C15_face_walk_closes_up", ctx, no_input=True)
                            break
        if m is None or [(p, vl) for p, vl in m] != [(p, vl) for p, vl in impl_faces]:
            res.disagreements += 1
            res.violation("corr:with-faces-model", f"cell {gi}: face vertex lists differ from Model.CellExact.faces_of (sort_face_vertices) on the same duals: impl {impl_faces[:2]} model {m and m[:2]}",
                          dict(ctx, correspondence="Model.CellExact.faces_of"), no_input=True)
    res.notes["cells_compared_with_model"] = len(model_idx)
    # 1D / 2D: requesting faces must be rejected on both conversion paths
    rng = C.Rng(seed * 59 + 1)
    low = [T.gen_input(rng, "uniform", 1 + (i % 2), i % 3 == 0, nmax=6) for i in range(6)]
    cf = os.path.join(wd, "low.cases")
    with open(cf, "w") as f:
        for inp in low:
            f.write(T.case_line(inp, 2 | 4) + "\n")
    rc, impl, _ = C.run_impl(C.build_harness("debug"), cf, os.path.join(wd, "low.out"))
    for i, inp in enumerate(low):
        o = impl.get(i) or {}
        res.count(f"reject:{inp['dim']}D")
        ctx = {"input": T.inp_json(inp)}
        if o.get("wf") != "panic":
            res.violation("C15:low-dim-faces-accepted", f"VoronoiIntegrator::with_faces() is not rejected for a {inp['dim']}D tessellation", ctx)
        if not all(o.get("wf_cell_rejected", [False])):
            res.violation("C15:low-dim-faces-accepted-per-cell", f"ConvexCell::with_faces() is not rejected for the cells of a {inp['dim']}D tessellation", ctx)
    res.sample({"cells_with_faces_checked": len(model_idx)})
