"""C08 - 1D and 2D tessellations depend only on the active coordinates."""
import json
import math
import os

import common as C
import geo
import tess as T


def vor_key(v):
    return json.dumps({"cells": [(c["loc"], c["centroid"], c["volume"], c["safety_radius"], c["offset"], c["count"]) for c in v["cells"]],
                       "faces": [(f["left"], f["right"], f["shift"], f["area"], f["centroid"], f["normal"]) for f in v["faces"]],
                       "conn": v["conn"], "anchor": v["anchor"], "width": v["width"]})


def run(res, replay=None):
    tier, seed = res.tier, res.seed
    res.rule = ("1D and 2D inputs (uniform, lattice, tiny, on-walls, coplanar; periodic or not): (i) overwriting the unused coordinates of generators, anchor and "
                "width with garbage (huge, negative, tiny) gives a bitwise identical tessellation; (ii) 1D equals the closed form (midpoints, two faces of area 1, "
                "normals +-x); (iii) 2D equals the 3D tessellation of the generators at z=0 in a unit slab; (iv) normals are unit and inside the active subspace, "
                "no faces orthogonal to it. non-trivial = distinct (input, cell)")
    rng = C.Rng(seed * 613 + 11)
    inputs = []
    if replay:
        inputs = [json.load(open(replay))["replay"]["input"]]
    else:
        cnt = 40 if tier == "quick" else 400
        fams = ["uniform", "lattice", "tiny", "onwalls", "coplanar", "uniform"]
        k = 0
        while len(inputs) < cnt:
            inp = T.gen_input(rng, fams[k % len(fams)], 1 + (k % 2), (k // 2) % 2 == 1, nmax=20)
            k += 1
            if T.known_class(inp):
                continue
            inputs.append(inp)
    wd = C.rundir("c08")
    os.makedirs(wd, exist_ok=True)
    cases = []
    for inp in inputs:
        dim = inp["dim"]
        garb = dict(inp, gens=[list(g) for g in inp["gens"]], anchor=list(inp["anchor"]), width=list(inp["width"]))
        for g in garb["gens"]:
            for a in range(dim, 3):
                g[a] = rng.choice([0.0, 1e300, -1e-300, -7.25e10, rng.uniform(-1e6, 1e6), 5e-324])
        for a in range(dim, 3):
            garb["anchor"][a] = rng.choice([0.0, -1e5, 3.5, 1e300])
            garb["width"][a] = rng.choice([1.0, 1e-7, 42.0, 1e300])
        slab = None
        # the 3D slab has unit thickness: compare only when the 2D box is of comparable scale (aspect of the
        # 3D box <= 1e3), otherwise the 3D input itself is ill-conditioned (absolute filter epsilon, grid resolution)
        a_, w_ = T.norm_box(dim, inp["anchor"], inp["width"])
        if dim == 2 and all(1e-3 <= w_[k] <= 1e3 for k in range(2)) and all(abs(a_[k]) <= 1e4 for k in range(2)):
            a, w = T.norm_box(dim, inp["anchor"], inp["width"])
            slab = {"family": inp["family"], "dim": 3, "periodic": inp["periodic"], "anchor": a, "width": w,
                    "gens": [[g[0], g[1], 0.0] for g in inp["gens"]], "mask": None}
        cases.append((inp, garb, slab))
    cf = os.path.join(wd, "c08.cases")
    lines = []
    with open(cf, "w") as f:
        for inp, garb, slab in cases:
            idx = [len(lines)]
            lines.append(T.case_line(inp, 1 | 2 | 8))
            idx.append(len(lines))
            lines.append(T.case_line(garb, 1 | 2 | 8))
            if slab:
                idx.append(len(lines))
                lines.append(T.case_line(slab, 1 | 2 | 8))
            inp["_idx"] = idx
        f.write("\n".join(lines) + "\n")
    rc, impl, _ = C.run_impl(C.build_harness("debug"), cf, os.path.join(wd, "c08.out"))
    for ci, (inp, garb, slab) in enumerate(cases):
        idx = inp["_idx"]
        dim = inp["dim"]
        ctx = {"input": T.inp_json(inp)}
        res.count(f"{inp['family']}:{dim}D:{'periodic' if inp['periodic'] else 'reflective'}")
        outs = [impl.get(i) for i in idx]
        bad = next((x for x in outs if x is None or "panic" in x), "ok")
        if bad != "ok":
            msg = str((bad or {}).get("panic"))
            res.violation("panic:" + geo.panic_signature(bad, inp), f"construction panicked: {msg}", dict(ctx, garbage=T.inp_json(garb)))
            continue
        o, og = outs[0], outs[1]
        n = len(inp["gens"])
        for i in range(n):
            res.nontriv((ci, i))
        # (i) garbage invariance, bitwise, both routes and integrals
        for key in ("vor", "vor2", "cell_integrals", "face_integrals", "face_integrals_sym"):
            ka = vor_key(o[key]) if key.startswith("vor") else json.dumps(o[key])
            kb = vor_key(og[key]) if key.startswith("vor") else json.dumps(og[key])
            if ka != kb:
                res.violation("C08:depends-on-unused-coordinates", f"{dim}D result ({key}) changes when the unused coordinates of generators/anchor/width are overwritten", dict(ctx, garbage=T.inp_json(garb)))
                break
        vor = T.decode_vor(o["vor"])
        tol = T.tolerances(inp)
        a, w = T.norm_box(dim, inp["anchor"], inp["width"])
        thr = tol["area_min"] + tol["area_tol"]
        # (iv) normals
        for j, f in enumerate(vor["faces"]):
            nn = math.sqrt(sum(x * x for x in f["normal"]))
            if abs(nn - 1) > 1e-12 or not geo.dim_valid(dim, f["normal"]):
                res.violation("C08:normal-outside-subspace", f"face {j}: normal {f['normal']}", dict(ctx, face=j))
                break
        # (ii) closed form 1D
        if dim == 1:
            xs = sorted((g[0], i) for i, g in enumerate(inp["gens"]))
            lo, hi = a[0], a[0] + w[0]
            for pos, (x, i) in enumerate(xs):
                if inp["periodic"]:
                    left = xs[pos - 1][0] if pos > 0 else xs[-1][0] - w[0]
                    right = xs[pos + 1][0] if pos + 1 < len(xs) else xs[0][0] + w[0]
                    b0, b1 = 0.5 * (left + x), 0.5 * (x + right)
                else:
                    b0 = 0.5 * (xs[pos - 1][0] + x) if pos > 0 else lo
                    b1 = 0.5 * (x + xs[pos + 1][0]) if pos + 1 < len(xs) else hi
                c = vor["cells"][i]
                cctx = dict(ctx, cell=i)
                if abs(c["volume"] - (b1 - b0)) > tol["vol_tol"] or abs(c["centroid"][0] - 0.5 * (b0 + b1)) > 100 * tol["eps"][0]:
                    res.violation("C08:1d-closed-form", f"1D cell {i}: length {c['volume']} centroid {c['centroid'][0]} but the closed form gives [{b0}, {b1}]", cctx)
                    break
                fs = [vor["faces"][j] for j in c["face_indices"]]
                if len(fs) != 2 or any(abs(f["area"] - 1.0) > 1e-9 for f in fs) or sorted(round(abs(f["normal"][0])) for f in fs) != [1, 1]:
                    res.violation("C08:1d-two-unit-faces", f"1D cell {i} has faces {[(f['area'], f['normal']) for f in fs]} (expected two faces of area 1 with normals +-x)", cctx)
                    break
                pos_f = sorted(f["centroid"][0] for f in fs)
                if abs(pos_f[0] - b0) > 100 * tol["eps"][0] or abs(pos_f[1] - b1) > 100 * tol["eps"][0]:
                    res.violation("C08:1d-closed-form", f"1D cell {i}: faces at {pos_f} but boundaries are [{b0}, {b1}]", cctx)
                    break
        # (iii) 2D vs 3D slab
        if dim == 2 and len(outs) == 3:
            vs = T.decode_vor(outs[2]["vor"])
            for i in range(n):
                c2, c3 = vor["cells"][i], vs["cells"][i]
                if abs(c2["volume"] - c3["volume"]) > tol["vol_tol"] or any(abs(c2["centroid"][k] - c3["centroid"][k]) > 100 * tol["eps"][k] * max(1.0, 1e-3 * tol["vol"] / max(c2["volume"], 1e-300)) for k in range(2)):
                    res.violation("C08:2d-vs-slab", f"cell {i}: 2D area {c2['volume']} centroid {c2['centroid']} vs 3D slab volume {c3['volume']} centroid {c3['centroid']}", dict(ctx, cell=i))
                    break
            f2 = {}
            for f in vor["faces"]:
                s = geo.shift_tuple(f["shift"], w) if f["shift"] is not None else None
                f2[(f["left"], f["right"], s, tuple(round(x, 6) for x in f["normal"]) if f["right"] is None else None)] = f["area"]
            f3 = {}
            for f in vs["faces"]:
                if abs(f["normal"][2]) > 0.5:
                    continue
                s = geo.shift_tuple(f["shift"], w) if f["shift"] is not None else None
                if s is not None and s[2] != 0:
                    continue
                f3[(f["left"], f["right"], s, tuple(round(x, 6) for x in f["normal"]) if f["right"] is None else None)] = f["area"]
            for key in set(f2) | set(f3):
                a2, a3 = f2.get(key, 0.0), f3.get(key, 0.0)
                if abs(a2 - a3) > tol["area_tol"] + thr:
                    res.violation("C08:2d-vs-slab-face", f"face {key}: 2D length {a2} vs 3D slab area {a3}", ctx)
                    break
        if ci < 1:
            res.sample({"input": T.inp_json(inp), "garbage_variant": T.inp_json(garb)})
