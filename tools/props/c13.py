"""C13 - integrator and direct routes agree; built-in integrals reproduce stored values."""
import json

import common as C
import geo
import structural as S
import tess as T


def vor_bits(v):
    return {"cells": [(tuple(c["loc"]), tuple(c["centroid"]), c["volume"], c["safety_radius"], c["offset"], c["count"]) for c in v["cells"]],
            "faces": [(f["left"], f["right"], tuple(f["shift"]) if f["shift"] is not None else None, f["area"], tuple(f["centroid"]), tuple(f["normal"])) for f in v["faces"]],
            "conn": v["conn"], "anchor": v["anchor"], "width": v["width"], "dim": v["dim"], "periodic": v["periodic"]}


def close(a, b, tol):
    return abs(C.b2f(a) - C.b2f(b)) <= tol


def run(res, replay=None):
    tier, seed = res.tier, res.seed
    res.rule = ("same suite as C12 (all masks of small inputs, sampled masks of larger ones, 1D/2D/3D, periodic or not): Voronoi::build* vs "
                "Voronoi::from(&integrator) bitwise; integrator integrals vs stored values bitwise and in order; symmetric vs non-symmetric face "
                "integrals; with-faces variants (3D) to rounding; orders/metadata vs the Coq model. non-trivial = distinct (input, mask) with >= 1 constructed cell")
    inputs = None
    if replay:
        inputs = [json.load(open(replay))["replay"]["input"]]
        inputs[0].setdefault("group", "replay")
    data = S.struct_data(tier, seed, inputs)
    for k, case in enumerate(data["cases"]):
        o = data["impl"].get(k)
        ctx = {"input": T.inp_json(case)}
        a, w = T.norm_box(case["dim"], case["anchor"], case["width"])
        res.count(f"{case['group']}:{case['dim']}D:{'periodic' if case['periodic'] else 'reflective'}:{'mask' if case.get('mask') is not None else 'full'}")
        if o is None or "panic" in o:
            res.violation("panic:" + geo.panic_signature(o, case), f"construction panicked: {(o or {}).get('panic')}", ctx)
            continue
        n = len(case["gens"])
        active = [case.get("mask") is None or case["mask"][i] for i in range(n)]
        if any(active):
            res.nontriv((k,))
        v1, v2 = vor_bits(o["vor"]), vor_bits(o["vor2"])
        for key in v1:
            if v1[key] != v2[key]:
                res.violation("C13:routes-differ:" + key, f"Voronoi::from(&integrator) differs bitwise from the direct build in '{key}'", dict(ctx, field=key))
                break
        # cell integrals <-> constructed cells in index order
        ci = o["cell_integrals"]
        idxs = [i for i in range(n) if active[i]]
        if len(ci) != len(idxs):
            res.violation("C13:cell-integrals-count", f"{len(ci)} cell integrals for {len(idxs)} constructed cells", ctx)
        else:
            for x, i in zip(ci, idxs):
                c = o["vor"]["cells"][i]
                if x["volume"] != c["volume"] or x["centroid"] != c["centroid"]:
                    res.violation("C13:cell-integral-value", f"VolumeCentroidIntegral #{idxs.index(i)} differs from stored cell {i}", dict(ctx, cell=i))
                    break
        # symmetric face integrals <-> face list
        fis, faces = o["face_integrals_sym"], o["vor"]["faces"]
        if len(fis) != len(faces):
            res.violation("C13:sym-face-count", f"{len(fis)} symmetric face integrals but {len(faces)} stored faces", ctx)
        else:
            for j, (x, f) in enumerate(zip(fis, faces)):
                if (x["left"], x["right"], x["shift"]) != (f["left"], f["right"], f["shift"]) or x["area"] != f["area"] or x["centroid"] != f["centroid"]:
                    res.violation("C13:sym-face-value", f"symmetric face integral #{j} differs from stored face #{j}", dict(ctx, face=j))
                    break
        # symmetric = non-symmetric minus faces already reported by a constructed lower-index neighbour without shift
        fi = o["face_integrals"]
        exp = [x for x in fi if not (x["shift"] is None and x["right"] is not None and x["right"] < x["left"] and active[x["right"]])]
        if [(x["left"], x["right"], x["shift"], x["area"], x["centroid"]) for x in exp] != [(x["left"], x["right"], x["shift"], x["area"], x["centroid"]) for x in fis]:
            res.violation("C13:sym-not-filtered-nonsym", "symmetric face integrals are not the non-symmetric ones minus the faces of constructed lower-index unshifted neighbours", ctx)
        # model orders
        m = data["model"].get(k)
        if m is None:
            res.violation("corr:assemble-model-missing", "structural model produced no output", ctx, no_input=True)
        else:
            def keys(lst):
                return [S.face_key(x, w) for x in lst]
            if keys(fi) != [S.model_face_key(f) for f in m["fi"]] or keys(fis) != [S.model_face_key(f) for f in m["fis"]] or m["ci"] != idxs:
                res.disagreements += 1
                res.violation("corr:integral-lists", "order/metadata of integral lists differ from Model.Assemble (face_integrals / face_integrals_sym / cell_integrals)",
                              dict(ctx, correspondence="Model.Assemble.face_integrals*"), no_input=True)
        # with faces (3D): same structure, values to rounding
        wf = o.get("wf")
        if case["dim"] == 3:
            if not isinstance(wf, dict):
                res.violation("C13:with-faces-panic", "with_faces() panicked on a 3D tessellation", ctx)
            else:
                tol = T.tolerances(case)
                vw = wf["vor"]
                if [(f["left"], f["right"], f["shift"]) for f in vw["faces"]] != [(f["left"], f["right"], f["shift"]) for f in faces] or vw["conn"] != o["vor"]["conn"]:
                    res.violation("C13:with-faces-structure", "tessellation from cells with face data has different faces/connectivity", ctx)
                else:
                    for i in range(n):
                        if not close(vw["cells"][i]["volume"], o["vor"]["cells"][i]["volume"], tol["vol_tol"]):
                            res.violation("C13:with-faces-volume", f"cell {i}: volume with face data {C.b2f(vw['cells'][i]['volume'])} vs without {C.b2f(o['vor']['cells'][i]['volume'])}", dict(ctx, cell=i))
                            break
                    for j, (f1, f2) in enumerate(zip(vw["faces"], faces)):
                        if not close(f1["area"], f2["area"], tol["area_tol"]):
                            if T.known_class(case) and "K1-wall" in T.known_class(case) and f2["right"] is None:
                                res.violation("wall-face-of-on-wall-generator", f"face {j}: wall face area differs with/without face data", dict(ctx, face=j))
                            else:
                                res.violation("C13:with-faces-area", f"face {j}: area with face data {C.b2f(f1['area'])} vs without {C.b2f(f2['area'])}", dict(ctx, face=j))
                            break
        if k < 2:
            res.sample({"input": T.inp_json(case), "cell_integrals": len(ci), "face_integrals": len(fi), "face_integrals_sym": len(fis)})
