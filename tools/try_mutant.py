#!/usr/bin/env python3
"""Apply a seeded change to /repo, run the named checks (quick), undo it.  usage: try_mutant.py <patch> C01 C02 ..."""
import subprocess
import sys

patch = sys.argv[1]
pids = sys.argv[2:]
r = subprocess.run(["git", "-C", "/repo", "apply", "--check", patch], capture_output=True, text=True)
if r.returncode != 0:
    print("patch does not apply:", r.stderr[:400])
    sys.exit(2)
subprocess.run(["git", "-C", "/repo", "apply", patch], check=True)
try:
    for pid in pids:
        p = subprocess.run(["python3", "/verif/tools/vp.py", "check", pid], capture_output=True, text=True, cwd="/verif")
        lines = [l for l in p.stdout.splitlines() if l.startswith(("VIOLATION", "KNOWN"))]
        detail = [l for l in p.stderr.splitlines() if l.startswith("  ->")]
        print(f"{pid}: exit {p.returncode}; {len([l for l in lines if l.startswith('VIOLATION')])} violation line(s)")
        for l, d in zip([l for l in lines if l.startswith("VIOLATION")][:3], detail[:3]):
            print("   ", l[:120])
            print("   ", d[:300])
finally:
    subprocess.run(["git", "-C", "/repo", "checkout", "--", "."], check=True)
    print("reverted:", subprocess.run(["git", "-C", "/repo", "status", "--short"], capture_output=True, text=True).stdout.strip() or "clean")
