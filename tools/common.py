"""Shared machinery of the check driver: building the Coq development, the gate on the
pinned theorems, building the Rust harness against /repo's working tree, running
implementation and model on the same case files, evidence and violation reporting."""
import hashlib
import json
import os
import re
import struct
import subprocess
import sys
import time

if hasattr(sys, "set_int_max_str_digits"):
    sys.set_int_max_str_digits(0)      # exact rationals of the model run to thousands of digits
VERIF = os.path.dirname(os.path.dirname(os.path.abspath(__file__)))
REPO = os.environ.get("VERIF_REPO", "/repo")
CACHE = os.path.join(VERIF, ".cache")
_SCRATCH = []


def rundir(name):
    """scratch directory of THIS process for case/output files (two checks - or two tiers of one check - may run at the same time;
    they must not write each other's files).  Removed at exit.  Shared, content-addressed caches stay in .cache/run/<name>."""
    import atexit
    import shutil
    d = os.path.join(CACHE, "run", name, "p%d" % os.getpid())
    if d not in _SCRATCH:
        os.makedirs(d, exist_ok=True)
        _SCRATCH.append(d)
        atexit.register(lambda: shutil.rmtree(d, ignore_errors=True))
    return d

COQ = os.path.join(VERIF, "coq")
GUARD = "meshless_voro_verif"
NPROC = os.cpu_count() or 4

ALLOWED_AXIOMS = {
    "ClassicalDedekindReals.sig_not_dec",
    "ClassicalDedekindReals.sig_forall_dec",
    "FunctionalExtensionality.functional_extensionality_dep",
    "Classical_Prop.classic",
}

TRUSTED_BASE = [
    "Coq 8.16.1 kernel (coqc; vm_compute for closed computations and model evaluation; no native_compute)",
    "axioms: none beyond the standard-library ones named in the allow-list (real-number axioms sig_not_dec, "
    "sig_forall_dec, functional_extensionality_dep; Classical_Prop.classic through Flocq/Reals) - only files using Reals/Flocq",
    "extraction: ExtrOcamlBasic + ExtrOcamlZBigInt directives only (bool/option/unit/list/prod/sumbool/sumor to OCaml types; "
    "positive/Z/N to zarith Big_int_Z with the arithmetic/comparison/div/shift constants of ExtrOcamlZBigInt.v) plus Extract Constant Z.gcd => Big_int_Z.gcd_big_int; ocamlfind ocamlopt 4.13.1, zarith 1.12",
    "correspondence machinery: Python case generator/comparator (tools/), Rust harness (harness/), OCaml line driver (ocaml/runner.ml)",
    "hand-written model tied to /repo by differential runs on generated inputs; the only translated parts are the exact predicate (tools/translate_insphere.py: "
    "symbolic execution of in_sphere_test_exact and its macros into Gallina, proved equal to the model in C10_gen.v on every C10 run), the public geometry helpers (tools/translate_geom.py: intersect_planes, project_onto, project_onto_intersection, signed_volume_tet, signed_area_tri parsed into Gallina over R, their defining equations proved in C19_gen.v on every C19 run; glam's dot/cross/determinant/project_onto are a fixed prelude) and the rayon pipelines (C09_gen.v)",
    "exact rational re-derivation of clip decisions in Python (tools/decisions.py, C05) and the exact grid replication for the kNN model (C20)",
    "rustc/cargo, glam, rstar, rayon, big-integer crates as used by /repo",
]


def log(*a):
    print(*a, file=sys.stderr, flush=True)


def sh(cmd, timeout=1800, cwd=None, env=None, capture=True, shell=False):
    e = dict(os.environ)
    e["CARGO_NET_OFFLINE"] = "true"
    if env:
        e.update(env)
    t0 = time.time()
    try:
        p = subprocess.run(cmd, cwd=cwd, env=e, timeout=timeout, shell=shell,
                           stdout=subprocess.PIPE if capture else None,
                           stderr=subprocess.STDOUT if capture else None, text=True)
        return p.returncode, (p.stdout or ""), time.time() - t0
    except subprocess.TimeoutExpired as ex:
        out = ex.stdout if isinstance(ex.stdout, str) else (ex.stdout or b"").decode("utf8", "replace")
        return 124, out + "\n[timeout]", time.time() - t0


# ----------------------------------------------------------------------------- floats

def f2b(x):
    return struct.unpack("<Q", struct.pack("<d", float(x)))[0]


def b2f(b):
    return struct.unpack("<d", struct.pack("<Q", int(b)))[0]


def next_up(x, n=1):
    b = f2b(x)
    for _ in range(abs(n)):
        if n > 0:
            if x >= 0 and b != 0x8000000000000000:
                b += 1
            elif b == 0x8000000000000000:
                b = 1
            else:
                b -= 1
        else:
            if x > 0:
                b -= 1
            elif b == 0:
                b = 0x8000000000000001
            else:
                b += 1
        x = b2f(b)
    return x


class Rng:
    """splitmix64: every random choice of a run derives from VERIF_SEED."""

    def __init__(self, seed):
        self.s = (int(seed) * 0x9E3779B97F4A7C15 + 0x1234567) & 0xFFFFFFFFFFFFFFFF

    def u64(self):
        self.s = (self.s + 0x9E3779B97F4A7C15) & 0xFFFFFFFFFFFFFFFF
        z = self.s
        z = ((z ^ (z >> 30)) * 0xBF58476D1CE4E5B9) & 0xFFFFFFFFFFFFFFFF
        z = ((z ^ (z >> 27)) * 0x94D049BB133111EB) & 0xFFFFFFFFFFFFFFFF
        return z ^ (z >> 31)

    def below(self, n):
        return self.u64() % n

    def range(self, lo, hi):  # inclusive
        return lo + self.below(hi - lo + 1)

    def unit(self):
        return (self.u64() >> 11) / float(1 << 53)

    def uniform(self, a, b):
        return a + (b - a) * self.unit()

    def choice(self, xs):
        return xs[self.below(len(xs))]

    def chance(self, p):
        return self.unit() < p

    def shuffle(self, xs):
        for i in range(len(xs) - 1, 0, -1):
            j = self.below(i + 1)
            xs[i], xs[j] = xs[j], xs[i]


# ----------------------------------------------------------------------------- Coq

_coq_built = None


def strip_comments(src):
    out = []
    depth = 0
    i = 0
    while i < len(src):
        if src.startswith("(*", i):
            depth += 1
            i += 2
        elif src.startswith("*)", i) and depth > 0:
            depth -= 1
            i += 2
        else:
            if depth == 0:
                out.append(src[i])
            i += 1
    return "".join(out)


FORBIDDEN = [r"\bAdmitted\b", r"\badmit\b", r"\bAxiom\b", r"\bAxioms\b", r"\bParameter\b", r"\bParameters\b",
             r"\bConjecture\b", r"Unset\s+Guard", r"bypass_check", r"Admit\s+Obligations", r"type-in-type",
             r"impredicative-set", r"Unset\s+Positivity", r"Unset\s+Universe"]


def coq_gate():
    """No forbidden declaration anywhere in the development (comments stripped);
    Variable/Hypothesis only inside a Section."""
    problems = []
    for root, _, files in os.walk(os.path.join(COQ, "theories")):
        for f in files:
            if not f.endswith(".v"):
                continue
            p = os.path.join(root, f)
            src = strip_comments(open(p).read())
            for pat in FORBIDDEN:
                if re.search(pat, src):
                    problems.append(f"{p}: forbidden {pat}")
            depth = 0
            for line in src.splitlines():
                s = line.strip()
                if re.match(r"Section\s+\w+\s*\.", s):
                    depth += 1
                elif re.match(r"End\s+\w+\s*\.", s) and depth > 0:
                    depth -= 1
                elif re.match(r"(Variables?|Hypothes[ie]s|Context)\b", s) and depth == 0:
                    problems.append(f"{p}: Variable/Hypothesis outside a section: {s}")
    for cf in ["_CoqProject"]:
        s = open(os.path.join(COQ, cf)).read()
        if "type-in-type" in s or "impredicative" in s or "-vos" in s:
            problems.append("forbidden flag in _CoqProject")
    return problems


class build_lock:
    """builds (make in coq/, the OCaml runner, cargo) are serialised across processes: checks may run at the same time"""
    def __init__(self, name="build"):
        os.makedirs(CACHE, exist_ok=True)
        self.path = os.path.join(CACHE, name + ".lock")

    def __enter__(self):
        import fcntl
        self.f = open(self.path, "w")
        fcntl.flock(self.f, fcntl.LOCK_EX)
        return self

    def __exit__(self, *a):
        import fcntl
        fcntl.flock(self.f, fcntl.LOCK_UN)
        self.f.close()


def build_coq(timeout=3000):
    """Full .vo build of the development (make is a no-op when nothing changed)."""
    global _coq_built
    if _coq_built is not None:
        return _coq_built
    with build_lock("coq"):
        rc, out, dt = sh("coq_makefile -f _CoqProject -o Makefile > /dev/null && make -j%d" % NPROC,
                         cwd=COQ, timeout=timeout, shell=True)
    ok = rc == 0
    if not ok:
        log(out[-4000:])
    _coq_built = (ok, out, dt)
    return _coq_built


def properties_gate(pid):
    """Compile Properties/<pid>.v on its own, read the Print Assumptions output.
    Returns dict(theorems=[...], discharged=[...], problems=[...], assumptions={thm: [axioms]})."""
    res = {"theorems": [], "discharged": [], "problems": [], "assumptions": {}, "checker_cmd": ""}
    src_path = os.path.join(COQ, "theories", "Properties", pid + ".v")
    if not os.path.exists(src_path):
        res["problems"].append("missing " + src_path)
        return res
    src = strip_comments(open(src_path).read())
    thms = re.findall(r"^\s*Theorem\s+(\w+)", src, re.M)
    prints = re.findall(r"Print\s+Assumptions\s+(\w+)\s*\.", src)
    res["theorems"] = thms
    for t in thms:
        if t not in prints:
            res["problems"].append(f"{pid}: theorem {t} has no Print Assumptions")
    ok, out, _ = build_coq()
    if not ok:
        m = re.findall(r'File "([^"]+)", line (\d+)', out)
        res["problems"].append("coq build failed: " + (", ".join(f"{a}:{b}" for a, b in m[-3:]) or out[-300:]))
        return res
    odir = os.path.join(CACHE, "props")
    os.makedirs(odir, exist_ok=True)
    cmd = ["coqc", "-q", "-Q", "theories", "MV", "-o", os.path.join(odir, pid + ".vo"),
           os.path.join("theories", "Properties", pid + ".v")]
    res["checker_cmd"] = "cd coq && make -j && " + " ".join(cmd)
    rc, out, _ = sh(cmd, cwd=COQ, timeout=900)
    if rc != 0:
        res["problems"].append(f"{pid}: Properties file does not compile: " + out[-500:])
        return res
    # split output in blocks, one per Print Assumptions, in order
    blocks = []
    cur = None
    for line in out.splitlines():
        if line.startswith("Closed under the global context"):
            blocks.append([])
            cur = None
        elif line.startswith("Axioms:"):
            cur = []
            blocks.append(cur)
        elif cur is not None:
            m = re.match(r"^([A-Za-z_][\w.']*)\s*(:|$)", line)
            if m:
                cur.append(m.group(1))
    if len(blocks) != len(prints):
        res["problems"].append(f"{pid}: {len(prints)} Print Assumptions but {len(blocks)} outputs")
        return res
    for name, axs in zip(prints, blocks):
        res["assumptions"][name] = axs
        bad = [a for a in axs if a not in ALLOWED_AXIOMS]
        if bad:
            res["problems"].append(f"{pid}: theorem {name} depends on non-allow-listed axioms {bad}")
        elif name in thms:
            res["discharged"].append(name)
    res["problems"] += coq_gate()
    return res


def coq_eval(lines, name, timeout=900):
    """Evaluate vm_compute queries inside Coq. `lines` is the body of a .v file (after the
    imports); returns coqc stdout."""
    d = rundir("coqeval")
    p = os.path.join(d, name + ".v")
    with open(p, "w") as f:
        f.write(lines)
    rc, out, _ = sh(["coqc", "-q", "-noglob", "-Q", os.path.join(COQ, "theories"), "MV", p], cwd=d, timeout=timeout)
    return rc, out


# ----------------------------------------------------------------------------- harness / runner

def repo_hash():
    h = hashlib.sha256()
    for root, dirs, files in os.walk(os.path.join(REPO, "src")):
        dirs.sort()
        for f in sorted(files):
            p = os.path.join(root, f)
            h.update(p.encode())
            h.update(open(p, "rb").read())
    for f in ["Cargo.toml", "Cargo.lock"]:
        p = os.path.join(REPO, f)
        if os.path.exists(p):
            h.update(open(p, "rb").read())
    return h.hexdigest()[:16]


_harness = {}


def build_harness(profile="debug", backend="ibig", rayon=True, guard=True):
    key = (profile, backend, rayon, guard)
    if key in _harness:
        return _harness[key]
    feats = [backend] + (["rayon"] if rayon else [])
    tdir = os.path.join(CACHE, "target" if (backend == "ibig" and rayon) else f"target-{backend}-{'r' if rayon else 's'}")
    # keep the harness' lock file in sync with the repository's
    lock_src = os.path.join(REPO, "Cargo.lock")
    cmd = ["cargo", "build", "--offline", "--no-default-features", "--features", ",".join(feats)]
    if profile == "release":
        cmd.append("--release")
    env = {"CARGO_TARGET_DIR": tdir}
    if guard:
        env["RUSTFLAGS"] = f"--cfg {GUARD}"
    rc, out, dt = sh(cmd, cwd=os.path.join(VERIF, "harness"), env=env, timeout=1800)
    if rc != 0:
        log(out[-3000:])
        raise BuildError("harness build failed (%s %s)" % (profile, backend), out)
    path = os.path.join(tdir, profile, "mvh")
    _harness[key] = path
    return path


class BuildError(Exception):
    def __init__(self, msg, out=""):
        super().__init__(msg)
        self.out = out


def build_runner():
    ok, out, _ = build_coq()
    src_ml = os.path.join(COQ, "model.ml")
    if not ok or not os.path.exists(src_ml):
        raise BuildError("coq build / extraction failed", out)
    odir = os.path.join(CACHE, "ocaml")
    os.makedirs(odir, exist_ok=True)
    exe = os.path.join(odir, "runner")
    srcs = [os.path.join(COQ, "model.ml"), os.path.join(COQ, "model.mli"), os.path.join(VERIF, "ocaml", "runner.ml")]
    with build_lock("ocaml"):
        if os.path.exists(exe) and all(os.path.getmtime(s) <= os.path.getmtime(exe) for s in srcs):
            return exe
        for s in srcs:
            sh(["cp", s, odir])
        rc, out, _ = sh("ocamlfind ocamlopt -package zarith -linkpkg -inline 100 -unsafe model.mli model.ml runner.ml -o runner.new && mv runner.new runner",
                        cwd=odir, shell=True, timeout=900)
        if rc != 0:
            raise BuildError("ocaml runner build failed", out)
    return exe


def _read_out(outfile, offset=0):
    res = {}
    if os.path.exists(outfile):
        for line in open(outfile):
            line = line.strip()
            if line:
                try:
                    o = json.loads(line)
                    o["line"] += offset
                    res[o["line"]] = o
                except Exception:
                    pass
    return res


def run_impl(exe, casefile, outfile, env=None, timeout=3000, stall=None):
    """run the harness on a case file.  The harness writes one line per finished case; when no new line appears for `stall`
    seconds the case being worked on is declared non-terminating (reported as a panic 'no result within ...'), the process is
    killed and the remaining cases are run in a fresh process (at most 4 times)."""
    if stall is None:
        stall = 240 if os.environ.get("VERIF_TIER", "quick") != "thorough" else 1200
    e = dict(os.environ)
    e["CARGO_NET_OFFLINE"] = "true"
    if env:
        e.update(env)
    lines = [ln for ln in open(casefile).read().split("\n")]
    if lines and lines[-1] == "":
        lines.pop()
    res, offset, cur_case, cur_out, outs, rc = {}, 0, casefile, outfile, [], 0
    for attempt in range(5):
        if os.path.exists(cur_out):
            os.remove(cur_out)
        t0 = time.time()
        p = subprocess.Popen([exe, cur_case, cur_out], env=e, stdout=subprocess.PIPE, stderr=subprocess.STDOUT, text=True)
        last_size, last_change, hung = -1, time.time(), False
        while p.poll() is None:
            time.sleep(0.5)
            sz = os.path.getsize(cur_out) if os.path.exists(cur_out) else 0
            if sz != last_size:
                last_size, last_change = sz, time.time()
            if time.time() - last_change > stall or time.time() - t0 > timeout:
                hung = True
                p.kill()
                break
        try:
            outs.append(p.communicate(timeout=30)[0] or "")
        except Exception:
            pass
        part = _read_out(cur_out, offset)
        res.update(part)
        if not hung:
            rc = rc or (p.returncode or 0)
            break
        rc = 124
        done = [k for k in part if k >= offset]
        hang_line = (max(done) + 1) if done else offset
        # blank / comment lines are skipped by the harness: move to the next real case
        while hang_line < len(lines) and (not lines[hang_line].strip() or lines[hang_line].startswith("#")):
            hang_line += 1
        if hang_line >= len(lines):
            break
        kind = lines[hang_line].split()[0] if lines[hang_line].split() else "?"
        res[hang_line] = {"line": hang_line, "kind": kind, "panic": f"no result within {int(stall)} s (non-termination?)", "hang": True}
        offset = hang_line + 1
        if offset >= len(lines):
            break
        cur_case, cur_out = casefile + f".rest{attempt}", outfile + f".rest{attempt}"
        with open(cur_case, "w") as f:
            f.write("\n".join(lines[offset:]) + "\n")
    return rc, res, "\n".join(outs)


def run_model(casefile, timeout=3000):
    """run the extracted model on a case file; large files are dealt round-robin to one runner process per core
    (the runner numbers its output by the position of the line in the file it reads)"""
    exe = build_runner()
    lines = open(casefile).read().split("\n")
    if lines and lines[-1] == "":
        lines.pop()
    plain = all(ln.strip() and not ln.startswith("#") for ln in lines)
    if len(lines) < 64 or not plain:
        rc, out, dt = sh([exe, casefile], timeout=timeout)
        res = {}
        for line in out.splitlines():
            t = line.split()
            if t and t[0].isdigit():
                res[int(t[0])] = t[1:]
        return rc, res, out
    import concurrent.futures as cf
    k = min(NPROC, len(lines))
    parts = [list(range(i, len(lines), k)) for i in range(k)]

    def work(j):
        pth = f"{casefile}.shard{j}"
        with open(pth, "w") as f:
            for i in parts[j]:
                f.write(lines[i] + "\n")
        rc_, out_, _ = sh([exe, pth], timeout=timeout)
        os.remove(pth)
        return j, rc_, out_
    res, rc, outs = {}, 0, []
    with cf.ThreadPoolExecutor(max_workers=k) as ex:
        for j, rc_, out_ in ex.map(work, range(k)):
            rc = rc or rc_
            outs.append(out_)
            for line in out_.splitlines():
                t = line.split()
                if t and t[0].isdigit() and int(t[0]) < len(parts[j]):
                    res[parts[j][int(t[0])]] = t[1:]
    return rc, res, "\n".join(outs)


def shard(items, n):
    k = max(1, (len(items) + n - 1) // n)
    return [items[i:i + k] for i in range(0, len(items), k)]


# ----------------------------------------------------------------------------- results

class Result:
    """Collects what a check run covered and what it found."""

    def __init__(self, pid, tier, seed):
        self.pid = pid
        self.tier = tier
        self.seed = seed
        self.t0 = time.time()
        self.evaluations = 0
        self.nontrivial = set()
        self.samples = []
        self.violations = []      # (signature, description, replay dict)
        self.notes = {}
        self.rule = ""
        self.gate = None
        self.disagreements = 0
        self.families = {}

    def count(self, family, n=1):
        self.families[family] = self.families.get(family, 0) + n
        self.evaluations += n

    def nontriv(self, key):
        self.nontrivial.add(key)

    def sample(self, s, limit=4):
        if len(self.samples) < limit:
            self.samples.append(s)

    def violation(self, signature, what, replay, no_input=False):
        self.violations.append({"signature": signature, "what": what, "replay": replay, "no_input": no_input})


def load_known():
    p = os.path.join(VERIF, "known_findings.json")
    if os.path.exists(p):
        return json.load(open(p))
    return {"known": [], "fixed": []}


def coqchk_gate(pid):
    """thorough tier: re-check the property's compiled theorems and everything they depend on with the independent checker coqchk
    and compare the axioms it lists with the allow-list.  Returns (ok, detail)"""
    rc, out, dt = sh(["coqchk", "-silent", "-o", "-Q", "theories", "MV", f"MV.Properties.{pid}"], cwd=COQ, timeout=3000)
    allowed = {"Coq.Logic.FunctionalExtensionality.functional_extensionality_dep", "Coq.Reals.ClassicalDedekindReals.sig_not_dec",
               "Coq.Reals.ClassicalDedekindReals.sig_forall_dec", "Coq.Logic.Classical_Prop.classic"}
    problems = []
    if rc != 0:
        problems.append("coqchk exit status %d: %s" % (rc, out[-300:].replace("\n", " ")))
    axioms, sect = [], None
    for ln in out.splitlines():
        t = ln.strip()
        if t.startswith("* "):
            sect = t
            if ("type-in-type" in t or "unsafe" in t or "positivity" in t) and "<none>" not in t:
                problems.append("coqchk: " + t)
        elif sect and sect.startswith("* Axioms") and t and not t.startswith("*"):
            axioms.append(t)
    extra = [a for a in axioms if a not in allowed and a != "<none>"]
    if extra:
        problems.append("coqchk lists axioms outside the allow-list: " + ", ".join(extra))
    return (not problems), {"axioms": axioms, "seconds": round(dt, 1), "problems": problems}


PENDING = []      # (signature, what, replay) raised by shared infrastructure (e.g. missing model output), merged in finish()


def finish(res, level_text_extra=None):
    """Write evidence, print KNOWN-FINDING / VIOLATION lines, return exit code."""
    pid = res.pid
    for sig, what, rp in PENDING:
        res.violation(sig, what, rp, no_input=True)
    known = [k for k in load_known().get("known", []) if pid in (k.get("properties") or [k.get("property")])]
    gate = res.gate or {"theorems": [], "discharged": [], "problems": ["gate not run"], "assumptions": {}, "checker_cmd": ""}
    # a broken proof obligation is a violation without a failing input (unless the search found one)
    for pr in gate["problems"]:
        res.violation("proof:" + pr[:80], "proof obligation / gate: " + pr, {"theorem_or_gate": pr}, no_input=True)
    # if a concrete failing input exists, drop the input-less entries caused by the same broken correspondence
    concrete = [v for v in res.violations if not v["no_input"]]
    reported = []
    exit_code = 0
    os.makedirs(os.path.join(VERIF, "replays"), exist_ok=True)
    for fn in os.listdir(os.path.join(VERIF, "replays")):
        if fn.startswith(pid + "_") and fn.endswith(".json"):
            os.remove(os.path.join(VERIF, "replays", fn))
    seen_sig = set()
    known_printed = set()
    if os.environ.get("VERIF_SHOW_KNOWN"):
        cnt = {}
        for v in res.violations:
            cnt[v["signature"]] = cnt.get(v["signature"], 0) + 1
        log("  [signatures] " + json.dumps(cnt))
    for v in res.violations:
        if v["signature"] in seen_sig:
            continue
        seen_sig.add(v["signature"])
        if v["no_input"] and concrete and v["signature"].startswith("corr:"):
            continue
        k = next((k for k in known if (k.get("signature") == v["signature"]) or
                  (k.get("signature_re") and re.fullmatch(k["signature_re"], v["signature"]))), None)
        if k:
            if os.environ.get("VERIF_SHOW_KNOWN"):
                log(f"  [known] {v['signature']}: {v['what'][:400]}")
            kid = k.get("signature") or k.get("signature_re")
            if kid not in known_printed:
                known_printed.add(kid)
                print(f"KNOWN-FINDING: property={pid} {k.get('what', v['what'])}")
            continue
        rp = os.path.join(VERIF, "replays", f"{pid}_{len(reported)}.json")
        with open(rp, "w") as f:
            json.dump({"property": pid, "seed": res.seed, "tier": res.tier, "signature": v["signature"],
                       "what": v["what"], "replay": v["replay"]}, f, indent=1, default=str)
        tail = " no-failing-input-found" if v["no_input"] else ""
        print(f"VIOLATION property={pid} replay={rp}{tail}")
        log("  -> " + v["what"][:600])
        reported.append(v)
        exit_code = 1
    ev = {
        "property_id": pid,
        "tier": res.tier,
        "seed": int(res.seed),
        "level": "proof",
        "coverage": {
            "obligations": max(1, len(gate["theorems"])),
            "discharged": len(gate["discharged"]) if gate["theorems"] else 0,
            "checker_cmd": gate.get("checker_cmd") or "cd coq && make",
            "trusted_base": TRUSTED_BASE,
            "theorems": gate["theorems"],
            "assumptions": gate["assumptions"],
            "evaluations": res.evaluations,
            "distinct_nontrivial": len(res.nontrivial),
            "rule": res.rule,
            "samples": res.samples or ["(none)"],
            "families": res.families,
            "disagreements_checked": res.disagreements,
            "notes": res.notes,
        },
        "assumptions": [
            "the hand-written Coq model corresponds to /repo only as far as the differential run of this check explored",
            "floating-point rounding is outside the exact models; comparisons marked 'up to rounding' use the fixed tolerances recorded in notes",
        ],
        "wall_s": round(time.time() - res.t0, 2),
        "violations": len(reported),
    }
    os.makedirs(os.path.join(VERIF, "evidence"), exist_ok=True)
    with open(os.path.join(VERIF, "evidence", pid + ".json"), "w") as f:
        json.dump(ev, f, indent=1, default=str)
    return exit_code
