"""Translator: src/geometry.rs (in_sphere_test_exact and the macros big_int!, big_int_det2x2!, big_int_det3x3!) -> Gallina.

The Rust text is executed symbolically: macro invocations are expanded by textual substitution of their arguments (as rustc
does), `let` / `=` / `+=` / `-=` update an environment of symbolic values, `Integer::from(x - y)` on i64 array elements becomes
`wrap64 (x - y)` (two's-complement subtraction of release builds), `Integer::default()` is 0, `&x * &y` is multiplication.
Every executed assignment becomes one `let` of the generated definition `insphere_src`, so the definition follows the source
statement by statement.  The fixed proof script in `gallina()` then asks Coq to prove `insphere_src = insphere_model` for all
arguments (ring): the theorems of Properties/C10.v about insphere_model are thereby re-checked against what the source says
now.  The cfg-dependent sign glue at the end of the function is matched against the three forms modelled in Model/Backend.v.

Anything the translator does not understand raises TranslationError (reported as a broken obligation, never silently skipped)."""
import re


class TranslationError(Exception):
    pass


def strip_comments(s):
    s = re.sub(r"//[^\n]*", "", s)
    return re.sub(r"/\*.*?\*/", "", s, flags=re.S)


def match_close(s, i, op, cl):
    """s[i] == op; index of the matching closer"""
    depth = 0
    for j in range(i, len(s)):
        if s[j] == op:
            depth += 1
        elif s[j] == cl:
            depth -= 1
            if depth == 0:
                return j
    raise TranslationError("unbalanced " + op)


def find_macros(src):
    macros = {}
    for m in re.finditer(r"macro_rules!\s+(\w+)\s*\{", src):
        name = m.group(1)
        end = match_close(src, m.end() - 1, "{", "}")
        body = src[m.end():end]
        pm = re.match(r"\s*\((.*?)\)\s*=>\s*\{", body, flags=re.S)
        if not pm:
            raise TranslationError("macro " + name + ": unsupported matcher")
        params = re.findall(r"\$(\w+)\s*:\s*expr", pm.group(1))
        bstart = pm.end() - 1
        bend = match_close(body, bstart, "{", "}")
        macros[name] = (params, body[bstart + 1:bend])
    return macros


def find_fn(src, name):
    m = re.search(r"fn\s+" + name + r"\s*\((.*?)\)\s*->\s*f64\s*\{", src, flags=re.S)
    if not m:
        raise TranslationError("function " + name + " not found")
    end = match_close(src, m.end() - 1, "{", "}")
    params = [p.strip().split(":")[0].strip() for p in m.group(1).split(",") if p.strip()]
    return params, src[m.end():end]


def split_top(s, sep):
    out, depth, cur = [], 0, ""
    for ch in s:
        if ch in "([{":
            depth += 1
        elif ch in ")]}":
            depth -= 1
        if ch == sep and depth == 0:
            out.append(cur)
            cur = ""
        else:
            cur += ch
    out.append(cur)
    return out


TOK = re.compile(r"\s*(Integer::from|Integer::default|\w+!|\w+|\+=|-=|[-+*&()\[\],=;{}$:])")


def tokenize(s):
    toks, i = [], 0
    s = s.strip()
    while i < len(s):
        m = TOK.match(s, i)
        if not m:
            raise TranslationError("cannot tokenize: " + s[i:i + 30])
        toks.append(m.group(1))
        i = m.end()
    return toks


class Exec:
    def __init__(self, macros, inputs):
        self.macros = macros
        self.env = {}
        self.lets = []
        self.n = 0
        for p in inputs:
            self.env[p] = [("i", f"{p}{k}") for k in range(3)]

    def fresh(self, expr, hint="t"):
        self.n += 1
        name = f"{hint}_{self.n}"
        self.lets.append((name, expr))
        return ("z", name)

    # ---- expressions (recursive descent over a token list)
    def expr(self, toks):
        v, rest = self.sum(toks)
        return v, rest

    def sum(self, toks):
        v, toks = self.prod(toks)
        while toks and toks[0] in ("+", "-"):
            op = toks[0]
            w, toks = self.prod(toks[1:])
            v = self.binop(op, v, w)
        return v, toks

    def prod(self, toks):
        v, toks = self.atom(toks)
        while toks and toks[0] == "*":
            w, toks = self.atom(toks[1:])
            v = self.binop("*", v, w)
        return v, toks

    def binop(self, op, v, w):
        if isinstance(v, list) or isinstance(w, list):
            raise TranslationError("arithmetic on an array")
        if v[0] != w[0]:
            raise TranslationError("mixed i64 / Integer arithmetic")
        if v[0] == "i":
            if op != "-":
                raise TranslationError("only i64 subtraction is modelled")
            return ("i", f"wrap64 ({v[1]} - {w[1]})")
        return ("z", f"({v[1]} {op} {w[1]})")

    def atom(self, toks):
        if not toks:
            raise TranslationError("unexpected end of expression")
        t = toks[0]
        if t == "&":
            return self.atom(toks[1:])
        if t == "(":
            v, rest = self.expr(toks[1:])
            if not rest or rest[0] != ")":
                raise TranslationError("expected )")
            return self.index(v, rest[1:])
        if t == "[":
            items, rest = [], toks[1:]
            while rest and rest[0] != "]":
                v, rest = self.expr(rest)
                items.append(v)
                if rest and rest[0] == ",":
                    rest = rest[1:]
            return self.index(items, rest[1:])
        if t == "{":
            # block expression: statements, value of the last expression
            j = self.close(toks, 0, "{", "}")
            val = self.block(toks[1:j])
            return self.index(val, toks[j + 1:])
        if t == "Integer::default":
            if toks[1:3] != ["(", ")"]:
                raise TranslationError("Integer::default()")
            return ("z", "0"), toks[3:]
        if t == "Integer::from":
            j = self.close(toks, 1, "(", ")")
            v, rest = self.expr(toks[2:j])
            if rest or isinstance(v, list) or v[0] != "i":
                raise TranslationError("Integer::from expects an i64 expression")
            return ("z", v[1]), toks[j + 1:]
        if t.endswith("!"):
            j = self.close(toks, 1, "(", ")")
            val = self.macro(t[:-1], toks[2:j])
            return self.index(val, toks[j + 1:])
        if re.fullmatch(r"\d+", t):
            return ("z", t), toks[1:]
        if re.fullmatch(r"\w+", t):
            if t not in self.env:
                raise TranslationError("unknown variable " + t)
            return self.index(self.env[t], toks[1:])
        raise TranslationError("unexpected token " + t)

    def index(self, v, toks):
        while toks and toks[0] == "[":
            j = self.close(toks, 0, "[", "]")
            k = toks[1:j]
            if len(k) != 1 or not k[0].isdigit() or not isinstance(v, list) or int(k[0]) >= len(v):
                raise TranslationError("unsupported / out of range index " + " ".join(k))
            v = v[int(k[0])]
            toks = toks[j + 1:]
        return v, toks

    @staticmethod
    def close(toks, i, op, cl):
        depth = 0
        for j in range(i, len(toks)):
            if toks[j] == op:
                depth += 1
            elif toks[j] == cl:
                depth -= 1
                if depth == 0:
                    return j
        raise TranslationError("unbalanced " + op)

    # ---- statements
    def macro(self, name, argtoks):
        if name not in self.macros:
            raise TranslationError("unknown macro " + name)
        params, body = self.macros[name]
        args = [a for a in split_top(" ".join(argtoks), ",")]
        args = [a.strip() for a in args if a.strip()]
        if len(args) != len(params):
            raise TranslationError(f"macro {name}: {len(args)} arguments for {len(params)} parameters")
        text = body
        for p, a in sorted(zip(params, args), key=lambda pa: -len(pa[0])):
            text = re.sub(r"\$" + p + r"\b", a, text)       # expr fragments substitute as a unit; arguments here are places or names
        return self.block(tokenize(text))

    def block(self, toks):
        """execute `stmt; stmt; ... [tail expr]`; returns the tail value (or None)"""
        stmts, cur, depth = [], [], 0
        for t in toks:
            if t in "([{":
                depth += 1
            elif t in ")]}":
                depth -= 1
            if t == ";" and depth == 0:
                stmts.append(cur)
                cur = []
            else:
                cur.append(t)
        val = None
        for st in stmts:
            if st:
                self.stmt(st)
        if cur:
            if cur[0] == "{" and self.close(cur, 0, "{", "}") == len(cur) - 1:
                val = self.block(cur[1:-1])       # `{{ ... }}` of a macro body
            elif cur[0].endswith("!") and self.close(cur, 1, "(", ")") == len(cur) - 1:
                val = self.macro(cur[0][:-1], cur[2:-1])      # statement macro without trailing semicolon
            else:
                val, rest = self.expr(cur)
                if rest:
                    raise TranslationError("trailing tokens: " + " ".join(rest[:6]))
        return val

    def place(self, toks):
        """NAME or NAME[k]"""
        name = toks[0]
        if len(toks) == 1:
            return name, None
        if len(toks) == 4 and toks[1] == "[" and toks[2].isdigit() and toks[3] == "]":
            return name, int(toks[2])
        raise TranslationError("unsupported assignment target " + " ".join(toks))

    def store(self, name, k, v, hint):
        if isinstance(v, list):
            if k is not None:
                raise TranslationError("array stored into an element")
            self.env[name] = [x if x[0] == "i" else self.fresh(x[1], f"{name}{i}") for i, x in enumerate(v)]
            return
        v = self.fresh(v[1], hint) if v[0] == "z" else v
        if k is None:
            self.env[name] = v
        else:
            arr = list(self.env[name])
            arr[k] = v
            self.env[name] = arr

    def stmt(self, st):
        if st[0] == "let":
            st = st[1:]
            if st[0] == "mut":
                st = st[1:]
            name = st[0]
            rest = st[1:]
            if rest and rest[0] != "=":
                # type annotation `: Integer`
                while rest and rest[0] != "=":
                    rest = rest[1:]
            if not rest:
                self.env[name] = ("z", "0")       # declared, assigned later
                return
            v, r2 = self.expr(rest[1:])
            if r2:
                raise TranslationError("trailing tokens in let " + name)
            self.store(name, None, v, name)
            return
        if st[0].endswith("!"):
            j = self.close(st, 1, "(", ")")
            if j != len(st) - 1:
                raise TranslationError("tokens after macro call")
            self.macro(st[0][:-1], st[2:j])
            return
        for op in ("+=", "-=", "="):
            if op in st:
                i = st.index(op)
                name, k = self.place(st[:i])
                v, r2 = self.expr(st[i + 1:])
                if r2:
                    raise TranslationError("trailing tokens in assignment")
                if op != "=":
                    old = self.env[name] if k is None else self.env[name][k]
                    v = self.binop(op[0], old, v)
                self.store(name, k, v, name if k is None else f"{name}{k}")
                return
        raise TranslationError("unsupported statement: " + " ".join(st[:8]))


GLUES = {
    "signum": re.compile(r"letresult=determinant\.signum\(\)\.to_f64\(\);"),
    "ordering": re.compile(r"letresult=matchdeterminant\.sign\(\)\{Ordering::Less=>-1\.0,Ordering::Equal=>0\.0,Ordering::Greater=>1\.0,?\};"),
    "sign": re.compile(r"letresult=matchdeterminant\.sign\(\)\{Sign::Minus=>-1\.0,Sign::NoSign=>0\.0,Sign::Plus=>1\.0,?\};"),
    "dashu_value": re.compile(r"letresult=result\.value\(\);"),
}


def translate(path):
    """returns (gallina_text, info)"""
    src = strip_comments(open(path).read())
    macros = find_macros(src)
    params, body = find_fn(src, "in_sphere_test_exact")
    if params != ["a", "b", "c", "d", "v"]:
        raise TranslationError("unexpected parameters " + str(params))
    cut = body.find("#[cfg")
    if cut < 0:
        raise TranslationError("sign glue (#[cfg(feature ...)] let result = ...) not found")
    arith, glue = body[:cut], body[cut:]
    ex = Exec(macros, params)
    # the i64 inputs are arrays a, b, c, d, v; big_int!(b, a) shadows b by the Integer array
    ex.block(tokenize(arith))
    det = ex.env.get("determinant")
    if det is None or isinstance(det, list) or det[0] != "z":
        raise TranslationError("no Integer variable `determinant` at the end of the arithmetic part")
    # sign glue: every cfg branch must be one of the modelled forms, and the function must return `result`
    g = re.sub(r"\s+", "", glue)
    pieces = re.findall(r"#\[cfg\((.*?)\)\](letresult=.*?;)(?=#\[cfg|result$|result\}?$)", g)
    seen = []
    for cond, stmt in pieces:
        kind = next((k for k, rx in GLUES.items() if rx.fullmatch(stmt)), None)
        if kind is None:
            raise TranslationError("unrecognised sign glue under cfg(" + cond + "): " + stmt[:80])
        seen.append((cond, kind))
    if not g.endswith("result") or len(seen) < 3:
        raise TranslationError("sign glue: expected cfg branches followed by `result`")
    lets = "\n".join(f"  let {n} := {e} in" for n, e in ex.lets)
    text = ("Definition insphere_src (a b c d v : P3) : Z :=\n"
            "  let '(a0, a1, a2) := a in let '(b0, b1, b2) := b in let '(c0, c1, c2) := c in\n"
            "  let '(d0, d1, d2) := d in let '(v0, v1, v2) := v in\n" + lets + f"\n  Z.sgn {det[1]}.\n")
    return text, {"macros": sorted(macros), "lets": len(ex.lets), "glue": seen}


def gallina(path):
    body, info = translate(path)
    text = ("(* generated from src/geometry.rs by tools/translate_insphere.py - do not edit *)\n"
            "From Coq Require Import ZArith.\nFrom MV Require Import Model.Insphere.\nOpen Scope Z_scope.\n\n" + body +
            "\nTheorem insphere_src_is_model : forall a b c d v : P3, insphere_src a b c d v = insphere_model a b c d v.\n"
            "Proof.\n  intros [[a0 a1] a2] [[b0 b1] b2] [[c0 c1] c2] [[d0 d1] d2] [[v0 v1] v2].\n"
            "  cbv beta zeta iota delta [insphere_src insphere_model insphere_det4 big_int det3 det2].\n"
            "  f_equal; ring.\nQed.\nPrint Assumptions insphere_src_is_model.\n")
    return text, info


if __name__ == "__main__":
    import sys
    t, i = gallina(sys.argv[1] if len(sys.argv) > 1 else "/repo/src/geometry.rs")
    print(t)
    print("(*", i, "*)")
