"""Translator: the public geometry helpers of src/geometry.rs (Plane::project_onto, Plane::project_onto_intersection,
intersect_planes, signed_volume_tet, the area vector of signed_area_tri) -> Gallina over the real numbers.

Each function body is parsed as Rust (`let` statements, a final expression, `assert!` recorded as a side condition) by a
small recursive-descent parser for the expression language these functions use: + - * / unary minus, numeric literals,
`&x`, field access (.n .p), the glam methods dot / cross / project_onto / determinant / length / signum,
`DMat3::from_cols`, `Plane::new` and calls of other translated functions (inlined as Gallina applications).  Types
(scalar / vector / plane / matrix) are inferred so that the overloaded `*` and `/` pick the right Gallina operation.
glam's own definitions (dot, cross, `DMat3::determinant = z.dot(x.cross(y))`, `project_onto = rhs * self.dot(rhs) *
rhs.dot(rhs).recip()`) are a fixed prelude - glam 0.27 is trusted, not translated.

The fixed proof script in `gallina()` then proves, about the *translated* definitions, the defining equations of C19:
the intersection lies on its three planes (when the asserted determinant is non-zero), the projection lies on the plane,
is along the normal and is idempotent, the projection on the intersection line lies on both planes and in the plane
through the point perpendicular to the line, the signed volume and the area vector are antisymmetric and the volume has
the documented sign convention (= det[v1-v0, v2-v0, v3-v0] / 6).  A rewrite of the source that changes the real-number
meaning of a helper breaks one of these proofs on the next run; anything the translator does not understand raises
TranslationError (reported as a broken obligation, never silently skipped)."""
import re


class TranslationError(Exception):
    pass


def strip_comments(s):
    s = re.sub(r"//[^\n]*", "", s)
    return re.sub(r"/\*.*?\*/", "", s, flags=re.S)


def match_close(s, i, op, cl):
    depth = 0
    for j in range(i, len(s)):
        if s[j] == op:
            depth += 1
        elif s[j] == cl:
            depth -= 1
            if depth == 0:
                return j
    raise TranslationError("unbalanced " + op)


TYPES = {"DVec3": "V", "f64": "S", "&Plane": "P", "Plane": "P", "&Self": "P", "Self": "P"}


def find_fn(src, name, method=False):
    m = re.search(r"pub fn\s+" + name + r"\s*\((.*?)\)\s*->\s*(\w+)\s*\{", src, flags=re.S)
    if not m:
        raise TranslationError("function " + name + " not found")
    end = match_close(src, m.end() - 1, "{", "}")
    params = []
    for p in m.group(1).split(","):
        p = p.strip()
        if not p:
            continue
        if p in ("&self", "self"):
            params.append(("self", "P"))
            continue
        nm, ty = [x.strip() for x in p.split(":")]
        nm = nm.replace("mut ", "").strip()
        ty = ty.replace(" ", "")
        if ty not in TYPES:
            raise TranslationError(f"{name}: parameter type {ty} not understood")
        params.append((nm, TYPES[ty]))
    ret = m.group(2)
    if ret not in TYPES:
        raise TranslationError(f"{name}: return type {ret} not understood")
    return params, TYPES[ret], src[m.end():end]


TOK = re.compile(r"\s*(\d+\.\d*(?:e-?\d+)?|\d+|\w+(?:::\w+)*!?|[-+*/&().,;=!<>])")


def tokenize(s):
    out, i = [], 0
    s = s.strip()
    while i < len(s):
        m = TOK.match(s, i)
        if not m:
            raise TranslationError("cannot tokenize: " + s[i:i + 40])
        out.append(m.group(1))
        i = m.end()
        while i < len(s) and s[i].isspace():
            i += 1
    return out


def lit(tok):
    """decimal literal -> exact Gallina real"""
    if "e" in tok:
        raise TranslationError("exponent literal " + tok)
    if "." in tok:
        a, b = tok.split(".")
        if b == "" or int(b) == 0:
            return f"{int(a)}"
        return f"({int(a + b)} / {10 ** len(b)})"
    return f"{int(tok)}"


class Parser:
    def __init__(self, toks, env, funs, fname):
        self.t, self.i, self.env, self.funs, self.fname = toks, 0, env, funs, fname

    def peek(self):
        return self.t[self.i] if self.i < len(self.t) else None

    def eat(self, x=None):
        tok = self.peek()
        if tok is None or (x is not None and tok != x):
            raise TranslationError(f"{self.fname}: expected {x!r}, found {tok!r}")
        self.i += 1
        return tok

    def args(self):
        self.eat("(")
        out = []
        while self.peek() != ")":
            out.append(self.expr())
            if self.peek() == ",":
                self.eat(",")
        self.eat(")")
        return out

    def expr(self):
        g, ty = self.term()
        while self.peek() in ("+", "-"):
            op = self.eat()
            g2, ty2 = self.term()
            if ty != ty2 or ty not in ("S", "V"):
                raise TranslationError(f"{self.fname}: {op} on {ty},{ty2}")
            if ty == "S":
                g = f"({g} {op} {g2})"
            else:
                g = f"({'vadd' if op == '+' else 'vsub'} {g} {g2})"
        return g, ty

    def term(self):
        g, ty = self.unary()
        while self.peek() in ("*", "/"):
            op = self.eat()
            g2, ty2 = self.unary()
            if op == "*":
                if (ty, ty2) == ("S", "S"):
                    g = f"({g} * {g2})"
                elif (ty, ty2) == ("S", "V"):
                    g, ty = f"(smul {g} {g2})", "V"
                elif (ty, ty2) == ("V", "S"):
                    g, ty = f"(smul {g2} {g})", "V"
                else:
                    raise TranslationError(f"{self.fname}: * on {ty},{ty2}")
            else:
                if (ty, ty2) == ("S", "S"):
                    g = f"({g} / {g2})"
                elif (ty, ty2) == ("V", "S"):
                    g = f"(vdivs {g} {g2})"
                else:
                    raise TranslationError(f"{self.fname}: / on {ty},{ty2}")
        return g, ty

    def unary(self):
        if self.peek() == "-":
            self.eat()
            g, ty = self.unary()
            return (f"(- {g})", "S") if ty == "S" else (f"(vneg {g})", ty)
        if self.peek() == "&":
            self.eat()
            return self.unary()
        return self.postfix()

    def postfix(self):
        g, ty = self.primary()
        while self.peek() == ".":
            self.eat(".")
            name = self.eat()
            if self.peek() == "(":
                a = self.args()
                sig = (ty, name, tuple(t for _, t in a))
                if sig == ("V", "dot", ("V",)):
                    g, ty = f"(dot {g} {a[0][0]})", "S"
                elif sig == ("V", "cross", ("V",)):
                    g, ty = f"(cross {g} {a[0][0]})", "V"
                elif sig == ("V", "project_onto", ("V",)):
                    g, ty = f"(glam_project_onto {g} {a[0][0]})", "V"
                elif sig == ("M", "determinant", ()):
                    g, ty = f"(glam_determinant {g})", "S"
                elif sig == ("V", "length_squared", ()):
                    g, ty = f"(dot {g} {g})", "S"
                elif sig == ("V", "distance", ("V",)):
                    g, ty = f"(sqrt (dot (vsub {g} {a[0][0]}) (vsub {g} {a[0][0]})))", "S"
                elif sig == ("S", "sqrt", ()):
                    g, ty = f"(sqrt {g})", "S"
                elif sig == ("V", "length", ()):
                    g, ty = f"(sqrt (dot {g} {g}))", "S"
                elif sig == ("S", "signum", ()):
                    g, ty = f"(signum {g})", "S"
                elif ty == "P" and name in self.funs and self.funs[name][0][0] == ("self", "P"):
                    ps, rt = self.funs[name]
                    if tuple(t for _, t in ps[1:]) != sig[2]:
                        raise TranslationError(f"{self.fname}: call of {name} with {sig[2]}")
                    g, ty = "(" + " ".join([name + "_src", g] + [x for x, _ in a]) + ")", rt
                else:
                    raise TranslationError(f"{self.fname}: method {name} on {ty} with {sig[2]} not understood")
            else:
                if ty == "P" and name in ("n", "p"):
                    g, ty = f"(p{name} {g})", "V"
                else:
                    raise TranslationError(f"{self.fname}: field {name} of {ty}")
        return g, ty

    def primary(self):
        tok = self.eat()
        if tok == "(":
            g, ty = self.expr()
            self.eat(")")
            return g, ty
        if re.fullmatch(r"\d+\.\d*|\d+", tok):
            return lit(tok), "S"
        if tok == "DMat3::from_cols":
            a = self.args()
            if [t for _, t in a] != ["V", "V", "V"]:
                raise TranslationError(f"{self.fname}: from_cols arguments")
            return f"(from_cols {a[0][0]} {a[1][0]} {a[2][0]})", "M"
        if tok == "Self::new" and self.fname.startswith("from_"):
            a = self.args()
            if [t for _, t in a] != ["V", "S"]:
                raise TranslationError(f"{self.fname}: Sphere::new arguments")
            return f"(mkS {a[0][0]} {a[1][0]})", "Sp"
        if tok == "Plane::new":
            a = self.args()
            if [t for _, t in a] != ["V", "V"]:
                raise TranslationError(f"{self.fname}: Plane::new arguments")
            return f"(mkP {a[0][0]} {a[1][0]})", "P"
        if re.fullmatch(r"[A-Za-z_]\w*", tok):
            if self.peek() == "(":
                if tok not in self.funs:
                    raise TranslationError(f"{self.fname}: call of unknown function {tok}")
                ps, rt = self.funs[tok]
                a = self.args()
                if [t for _, t in a] != [t for _, t in ps]:
                    raise TranslationError(f"{self.fname}: call of {tok} with wrong argument kinds")
                return "(" + " ".join([tok + "_src"] + [x for x, _ in a]) + ")", rt
            if tok not in self.env:
                raise TranslationError(f"{self.fname}: unknown name {tok}")
            return self.env[tok]
        raise TranslationError(f"{self.fname}: unexpected token {tok!r}")


GTY = {"S": "R", "V": "V", "P": "plane", "M": "mat", "Sp": "sphere"}


def translate_fn(src, name, funs, stop_at_let=None, ret=None):
    """-> (gallina definition text, list of asserted side conditions, number of lets)"""
    params, rt, body = find_fn(src, name)
    rt = ret or rt
    env = {nm: (("self_" if nm == "self" else nm), ty) for nm, ty in params}
    stmts = [s.strip() for s in body.split(";")]
    lets, asserts = [], []
    result = None
    for k, st in enumerate(stmts):
        if not st:
            continue
        if st.startswith("assert!"):
            inner = st[st.index("(") + 1:match_close(st, st.index("("), "(", ")")]
            cond = inner.split(",")[0].strip()
            m = re.fullmatch(r"(\w+)\s*!=\s*0\.?", cond)
            if not m or m.group(1) not in env:
                raise TranslationError(f"{name}: assertion {cond!r} not understood")
            asserts.append(env[m.group(1)][0])
            continue
        m = re.match(r"let\s+(\w+)\s*=\s*(.*)$", st, flags=re.S)
        if m:
            p = Parser(tokenize(m.group(2)), env, funs, name)
            g, ty = p.expr()
            if p.peek() is not None:
                raise TranslationError(f"{name}: trailing tokens in let {m.group(1)}")
            lets.append((m.group(1), g, ty))
            env[m.group(1)] = (m.group(1), ty)
            if stop_at_let == m.group(1):
                result = (m.group(1), ty)
                break
            continue
        if k != len(stmts) - 1 and any(s for s in stmts[k + 1:]):
            raise TranslationError(f"{name}: statement not understood: {st[:60]}")
        p = Parser(tokenize(st), env, funs, name)
        result = p.expr()
        if p.peek() is not None:
            raise TranslationError(f"{name}: trailing tokens in result")
    if result is None:
        raise TranslationError(f"{name}: no result expression")
    if stop_at_let is None and result[1] != rt:
        raise TranslationError(f"{name}: result kind {result[1]} but declared {rt}")
    gname = name + ("_" + stop_at_let if stop_at_let else "") + "_src"
    head = f"Definition {gname} " + " ".join(f"({env[nm][0]} : {GTY[ty]})" for nm, ty in params) + f" : {GTY[result[1]]} :=\n"
    text = head + "".join(f"  let {nm} := {g} in\n" for nm, g, _ in lets) + f"  {result[0]}.\n"
    funs[name] = (params, rt)
    return text, asserts, len(lets)


PRELUDE = r"""From Coq Require Import Reals Lra Psatz Field.
Open Scope R_scope.
Definition V := (R * R * R)%type.
Definition vx (v : V) := fst (fst v).  Definition vy (v : V) := snd (fst v).  Definition vz (v : V) := snd v.
Definition vadd (a b : V) : V := (vx a + vx b, vy a + vy b, vz a + vz b).
Definition vsub (a b : V) : V := (vx a - vx b, vy a - vy b, vz a - vz b).
Definition vneg (a : V) : V := (- vx a, - vy a, - vz a).
Definition smul (s : R) (a : V) : V := (s * vx a, s * vy a, s * vz a).
Definition vdivs (a : V) (s : R) : V := (vx a / s, vy a / s, vz a / s).
Definition dot (a b : V) : R := vx a * vx b + vy a * vy b + vz a * vz b.
Definition cross (a b : V) : V := (vy a * vz b - vz a * vy b, vz a * vx b - vx a * vz b, vx a * vy b - vy a * vx b).
Record mat := from_cols { c0 : V; c1 : V; c2 : V }.
(* glam 0.27 (trusted, not translated): DMat3::determinant = z_axis.dot(x_axis.cross(y_axis));
   DVec3::project_onto(self, rhs) = rhs * self.dot(rhs) * rhs.dot(rhs).recip() *)
Definition glam_determinant (m : mat) : R := dot (c2 m) (cross (c0 m) (c1 m)).
Definition glam_project_onto (a b : V) : V := smul (/ dot b b) (smul (dot a b) b).
Definition signum (x : R) : R := if Rle_dec 0 x then 1 else -1.
Record plane := mkP { pn : V; pp : V }.
Record sphere := mkS { sc : V; sr : R }.
Ltac vec_crush := unfold glam_determinant, glam_project_onto in *; cbn [c0 c1 c2] in *; unfold vadd, vsub, vneg, smul, vdivs, dot, cross, vx, vy, vz in *; cbn [fst snd c0 c1 c2 pn pp] in *.
"""

PROOFS = r"""
(* ---- C19: defining equations, proved about the definitions translated from the source ---- *)
Theorem intersect_planes_src_on_planes : forall p0 p1 p2 : plane,
  glam_determinant (from_cols (pn p0) (pn p1) (pn p2)) <> 0 ->
  let v := intersect_planes_src p0 p1 p2 in
  dot v (pn p0) = dot (pp p0) (pn p0) /\ dot v (pn p1) = dot (pp p1) (pn p1) /\ dot v (pn p2) = dot (pp p2) (pn p2).
Proof.
  intros [[[a0 a1] a2] [[p0 p1] p2]] [[[b0 b1] b2] [[q0 q1] q2]] [[[d0 d1] d2] [[r0 r1] r2]] H.
  cbv zeta. unfold intersect_planes_src. vec_crush. cbv zeta.
  repeat split; (field; intro K; apply H; rewrite <- K; ring).
Qed.

Theorem project_onto_src_spec : forall (pl : plane) (x : V), dot (pn pl) (pn pl) <> 0 ->
  let y := project_onto_src pl x in
  dot y (pn pl) = dot (pp pl) (pn pl) /\ cross (vsub y x) (pn pl) = (0, 0, 0) /\
  (dot x (pn pl) = dot (pp pl) (pn pl) -> y = x).
Proof.
  intros [[[a0 a1] a2] [[p0 p1] p2]] [[x0 x1] x2] H. cbv zeta. unfold project_onto_src. vec_crush.
  assert (H' : a0 * a0 + a1 * a1 + a2 * a2 <> 0) by exact H.
  split; [field; exact H'|]. split.
  - f_equal; [f_equal|]; field; exact H'.
  - intros E. assert (E' : (p0 - x0) * a0 + (p1 - x1) * a1 + (p2 - x2) * a2 = 0) by lra.
    rewrite E'. f_equal; [f_equal|]; field; exact H'.
Qed.

Theorem project_onto_intersection_src_spec : forall (p0 p1 : plane) (x : V),
  glam_determinant (from_cols (pn p0) (pn p1) (cross (pn p0) (pn p1))) <> 0 ->
  let y := project_onto_intersection_src p0 p1 x in
  dot y (pn p0) = dot (pp p0) (pn p0) /\ dot y (pn p1) = dot (pp p1) (pn p1) /\
  dot y (cross (pn p0) (pn p1)) = dot x (cross (pn p0) (pn p1)).
Proof.
  intros p0 p1 x H. unfold project_onto_intersection_src. cbv zeta.
  pose proof (intersect_planes_src_on_planes p0 p1 (mkP (cross (pn p0) (pn p1)) x) H) as K. cbv zeta in K. cbn [pn pp] in K. exact K.
Qed.

Theorem signed_volume_tet_src_is_det : forall v0 v1 v2 v3 : V,
  signed_volume_tet_src v0 v1 v2 v3 = dot (vsub v3 v0) (cross (vsub v1 v0) (vsub v2 v0)) / 6.
Proof. intros [[? ?] ?] [[? ?] ?] [[? ?] ?] [[? ?] ?]. unfold signed_volume_tet_src. vec_crush. field. Qed.

Theorem signed_volume_tet_src_antisym : forall v0 v1 v2 v3 : V,
  signed_volume_tet_src v1 v0 v2 v3 = - signed_volume_tet_src v0 v1 v2 v3 /\
  signed_volume_tet_src v0 v2 v1 v3 = - signed_volume_tet_src v0 v1 v2 v3 /\
  signed_volume_tet_src v0 v1 v3 v2 = - signed_volume_tet_src v0 v1 v2 v3.
Proof. intros [[? ?] ?] [[? ?] ?] [[? ?] ?] [[? ?] ?]. unfold signed_volume_tet_src. vec_crush. repeat split; field. Qed.

(* unit right-handed tetrahedron: v0 v1 v2 counter-clockwise seen from ... the documented convention gives +1/6 *)
Example signed_volume_tet_src_unit : signed_volume_tet_src (0,0,0) (1,0,0) (0,1,0) (0,0,1) = 1 / 6.
Proof. unfold signed_volume_tet_src. vec_crush. field. Qed.

Theorem signed_area_tri_n_src_spec : forall v0 v1 v2 t : V,
  signed_area_tri_n_src v0 v1 v2 t = smul (1 / 2) (cross (vsub v1 v0) (vsub v2 v0)) /\
  signed_area_tri_n_src v0 v2 v1 t = vneg (signed_area_tri_n_src v0 v1 v2 t).
Proof. intros [[? ?] ?] [[? ?] ?] [[? ?] ?] [[? ?] ?]. unfold signed_area_tri_n_src. vec_crush.
  split; (f_equal; [f_equal|]; field). Qed.

(* the value: |n| * sign((t - v0) . n), with n the area vector above *)
Theorem signed_area_tri_src_shape : forall v0 v1 v2 t : V,
  let n := signed_area_tri_n_src v0 v1 v2 t in
  signed_area_tri_src v0 v1 v2 t = sqrt (dot n n) * signum (dot (vsub t v0) n).
Proof. intros. unfold signed_area_tri_src, n, signed_area_tri_n_src. reflexivity. Qed.

Theorem from_two_points_src_spec : forall a b : V,
  let s := from_two_points_src a b in
  dot (vsub (sc s) a) (vsub (sc s) a) = sr s * sr s /\ dot (vsub (sc s) b) (vsub (sc s) b) = sr s * sr s /\
  vadd (sc s) (sc s) = vadd a b.
Proof.
  intros [[a0 a1] a2] [[b0 b1] b2]. cbv zeta. unfold from_two_points_src. cbn [sc sr]. vec_crush.
  match goal with |- context [sqrt ?X] => set (X0 := X) end.
  assert (HX : 0 <= X0) by (unfold X0; repeat apply Rplus_le_le_0_compat; match goal with |- 0 <= ?x * ?x => fold (Rsqr x); apply Rle_0_sqr end).
  replace (5 / 10 * sqrt X0 * (5 / 10 * sqrt X0)) with (sqrt X0 * sqrt X0 / 4) by field.
  rewrite (sqrt_sqrt X0 HX). unfold X0.
  split; [field|]. split; [field|]. f_equal; [f_equal|]; field.
Qed.

Print Assumptions from_two_points_src_spec.
Print Assumptions intersect_planes_src_on_planes.
Print Assumptions project_onto_src_spec.
Print Assumptions project_onto_intersection_src_spec.
Print Assumptions signed_volume_tet_src_is_det.
Print Assumptions signed_volume_tet_src_antisym.
Print Assumptions signed_area_tri_n_src_spec.
Print Assumptions signed_area_tri_src_shape.
"""

THEOREMS = ["intersect_planes_src_on_planes", "project_onto_src_spec", "project_onto_intersection_src_spec", "signed_volume_tet_src_is_det",
            "signed_volume_tet_src_antisym", "signed_area_tri_n_src_spec", "signed_area_tri_src_shape", "from_two_points_src_spec"]


def gallina(path):
    src = strip_comments(open(path).read())
    funs, defs, info = {}, [], {"functions": {}, "asserts": {}}
    for name in ["intersect_planes", "project_onto", "project_onto_intersection", "signed_volume_tet"]:
        text, asserts, nlets = translate_fn(src, name, funs)
        defs.append(text)
        info["functions"][name] = nlets
        if asserts:
            info["asserts"][name] = asserts
    text, _, nlets = translate_fn(src, "from_two_points", funs, ret="Sp")
    defs.append(text)
    info["functions"]["from_two_points"] = nlets
    if info["asserts"].get("intersect_planes") != ["det"]:
        raise TranslationError("intersect_planes: the assertion det != 0 is gone or changed")
    text, _, nlets = translate_fn(src, "signed_area_tri", funs, stop_at_let="n")
    defs.append(text)
    text, _, nlets = translate_fn(src, "signed_area_tri", funs)
    defs.append(text)
    info["functions"]["signed_area_tri"] = nlets
    return PRELUDE + "\n" + "\n".join(defs) + PROOFS, info


if __name__ == "__main__":
    import sys
    g, info = gallina(sys.argv[1] if len(sys.argv) > 1 else "/repo/src/geometry.rs")
    print(g)
    print("(*", info, "*)")
